(* The trace vocabulary of C19 and its replay: applying ADD_PEER / REMOVE_PEER / JOIN / LEAVE / GRAFT /
   PRUNE events as set operations.  [diff_events] is the trace a router transition owes its tracer,
   computed from the states before and after it.  Executable, no proofs. *)
From Coq Require Import List Bool Arith.
Import ListNotations.
From PS Require Import Model.Router.

Inductive tev :=
| TAddPeer (p : peer) | TRemovePeer (p : peer)
| TJoin (t : topic) | TLeave (t : topic)
| TGraft (p : peer) (t : topic) | TPrune (p : peer) (t : topic)
| TDeliver (i : nat) | TPublish (i : nat)           (* DELIVER_MESSAGE / PUBLISH_MESSAGE with the message id *)
| TSend (p : peer) | TDrop (p : peer).               (* SEND_RPC / DROP_RPC to a peer *)

(* what a consumer of the trace reconstructs *)
Record tview := { tv_peers : list peer; tv_mesh : list (topic * list peer) (* key present <=> joined *) }.
Definition tview0 : tview := {| tv_peers := []; tv_mesh := [] |}.

Definition replay1 (v : tview) (e : tev) : tview :=
  match e with
  | TAddPeer p => {| tv_peers := sadd p (tv_peers v); tv_mesh := tv_mesh v |}
  | TRemovePeer p => {| tv_peers := srem p (tv_peers v); tv_mesh := map (fun e => (fst e, srem p (snd e))) (tv_mesh v) |}
  | TJoin t => {| tv_peers := tv_peers v; tv_mesh := match aget t (tv_mesh v) with Some _ => tv_mesh v | None => aset t [] (tv_mesh v) end |}
  | TLeave t => {| tv_peers := tv_peers v; tv_mesh := adel t (tv_mesh v) |}
  | TGraft p t => {| tv_peers := tv_peers v;
                     tv_mesh := match aget t (tv_mesh v) with Some m => aset t (sadd p m) (tv_mesh v) | None => tv_mesh v end |}
  | TPrune p t => {| tv_peers := tv_peers v;
                     tv_mesh := match aget t (tv_mesh v) with Some m => aset t (srem p m) (tv_mesh v) | None => tv_mesh v end |}
  | _ => v
  end.
Definition replay (v : tview) (l : list tev) : tview := fold_left replay1 l v.

(* JOIN / LEAVE strictly alternate per topic, starting with JOIN *)
Fixpoint alt_ok (joined : list topic) (l : list tev) : bool :=
  match l with
  | [] => true
  | TJoin t :: l' => negb (memb t joined) && alt_ok (sadd t joined) l'
  | TLeave t :: l' => memb t joined && alt_ok (srem t joined) l'
  | _ :: l' => alt_ok joined l'
  end.

(* equality of views up to the order inside the sets *)
Definition mesh_eqb (a b : list (topic * list peer)) : bool :=
  forallb (fun e => match aget (fst e) b with Some m => seteq (snd e) m | None => false end) a
  && forallb (fun e => match aget (fst e) a with Some _ => true | None => false end) b.
Definition tview_eqb (a b : tview) : bool := seteq (tv_peers a) (tv_peers b) && mesh_eqb (tv_mesh a) (tv_mesh b).

(* the view of a router state *)
Definition view_of (s : rstate) : tview := {| tv_peers := map fst (peers s); tv_mesh := mesh s |}.

(* the events a transition from view a to view b owes the tracer: leaves, removed peers, prunes in the
   topics that stay joined, joins, added peers, grafts *)
Definition diff_events (a b : tview) : list tev :=
  let left := filter (fun t => match aget t (tv_mesh b) with Some _ => false | None => true end) (map fst (tv_mesh a)) in
  let gone := filter (fun p => negb (memb p (tv_peers b))) (tv_peers a) in
  let prunes := concat (map (fun e => match aget (fst e) (tv_mesh b) with
                                      | Some mb => map (fun p => TPrune p (fst e)) (filter (fun p => negb (memb p mb) && negb (memb p gone)) (snd e))
                                      | None => [] end) (tv_mesh a)) in
  let joins := filter (fun t => match aget t (tv_mesh a) with Some _ => false | None => true end) (map fst (tv_mesh b)) in
  let came := filter (fun p => negb (memb p (tv_peers a))) (tv_peers b) in
  let grafts := concat (map (fun e => let ma := match aget (fst e) (tv_mesh a) with Some m => m | None => [] end in
                                      map (fun p => TGraft p (fst e)) (filter (fun p => negb (memb p ma) || memb p gone) (snd e))) (tv_mesh b)) in
  map TLeave left ++ map TRemovePeer gone ++ prunes ++ map TJoin joins ++ map TAddPeer came ++ grafts.
