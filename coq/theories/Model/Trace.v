(* The trace vocabulary of C19 and its replay: applying ADD_PEER / REMOVE_PEER / JOIN / LEAVE / GRAFT /
   PRUNE events as set operations.  [diff_events] is the trace a router transition owes its tracer,
   computed from the states before and after it.  Executable, no proofs. *)
From Coq Require Import List Bool Arith.
Import ListNotations.
From PS Require Import Model.Router.

Inductive tev :=
| TAddPeer (p : peer) | TRemovePeer (p : peer)
| TJoin (t : topic) | TLeave (t : topic)
| TGraft (p : peer) (t : topic) | TPrune (p : peer) (t : topic)
| TDeliver (i : nat) | TPublish (i : nat)           (* DELIVER_MESSAGE / PUBLISH_MESSAGE with the message id *)
| TSend (p : peer) | TDrop (p : peer).               (* SEND_RPC / DROP_RPC to a peer *)

(* what a consumer of the trace reconstructs *)
Record tview := { tv_peers : list peer; tv_mesh : list (topic * list peer) (* key present <=> joined *) }.
Definition tview0 : tview := {| tv_peers := []; tv_mesh := [] |}.

Definition replay1 (v : tview) (e : tev) : tview :=
  match e with
  | TAddPeer p => {| tv_peers := sadd p (tv_peers v); tv_mesh := tv_mesh v |}
  | TRemovePeer p => {| tv_peers := srem p (tv_peers v); tv_mesh := map (fun e => (fst e, srem p (snd e))) (tv_mesh v) |}
  | TJoin t => {| tv_peers := tv_peers v; tv_mesh := match aget t (tv_mesh v) with Some _ => tv_mesh v | None => aset t [] (tv_mesh v) end |}
  | TLeave t => {| tv_peers := tv_peers v; tv_mesh := adel t (tv_mesh v) |}
  | TGraft p t => {| tv_peers := tv_peers v;
                     tv_mesh := match aget t (tv_mesh v) with Some m => aset t (sadd p m) (tv_mesh v) | None => tv_mesh v end |}
  | TPrune p t => {| tv_peers := tv_peers v;
                     tv_mesh := match aget t (tv_mesh v) with Some m => aset t (srem p m) (tv_mesh v) | None => tv_mesh v end |}
  | _ => v
  end.
Definition replay (v : tview) (l : list tev) : tview := fold_left replay1 l v.

(* JOIN / LEAVE strictly alternate per topic, starting with JOIN *)
Fixpoint alt_ok (joined : list topic) (l : list tev) : bool :=
  match l with
  | [] => true
  | TJoin t :: l' => negb (memb t joined) && alt_ok (sadd t joined) l'
  | TLeave t :: l' => memb t joined && alt_ok (srem t joined) l'
  | _ :: l' => alt_ok joined l'
  end.

(* equality of views up to the order inside the sets *)
Definition mesh_eqb (a b : list (topic * list peer)) : bool :=
  forallb (fun e => match aget (fst e) b with Some m => seteq (snd e) m | None => false end) a
  && forallb (fun e => match aget (fst e) a with Some _ => true | None => false end) b.
Definition tview_eqb (a b : tview) : bool := seteq (tv_peers a) (tv_peers b) && mesh_eqb (tv_mesh a) (tv_mesh b).

(* the view of a router state *)
Definition view_of (s : rstate) : tview := {| tv_peers := map fst (peers s); tv_mesh := mesh s |}.

(* the events a transition from view a to view b owes the tracer: leaves, removed peers, prunes in the
   topics that stay joined, joins, added peers, grafts.  Keys and peers are deduplicated and every mesh is read with
   [aget], so that the definition makes sense for arbitrary (not necessarily duplicate-free) views. *)
Fixpoint dedupn (l : list nat) : list nat :=
  match l with [] => [] | x :: r => x :: filter (fun y => negb (Nat.eqb x y)) (dedupn r) end.
Definition mesh_at (v : tview) (t : topic) : list peer := match aget t (tv_mesh v) with Some m => m | None => [] end.
Definition has_topic (v : tview) (t : topic) : bool := match aget t (tv_mesh v) with Some _ => true | None => false end.
Definition ev_left (a b : tview) : list topic := dedupn (filter (fun t => negb (has_topic b t)) (map fst (tv_mesh a))).
Definition ev_gone (a b : tview) : list peer := filter (fun p => negb (memb p (tv_peers b))) (tv_peers a).
Definition ev_prunes (a b : tview) : list tev :=
  concat (map (fun t => if has_topic b t
                        then map (fun p => TPrune p t) (filter (fun p => negb (memb p (mesh_at b t)) && negb (memb p (ev_gone a b))) (mesh_at a t))
                        else []) (map fst (tv_mesh a))).
Definition ev_joins (a b : tview) : list topic := dedupn (filter (fun t => negb (has_topic a t)) (map fst (tv_mesh b))).
Definition ev_came (a b : tview) : list peer := filter (fun p => negb (memb p (tv_peers a))) (tv_peers b).
Definition ev_grafts (a b : tview) : list tev :=
  concat (map (fun t => map (fun p => TGraft p t) (filter (fun p => negb (memb p (mesh_at a t)) || memb p (ev_gone a b)) (mesh_at b t)))
              (map fst (tv_mesh b))).
Definition diff_events (a b : tview) : list tev :=
  map TLeave (ev_left a b) ++ map TRemovePeer (ev_gone a b) ++ ev_prunes a b
  ++ map TJoin (ev_joins a b) ++ map TAddPeer (ev_came a b) ++ ev_grafts a b.
