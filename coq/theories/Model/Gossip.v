(* Model of the gossip / publishing side of the gossipsub router on top of Model.Router:
   mcache.go (put / get-for-peer / gossip ids / shift), rpcs() recipients and fanout creation,
   Preprocess (IDONTWANT emission), handleIHave / handleIWant / handleIDontWant with their per-heartbeat
   counters, emitGossip, gossip_tracer.go promises.  Random choices are validated observations. *)
From Coq Require Import List Bool ZArith Arith.
Import ListNotations.
From PS Require Import Model.Router.
Local Open Scope Z_scope.

Definition mid := nat.

Record gparams := {
  gCore : params;
  gHistLen : nat; gHistGossip : nat; gDlazy : nat; gFactorNum : nat; gFactorDen : nat;
  gMaxIHaveLen : nat; gMaxIHaveMsgs : nat; gRetrans : nat;
  gMaxIDWMsgs : nat; gMaxIDWLen : nat; gIDWTTL : nat; gIDWThr : nat;
  gGossipThr : Z; gGraylistThr : Z; gFollowup : Z; gFlood : bool
}.

Record msg := { m_id : mid; m_topic : topic; m_size : nat;
                m_from : option peer;      (* the peer it was received from; None = published locally *)
                m_author : option peer }.  (* From field, when it names one of the peers *)

(* ---- message cache ---- *)
Record mcache := { hist : list (list (mid * topic)); (* slot 0 = newest *)
                   mmsgs : list mid;                  (* retrievable ids *)
                   peertx : list ((mid * peer) * nat) }.

Definition mc_init (hl : nat) : mcache := {| hist := repeat [] hl; mmsgs := []; peertx := [] |}.
Definition mc_put (c : mcache) (i : mid) (t : topic) : mcache :=
  {| hist := match hist c with [] => [] | h0 :: r => (h0 ++ [(i, t)]) :: r end;
     mmsgs := sadd i (mmsgs c); peertx := peertx c |}.
Fixpoint tx_get (i : mid) (p : peer) (l : list ((mid * peer) * nat)) : nat :=
  match l with [] => 0%nat | ((j, q), n) :: l' => if Nat.eqb i j && Nat.eqb p q then n else tx_get i p l' end.
Definition tx_set (i : mid) (p : peer) (n : nat) (l : list ((mid * peer) * nat)) : list ((mid * peer) * nat) :=
  ((i, p), n) :: filter (fun e => negb (Nat.eqb i (fst (fst e)) && Nat.eqb p (snd (fst e)))) l.
(* GetForPeer: bumps the per-peer transmission counter even if the request is then refused *)
Definition mc_get_for_peer (c : mcache) (i : mid) (p : peer) : option nat * mcache :=
  if memb i (mmsgs c) then
    let n := S (tx_get i p (peertx c)) in
    (Some n, {| hist := hist c; mmsgs := mmsgs c; peertx := tx_set i p n (peertx c) |})
  else (None, c).
Definition mc_gossip_ids (c : mcache) (g : nat) (t : topic) : list mid :=
  map fst (filter (fun e => Nat.eqb t (snd e)) (concat (firstn g (hist c)))).
Definition mc_shift (c : mcache) : mcache :=
  match rev (hist c) with
  | [] => c
  | last :: rest_rev =>
      let dead := map fst last in
      {| hist := [] :: rev rest_rev;
         mmsgs := filter (fun i => negb (memb i dead)) (mmsgs c);
         peertx := filter (fun e => negb (memb (fst (fst e)) dead)) (peertx c) |}
  end.

(* ---- counters ---- *)
Definition cget (p : peer) (l : list (peer * nat)) : nat := match aget p l with Some n => n | None => 0%nat end.

Record gstate := {
  core : rstate;
  mc : mcache;
  peerhave : list (peer * nat); iasked : list (peer * nat); peerdontwant : list (peer * nat);
  unwanted : list (peer * list (mid * nat));       (* id -> remaining ttl *)
  promises : list ((mid * peer) * Z);              (* (id, peer) -> expiry *)
  seen : list mid;                                  (* ids the node has marked seen *)
  idw_peers : list peer                             (* peers speaking v1.2+ (GossipSubFeatureIdontwant) *)
}.

Definition ginit (P : gparams) : gstate :=
  {| core := init; mc := mc_init (gHistLen P); peerhave := []; iasked := []; peerdontwant := [];
     unwanted := []; promises := []; seen := []; idw_peers := [] |}.

Definition set_core (g : gstate) c := {| core := c; mc := mc g; peerhave := peerhave g; iasked := iasked g; peerdontwant := peerdontwant g; unwanted := unwanted g; promises := promises g; seen := seen g; idw_peers := idw_peers g |}.
Definition is_unwanted (g : gstate) (p : peer) (i : mid) : bool :=
  match aget p (unwanted g) with Some l => match aget i l with Some _ => true | None => false end | None => false end.

(* ---- who gets a copy (rpcs) ---- *)
Definition has_queue (g : gstate) (p : peer) : bool := match aget p (peers (core g)) with Some _ => true | None => false end.

(* fanout used for publishing; [chosen] is the observed selection when the fanout has to be created *)
Definition fanout_for_publishing (P : gparams) (sc : list (peer * Z)) (g : gstate) (t : topic) (chosen : list peer)
  : option (gstate * list peer) :=
  let s := core g in
  let cur := aget_l t (fanout s) in
  match cur with
  | _ :: _ => match chosen with
              | [] => Some (set_core g (set_fanout s (fanout s) (aset t (now s) (lastpub s))), cur)
              | _ => None end
  | [] =>
      let cands := gs_peers s t (fun p => negb (memb p (direct s)) && (pPublishThr (gCore P) <=? score_of sc p)) in
      if pick_ok chosen cands (pD (gCore P)) then
        let f' := match chosen with [] => fanout s | _ => aset t chosen (fanout s) end in
        Some (set_core g (set_fanout s f' (aset t (now s) (lastpub s))), chosen)
      else None
  end.

Definition recipients (P : gparams) (sc : list (peer * Z)) (g : gstate) (m : msg) (chosen : list peer)
  : option (gstate * list peer) :=
  let s := core g in
  let t := m_topic m in
  match aget t (tmap s) with
  | None => Some (g, [])
  | Some tm =>
      let excl := fun p => (match m_from m with Some q => Nat.eqb p q | None => false end)
                           || (match m_author m with Some q => Nat.eqb p q | None => false end) in
      if gFlood P && (match m_from m with None => true | Some _ => false end) then
        Some (g, filter (fun p => negb (excl p) && (memb p (direct s) || (pPublishThr (gCore P) <=? score_of sc p))) tm)
      else
        let dir := filter (fun p => memb p tm) (direct s) in
        let fl := filter (fun p => negb (speaks_mesh s p) && (pPublishThr (gCore P) <=? score_of sc p)) tm in
        match (match aget t (mesh s) with
               | Some gm => match chosen with [] => Some (g, gm) | _ => None end
               | None => fanout_for_publishing P sc g t chosen
               end) with
        | None => None
        | Some (g', gm) =>
            let gmw := filter (fun p => negb (is_unwanted g p (m_id m))) gm in
            Some (g', filter (fun p => negb (excl p)) (fold_left (fun acc p => sadd p acc) (fl ++ gmw) dir))
        end
  end.

(* publish / forward one message: cache it, mark it seen, send copies to those with an outbound queue *)
Definition publish (P : gparams) (sc : list (peer * Z)) (g : gstate) (m : msg) (chosen : list peer)
  : option (gstate * list peer) :=
  let g1 := {| core := core g; mc := mc_put (mc g) (m_id m) (m_topic m); peerhave := peerhave g; iasked := iasked g;
               peerdontwant := peerdontwant g; unwanted := unwanted g;
               promises := filter (fun e => negb (Nat.eqb (m_id m) (fst (fst e)))) (promises g);
               seen := sadd (m_id m) (seen g); idw_peers := idw_peers g |} in
  match recipients P sc g1 m chosen with
  | Some (g2, r) => Some (g2, filter (has_queue g2) r)
  | None => None
  end.

Definition local_state (g : gstate) (m : msg) : gstate :=
  {| core := core g; mc := mc g; peerhave := peerhave g; iasked := iasked g; peerdontwant := peerdontwant g;
     unwanted := unwanted g;
     promises := filter (fun e => negb (Nat.eqb (m_id m) (fst (fst e)))) (promises g);
     seen := sadd (m_id m) (seen g); idw_peers := idw_peers g |}.

(* Preprocess: IDONTWANT for the large messages of one incoming RPC, to v1.2+ mesh peers except the sender *)
Definition idontwant_targets (P : gparams) (g : gstate) (from : peer) (msgs : list msg) : list (peer * topic * list mid) :=
  let topics := fold_left (fun acc m => sadd (m_topic m) acc) msgs [] in
  concat (map (fun t =>
    let ids := map m_id (filter (fun m => Nat.eqb t (m_topic m) && Nat.leb (gIDWThr P) (m_size m)) msgs) in
    match ids with
    | [] => []
    | _ => map (fun p => (p, t, ids))
               (filter (fun p => negb (Nat.eqb p from) && memb p (idw_peers g) && has_queue g p) (aget_l t (mesh (core g))))
    end) topics).

(* ---- handleIHave ---- *)
Definition bump (p : peer) (l : list (peer * nat)) : list (peer * nat) := aset p (S (cget p l)) l.

(* [unseen]: which advertised ids the node has not seen (observation of seenMessage); [asked]: the ids
   actually requested (random order / truncation; observation); [promised]: the id AddPromise sampled *)
Definition handle_ihave (P : gparams) (sc : list (peer * Z)) (g : gstate) (p : peer)
           (ihaves : list (topic * list mid)) (asked : list mid) (promised : option mid)
  : option (gstate * list mid) :=
  if score_of sc p <? gGossipThr P then match asked with [] => Some (g, []) | _ => None end else
  let g1 := {| core := core g; mc := mc g; peerhave := bump p (peerhave g); iasked := iasked g; peerdontwant := peerdontwant g;
               unwanted := unwanted g; promises := promises g; seen := seen g; idw_peers := idw_peers g |} in
  if Nat.ltb (gMaxIHaveMsgs P) (cget p (peerhave g1)) then match asked with [] => Some (g1, []) | _ => None end else
  if Nat.leb (gMaxIHaveLen P) (cget p (iasked g1)) then match asked with [] => Some (g1, []) | _ => None end else
  let want := fold_left (fun acc e =>
                 match aget (fst e) (mesh (core g1)) with
                 | None => acc
                 | Some _ => fold_left (fun a i => if memb i (seen g1) then a else sadd i a) (firstn (gMaxIHaveLen P) (snd e)) acc
                 end) ihaves [] in
  match want with
  | [] => match asked with [] => Some (g1, []) | _ => None end
  | _ =>
      let iask := Nat.min (length want) (gMaxIHaveLen P - cget p (iasked g1)) in
      if nodup_b asked && subset asked want && Nat.eqb (length asked) iask
         && match promised with Some i => memb i asked | None => false end then
        let pr := match promised with
                  | Some i => if existsb (fun e => Nat.eqb i (fst (fst e)) && Nat.eqb p (snd (fst e))) (promises g1)
                              then promises g1 else ((i, p), now (core g1) + gFollowup P) :: promises g1
                  | None => promises g1 end in
        Some ({| core := core g1; mc := mc g1; peerhave := peerhave g1; iasked := aset p (cget p (iasked g1) + iask)%nat (iasked g1);
                 peerdontwant := peerdontwant g1; unwanted := unwanted g1; promises := pr; seen := seen g1; idw_peers := idw_peers g1 |}, asked)
      else None
  end.

(* ---- handleIWant: which messages are sent back ---- *)
Fixpoint handle_iwant_ids (P : gparams) (g : gstate) (p : peer) (ids : list mid) (served : list mid) : gstate * list mid :=
  match ids with
  | [] => (g, served)
  | i :: r =>
      if is_unwanted g p i then handle_iwant_ids P g p r served
      else
        match mc_get_for_peer (mc g) i p with
        | (None, _) => handle_iwant_ids P g p r served
        | (Some n, c') =>
            let g' := {| core := core g; mc := c'; peerhave := peerhave g; iasked := iasked g; peerdontwant := peerdontwant g;
                         unwanted := unwanted g; promises := promises g; seen := seen g; idw_peers := idw_peers g |} in
            if Nat.ltb (gRetrans P) n then handle_iwant_ids P g' p r served
            else handle_iwant_ids P g' p r (sadd i served)
        end
  end.
Definition handle_iwant (P : gparams) (sc : list (peer * Z)) (g : gstate) (p : peer) (ids : list mid) : gstate * list mid :=
  if score_of sc p <? gGossipThr P then (g, []) else handle_iwant_ids P g p ids [].

(* ---- handleIDontWant ---- *)
Definition handle_idontwant (P : gparams) (g : gstate) (p : peer) (idws : list (list mid)) : gstate :=
  match idws with
  | [] => g
  | _ =>
      if Nat.leb (gMaxIDWMsgs P) (cget p (peerdontwant g)) then g else
      let ids := firstn (gMaxIDWLen P) (concat idws) in
      let old := match aget p (unwanted g) with Some l => l | None => [] end in
      let new := fold_left (fun acc i => aset i (gIDWTTL P) acc) ids old in
      {| core := core g; mc := mc g; peerhave := peerhave g; iasked := iasked g; peerdontwant := bump p (peerdontwant g);
         unwanted := match ids with [] => unwanted g | _ => aset p new (unwanted g) end;
         promises := promises g; seen := seen g; idw_peers := idw_peers g |}
  end.

(* ---- heartbeat, gossip side ---- *)
Definition clear_counters (g : gstate) : gstate :=
  {| core := core g; mc := mc g; peerhave := []; iasked := []; peerdontwant := [];
     unwanted := filter (fun e => match snd e with [] => false | _ => true end)
                        (map (fun e => (fst e, filter (fun it => Nat.ltb 0 (snd it)) (map (fun it => (fst it, pred (snd it))) (snd e)))) (unwanted g));
     promises := promises g; seen := seen g; idw_peers := idw_peers g |}.

(* broken promises: expired ones are removed and counted per peer *)
Definition broken (g : gstate) : list peer := map (fun e => snd (fst e)) (filter (fun e => snd e <? now (core g)) (promises g)).
Definition drop_broken (g : gstate) : gstate :=
  {| core := core g; mc := mc g; peerhave := peerhave g; iasked := iasked g; peerdontwant := peerdontwant g; unwanted := unwanted g;
     promises := filter (fun e => negb (snd e <? now (core g))) (promises g); seen := seen g; idw_peers := idw_peers g |}.

(* emitGossip for one topic: [obs] = observed (peer, advertised ids) *)
Definition gossip_ok (P : gparams) (sc : list (peer * Z)) (g : gstate) (t : topic) (exclude : list peer) (obs : list (peer * list mid)) : bool :=
  let s := core g in
  let cands := filter (fun p => negb (memb p exclude) && negb (memb p (direct s)) && speaks_mesh s p && (gGossipThr P <=? score_of sc p))
                      (aget_l t (tmap s)) in
  let n := length cands in
  let target := Nat.min n (Nat.max (gDlazy P) (n * gFactorNum P / gFactorDen P)) in
  let ids := mc_gossip_ids (mc g) (gHistGossip P) t in
  match ids with
  | [] => match obs with [] => true | _ => false end
  | _ =>
      nodup_b (map fst obs) && subset (map fst obs) cands && Nat.eqb (length obs) target
      && forallb (fun e => nodup_b (snd e) && subset (snd e) ids
                           && Nat.eqb (length (snd e)) (Nat.min (length ids) (gMaxIHaveLen P))) obs
  end.

Definition shift_cache (g : gstate) : gstate :=
  {| core := core g; mc := mc_shift (mc g); peerhave := peerhave g; iasked := iasked g; peerdontwant := peerdontwant g;
     unwanted := unwanted g; promises := promises g; seen := seen g; idw_peers := idw_peers g |}.

(* ---- operations and outputs at the wire boundary ---- *)
Inductive gop :=
| GCore (o : rop)
| GAddPeer (p : peer) (i : pinfo) (idw : bool)
| GPublish (m : msg) (chosen : list peer)
| GPublishLocal (m : msg)                         (* WithLocalPublication: in-process subscribers only *)
| GRecvMsgs (p : peer) (msgs : list msg) (chosens : list (list peer))
| GRecvIHave (p : peer) (ihaves : list (topic * list mid)) (asked : list mid) (promised : option mid)
| GRecvIWant (p : peer) (ids : list mid)
| GRecvIDontWant (p : peer) (idws : list (list mid))
| GHeartbeat (obs : list (topic * list hev)) (fobs : list (topic * list peer)) (gobs : list (topic * list (peer * list mid))).

Inductive gout :=
| OMsg (p : peer) (i : mid)                       (* a copy of message i queued for p *)
| OIDontWant (p : peer) (t : topic) (ids : list mid)
| OIWant (p : peer) (ids : list mid)
| OIHave (p : peer) (t : topic) (ids : list mid)
| OCtl (c : ctl)
| OPenalty (p : peer) (n : nat).

Fixpoint forward_all (P : gparams) (sc : list (peer * Z)) (g : gstate) (msgs : list msg) (chosens : list (list peer))
  : option (gstate * list gout) :=
  match msgs with
  | [] => Some (g, [])
  | m :: r =>
      let ch := match chosens with c :: _ => c | [] => [] end in
      (* a second copy of an id inside the same RPC is already a duplicate when its turn comes *)
      if memb (m_id m) (seen g) then forward_all P sc g r (tl chosens) else
      match publish P sc g m ch with
      | None => None
      | Some (g1, rs) =>
          match forward_all P sc g1 r (tl chosens) with
          | Some (g2, o) => Some (g2, map (fun p => OMsg p (m_id m)) rs ++ o)
          | None => None
          end
      end
  end.

Definition count_peer (p : peer) (l : list peer) : nat := length (filter (Nat.eqb p) l).
Fixpoint dedup (l : list nat) : list nat := match l with [] => [] | x :: r => x :: filter (fun y => negb (Nat.eqb x y)) (dedup r) end.

(* AcceptFrom: RPCs of a non-direct peer below the graylist threshold are ignored entirely
   (its subscription changes are processed before the check and are separate operations here) *)
Definition accept_from (P : gparams) (sc : list (peer * Z)) (g : gstate) (p : peer) : bool :=
  memb p (direct (core g)) || negb (score_of sc p <? gGraylistThr P).
Definition sender_of (o : gop) : option peer :=
  match o with
  | GCore (ORecvGraft p _) | GCore (ORecvPrune p _) | GRecvMsgs p _ _ | GRecvIHave p _ _ _ | GRecvIWant p _ | GRecvIDontWant p _ => Some p
  | _ => None
  end.

Definition gstep0 (P : gparams) (sc : list (peer * Z)) (g : gstate) (o : gop) : option (gstate * list gout) :=
  match o with
  | GCore (OHeartbeat _ _) => None
  | GCore (ODisconnect p) =>
      match step (gCore P) sc (core g) (ODisconnect p) with
      | Some (c, ctls, _) =>
          Some ({| core := c; mc := mc g; peerhave := peerhave g; iasked := iasked g; peerdontwant := peerdontwant g;
                   unwanted := adel p (unwanted g); promises := promises g; seen := seen g; idw_peers := srem p (idw_peers g) |},
                map OCtl ctls)
      | None => None
      end
  | GCore ro =>
      match step (gCore P) sc (core g) ro with
      | Some (c, ctls, pen) =>
          Some (set_core g c, map OCtl ctls ++ match ro, pen with ORecvGraft p _, S n => [OPenalty p (S n)] | _, _ => [] end)
      | None => None
      end
  | GAddPeer p i idw =>
      Some ({| core := add_peer (core g) p i; mc := mc g; peerhave := peerhave g; iasked := iasked g; peerdontwant := peerdontwant g;
               unwanted := unwanted g; promises := promises g; seen := seen g;
               idw_peers := if idw then sadd p (idw_peers g) else srem p (idw_peers g) |}, [])
  | GPublish m chosen =>
      (* Topic.Publish: Preprocess (IDONTWANT to the mesh) runs first, even if the message then turns out to be a duplicate *)
      let idw := map (fun e => OIDontWant (fst (fst e)) (snd (fst e)) (snd e)) (idontwant_targets P g 4000%nat [m]) in
      if memb (m_id m) (seen g) then match chosen with [] => Some (g, idw) | _ => None end
      else match publish P sc g m chosen with
           | Some (g', rs) => Some (g', idw ++ map (fun p => OMsg p (m_id m)) rs)
           | None => None
           end
  | GPublishLocal m =>
      (* publishMessage skips the router for Local messages: marked seen, delivered locally, never
         cached or sent; Preprocess still runs *)
      let idw := map (fun e => OIDontWant (fst (fst e)) (snd (fst e)) (snd e)) (idontwant_targets P g 4000%nat [m]) in
      if memb (m_id m) (seen g) then Some (g, idw) else Some (local_state g m, idw)
  | GRecvMsgs p msgs chosens =>
      (* messages in topics we are not subscribed to are ignored; already seen ones are duplicates *)
      let fresh := filter (fun m => negb (memb (m_id m) (seen g)) && match aget (m_topic m) (mesh (core g)) with Some _ => true | None => false end) msgs in
      let idw := idontwant_targets P g p fresh in
      match forward_all P sc g fresh chosens with
      | Some (g', o) => Some (g', map (fun e => OIDontWant (fst (fst e)) (snd (fst e)) (snd e)) idw ++ o)
      | None => None
      end
  | GRecvIHave p ihaves asked promised =>
      match handle_ihave P sc g p ihaves asked promised with
      | Some (g', a) => Some (g', match a with [] => [] | _ => [OIWant p a] end)
      | None => None
      end
  | GRecvIWant p ids =>
      let (g', served) := handle_iwant P sc g p ids in Some (g', map (fun i => OMsg p i) served)
  | GRecvIDontWant p idws => Some (handle_idontwant P g p idws, [])
  | GHeartbeat obs fobs gobs =>
      let g0 := clear_counters g in
      let br := broken g0 in
      let g1 := drop_broken g0 in
      match heartbeat (gCore P) sc (core g1) obs fobs with
      | None => None
      | Some (c, ctls) =>
          let g2 := set_core g1 c in
          let topics := map (fun e => (fst e, snd e)) (mesh c) ++ map (fun e => (fst e, snd e)) (fanout c) in
          if forallb (fun e => gossip_ok P sc g2 (fst e) (snd e) (match aget (fst e) gobs with Some l => l | None => [] end)) topics
             && forallb (fun e => match aget (fst e) (mesh c), aget (fst e) (fanout c) with None, None => false | _, _ => true end) gobs
             && nodup_b (map fst gobs)
          then Some (shift_cache g2,
                     (* AddPenalty is a no-op for peers whose statistics are gone (disconnected) *)
                     map (fun p => OPenalty p (count_peer p br)) (filter (has_queue g) (dedup br)) ++ map OCtl ctls
                     ++ concat (map (fun e => map (fun pe => OIHave (fst pe) (fst e) (snd pe)) (snd e)) gobs))
          else None
      end
  end.

(* HandleRPC runs handleIHave on EVERY RPC that has a control part, and handleIHave counts the RPC
   against the sender's per-heartbeat IHAVE budget before looking whether it carries any IHAVE: a
   GRAFT, PRUNE, IWANT or IDONTWANT from a peer at or above the gossip threshold uses up one of its
   MaxIHaveMessages.  (The bound of C17 is an upper bound, so this quirk is within the property.) *)
Definition count_ctl (P : gparams) (sc : list (peer * Z)) (g : gstate) (p : peer) : gstate :=
  if score_of sc p <? gGossipThr P then g
  else {| core := core g; mc := mc g; peerhave := bump p (peerhave g); iasked := iasked g; peerdontwant := peerdontwant g;
          unwanted := unwanted g; promises := promises g; seen := seen g; idw_peers := idw_peers g |}.
Definition ctl_without_ihave (o : gop) : bool :=
  match o with
  | GCore (ORecvGraft _ _) | GCore (ORecvPrune _ _) | GRecvIWant _ _ | GRecvIDontWant _ _ => true
  | _ => false
  end.

Definition gstep (P : gparams) (sc : list (peer * Z)) (g : gstate) (o : gop) : option (gstate * list gout) :=
  match sender_of o with
  | Some p => if accept_from P sc g p
              then gstep0 P sc (if ctl_without_ihave o then count_ctl P sc g p else g) o
              else Some (g, [])
  | None => gstep0 P sc g o
  end.

Fixpoint grun (P : gparams) (g : gstate) (l : list (list (peer * Z) * gop)) : option (gstate * list gout) :=
  match l with
  | [] => Some (g, [])
  | (sc, o) :: l' =>
      match gstep P sc g o with
      | Some (g1, o1) => match grun P g1 l' with Some (g2, o2) => Some (g2, o1 ++ o2) | None => None end
      | None => None
      end
  end.
