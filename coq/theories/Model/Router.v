(* Model of the gossipsub router's mesh / fanout / backoff bookkeeping (gossipsub.go: Join, Leave,
   handleGraft, handlePrune, OnNew/ClosedOutboundStream, heartbeat's mesh maintenance, clearBackoff)
   as a sequential state machine over the events of the event loop.  Random peer selection and
   scores are OBSERVATIONS carried by the operations and validated, never computed. *)
From Coq Require Import List Bool ZArith Arith.
Import ListNotations.
Local Open Scope Z_scope.

Definition peer := nat.
Definition topic := nat.

(* ---- small list-backed sets and maps ---- *)
Definition memb (x : nat) (l : list nat) : bool := existsb (Nat.eqb x) l.
Definition sadd (x : nat) (l : list nat) : list nat := if memb x l then l else l ++ [x].
Definition srem (x : nat) (l : list nat) : list nat := filter (fun y => negb (Nat.eqb x y)) l.
Definition subset (a b : list nat) : bool := forallb (fun x => memb x b) a.
Definition seteq (a b : list nat) : bool := subset a b && subset b a.
Fixpoint nodup_b (l : list nat) : bool :=
  match l with [] => true | x :: l' => negb (memb x l') && nodup_b l' end.

Fixpoint aget {V} (k : nat) (l : list (nat * V)) : option V :=
  match l with [] => None | (j, v) :: l' => if Nat.eqb k j then Some v else aget k l' end.
Fixpoint aset {V} (k : nat) (v : V) (l : list (nat * V)) : list (nat * V) :=
  match l with
  | [] => [(k, v)]
  | (j, w) :: l' => if Nat.eqb k j then (j, v) :: l' else (j, w) :: aset k v l'
  end.
Definition adel {V} (k : nat) (l : list (nat * V)) : list (nat * V) := filter (fun e => negb (Nat.eqb k (fst e))) l.
Definition aget_l (k : nat) (l : list (nat * list nat)) : list nat := match aget k l with Some v => v | None => [] end.

(* ---- parameters (GossipSubParams + thresholds), already validated ---- *)
Record params := {
  pD : nat; pDlo : nat; pDhi : nat; pDscore : nat; pDout : nat;
  pOGTicks : nat; pOGPeers : nat; pOGThreshold : Z;
  pPruneBackoff : Z; pUnsubBackoff : Z; pGraftFlood : Z;   (* nanoseconds *)
  pSlack : Z;                                              (* 2 * GossipSubHeartbeatInterval *)
  pFanoutTTL : Z; pPublishThr : Z
}.

Record pinfo := { pi_mesh : bool (* speaks gossipsub: GossipSubFeatureMesh *); pi_px : bool (* v1.1+ *); pi_out : bool (* outbound connection *) }.

(* ghost history for C08: every backoff deadline established, every GRAFT we decided to send *)
Inductive gev := GDeadline (t : topic) (p : peer) (d : Z) | GGraft (t : topic) (p : peer) (at_ : Z).

Record rstate := {
  peers : list (peer * pinfo);              (* gs.peers + gs.outbound: outbound stream is up *)
  tmap : list (topic * list peer);          (* PubSub.topics: who is subscribed to what *)
  direct : list peer;
  mesh : list (topic * list peer);          (* key present <=> joined *)
  fanout : list (topic * list peer);
  lastpub : list (topic * Z);
  backoff : list (topic * list (peer * Z)); (* expiry instants *)
  ticks : nat; now : Z;
  glog : list gev                            (* ghost for C08, NEWEST FIRST *)
}.

Definition init : rstate :=
  {| peers := []; tmap := []; direct := []; mesh := []; fanout := []; lastpub := []; backoff := [];
     ticks := 0; now := 0; glog := [] |}.

Definition score_of (sc : list (peer * Z)) (p : peer) : Z := match aget p sc with Some z => z | None => 0 end.
Definition speaks_mesh (s : rstate) (p : peer) : bool := match aget p (peers s) with Some i => pi_mesh i | None => false end.
Definition speaks_px (s : rstate) (p : peer) : bool := match aget p (peers s) with Some i => pi_px i | None => false end.
Definition is_outbound (s : rstate) (p : peer) : bool := match aget p (peers s) with Some i => pi_out i | None => false end.
Definition backoff_of (s : rstate) (t : topic) (p : peer) : option Z :=
  match aget t (backoff s) with Some m => aget p m | None => None end.
Definition in_backoff (s : rstate) (t : topic) (p : peer) : bool := match backoff_of s t p with Some _ => true | None => false end.

(* getPeers' candidate set: subscribed to the topic, speaks gossipsub, passes the filter *)
Definition gs_peers (s : rstate) (t : topic) (f : peer -> bool) : list peer :=
  filter (fun p => speaks_mesh s p && f p) (aget_l t (tmap s)).

(* "pick up to n of the candidates at random": the observed choice must be a duplicate-free subset of
   the candidates of exactly the size the code takes (count = 0 means no limit) *)
Definition take_count (n : nat) (cands : list peer) : nat :=
  match n with O => length cands | _ => Nat.min n (length cands) end.
Definition pick_ok (chosen cands : list peer) (n : nat) : bool :=
  nodup_b chosen && subset chosen cands && Nat.eqb (length chosen) (take_count n cands).

(* ---- record updates ---- *)
Definition upd (s : rstate) (f : rstate -> rstate) := f s.
Definition set_mesh (s : rstate) m := {| peers := peers s; tmap := tmap s; direct := direct s; mesh := m; fanout := fanout s; lastpub := lastpub s; backoff := backoff s; ticks := ticks s; now := now s; glog := glog s |}.
Definition set_fanout (s : rstate) f lp := {| peers := peers s; tmap := tmap s; direct := direct s; mesh := mesh s; fanout := f; lastpub := lp; backoff := backoff s; ticks := ticks s; now := now s; glog := glog s |}.
Definition set_peers (s : rstate) ps := {| peers := ps; tmap := tmap s; direct := direct s; mesh := mesh s; fanout := fanout s; lastpub := lastpub s; backoff := backoff s; ticks := ticks s; now := now s; glog := glog s |}.
Definition set_tmap (s : rstate) tm := {| peers := peers s; tmap := tm; direct := direct s; mesh := mesh s; fanout := fanout s; lastpub := lastpub s; backoff := backoff s; ticks := ticks s; now := now s; glog := glog s |}.
Definition set_direct (s : rstate) d := {| peers := peers s; tmap := tmap s; direct := d; mesh := mesh s; fanout := fanout s; lastpub := lastpub s; backoff := backoff s; ticks := ticks s; now := now s; glog := glog s |}.
Definition set_time (s : rstate) tk nw := {| peers := peers s; tmap := tmap s; direct := direct s; mesh := mesh s; fanout := fanout s; lastpub := lastpub s; backoff := backoff s; ticks := tk; now := nw; glog := glog s |}.
Definition set_backoff (s : rstate) b gl := {| peers := peers s; tmap := tmap s; direct := direct s; mesh := mesh s; fanout := fanout s; lastpub := lastpub s; backoff := b; ticks := ticks s; now := now s; glog := gl |}.
Definition log_graft (s : rstate) (t : topic) (p : peer) := {| peers := peers s; tmap := tmap s; direct := direct s; mesh := mesh s; fanout := fanout s; lastpub := lastpub s; backoff := backoff s; ticks := ticks s; now := now s; glog := GGraft t p (now s) :: glog s |}.

(* doAddBackoff: keep the later expiry *)
Definition add_backoff (s : rstate) (t : topic) (p : peer) (interval : Z) : rstate :=
  let e := now s + interval in
  let m := match aget t (backoff s) with Some m => m | None => [] end in
  let e' := match aget p m with Some old => Z.max old e | None => e end in
  set_backoff s (aset t (aset p e' m) (backoff s)) (GDeadline t p e :: glog s).

(* ---- what goes onto the wire ---- *)
Inductive ctl :=
| CGraft (p : peer) (t : topic)
| CPrune (p : peer) (t : topic) (backoff_secs : option Z).   (* None for v1.0 peers *)

Definition mk_prune (P : params) (s : rstate) (p : peer) (t : topic) (unsub : bool) : ctl :=
  CPrune p t (if speaks_px s p then Some ((if unsub then pUnsubBackoff P else pPruneBackoff P) / 1000000000) else None).

(* ---- operations ---- *)

(* OnNewOutboundStream / OnClosedOutboundStream *)
Definition add_peer (s : rstate) (p : peer) (i : pinfo) : rstate := set_peers s (aset p i (peers s)).
Definition remove_peer (s : rstate) (p : peer) : rstate :=
  let s1 := set_peers s (adel p (peers s)) in
  let s2 := set_mesh s1 (map (fun e => (fst e, srem p (snd e))) (mesh s1)) in
  set_fanout s2 (map (fun e => (fst e, srem p (snd e))) (fanout s2)) (lastpub s2).

(* subscription bookkeeping of PubSub.topics (an empty map is deleted) *)
Definition sub_peer (s : rstate) (p : peer) (t : topic) : rstate := set_tmap s (aset t (sadd p (aget_l t (tmap s))) (tmap s)).
Definition unsub_peer (s : rstate) (p : peer) (t : topic) : rstate :=
  let l := srem p (aget_l t (tmap s)) in
  set_tmap s (match l with [] => adel t (tmap s) | _ => aset t l (tmap s) end).
Definition clear_peer_topics (s : rstate) (p : peer) : rstate :=
  set_tmap s (filter (fun e => match snd e with [] => false | _ => true end) (map (fun e => (fst e, srem p (snd e))) (tmap s))).

(* Join: [chosen] = the peers the code picked (observation) *)
Definition join (P : params) (sc : list (peer * Z)) (s : rstate) (t : topic) (chosen : list peer) : option (rstate * list ctl) :=
  match aget t (mesh s) with
  | Some _ => match chosen with [] => Some (s, []) | _ => None end
  | None =>
      let elig := fun p => negb (memb p (direct s)) && negb (in_backoff s t p) && (0 <=? score_of sc p) in
      match aget t (fanout s) with
      | Some fan =>
          let kept := filter (fun p => negb ((score_of sc p <? 0) || in_backoff s t p)) fan in
          let need := (pD P - length kept)%nat in
          let cands := gs_peers s t (fun p => negb (memb p kept) && elig p) in
          let more := if Nat.ltb (length kept) (pD P) then chosen else [] in
          if (if Nat.ltb (length kept) (pD P) then pick_ok chosen cands need else match chosen with [] => true | _ => false end) then
            let g := kept ++ more in
            let s1 := set_fanout (set_mesh s (aset t g (mesh s))) (adel t (fanout s)) (adel t (lastpub s)) in
            Some (fold_left (fun st p => log_graft st t p) g s1, map (fun p => CGraft p t) g)
          else None
      | None =>
          let cands := gs_peers s t elig in
          if pick_ok chosen cands (pD P) then
            let s1 := set_mesh s (aset t chosen (mesh s)) in
            Some (fold_left (fun st p => log_graft st t p) chosen s1, map (fun p => CGraft p t) chosen)
          else None
      end
  end.

(* Leave *)
Definition leave (P : params) (s : rstate) (t : topic) : rstate * list ctl :=
  match aget t (mesh s) with
  | None => (s, [])
  | Some g =>
      let s1 := set_mesh s (adel t (mesh s)) in
      (fold_left (fun st p => add_backoff st t p (pUnsubBackoff P)) g s1, map (fun p => mk_prune P s p t true) g)
  end.

(* handleGraft for one topic; returns the state, whether a PRUNE is sent back, and the penalty added *)
Definition handle_graft1 (P : params) (sc : list (peer * Z)) (s : rstate) (p : peer) (t : topic) : rstate * bool * nat :=
  match aget t (mesh s) with
  | None => (s, false, 0%nat)
  | Some g =>
      if memb p g then (s, false, 0%nat)
      else if memb p (direct s) then (s, true, 0%nat)
      else
        match backoff_of s t p with
        | Some e =>
            if now s <? e then
              let pen := if now s <? e + (pGraftFlood P - pPruneBackoff P) then 2%nat else 1%nat in
              (add_backoff s t p (pPruneBackoff P), true, pen)
            else
              if score_of sc p <? 0 then (add_backoff s t p (pPruneBackoff P), true, 0%nat)
              else if Nat.leb (pDhi P) (length g) && negb (is_outbound s p) then (add_backoff s t p (pPruneBackoff P), true, 0%nat)
              else (set_mesh s (aset t (g ++ [p]) (mesh s)), false, 0%nat)
        | None =>
            if score_of sc p <? 0 then (add_backoff s t p (pPruneBackoff P), true, 0%nat)
            else if Nat.leb (pDhi P) (length g) && negb (is_outbound s p) then (add_backoff s t p (pPruneBackoff P), true, 0%nat)
            else (set_mesh s (aset t (g ++ [p]) (mesh s)), false, 0%nat)
        end
  end.

Fixpoint handle_graft (P : params) (sc : list (peer * Z)) (s : rstate) (p : peer) (ts : list topic)
  : rstate * list ctl * nat :=
  match ts with
  | [] => (s, [], 0%nat)
  | t :: ts' =>
      let '(s1, pr, pen) := handle_graft1 P sc s p t in
      let '(s2, cs, pen2) := handle_graft P sc s1 p ts' in
      (s2, (if pr then [mk_prune P s p t false] else []) ++ cs, (pen + pen2)%nat)
  end.

(* handlePrune: (topic, backoff seconds if > 0) *)
Definition handle_prune1 (P : params) (s : rstate) (p : peer) (t : topic) (bo : option Z) : rstate :=
  match aget t (mesh s) with
  | None => s
  | Some g =>
      let s1 := set_mesh s (aset t (srem p g) (mesh s)) in
      add_backoff s1 t p (match bo with Some secs => if 0 <? secs then secs * 1000000000 else pPruneBackoff P | None => pPruneBackoff P end)
  end.

(* clearBackoff, every 15 ticks: entries whose expiry + slack lies strictly before now are dropped *)
Definition clear_backoff (P : params) (s : rstate) : rstate :=
  if Nat.eqb (Nat.modulo (ticks s) 15) 0 then
    let b := map (fun e => (fst e, filter (fun pe => negb (snd pe + pSlack P <? now s)) (snd e))) (backoff s) in
    set_backoff s (filter (fun e => match snd e with [] => false | _ => true end) b) (glog s)
  else s.

(* ---- heartbeat, one topic: the observed GRAFT / PRUNE trace events of this topic, in order ---- *)
Inductive hev := HGraft (p : peer) | HPrune (p : peer).

Fixpoint take_grafts (n : nat) (l : list hev) : option (list peer * list hev) :=
  match n with
  | O => Some ([], l)
  | S n' => match l with
            | HGraft p :: l' => match take_grafts n' l' with Some (ps, r) => Some (p :: ps, r) | None => None end
            | _ => None
            end
  end.
Fixpoint take_prunes (n : nat) (l : list hev) : option (list peer * list hev) :=
  match n with
  | O => Some ([], l)
  | S n' => match l with
            | HPrune p :: l' => match take_prunes n' l' with Some (ps, r) => Some (p :: ps, r) | None => None end
            | _ => None
            end
  end.

Definition count_out (s : rstate) (l : list peer) : nat := length (filter (is_outbound s) l).
(* the k-th largest score among l (1-based); scores as Z *)
Fixpoint insert_desc (z : Z) (l : list Z) : list Z :=
  match l with [] => [z] | y :: l' => if y <? z then z :: l else y :: insert_desc z l' end.
Definition sorted_desc (l : list Z) : list Z := fold_right insert_desc [] l.
Definition kth_largest (k : nat) (l : list Z) : option Z := nth_error (sorted_desc l) (pred k).
Definition median_score (sc : list (peer * Z)) (g : list peer) : Z :=
  (* ascending order, index len/2 *)
  nth (length g / 2) (rev (sorted_desc (map (score_of sc) g))) 0.

(* admissibility of the over-subscription cut: kept set K (|K| = D) out of mesh M *)
Definition cut_ok (P : params) (sc : list (peer * Z)) (s : rstate) (M K : list peer) : bool :=
  nodup_b K && subset K M && Nat.eqb (length K) (pD P)
  && Nat.leb (Nat.min (pDout P) (count_out s M)) (count_out s K)
  && match kth_largest (Nat.min (pDscore P) (pD P)) (map (score_of sc) M) with   (* with Dscore above D the D best are kept *)
     | None => true
     | Some sstar =>
         (* a peer strictly better than the Dscore-th score is dropped only to make room for the outbound quota *)
         forallb (fun p => negb (sstar <? score_of sc p) || memb p K
                           || (negb (is_outbound s p) && Nat.leb (count_out s K) (pDout P))) M
     end.

(* a graft phase: when active, exactly take_count n cands peers out of the candidates are added *)
Definition phase_graft (s : rstate) (t : topic) (active : bool) (cands : list peer) (n : nat) (evs : list hev)
  : option (rstate * list peer * list hev) :=
  if active then
    match take_grafts (take_count n cands) evs with
    | Some (gr, evs') =>
        if pick_ok gr cands n
        then Some (fold_left (fun st p => log_graft st t p) gr (set_mesh s (aset t (aget_l t (mesh s) ++ gr) (mesh s))), gr, evs')
        else None
    | None => None
    end
  else Some (s, [], evs).

(* a prune phase: the given peers leave the mesh of t and are backed off *)
Definition do_prunes (P : params) (s : rstate) (t : topic) (pr : list peer) : rstate :=
  fold_left (fun st p => add_backoff st t p (pPruneBackoff P)) pr
            (set_mesh s (aset t (filter (fun p => negb (memb p pr)) (aget_l t (mesh s))) (mesh s))).

Definition elig (s : rstate) (t : topic) (p : peer) : bool :=
  negb (memb p (aget_l t (mesh s))) && negb (in_backoff s t p) && negb (memb p (direct s)).

Definition hb_topic (P : params) (sc : list (peer * Z)) (s : rstate) (t : topic) (evs : list hev)
  : option (rstate * list peer (*grafted*) * list peer (*pruned*) * list peer (*pruned without PX*)) :=
  match aget t (mesh s) with
  | None => None
  | Some g0 =>
      (* 1. drop negative-score peers *)
      let neg := filter (fun p => score_of sc p <? 0) g0 in
      match take_prunes (length neg) evs with
      | None => None
      | Some (pr1, evs1) =>
          if negb (seteq pr1 neg) then None else
          let s1 := do_prunes P s t neg in
          (* 2. under-subscribed *)
          let g1 := aget_l t (mesh s1) in
          match phase_graft s1 t (Nat.ltb (length g1) (pDlo P))
                            (gs_peers s1 t (fun p => elig s1 t p && (0 <=? score_of sc p))) (pD P - length g1) evs1 with
          | None => None
          | Some (s2, gr2, evs2) =>
              (* 3. over-subscribed *)
              let g2 := aget_l t (mesh s2) in
              let over := Nat.leb (pDhi P) (length g2) in
              match take_prunes (if over then (length g2 - pD P)%nat else 0%nat) evs2 with
              | None => None
              | Some (pr3, evs3) =>
                  if negb (if over then nodup_b pr3 && subset pr3 g2
                                        && cut_ok P sc s2 g2 (filter (fun p => negb (memb p pr3)) g2) else true) then None else
                  let s3 := do_prunes P s2 t pr3 in
                  (* 4. outbound quota *)
                  let g3 := aget_l t (mesh s3) in
                  match phase_graft s3 t (Nat.leb (pDlo P) (length g3) && Nat.ltb (count_out s3 g3) (pDout P))
                                    (gs_peers s3 t (fun p => elig s3 t p && is_outbound s3 p && (0 <=? score_of sc p)))
                                    (pDout P - count_out s3 g3) evs3 with
                  | None => None
                  | Some (s4, gr4, evs4) =>
                      (* 5. opportunistic grafting *)
                      let g4 := aget_l t (mesh s4) in
                      let med := median_score sc g4 in
                      match phase_graft s4 t (Nat.eqb (Nat.modulo (ticks s) (pOGTicks P)) 0 && Nat.ltb 1 (length g4) && (med <? pOGThreshold P))
                                        (gs_peers s4 t (fun p => elig s4 t p && (med <? score_of sc p))) (pOGPeers P) evs4 with
                      | Some (s5, gr5, []) => Some (s5, gr2 ++ gr4 ++ gr5, neg ++ pr3, neg)
                      | _ => None
                      end
                  end
              end
          end
      end
  end.

(* fanout maintenance for one topic; [added] observed *)
Definition hb_fanout (P : params) (sc : list (peer * Z)) (s : rstate) (t : topic) (added : list peer) : option rstate :=
  match aget t (fanout s) with
  | None => None
  | Some f0 =>
      let f1 := filter (fun p => memb p (aget_l t (tmap s)) && negb (score_of sc p <? pPublishThr P)) f0 in
      let cands := gs_peers s t (fun p => negb (memb p f1) && negb (memb p (direct s)) && (pPublishThr P <=? score_of sc p)) in
      if (if Nat.ltb (length f1) (pD P) then pick_ok added cands (pD P - length f1) else match added with [] => true | _ => false end)
      then Some (set_fanout s (aset t (f1 ++ added) (fanout s)) (lastpub s))
      else None
  end.

(* ---- the whole heartbeat (mesh / fanout / backoff part) ---- *)
Fixpoint hb_topics (P : params) (sc : list (peer * Z)) (s : rstate) (ts : list topic) (obs : list (topic * list hev))
  : option (rstate * list (topic * (list peer * list peer))) :=
  match ts with
  | [] => Some (s, [])
  | t :: ts' =>
      match hb_topic P sc s t (match aget t obs with Some e => e | None => [] end) with
      | Some (s1, gr, pr, _) =>
          match hb_topics P sc s1 ts' obs with
          | Some (s2, r) => Some (s2, (t, (gr, pr)) :: r)
          | None => None
          end
      | None => None
      end
  end.

Fixpoint hb_fanouts (P : params) (sc : list (peer * Z)) (s : rstate) (ts : list topic) (obs : list (topic * list peer)) : option rstate :=
  match ts with
  | [] => Some s
  | t :: ts' => match hb_fanout P sc s t (aget_l t obs) with
                | Some s1 => hb_fanouts P sc s1 ts' obs
                | None => None
                end
  end.

Definition expire_fanout (P : params) (s : rstate) : rstate :=
  let dead := map fst (filter (fun e => snd e + pFanoutTTL P <? now s) (lastpub s)) in
  set_fanout s (filter (fun e => negb (memb (fst e) dead)) (fanout s)) (filter (fun e => negb (memb (fst e) dead)) (lastpub s)).

Definition heartbeat (P : params) (sc : list (peer * Z)) (s : rstate)
           (obs : list (topic * list hev)) (fobs : list (topic * list peer)) : option (rstate * list ctl) :=
  let s0 := clear_backoff P (set_time s (S (ticks s)) (now s)) in
  if negb (forallb (fun e => match aget (fst e) (mesh s0) with Some _ => true | None => false end) obs) then None else
  match hb_topics P sc s0 (map fst (mesh s0)) obs with
  | None => None
  | Some (s1, res) =>
      let s2 := expire_fanout P s1 in
      match hb_fanouts P sc s2 (map fst (fanout s2)) fobs with
      | None => None
      | Some s3 =>
          let grafts := concat (map (fun r => map (fun p => CGraft p (fst r)) (fst (snd r))) res) in
          let prunes := concat (map (fun r => map (fun p => mk_prune P s p (fst r) false) (snd (snd r))) res) in
          Some (s3, grafts ++ prunes)
      end
  end.

(* getFanoutPeersForPublishing: publishing to a topic the node has not joined uses (and keeps alive) the fanout set,
   which is picked when empty among the non-direct topic peers at or above the publish threshold; [chosen] observed *)
Definition fanout_pub (P : params) (sc : list (peer * Z)) (s : rstate) (t : topic) (chosen : list peer) : option (rstate * list peer) :=
  let cur := aget_l t (fanout s) in
  match cur with
  | _ :: _ => match chosen with
              | [] => Some (set_fanout s (fanout s) (aset t (now s) (lastpub s)), cur)
              | _ => None end
  | [] =>
      let cands := gs_peers s t (fun p => negb (memb p (direct s)) && (pPublishThr P <=? score_of sc p)) in
      if pick_ok chosen cands (pD P) then
        let f' := match chosen with [] => fanout s | _ => aset t chosen (fanout s) end in
        Some (set_fanout s f' (aset t (now s) (lastpub s)), chosen)
      else None
  end.

(* ---- operations of the event loop ---- *)
Inductive rop :=
| OAddPeer (p : peer) (i : pinfo) | ORemovePeer (p : peer)
| OSub (p : peer) (t : topic) | OUnsub (p : peer) (t : topic) | OClearTopics (p : peer)
| ODisconnect (p : peer)                 (* handleDeadPeers: topic state cleared, then OnClosedOutboundStream *)
| OAddDirect (p : peer) | ORemoveDirect (p : peer)
| OJoin (t : topic) (chosen : list peer) | OLeave (t : topic)
| ORecvGraft (p : peer) (ts : list topic)
| ORecvPrune (p : peer) (prs : list (topic * option Z))
| OHeartbeat (obs : list (topic * list hev)) (fobs : list (topic * list peer))
| OAdvance (d : Z)
| OFanoutPub (t : topic) (chosen : list peer).   (* a publication to a topic that is not joined (fanout selection / refresh only) *)

Definition step (P : params) (sc : list (peer * Z)) (s : rstate) (o : rop) : option (rstate * list ctl * nat) :=
  match o with
  | OAddPeer p i => Some (add_peer s p i, [], 0%nat)
  | ORemovePeer p => Some (remove_peer s p, [], 0%nat)
  | OSub p t => Some (sub_peer s p t, [], 0%nat)
  | OUnsub p t => Some (unsub_peer s p t, [], 0%nat)
  | OClearTopics p => Some (clear_peer_topics s p, [], 0%nat)
  | ODisconnect p => Some (remove_peer (clear_peer_topics s p) p, [], 0%nat)
  | OAddDirect p => Some (set_direct s (sadd p (direct s)), [], 0%nat)
  | ORemoveDirect p => Some (set_direct s (srem p (direct s)), [], 0%nat)
  | OJoin t chosen => match join P sc s t chosen with Some (s', c) => Some (s', c, 0%nat) | None => None end
  | OLeave t => let (s', c) := leave P s t in Some (s', c, 0%nat)
  | ORecvGraft p ts => Some (handle_graft P sc s p ts)
  | ORecvPrune p prs => Some (fold_left (fun st e => handle_prune1 P st p (fst e) (snd e)) prs s, [], 0%nat)
  | OHeartbeat obs fobs => match heartbeat P sc s obs fobs with Some (s', c) => Some (s', c, 0%nat) | None => None end
  | OAdvance d => if d <? 0 then None else Some (set_time s (ticks s) (now s + d), [], 0%nat)
  | OFanoutPub t chosen =>
      match aget t (mesh s) with
      | Some _ => None
      | None => match fanout_pub P sc s t chosen with Some (s', _) => Some (s', [], 0%nat) | None => None end
      end
  end.

(* a history: each operation with the score table in force when it runs *)
Fixpoint run (P : params) (s : rstate) (l : list (list (peer * Z) * rop)) : option (rstate * list ctl) :=
  match l with
  | [] => Some (s, [])
  | (sc, o) :: l' =>
      match step P sc s o with
      | Some (s1, c1, _) => match run P s1 l' with Some (s2, c2) => Some (s2, c1 ++ c2) | None => None end
      | None => None
      end
  end.

Definition valid_params (P : params) : bool :=
  ((Nat.eqb (pD P) 0 && Nat.eqb (pDlo P) 0 && Nat.eqb (pDhi P) 0 && Nat.eqb (pDout P) 0)
   || (Nat.leb (pDlo P) (pD P) && Nat.leb (pD P) (pDhi P) && Nat.ltb (pDout P) (pDlo P) && Nat.ltb (pDout P) (pD P / 2)))
  && Nat.leb (pDscore P) (pDhi P) && Nat.ltb 0 (pOGTicks P)
  && (0 <=? pPruneBackoff P) && (0 <=? pUnsubBackoff P) && (0 <=? pSlack P).
