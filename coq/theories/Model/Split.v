(* Model of pubsub.go RPC.split (after the "fix:" commit that (a) never yields an RPC carrying
   nothing and (b) carries IDONTWANT, Control.Extensions, Partial and TestExtension through the slow
   path) and of gossipsub.go sendRPC's size filter.  Transcribed stage by stage. *)
From Coq Require Import List Bool NArith Arith.
Import ListNotations.
From PS Require Import Model.Wire.
Local Open Scope N_scope.

Definition acc := (list rpc * rpc)%type.           (* fragments yielded so far (NEWEST FIRST), nextRPC *)

Definition emit (out : list rpc) (r : rpc) : list rpc := if is_empty r then out else r :: out.

(* "append; if Size() > limit { undo; yield; start a fresh RPC holding just the element }" *)
Definition step (limit : N) (a : acc) (cur' fresh : rpc) : acc :=
  if limit <? size cur' then (emit (fst a) (snd a), fresh) else (fst a, cur').

(* ---- record updates ---- *)
Definition set_subs (r : rpc) l := {| r_subs := l; r_pub := r_pub r; r_ctl := r_ctl r; r_partial := r_partial r; r_test := r_test r |}.
Definition set_ctl (r : rpc) c := {| r_subs := r_subs r; r_pub := r_pub r; r_ctl := c; r_partial := r_partial r; r_test := r_test r |}.
Definition set_partial (r : rpc) p := {| r_subs := r_subs r; r_pub := r_pub r; r_ctl := r_ctl r; r_partial := p; r_test := r_test r |}.
Definition set_test (r : rpc) b := {| r_subs := r_subs r; r_pub := r_pub r; r_ctl := r_ctl r; r_partial := r_partial r; r_test := b |}.
Definition ctl_of (r : rpc) : control := match r_ctl r with Some c => c | None => ctl_empty end.
Definition upd_ctl (r : rpc) (f : control -> control) : rpc := set_ctl r (Some (f (ctl_of r))).
Definition fresh_ctl (f : control -> control) : rpc := set_ctl rpc_empty (Some (f ctl_empty)).

Definition c_set_ihave c l := {| c_ihave := l; c_iwant := c_iwant c; c_graft := c_graft c; c_prune := c_prune c; c_idw := c_idw c; c_ext := c_ext c |}.
Definition c_set_iwant c l := {| c_ihave := c_ihave c; c_iwant := l; c_graft := c_graft c; c_prune := c_prune c; c_idw := c_idw c; c_ext := c_ext c |}.
Definition c_set_graft c l := {| c_ihave := c_ihave c; c_iwant := c_iwant c; c_graft := l; c_prune := c_prune c; c_idw := c_idw c; c_ext := c_ext c |}.
Definition c_set_prune c l := {| c_ihave := c_ihave c; c_iwant := c_iwant c; c_graft := c_graft c; c_prune := l; c_idw := c_idw c; c_ext := c_ext c |}.
Definition c_set_idw c l := {| c_ihave := c_ihave c; c_iwant := c_iwant c; c_graft := c_graft c; c_prune := c_prune c; c_idw := l; c_ext := c_ext c |}.
Definition c_set_ext c e := {| c_ihave := c_ihave c; c_iwant := c_iwant c; c_graft := c_graft c; c_prune := c_prune c; c_idw := c_idw c; c_ext := e |}.

(* append an ID to the last IWANT / IDONTWANT / IHAVE of a list (the code indexes [0] resp. [len-1];
   the lists built by split never hold more than one IWANT / IDONTWANT) *)
Fixpoint app_last_iw (l : list iwant) (i : mid) : list iwant :=
  match l with
  | [] => [{| iw_ids := [i] |}]
  | [w] => [{| iw_ids := iw_ids w ++ [i] |}]
  | w :: l' => w :: app_last_iw l' i
  end.
Fixpoint app_last_ih (l : list ihave) (i : mid) : list ihave :=
  match l with
  | [] => [{| ih_ptr := None; ih_tlen := 0; ih_ids := [i] |}]
  | [h] => [{| ih_ptr := ih_ptr h; ih_tlen := ih_tlen h; ih_ids := ih_ids h ++ [i] |}]
  | h :: l' => h :: app_last_ih l' i
  end.

(* ---- stage 1: publish messages, packed by their incremental size ---- *)
Definition pub_rpc (ms : list pmsg) : rpc :=
  {| r_subs := []; r_pub := ms; r_ctl := None; r_partial := None; r_test := false |}.

Fixpoint pack_pub (limit : N) (ms : list pmsg) (cur : list pmsg) (cursz : N) (out : list rpc) : list rpc :=
  match ms with
  | [] => match cur with [] => out | _ => emit out (pub_rpc cur) end
  | m :: ms' =>
      let inc := emb (msize m) in
      if limit <? cursz + inc
      then pack_pub limit ms' [m] inc (emit out (pub_rpc cur))
      else pack_pub limit ms' (cur ++ [m]) (cursz + inc) out
  end.

(* ---- slow path stages ---- *)
Definition st_subs (limit : N) (a : acc) (subs : list subopt) : acc :=
  fold_left (fun a s => step limit a (set_subs (snd a) (r_subs (snd a) ++ [s])) (set_subs rpc_empty [s])) subs a.

Definition st_partial (limit : N) (a : acc) (p : option partial) : acc :=
  match p with
  | None => a
  | Some x => step limit a (set_partial (snd a) (Some x)) (set_partial rpc_empty (Some x))
  end.
Definition st_test (limit : N) (a : acc) (t : bool) : acc :=
  if t then step limit a (set_test (snd a) true) (set_test rpc_empty true) else a.

Definition st_shell (limit : N) (a : acc) : acc :=
  match r_ctl (snd a) with
  | Some _ => a
  | None => step limit a (set_ctl (snd a) (Some ctl_empty)) (fresh_ctl (fun c => c))
  end.
Definition st_ext (limit : N) (a : acc) (e : option exts) : acc :=
  match e with
  | None => a
  | Some x => step limit a (upd_ctl (snd a) (fun c => c_set_ext c (Some x))) (fresh_ctl (fun c => c_set_ext c (Some x)))
  end.
Definition st_graft (limit : N) (a : acc) (l : list graft) : acc :=
  fold_left (fun a g => step limit a (upd_ctl (snd a) (fun c => c_set_graft c (c_graft c ++ [g])))
                             (fresh_ctl (fun c => c_set_graft c [g]))) l a.
Definition st_prune (limit : N) (a : acc) (l : list prune) : acc :=
  fold_left (fun a p => step limit a (upd_ctl (snd a) (fun c => c_set_prune c (c_prune c ++ [p])))
                             (fresh_ctl (fun c => c_set_prune c [p]))) l a.

Definition iw_ids_stage (limit : N) (a : acc) (ids : list mid) : acc :=
  fold_left (fun a i => step limit a (upd_ctl (snd a) (fun c => c_set_iwant c (app_last_iw (c_iwant c) i)))
                             (fresh_ctl (fun c => c_set_iwant c [{| iw_ids := [i] |}]))) ids a.
Definition st_iwant (limit : N) (a : acc) (l : list iwant) : acc :=
  fold_left (fun a w =>
    let a1 := match c_iwant (ctl_of (snd a)) with
              | [] => step limit a (upd_ctl (snd a) (fun c => c_set_iwant c [{| iw_ids := [] |}]))
                                   (fresh_ctl (fun c => c_set_iwant c [{| iw_ids := [] |}]))
              | _ => a
              end in
    iw_ids_stage limit a1 (iw_ids w)) l a.

Definition idw_ids_stage (limit : N) (a : acc) (ids : list mid) : acc :=
  fold_left (fun a i => step limit a (upd_ctl (snd a) (fun c => c_set_idw c (app_last_iw (c_idw c) i)))
                             (fresh_ctl (fun c => c_set_idw c [{| iw_ids := [i] |}]))) ids a.
Definition st_idw (limit : N) (a : acc) (l : list iwant) : acc :=
  fold_left (fun a w =>
    let a1 := match c_idw (ctl_of (snd a)) with
              | [] => step limit a (upd_ctl (snd a) (fun c => c_set_idw c [{| iw_ids := [] |}]))
                                   (fresh_ctl (fun c => c_set_idw c [{| iw_ids := [] |}]))
              | _ => a
              end in
    idw_ids_stage limit a1 (iw_ids w)) l a.

Definition ptr_eqb (a b : option nat) : bool :=
  match a, b with None, None => true | Some x, Some y => Nat.eqb x y | _, _ => false end.
Definition ih_ids_stage (limit : N) (a : acc) (ptr : option nat) (tlen : N) (ids : list mid) : acc :=
  fold_left (fun a i => step limit a (upd_ctl (snd a) (fun c => c_set_ihave c (app_last_ih (c_ihave c) i)))
                             (fresh_ctl (fun c => c_set_ihave c [{| ih_ptr := ptr; ih_tlen := tlen; ih_ids := [i] |}]))) ids a.
Definition st_ihave (limit : N) (a : acc) (l : list ihave) : acc :=
  fold_left (fun a h =>
    let hdr := {| ih_ptr := ih_ptr h; ih_tlen := ih_tlen h; ih_ids := [] |} in
    let need := match rev (c_ihave (ctl_of (snd a))) with
                | [] => true
                | lasth :: _ => negb (ptr_eqb (ih_ptr lasth) (ih_ptr h))
                end in
    let a1 := if need then step limit a (upd_ctl (snd a) (fun c => c_set_ihave c (c_ihave c ++ [hdr])))
                                        (fresh_ctl (fun c => c_set_ihave c [hdr]))
              else a in
    ih_ids_stage limit a1 (ih_ptr h) (ih_tlen h) (ih_ids h)) l a.

Definition st_control (limit : N) (a : acc) (oc : option control) : acc :=
  match oc with
  | None => a
  | Some c =>
      let a := st_shell limit a in
      let a := st_ext limit a (c_ext c) in
      let a := st_graft limit a (c_graft c) in
      let a := st_prune limit a (c_prune c) in
      let a := st_iwant limit a (c_iwant c) in
      let a := st_ihave limit a (c_ihave c) in
      st_idw limit a (c_idw c)
  end.

(* ---- the whole function; result in yield order ---- *)
Definition split (limit : N) (r : rpc) : list rpc :=
  let out := pack_pub limit (r_pub r) [] 0 [] in
  let rest := {| r_subs := r_subs r; r_pub := []; r_ctl := r_ctl r; r_partial := r_partial r; r_test := r_test r |} in
  if size rest <? limit then rev (emit out rest)
  else
    let a := (out, rpc_empty) in
    let a := st_subs limit a (r_subs r) in
    let a := st_partial limit a (r_partial r) in
    let a := st_test limit a (r_test r) in
    let a := st_control limit a (r_ctl r) in
    rev (emit (fst a) (snd a)).

(* gossipsub.go sendRPC: direct path below the limit, otherwise the fragments that fit; the others
   are dropped (and traced as dropped) *)
Definition send_rpc (max : N) (r : rpc) : list rpc * list rpc :=   (* queued, dropped *)
  if size r <? max then ([r], [])
  else partition (fun f => size f <=? max) (split max r).
