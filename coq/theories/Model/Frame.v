(* C12: the inbound stream reader of comm.go handleNewStream: msgio varint framing (go-varint ReadUvarint,
   size limit) followed by protobuf decoding, as a total function from the bytes written to ONE stream to the
   frames handed to the event loop and the way the stream ends.  Whether a payload decodes as an RPC is an
   oracle (computed by the real protobuf code in the harness).  Executable, no proofs. *)
From Coq Require Import List Bool Arith NArith.
Import ListNotations.
Local Open Scope N_scope.

Definition byte := N.

Inductive uv :=
| UOk (v : N) (rest : list byte)
| UEof                          (* no byte at all: clean end *)
| UUnexpectedEof                (* the stream ended inside a varint *)
| UOverflow (rest : list byte)  (* 9th byte has the continuation bit *)
| UNotMinimal (rest : list byte).

(* go-varint ReadUvarint: at most 9 bytes *)
Fixpoint read_uvarint_aux (fuel : nat) (bs : list byte) (shift acc : N) (first : bool) : uv :=
  match fuel with
  | O => UOverflow bs
  | S f =>
      match bs with
      | [] => if first then UEof else UUnexpectedEof
      | b :: r =>
          if (shift =? 56) && (128 <=? b) then UOverflow r
          else if b <? 128 then
            if (b =? 0) && negb first then UNotMinimal r
            else UOk (N.lor acc (N.shiftl b shift)) r
          else read_uvarint_aux f r (shift + 7) (N.lor acc (N.shiftl (N.land b 127) shift)) false
      end
  end.
Definition read_uvarint (bs : list byte) : uv := read_uvarint_aux 9 bs 0 0 true.

Inductive ending :=
| EClean            (* io.EOF at a frame boundary: the handler closes its side politely *)
| EReset (why : nat)  (* 1 = malformed length, 2 = frame above the size limit, 3 = stream ended inside a frame or a varint,
                         4 = payload does not decode *)
.

Fixpoint take (n : nat) (l : list byte) : option (list byte * list byte) :=
  match n with
  | O => Some ([], l)
  | S k => match l with
           | [] => None
           | x :: r => match take k r with Some (a, b) => Some (x :: a, b) | None => None end
           end
  end.

(* handleNewStream peeks the length with NextMsgLen and IGNORES the error, then ReadMsg asks again: after a
   malformed varint the reader simply continues with the bytes that follow *)
Definition next_len (bs : list byte) : uv :=
  match read_uvarint bs with
  | UOverflow r | UNotMinimal r => read_uvarint r
  | UUnexpectedEof => UEof     (* the ignored first call consumed the truncated varint; the second one sees a plain end of stream *)
  | x => x
  end.

(* [decodes]: does this payload unmarshal as an RPC?  Frames handed to the event loop are returned in order. *)
Fixpoint reader (fuel : nat) (max : N) (decodes : list byte -> bool) (bs : list byte) : list (list byte) * ending :=
  match fuel with
  | O => ([], EReset 0)
  | S f =>
      match next_len bs with
      | UEof => ([], EClean)
      | UUnexpectedEof => ([], EReset 3)
      | UOverflow _ | UNotMinimal _ => ([], EReset 1)
      | UOk len rest =>
          if len =? 0 then reader f max decodes rest            (* empty frame: skipped *)
          else if max <? len then ([], EReset 2)
          else match take (N.to_nat len) rest with
               | None => match rest with [] => ([], EClean) (* io.ReadFull reports a plain EOF when nothing of the payload arrived *)
                                    | _ => ([], EReset 3) end
               | Some (payload, rest') =>
                   if decodes payload
                   then let (fs, e) := reader f max decodes rest' in (payload :: fs, e)
                   else ([], EReset 4)
               end
      end
  end.

(* enough fuel: every iteration consumes at least one byte *)
Definition read_stream (max : N) (decodes : list byte -> bool) (bs : list byte) : list (list byte) * ending :=
  reader (S (length bs)) max decodes bs.
