(* Model of topic.go TopicEventHandler (evtLog / evtLogCh / NextPeerEvent) together with
   the membership bookkeeping of pubsub.go (handleIncomingRPC subscribe / unsubscribe,
   clearPeerFromTopicsState) for ONE topic and ONE handler.  Executable, no proofs. *)
From Coq Require Import List Bool Arith PeanoNat.
Import ListNotations.

Inductive ety := Join | Leave.
Definition ety_eqb (a b : ety) : bool :=
  match a, b with Join, Join | Leave, Leave => true | _, _ => false end.
Definition flip (a : ety) : ety := match a with Join => Leave | Leave => Join end.

Definition peer := nat.
Definition event := (peer * ety)%type.
Definition tid := nat.

(* ---- finite sets of nat as lists (membership by existsb) ---- *)
Definition memb (p : nat) (l : list nat) : bool := existsb (Nat.eqb p) l.
Definition sadd (p : nat) (l : list nat) : list nat := if memb p l then l else p :: l.
Definition srem (p : nat) (l : list nat) : list nat := filter (fun q => negb (Nat.eqb p q)) l.

(* ---- the coalescing log: map peer -> ety as an association list ---- *)
Fixpoint lk (p : peer) (l : list event) : option ety :=
  match l with
  | [] => None
  | (q, t) :: l' => if Nat.eqb p q then Some t else lk p l'
  end.
Definition rm (p : peer) (l : list event) : list event :=
  filter (fun e => negb (Nat.eqb p (fst e))) l.

Record handler := {
  h_log : list event;        (* evtLog *)
  h_token : bool;            (* len(evtLogCh) = 1 *)
  h_active : bool            (* still registered in topic.evtHandlers *)
}.

Record st := {
  members : list peer;       (* p.topics[topic] *)
  hd : option handler;       (* None before Topic.EventHandler() *)
  pulling : list tid;        (* NextPeerEvent calls that will take the lock and pull next *)
  waiting : list tid;        (* NextPeerEvent calls blocked in the select *)
  returned : list event      (* events handed to the application, NEWEST FIRST *)
}.

Definition init : st :=
  {| members := []; hd := None; pulling := []; waiting := []; returned := [] |}.

(* addToEventLog *)
Definition add_to_log (h : handler) (e : event) : handler :=
  match lk (fst e) (h_log h) with
  | None => {| h_log := e :: h_log h; h_token := true; h_active := h_active h |}
  | Some t => if ety_eqb t (snd e) then h
              else {| h_log := rm (fst e) (h_log h); h_token := h_token h; h_active := h_active h |}
  end.

(* Topic.sendNotification -> every registered handler *)
Definition notify (s : st) (e : event) : st :=
  match hd s with
  | Some h => if h_active h
              then {| members := members s; hd := Some (add_to_log h e);
                      pulling := pulling s; waiting := waiting s; returned := returned s |}
              else s
  | None => s
  end.

Inductive action :=
| ASub (p : peer)             (* subscribe seen in handleIncomingRPC *)
| AUnsub (p : peer)           (* unsubscribe, or clearPeerFromTopicsState on stream close / dead peer *)
| ACreate                     (* Topic.EventHandler(): seed the log with the current members *)
| ACancelH                    (* TopicEventHandler.Cancel() *)
| ACall (i : tid)             (* a NextPeerEvent call starts *)
| APull (i : tid) (r : option event)   (* it takes the lock and pulls: Some e = returned e; None = log empty, go wait *)
| AWake (i : tid)             (* a waiting call receives the token *)
| ACancelT (i : tid).         (* a waiting call's context is cancelled *)

Definition set_members (s : st) (m : list peer) : st :=
  {| members := m; hd := hd s; pulling := pulling s; waiting := waiting s; returned := returned s |}.

Definition step (s : st) (a : action) : option st :=
  match a with
  | ASub p =>
      if memb p (members s) then Some s
      else Some (notify (set_members s (p :: members s)) (p, Join))
  | AUnsub p =>
      if memb p (members s)
      then Some (notify (set_members s (srem p (members s))) (p, Leave))
      else Some s
  | ACreate =>
      match hd s with
      | Some _ => None
      | None => Some {| members := members s;
                        hd := Some {| h_log := map (fun p => (p, Join)) (members s);
                                      h_token := false; h_active := true |};
                        pulling := pulling s; waiting := waiting s; returned := returned s |}
      end
  | ACancelH =>
      match hd s with
      | Some h => Some {| members := members s;
                          hd := Some {| h_log := h_log h; h_token := h_token h; h_active := false |};
                          pulling := pulling s; waiting := waiting s; returned := returned s |}
      | None => None
      end
  | ACall i =>
      match hd s with
      | Some _ => if memb i (pulling s) || memb i (waiting s) then None
                  else Some {| members := members s; hd := hd s; pulling := i :: pulling s;
                               waiting := waiting s; returned := returned s |}
      | None => None
      end
  | APull i r =>
      match hd s with
      | Some h =>
          if memb i (pulling s) then
            match r with
            | Some e =>
                match lk (fst e) (h_log h) with
                | Some t =>
                    if ety_eqb t (snd e) then
                      let log' := rm (fst e) (h_log h) in
                      Some {| members := members s;
                              hd := Some {| h_log := log';
                                            h_token := match log' with [] => h_token h | _ => true end;
                                            h_active := h_active h |};
                              pulling := srem i (pulling s); waiting := waiting s;
                              returned := e :: returned s |}
                    else None
                | None => None
                end
            | None =>
                match h_log h with
                | [] => Some {| members := members s; hd := hd s; pulling := srem i (pulling s);
                                waiting := i :: waiting s; returned := returned s |}
                | _ => None
                end
            end
          else None
      | None => None
      end
  | AWake i =>
      match hd s with
      | Some h =>
          if memb i (waiting s) && h_token h then
            Some {| members := members s;
                    hd := Some {| h_log := h_log h; h_token := false; h_active := h_active h |};
                    pulling := i :: pulling s; waiting := srem i (waiting s); returned := returned s |}
          else None
      | None => None
      end
  | ACancelT i =>
      if memb i (waiting s) then
        Some {| members := members s; hd := hd s; pulling := pulling s;
                waiting := srem i (waiting s); returned := returned s |}
      else None
  end.

Fixpoint run (s : st) (l : list action) : option st :=
  match l with
  | [] => Some s
  | a :: l' => match step s a with Some s' => run s' l' | None => None end
  end.

(* ---- the property's own vocabulary ---- *)

(* Applying returned events (oldest first) as set operations starting from the empty set. *)
Definition apply_event (m : list peer) (e : event) : list peer :=
  match snd e with Join => sadd (fst e) m | Leave => srem (fst e) m end.
Definition replay (chron : list event) : list peer := fold_left apply_event chron [].

(* strict alternation starting with [e] *)
Fixpoint altseq (e : ety) (l : list ety) : bool :=
  match l with
  | [] => true
  | t :: l' => ety_eqb t e && altseq (flip e) l'
  end.
Definition types_of (p : peer) (chron : list event) : list ety :=
  map snd (filter (fun e => Nat.eqb p (fst e)) chron).

Definition log_of (s : st) : list event := match hd s with Some h => h_log h | None => [] end.
Definition token_of (s : st) : bool := match hd s with Some h => h_token h | None => false end.
Definition active (s : st) : bool := match hd s with Some h => h_active h | None => false end.
