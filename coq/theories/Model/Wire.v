(* Wire sizes of the protobuf messages of pb/rpc.proto exactly as pb/rpc.pb.go's generated Size()
   methods compute them.  Contents are abstracted to lengths plus identity tags. *)
From Coq Require Import List Bool NArith Arith.
Import ListNotations.
Local Open Scope N_scope.

(* sovRpc: bytes of a varint; (Len64(x|1)+6)/7 *)
Definition sov (x : N) : N := (N.size (N.lor x 1) + 6) / 7.

Definition olen := option N.                      (* None: nil field; Some n: present, n bytes *)
Definition lp (o : olen) : N := match o with None => 0 | Some l => 1 + l + sov l end.
Definition emb (l : N) : N := 1 + l + sov l.      (* embedded message / string with a 1-byte tag *)
Definition b2 (present : bool) : N := if present then 2 else 0.   (* optional bool field *)

Record pmsg := { pm_tag : nat; pm_from : olen; pm_data : olen; pm_seqno : olen; pm_topic : olen;
                 pm_sig : olen; pm_key : olen; pm_unk : N }.
Definition msize (m : pmsg) : N :=
  lp (pm_from m) + lp (pm_data m) + lp (pm_seqno m) + lp (pm_topic m) + lp (pm_sig m) + lp (pm_key m) + pm_unk m.

Record subopt := { so_tag : nat; so_sub : bool; so_topic : olen; so_req : bool; so_sup : bool }.
Definition subsize (s : subopt) : N := b2 (so_sub s) + lp (so_topic s) + b2 (so_req s) + b2 (so_sup s).

Record graft := { g_tag : nat; g_topic : olen }.
Definition graftsize (g : graft) : N := lp (g_topic g).

Record pinfo := { pi_id : olen; pi_rec : olen }.
Definition pinfosize (p : pinfo) : N := lp (pi_id p) + lp (pi_rec p).
Record prune := { pr_tag : nat; pr_topic : olen; pr_peers : list pinfo; pr_backoff : option N }.
Definition sumN {A} (f : A -> N) (l : list A) : N := fold_right (fun a acc => f a + acc) 0 l.
Definition prunesize (p : prune) : N :=
  lp (pr_topic p) + sumN (fun q => emb (pinfosize q)) (pr_peers p)
  + match pr_backoff p with None => 0 | Some v => 1 + sov v end.

Definition mid := (nat * N)%type.                 (* identity tag, length in bytes *)
Definition idssize (l : list mid) : N := sumN (fun i => emb (snd i)) l.

(* ih_ptr is the identity of the *string the Go struct points to (split compares pointers) *)
Record ihave := { ih_ptr : option nat; ih_tlen : N; ih_ids : list mid }.
Definition ihavesize (h : ihave) : N :=
  (match ih_ptr h with None => 0 | Some _ => emb (ih_tlen h) end) + idssize (ih_ids h).
Record iwant := { iw_ids : list mid }.            (* also used for IDONTWANT *)
Definition iwantsize (w : iwant) : N := idssize (iw_ids w).

Record exts := { ex_partial : bool; ex_test : bool }.
Definition extsize (e : exts) : N := b2 (ex_partial e) + (if ex_test e then 5 else 0).

Record partial := { pa_tag : nat; pa_topic : olen; pa_group : olen; pa_msg : olen; pa_meta : olen }.
Definition partialsize (p : partial) : N := lp (pa_topic p) + lp (pa_group p) + lp (pa_msg p) + lp (pa_meta p).

Record control := { c_ihave : list ihave; c_iwant : list iwant; c_graft : list graft;
                    c_prune : list prune; c_idw : list iwant; c_ext : option exts }.
Definition ctlsize (c : control) : N :=
  sumN (fun h => emb (ihavesize h)) (c_ihave c) + sumN (fun w => emb (iwantsize w)) (c_iwant c)
  + sumN (fun g => emb (graftsize g)) (c_graft c) + sumN (fun p => emb (prunesize p)) (c_prune c)
  + sumN (fun w => emb (iwantsize w)) (c_idw c)
  + match c_ext c with None => 0 | Some e => emb (extsize e) end.

Record rpc := { r_subs : list subopt; r_pub : list pmsg; r_ctl : option control;
                r_partial : option partial; r_test : bool }.
Definition size (r : rpc) : N :=
  sumN (fun s => emb (subsize s)) (r_subs r) + sumN (fun m => emb (msize m)) (r_pub r)
  + match r_ctl r with None => 0 | Some c => emb (ctlsize c) end
  + match r_partial r with None => 0 | Some p => emb (partialsize p) end
  + (if r_test r then 5 else 0).   (* 4-byte tag + 1-byte zero length *)

Definition ctl_empty : control :=
  {| c_ihave := []; c_iwant := []; c_graft := []; c_prune := []; c_idw := []; c_ext := None |}.
Definition rpc_empty : rpc := {| r_subs := []; r_pub := []; r_ctl := None; r_partial := None; r_test := false |}.

Definition nil_b {A} (l : list A) : bool := match l with [] => true | _ => false end.
Definition ctl_is_empty (c : control) : bool :=
  forallb (fun h => nil_b (ih_ids h)) (c_ihave c) && forallb (fun w => nil_b (iw_ids w)) (c_iwant c)
  && nil_b (c_graft c) && nil_b (c_prune c) && forallb (fun w => nil_b (iw_ids w)) (c_idw c)
  && match c_ext c with None => true | Some _ => false end.
(* carries nothing: no element at all (a bare control shell, or IHAVE/IWANT headers without
   message IDs, count as empty) *)
Definition is_empty (r : rpc) : bool :=
  nil_b (r_subs r) && nil_b (r_pub r)
  && match r_ctl r with None => true | Some c => ctl_is_empty c end
  && match r_partial r with None => true | Some _ => false end && negb (r_test r).
