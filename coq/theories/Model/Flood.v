(* C01: eager push along the topic overlay with duplicate suppression, in rounds.  The overlay is the graph whose
   nodes are the subscribers and relays of the topic (plus the publisher) and whose edges are the live connections
   between them; every router floods along all of its overlay edges when its degree is within the bound where the
   random peer selection is exhaustive (Proofs/FloodProofs.v, pick_all).  Executable, no proofs. *)
From Coq Require Import List Bool Arith.
Import ListNotations.
From PS Require Import Model.Router.

Definition graph := list (nat * nat).     (* undirected edges *)
Definition nbrs (g : graph) (v : nat) : list nat :=
  flat_map (fun e => if Nat.eqb (fst e) v then [snd e] else if Nat.eqb (snd e) v then [fst e] else []) g.
Definition nodes (g : graph) : list nat := flat_map (fun e => [fst e; snd e]) g.

Fixpoint uniq (l : list nat) : list nat := match l with [] => [] | x :: r => if memb x r then uniq r else x :: uniq r end.

(* one round: everybody who got the message in the previous round forwards it to all neighbours; a node that has
   already seen it drops the copy (seen-cache), the others deliver it - once - and forward in the next round *)
Fixpoint flood (fuel : nat) (g : graph) (seen frontier : list nat) : list nat :=
  match fuel with
  | O => seen
  | S f =>
      let next := uniq (filter (fun v => negb (memb v seen)) (flat_map (nbrs g) frontier)) in
      match next with
      | [] => seen
      | _ => flood f g (seen ++ next) next
      end
  end.

(* the nodes that deliver a message published by [src], each listed once, in delivery order *)
Definition delivered (g : graph) (src : nat) : list nat := flood (S (length (nodes g))) g [src] [src].

(* reachability along overlay edges *)
Inductive reach (g : graph) (src : nat) : nat -> Prop :=
| reach_refl : reach g src src
| reach_step u v : reach g src u -> In v (nbrs g u) -> reach g src v.
