(* Model of timecache/{first_seen_cache,last_seen_cache,util}.go: Add / Has / sweep with explicit
   (virtual) time in nanoseconds. *)
From Coq Require Import List Bool ZArith Arith.
Import ListNotations.
Local Open Scope Z_scope.

Inductive strategy := FirstSeen | LastSeen.
Definition id := nat.

Record tc := { strat : strategy; ttl : Z; entries : list (id * Z) }.   (* id -> expiry *)

Fixpoint lookup (i : id) (l : list (id * Z)) : option Z :=
  match l with [] => None | (j, e) :: l' => if Nat.eqb i j then Some e else lookup i l' end.
Fixpoint setk (i : id) (e : Z) (l : list (id * Z)) : list (id * Z) :=
  match l with
  | [] => [(i, e)]
  | (j, e0) :: l' => if Nat.eqb i j then (j, e) :: l' else (j, e0) :: setk i e l'
  end.

Definition with_entries (c : tc) l := {| strat := strat c; ttl := ttl c; entries := l |}.

(* Add: true iff the id was not present; last-seen refreshes the expiry even when present *)
Definition tc_add (c : tc) (i : id) (now : Z) : bool * tc :=
  match lookup i (entries c) with
  | Some _ => (false, match strat c with
                      | FirstSeen => c
                      | LastSeen => with_entries c (setk i (now + ttl c) (entries c))
                      end)
  | None => (true, with_entries c (setk i (now + ttl c) (entries c)))
  end.

(* Has: first-seen never looks at the expiry; last-seen refreshes it *)
Definition tc_has (c : tc) (i : id) (now : Z) : bool * tc :=
  match lookup i (entries c) with
  | Some _ => (true, match strat c with
                     | FirstSeen => c
                     | LastSeen => with_entries c (setk i (now + ttl c) (entries c))
                     end)
  | None => (false, c)
  end.

(* sweep: delete entries whose expiry is strictly before now *)
Definition tc_sweep (c : tc) (now : Z) : tc :=
  with_entries c (filter (fun e => negb (snd e <? now)) (entries c)).
