(* Statement skeleton of rpc_queue.go as emitted by /verif/tools/rpcqueue2ir, and the pinned
   skeleton from which Model/RpcQueue.v was derived.  The check regenerates [gen_prog] from the
   current source on every run and requires [gen_prog = pinned_prog] by reflexivity. *)
From Coq Require Import List String Bool.
Import ListNotations.
Open Scope string_scope.

Inductive stmt :=
| SLock | SUnlock | SDeferUnlock
| SPanic | SReturn (what : string)
| SIf (cond : string) (th el : list stmt)
| SFor (cond : string) (body : list stmt)
| SWait (c : string) | SSignal (c : string) | SBroadcast (c : string)
| SCtxCheck (body : list stmt)
| SAfterFunc (body : list stmt) | SDeferStop
| SEnqueue (cls : string) | SDequeue | SSetClosed
| SHook (name : string)
| SOther (txt : string).

Record prog := { p_push : list stmt; p_pop : list stmt; p_close : list stmt }.

Definition pinned_prog : prog := {|
  p_push := [SLock; SDeferUnlock; SIf "q.closed" [SPanic] [];
             SFor "q.queue.Len() == q.maxSize"
               [SIf "block" [SWait "space"; SIf "q.closed" [SPanic] []] [SReturn "ErrQueueFull"]];
             SIf "urgent" [SEnqueue "urgent"] [SEnqueue "normal"]; SSignal "data"; SReturn "nil"];
  p_pop := [SLock; SDeferUnlock; SIf "q.closed" [SReturn "nil, ErrQueueClosed"] [];
            SAfterFunc [SLock; SDeferUnlock; SBroadcast "data"]; SDeferStop;
            SFor "q.queue.Len() == 0"
              [SCtxCheck [SReturn "nil, ErrQueueCancelled"]; SHook "pop-before-wait"; SWait "data";
               SIf "q.closed" [SReturn "nil, ErrQueueClosed"] []];
            SDequeue; SSignal "space"; SReturn "rpc, nil"];
  p_close := [SLock; SDeferUnlock; SSetClosed; SBroadcast "data"; SBroadcast "space"] |}.

(* does the AfterFunc callback take the queue mutex around its Broadcast?  This is the one
   parameter of the transition system of Model/RpcQueue.v that is read off the skeleton. *)
Fixpoint find_af (l : list stmt) : option (list stmt) :=
  match l with
  | [] => None
  | SAfterFunc b :: _ => Some b
  | _ :: l' => find_af l'
  end.
Definition af_locked_of (p : prog) : bool :=
  match find_af (p_pop p) with
  | Some (SLock :: SDeferUnlock :: SBroadcast "data" :: nil) => true
  | Some (SLock :: SBroadcast "data" :: SUnlock :: nil) => true
  | _ => false
  end.
