(* C14: the rendezvous between API calls (and helper goroutines) and the event loop.  Every request to the
   loop is a channel send; after shutdown nobody receives any more.  A send in a select with a ctx.Done()
   (or default) arm returns; a bare send blocks unless the channel is buffered and has a free slot.
   The inventory of send sites is REGENERATED from the Go source on every run (tools/sendsites). *)
From Coq Require Import List String Bool Arith.
Import ListNotations.

Record site := { s_fn : string; s_chan : string; s_guarded : bool; s_buffered : bool }.

Inductive outcome := Returned | BlockedForever.

(* executing one send after the loop has stopped; [free] = free buffer slots of that channel (capacity 1 in NewPubSub) *)
Definition send_after_shutdown (s : site) (free : nat) : outcome * nat :=
  if s_guarded s then (Returned, free)
  else if s_buffered s then match free with S k => (Returned, k) | O => (BlockedForever, O) end
  else (BlockedForever, free).

(* a call = the sends it performs, in order *)
Fixpoint call_after_shutdown (l : list site) (free : nat) : outcome * nat :=
  match l with
  | [] => (Returned, free)
  | s :: l' => match send_after_shutdown s free with
               | (Returned, f) => call_after_shutdown l' f
               | (BlockedForever, f) => (BlockedForever, f)
               end
  end.

Definition all_guarded (l : list site) : bool := forallb s_guarded l.

(* ---- the other direction: the event loop answers a request with a bare send on the reply channel the caller made.
   The caller may have left already (it selects on the shutdown context while handing the request over, and possibly
   while waiting for the answer).  The loop's send returns iff the channel has a free slot or the caller is still
   waiting; a caller that receives unconditionally is always still waiting. ---- *)
Record reply := { r_fn : string; r_req : string; r_buffered : bool; r_plain_recv : bool }.
Definition reply_send (r : reply) (caller_left : bool) : outcome :=
  if r_buffered r then Returned else if caller_left then BlockedForever else Returned.
(* can the caller leave before the answer arrives? only if it does not receive unconditionally *)
Definition caller_may_leave (r : reply) : bool := negb (r_plain_recv r).
Definition reply_safe (r : reply) : bool := r_buffered r || r_plain_recv r.
Definition all_replies_safe (l : list reply) : bool := forallb reply_safe l.
