(* C14: the rendezvous between API calls (and helper goroutines) and the event loop.  Every request to the
   loop is a channel send; after shutdown nobody receives any more.  A send in a select with a ctx.Done()
   (or default) arm returns; a bare send blocks unless the channel is buffered and has a free slot.
   The inventory of send sites is REGENERATED from the Go source on every run (tools/sendsites). *)
From Coq Require Import List String Bool Arith.
Import ListNotations.

Record site := { s_fn : string; s_chan : string; s_guarded : bool; s_buffered : bool }.

Inductive outcome := Returned | BlockedForever.

(* executing one send after the loop has stopped; [free] = free buffer slots of that channel (capacity 1 in NewPubSub) *)
Definition send_after_shutdown (s : site) (free : nat) : outcome * nat :=
  if s_guarded s then (Returned, free)
  else if s_buffered s then match free with S k => (Returned, k) | O => (BlockedForever, O) end
  else (BlockedForever, free).

(* a call = the sends it performs, in order *)
Fixpoint call_after_shutdown (l : list site) (free : nat) : outcome * nat :=
  match l with
  | [] => (Returned, free)
  | s :: l' => match send_after_shutdown s free with
               | (Returned, f) => call_after_shutdown l' f
               | (BlockedForever, f) => (BlockedForever, f)
               end
  end.

Definition all_guarded (l : list site) : bool := forallb s_guarded l.
