(* C09, the parts outside the gossip model: the validation-overload gater (peer_gater.go AcceptFrom), how
   handleIncomingRPC honours the router's verdict, and which peer-exchange records of a PRUNE are followed
   (handlePrune / pxConnect).  Rational arithmetic stands for the gater's float64 counters (only comparisons
   matter); the random draw is an observation.  Executable, no proofs. *)
From Coq Require Import List Bool ZArith QArith.
Import ListNotations.
From PS Require Import Model.Router.

Inductive accept := AcceptNone | AcceptControl | AcceptAll.

Record gstats := { gd : Q; gdup : Q; gign : Q; grej : Q }.     (* deliver / duplicate / ignore / reject counters of the source *)
Record gateparams := { gpThreshold : Q; gpDupW : Q; gpIgnW : Q; gpRejW : Q }.
Record gater := { gValidate : Q; gThrottle : Q; gQuiet : bool (* no throttle event for longer than the Quiet interval *) }.

Definition Qltb' (x y : Q) : bool := negb (Qle_bool y x).

(* [coin] = rand.Float64() *)
Definition gater_accept (P : gateparams) (g : gater) (st : gstats) (coin : Q) : accept :=
  if gQuiet g then AcceptAll
  else if Qeq_bool (gThrottle g) 0 then AcceptAll
  else if negb (Qeq_bool (gValidate g) 0) && Qltb' (gThrottle g / gValidate g) (gpThreshold P) then AcceptAll
  else
    let total := gd st + gpDupW P * gdup st + gpIgnW P * gign st + gpRejW P * grej st in
    if Qeq_bool total 0 then AcceptAll
    else if Qltb' coin ((1 + gd st) / (1 + total)) then AcceptAll else AcceptControl.

(* GossipSubRouter.AcceptFrom: direct peers always; below the graylist threshold nothing; otherwise the gater *)
Definition router_accept (is_direct : bool) (score graylist : Z) (gate : option accept) : accept :=
  if is_direct then AcceptAll
  else if (score <? graylist)%Z then AcceptNone
  else match gate with Some a => a | None => AcceptAll end.

(* handleIncomingRPC: what of an RPC is processed under each verdict (subscriptions are processed before the verdict) *)
Record processed := { p_subs : bool; p_payload : bool; p_control : bool }.
Definition dispatch (a : accept) : processed :=
  match a with
  | AcceptNone => {| p_subs := true; p_payload := false; p_control := false |}
  | AcceptControl => {| p_subs := true; p_payload := false; p_control := true |}
  | AcceptAll => {| p_subs := true; p_payload := true; p_control := true |}
  end.

(* peer exchange: one PeerInfo of a PRUNE *)
Inductive pxrec := PxNone | PxValid | PxInvalid.   (* no signed record / a record that verifies and names the advertised id / anything else *)
Definition px_followed (score acceptPX : Z) (already_connected : bool) (r : pxrec) : bool :=
  negb (score <? acceptPX)%Z && negb already_connected && match r with PxInvalid => false | _ => true end.

(* ---- which PRUNEs carry peer-exchange records (handleGraft / heartbeat / Leave -> makePrune) ---- *)
(* one GRAFTed topic as handleGraft finds it *)
Record graft_in := { gi_joined : bool; gi_in_mesh : bool; gi_backoff : bool (* an unexpired backoff *); gi_full : bool (* mesh at or over Dhi *) }.
Inductive graft_fate := GfUnknown | GfInMesh | GfDirect | GfBackoff | GfNegative | GfFull | GfAccept.
Definition graft_fate_of (is_direct neg outbound : bool) (g : graft_in) : graft_fate :=
  if negb (gi_joined g) then GfUnknown
  else if gi_in_mesh g then GfInMesh
  else if is_direct then GfDirect
  else if gi_backoff g then GfBackoff
  else if neg then GfNegative
  else if gi_full g && negb outbound then GfFull
  else GfAccept.
Definition fate_prunes (f : graft_fate) : bool := match f with GfDirect | GfBackoff | GfNegative | GfFull => true | _ => false end.
Definition fate_blocks_px (f : graft_fate) : bool := match f with GfUnknown | GfDirect | GfBackoff | GfNegative => true | _ => false end.
(* the reply to one GRAFT RPC: per topic whether a PRUNE goes back and whether the sender is admitted, and whether those
   PRUNEs carry peer-exchange records (one flag for the whole RPC).  [cands]: some other topic peer with a non-negative
   score exists; [speaks_px]: the peer speaks v1.1 or later *)
Definition graft_reply (doPX speaks_px cands is_direct neg outbound : bool) (gs : list graft_in) : list bool * list bool * bool :=
  let fates := map (graft_fate_of is_direct neg outbound) gs in
  (map fate_prunes fates, map (fun f => match f with GfAccept => true | _ => false end) fates,
   doPX && speaks_px && cands && negb (existsb fate_blocks_px fates)).
(* PRUNEs of the heartbeat (negative score / over-subscription) and of Leave *)
Definition hb_prune_px (doPX speaks_px cands neg : bool) : bool := doPX && speaks_px && cands && negb neg.
