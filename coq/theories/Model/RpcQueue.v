(* Model of rpc_queue.go: (i) the sequential specification of the bounded two-class FIFO and
   (ii) a fine-grained transition system for any number of concurrent pushers, poppers, cancellers
   and closers.  Every critical section of the Go code that contains no Cond.Wait is one atomic
   step; the only place where a goroutine holds the mutex across steps is between Pop's context
   check and its Cond.Wait (the [holder]) - exactly where the verif schedule point sits.
   [af_locked] says whether the context.AfterFunc callback takes the mutex around its Broadcast. *)
From Coq Require Import List Bool Arith PeanoNat.
Import ListNotations.

Definition tid := nat.
Definition item := nat.

(* ---------------- sequential specification ---------------- *)
Record sq := { s_prio : list item; s_norm : list item; s_closed : bool; s_cap : nat }.
Inductive res := RItem (x : item) | RCancelled | RClosed | ROk | RFull | RPanic | RBlocked.

Definition s_len (q : sq) := length (s_prio q) + length (s_norm q).
Definition s_push (q : sq) (x : item) (urgent : bool) : sq * res :=
  if s_closed q then (q, RPanic)
  else if Nat.eqb (s_len q) (s_cap q) then (q, RFull)
  else if urgent then ({| s_prio := s_prio q ++ [x]; s_norm := s_norm q; s_closed := false; s_cap := s_cap q |}, ROk)
  else ({| s_prio := s_prio q; s_norm := s_norm q ++ [x]; s_closed := false; s_cap := s_cap q |}, ROk).
Definition s_pop (q : sq) : sq * res :=
  if s_closed q then (q, RClosed)
  else match s_prio q, s_norm q with
       | x :: p, _ => ({| s_prio := p; s_norm := s_norm q; s_closed := false; s_cap := s_cap q |}, RItem x)
       | [], x :: n => ({| s_prio := []; s_norm := n; s_closed := false; s_cap := s_cap q |}, RItem x)
       | [], [] => (q, RBlocked)
       end.
Definition s_close (q : sq) : sq :=
  {| s_prio := s_prio q; s_norm := s_norm q; s_closed := true; s_cap := s_cap q |}.

(* ---------------- concurrent transition system ---------------- *)
(* AfterFunc registration of a popper.  Un-registration on return (stop()) is not modelled: a returned
   popper whose context is cancelled later just causes one more harmless Broadcast, so the model's
   behaviours are a superset of the code's. *)
Inductive afst := AFArmed | AFPending | AFRan.

Definition memb (i : nat) (l : list nat) : bool := existsb (Nat.eqb i) l.
Fixpoint srem (i : nat) (l : list nat) : list nat :=       (* remove the first occurrence *)
  match l with [] => [] | j :: l' => if Nat.eqb i j then l' else j :: srem i l' end.

Record pusher := { u_id : tid; u_item : item; u_urgent : bool }.
Definition umemb (i : tid) (l : list pusher) := existsb (fun u => Nat.eqb i (u_id u)) l.
Fixpoint urem (i : tid) (l : list pusher) : list pusher :=
  match l with [] => [] | u :: l' => if Nat.eqb i (u_id u) then l' else u :: urem i l' end.
Fixpoint ufind (i : tid) (l : list pusher) : option pusher :=
  match l with [] => None | u :: l' => if Nat.eqb i (u_id u) then Some u else ufind i l' end.

Fixpoint aget (i : tid) (l : list (tid * afst)) : option afst :=
  match l with [] => None | (j, a) :: l' => if Nat.eqb i j then Some a else aget i l' end.

Record st := {
  q : sq;
  holder : option tid;            (* popper between its ctx check and Cond.Wait (holds the mutex) *)
  data_wait : list tid;           (* dataAvailable wait set *)
  p_woken : list tid;             (* poppers signalled, not yet re-locked *)
  space_wait : list pusher;       (* spaceAvailable wait set *)
  u_woken : list pusher;          (* pushers signalled, not yet re-locked *)
  cancelled : list tid;           (* poppers whose context is done *)
  af : list (tid * afst);         (* AfterFunc registration per popper (latest binding first) *)
  used : list tid;
  results : list (tid * res);
  pushedU : list item; pushedN : list item;   (* ghost: accepted pushes per class, oldest first *)
  poppedU : list item; poppedN : list item    (* ghost: popped items per class, oldest first *)
}.

Definition init (cap : nat) : st :=
  {| q := {| s_prio := []; s_norm := []; s_closed := false; s_cap := cap |};
     holder := None; data_wait := []; p_woken := []; space_wait := []; u_woken := [];
     cancelled := []; af := []; used := []; results := [];
     pushedU := []; pushedN := []; poppedU := []; poppedN := [] |}.

Inductive action :=
| PopBegin (i : tid) (w : option tid)          (* Lock .. first loop iteration; w = pusher woken by Signal if an item is taken *)
| PopWait (i : tid)                            (* Cond.Wait: release the mutex, join the wait set *)
| PopRelock (i : tid) (w : option tid)         (* woken popper re-acquires the mutex and continues *)
| Cancel (i : tid)                             (* ctx of popper i is cancelled *)
| AFRun (i : tid)                              (* the AfterFunc goroutine of popper i runs *)
| PushBegin (i : tid) (x : item) (urgent block : bool) (w : option tid)   (* w = popper woken by Signal on success *)
| PushRelock (i : tid) (w : option tid)
| Close.

Definition set_af (s : st) (i : tid) (a : afst) : list (tid * afst) := (i, a) :: af s.

(* Signal on a wait set: wake exactly the chosen member, or nobody if the set is empty *)
Definition sig_ok_p (w : option tid) (ws : list tid) : bool :=
  match w with None => match ws with [] => true | _ => false end | Some j => memb j ws end.
Definition sig_ok_u (w : option tid) (ws : list pusher) : bool :=
  match w with None => match ws with [] => true | _ => false end | Some j => umemb j ws end.

(* body of Pop's loop, executed with the mutex held and the AfterFunc registered *)
Definition pop_loop (s : st) (i : tid) (w : option tid) (afl : list (tid * afst)) (pw : list tid) : option st :=
  let s0 := s in
  match s_pop (q s0) with
  | (q', RItem x) =>
      if sig_ok_u w (space_wait s0) then
        let woken := match w with Some j => match ufind j (space_wait s0) with Some u => [u] | None => [] end | None => [] end in
        let from_prio := match s_prio (q s0) with [] => false | _ => true end in
        Some {| q := q'; holder := None; data_wait := data_wait s0; p_woken := pw;
                space_wait := match w with Some j => urem j (space_wait s0) | None => space_wait s0 end;
                u_woken := woken ++ u_woken s0;
                cancelled := cancelled s0;
                af := afl;
                used := used s0; results := (i, RItem x) :: results s0;
                pushedU := pushedU s0; pushedN := pushedN s0;
                poppedU := if from_prio then poppedU s0 ++ [x] else poppedU s0;
                poppedN := if from_prio then poppedN s0 else poppedN s0 ++ [x] |}
      else None
  | (_, _) =>
      match w with Some _ => None | None =>
      if memb i (cancelled s0) then
        Some {| q := q s0; holder := None; data_wait := data_wait s0; p_woken := pw;
                space_wait := space_wait s0; u_woken := u_woken s0; cancelled := cancelled s0;
                af := afl;
                used := used s0; results := (i, RCancelled) :: results s0;
                pushedU := pushedU s0; pushedN := pushedN s0; poppedU := poppedU s0; poppedN := poppedN s0 |}
      else
        Some {| q := q s0; holder := Some i; data_wait := data_wait s0; p_woken := pw;
                space_wait := space_wait s0; u_woken := u_woken s0; cancelled := cancelled s0;
                af := afl; used := used s0; results := results s0;
                pushedU := pushedU s0; pushedN := pushedN s0; poppedU := poppedU s0; poppedN := poppedN s0 |}
      end
  end.

(* body of push's loop, with the mutex held *)
Definition push_loop (s : st) (u : pusher) (block : bool) (w : option tid) (uw : list pusher) : option st :=
  match s_push (q s) (u_item u) (u_urgent u) with
  | (q', ROk) =>
      if sig_ok_p w (data_wait s) then
        Some {| q := q'; holder := None;
                data_wait := match w with Some j => srem j (data_wait s) | None => data_wait s end;
                p_woken := match w with Some j => j :: p_woken s | None => p_woken s end;
                space_wait := space_wait s; u_woken := uw; cancelled := cancelled s; af := af s;
                used := used s; results := (u_id u, ROk) :: results s;
                pushedU := if u_urgent u then pushedU s ++ [u_item u] else pushedU s;
                pushedN := if u_urgent u then pushedN s else pushedN s ++ [u_item u];
                poppedU := poppedU s; poppedN := poppedN s |}
      else None
  | (_, RFull) =>
      match w with Some _ => None | None =>
      if block then
        Some {| q := q s; holder := None; data_wait := data_wait s; p_woken := p_woken s;
                space_wait := space_wait s ++ [u]; u_woken := uw; cancelled := cancelled s; af := af s;
                used := used s; results := results s;
                pushedU := pushedU s; pushedN := pushedN s; poppedU := poppedU s; poppedN := poppedN s |}
      else
        Some {| q := q s; holder := None; data_wait := data_wait s; p_woken := p_woken s;
                space_wait := space_wait s; u_woken := uw; cancelled := cancelled s; af := af s;
                used := used s; results := (u_id u, RFull) :: results s;
                pushedU := pushedU s; pushedN := pushedN s; poppedU := poppedU s; poppedN := poppedN s |}
      end
  | (_, _) => None
  end.

Definition with_result (s : st) (i : tid) (r : res) (afl : list (tid * afst)) (pw : list tid) (uw : list pusher) : st :=
  {| q := q s; holder := None; data_wait := data_wait s; p_woken := pw; space_wait := space_wait s;
     u_woken := uw; cancelled := cancelled s; af := afl; used := used s; results := (i, r) :: results s;
     pushedU := pushedU s; pushedN := pushedN s; poppedU := poppedU s; poppedN := poppedN s |}.

Definition mark_used (s : st) (i : tid) : st :=
  {| q := q s; holder := holder s; data_wait := data_wait s; p_woken := p_woken s; space_wait := space_wait s;
     u_woken := u_woken s; cancelled := cancelled s; af := af s; used := i :: used s; results := results s;
     pushedU := pushedU s; pushedN := pushedN s; poppedU := poppedU s; poppedN := poppedN s |}.

Definition free (s : st) : bool := match holder s with None => true | Some _ => false end.

Definition step (af_locked : bool) (s : st) (a : action) : option st :=
  match a with
  | PopBegin i w =>
      if free s && negb (memb i (used s)) then
        let s1 := mark_used s i in
        if s_closed (q s1) then
          match w with None => Some (with_result s1 i RClosed (af s1) (p_woken s1) (u_woken s1)) | Some _ => None end
        else
          let afl := (i, if memb i (cancelled s1) then AFPending else AFArmed) :: af s1 in
          pop_loop s1 i w afl (p_woken s1)
      else None
  | PopWait i =>
      match holder s with
      | Some j => if Nat.eqb i j then
          Some {| q := q s; holder := None; data_wait := data_wait s ++ [i]; p_woken := p_woken s;
                  space_wait := space_wait s; u_woken := u_woken s; cancelled := cancelled s; af := af s;
                  used := used s; results := results s;
                  pushedU := pushedU s; pushedN := pushedN s; poppedU := poppedU s; poppedN := poppedN s |}
          else None
      | None => None
      end
  | PopRelock i w =>
      if free s && memb i (p_woken s) then
        let pw := srem i (p_woken s) in
        if s_closed (q s) then
          match w with None => Some (with_result s i RClosed (af s) pw (u_woken s)) | Some _ => None end
        else pop_loop s i w (af s) pw
      else None
  | Cancel i =>
      if memb i (cancelled s) then None else
      Some {| q := q s; holder := holder s; data_wait := data_wait s; p_woken := p_woken s;
              space_wait := space_wait s; u_woken := u_woken s; cancelled := i :: cancelled s;
              af := match aget i (af s) with Some AFArmed => (i, AFPending) :: af s | _ => af s end;
              used := used s; results := results s;
              pushedU := pushedU s; pushedN := pushedN s; poppedU := poppedU s; poppedN := poppedN s |}
  | AFRun i =>
      match aget i (af s) with
      | Some AFPending =>
          if negb af_locked || free s then
            Some {| q := q s; holder := holder s; data_wait := []; p_woken := data_wait s ++ p_woken s;
                    space_wait := space_wait s; u_woken := u_woken s; cancelled := cancelled s;
                    af := (i, AFRan) :: af s; used := used s; results := results s;
                    pushedU := pushedU s; pushedN := pushedN s; poppedU := poppedU s; poppedN := poppedN s |}
          else None
      | _ => None
      end
  | PushBegin i x urgent block w =>
      if free s && negb (memb i (used s)) then
        let s1 := mark_used s i in
        if s_closed (q s1) then
          match w with None => Some (with_result s1 i RPanic (af s1) (p_woken s1) (u_woken s1)) | Some _ => None end
        else push_loop s1 {| u_id := i; u_item := x; u_urgent := urgent |} block w (u_woken s1)
      else None
  | PushRelock i w =>
      if free s then
        match ufind i (u_woken s) with
        | Some u =>
            let uw := urem i (u_woken s) in
            if s_closed (q s) then
              match w with None => Some (with_result s i RPanic (af s) (p_woken s) uw) | Some _ => None end
            else push_loop s u true w uw
        | None => None
        end
      else None
  | Close =>
      if free s then
        Some {| q := s_close (q s); holder := None; data_wait := []; p_woken := data_wait s ++ p_woken s;
                space_wait := []; u_woken := space_wait s ++ u_woken s; cancelled := cancelled s; af := af s;
                used := used s; results := results s;
                pushedU := pushedU s; pushedN := pushedN s; poppedU := poppedU s; poppedN := poppedN s |}
      else None
  end.

Fixpoint run (afl : bool) (s : st) (l : list action) : option st :=
  match l with
  | [] => Some s
  | a :: l' => match step afl s a with Some s' => run afl s' l' | None => None end
  end.

Definition len (s : st) : nat := s_len (q s).
