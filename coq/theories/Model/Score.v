(* Model of score.go: the per-peer counters driven by the tracer events, refreshScores, the retention
   rule and the score function P1..P7.  The arithmetic is a parameter: instantiated with binary64
   floats (Coq's primitive floats) for the correspondence with the code, and with exact rationals for
   the proofs (Proofs/ScoreProofs.v).  Executable, no proofs. *)
From Coq Require Import List Bool ZArith Arith.
Import ListNotations.
From PS Require Import Model.Router.
Local Open Scope Z_scope.

Record arith := {
  F : Type;
  f0 : F; f1 : F;
  fadd : F -> F -> F; fsub : F -> F -> F; fmul : F -> F -> F;
  fltb : F -> F -> bool;          (* strict "<"; false when unordered *)
  fofZ : Z -> F                   (* conversion of an integer *)
}.

Section Model.
Variable A : arith.
Notation F := (F A).
Notation "x +. y" := (fadd A x y) (at level 50, left associativity).
Notation "x -. y" := (fsub A x y) (at level 50, left associativity).
Notation "x *. y" := (fmul A x y) (at level 40, left associativity).
Notation "x <. y" := (fltb A x y) (at level 70).
Notation "x >. y" := (fltb A y x) (at level 70).

Record tparams := {
  tpTopicWeight : F;
  tpTIMWeight : F; tpTIMQuantum : Z; tpTIMCap : F;
  tpFMDWeight : F; tpFMDDecay : F; tpFMDCap : F;
  tpMMDWeight : F; tpMMDDecay : F; tpMMDCap : F; tpMMDThreshold : F; tpMMDWindow : Z; tpMMDActivation : Z;
  tpMFPWeight : F; tpMFPDecay : F;
  tpIMDWeight : F; tpIMDDecay : F
}.

Record sparams := {
  spTopics : list (topic * tparams);
  spTopicScoreCap : F;
  spAppWeight : F;
  spIPWeight : F; spIPThreshold : nat;
  spBPWeight : F; spBPThreshold : F; spBPDecay : F;
  spDecayToZero : F;
  spRetain : Z;
  spSeenTTL : Z
}.

Record tstats := {
  inMesh : bool; graftTime : Z; meshTime : Z;
  fmd : F; mmd : F; mmdActive : bool; mfp : F; imd : F
}.
Definition tstats0 : tstats :=
  {| inMesh := false; graftTime := 0; meshTime := 0; fmd := f0 A; mmd := f0 A; mmdActive := false; mfp := f0 A; imd := f0 A |}.

Record pstats := { connected : bool; expire : Z; topics : list (topic * tstats); ips : list nat; bp : F }.

Inductive dstatus := DUnknown | DValid | DInvalid | DIgnored | DThrottled.
Record drec := { dstat : dstatus; validated : Z; dpeers : list peer }.

Record sstate := {
  prm : sparams;
  pst : list (peer * pstats);
  recs : list (nat * drec);            (* delivery records by message id *)
  dq : list (nat * Z);                 (* expiry queue, oldest first *)
  snow : Z
}.

Definition sinit (P : sparams) : sstate := {| prm := P; pst := []; recs := []; dq := []; snow := 0 |}.

Definition set_pst (s : sstate) l := {| prm := prm s; pst := l; recs := recs s; dq := dq s; snow := snow s |}.
Definition set_recs (s : sstate) r q := {| prm := prm s; pst := pst s; recs := r; dq := q; snow := snow s |}.

Definition cap_at (x c : F) : F := if x >. c then c else x.

(* ---- the score function ---- *)
Definition topic_score (tp : tparams) (ts : tstats) : F :=
  (* P1 is skipped when its quantum is zero (not configured; accepted under SkipAtomicValidation) *)
  let s1 := if inMesh ts && negb (tpTIMQuantum tp =? 0)
            then f0 A +. cap_at (fofZ A (Z.quot (meshTime ts) (tpTIMQuantum tp))) (tpTIMCap tp) *. tpTIMWeight tp
            else f0 A in
  let s2 := s1 +. fmd ts *. tpFMDWeight tp in
  let s3 := if mmdActive ts && (mmd ts <. tpMMDThreshold tp)
            then let d := tpMMDThreshold tp -. mmd ts in s2 +. (d *. d) *. tpMMDWeight tp
            else s2 in
  let s4 := s3 +. mfp ts *. tpMFPWeight tp in
  s4 +. (imd ts *. imd ts) *. tpIMDWeight tp.

(* number of tracked peers that have this ip *)
Definition peers_in_ip (s : sstate) (ip : nat) : nat := length (filter (fun e => memb ip (ips (snd e))) (pst s)).

Definition ip_factor (s : sstate) (ps : pstats) : F :=
  fold_left (fun acc ip =>
               let n := peers_in_ip s ip in
               if Nat.ltb (spIPThreshold (prm s)) n
               then let sp := fofZ A (Z.of_nat (n - spIPThreshold (prm s))) in acc +. sp *. sp
               else acc) (ips ps) (f0 A).

(* [app]: the application-specific score of the peer (an input) *)
Definition topics_sum (P : sparams) (l : list (topic * tstats)) : F :=
  fold_left (fun sc e => match aget (fst e) (spTopics P) with
                         | None => sc
                         | Some tp => sc +. topic_score tp (snd e) *. tpTopicWeight tp
                         end) l (f0 A).
Definition cap_topics (P : sparams) (sc : F) : F :=
  if (spTopicScoreCap P >. f0 A) && (sc >. spTopicScoreCap P) then spTopicScoreCap P else sc.
Definition p7 (P : sparams) (b : F) : F :=
  if b >. spBPThreshold P then let e := b -. spBPThreshold P in (e *. e) *. spBPWeight P else f0 A.
Definition score_of_stats (s : sstate) (app : F) (ps : pstats) : F :=
  let P := prm s in
  let sc1 := cap_topics P (topics_sum P (topics ps)) in
  let sc2 := sc1 +. app *. spAppWeight P in
  let sc3 := sc2 +. ip_factor s ps *. spIPWeight P in
  if bp ps >. spBPThreshold P then sc3 +. p7 P (bp ps) else sc3.

Definition score (s : sstate) (app : list (peer * F)) (p : peer) : F :=
  match aget p (pst s) with
  | None => f0 A
  | Some ps => score_of_stats s (match aget p app with Some v => v | None => f0 A end) ps
  end.

(* ---- counters ---- *)
Definition upd_topic (ps : pstats) (t : topic) (f : tstats -> tstats) (P : sparams) : pstats :=
  (* getTopicStats: existing stats, or fresh ones iff the topic is scored *)
  match aget t (topics ps) with
  | Some ts => {| connected := connected ps; expire := expire ps; topics := aset t (f ts) (topics ps); ips := ips ps; bp := bp ps |}
  | None => match aget t (spTopics P) with
            | Some _ => {| connected := connected ps; expire := expire ps; topics := aset t (f tstats0) (topics ps); ips := ips ps; bp := bp ps |}
            | None => ps
            end
  end.

Definition with_peer (s : sstate) (p : peer) (f : pstats -> pstats) : sstate :=
  match aget p (pst s) with
  | Some ps => set_pst s (aset p (f ps) (pst s))
  | None => s
  end.

Definition tp_of (s : sstate) (t : topic) : option tparams := aget t (spTopics (prm s)).

Definition set_ts (ts : tstats) im gt mt a b c d e :=
  {| inMesh := im; graftTime := gt; meshTime := mt; fmd := a; mmd := b; mmdActive := c; mfp := d; imd := e |}.

Definition mark_invalid (s : sstate) (p : peer) (t : topic) : sstate :=
  with_peer s p (fun ps => upd_topic ps t (fun ts =>
    set_ts ts (inMesh ts) (graftTime ts) (meshTime ts) (fmd ts) (mmd ts) (mmdActive ts) (mfp ts) (imd ts +. f1 A)) (prm s)).

Definition mark_first (s : sstate) (p : peer) (t : topic) : sstate :=
  match tp_of s t with
  | None => s
  | Some tp =>
      with_peer s p (fun ps => upd_topic ps t (fun ts =>
        let a := cap_at (fmd ts +. f1 A) (tpFMDCap tp) in
        let b := if inMesh ts then cap_at (mmd ts +. f1 A) (tpMMDCap tp) else mmd ts in
        set_ts ts (inMesh ts) (graftTime ts) (meshTime ts) a b (mmdActive ts) (mfp ts) (imd ts)) (prm s))
  end.

(* [validated] = None: the duplicate arrived before validation finished *)
Definition mark_duplicate (s : sstate) (p : peer) (t : topic) (validated : option Z) : sstate :=
  match tp_of s t with
  | None => s
  | Some tp =>
      with_peer s p (fun ps => upd_topic ps t (fun ts =>
        if negb (inMesh ts) then ts
        else if match validated with Some v => tpMMDWindow tp <? snow s - v | None => false end then ts
        else set_ts ts (inMesh ts) (graftTime ts) (meshTime ts) (fmd ts) (cap_at (mmd ts +. f1 A) (tpMMDCap tp)) (mmdActive ts) (mfp ts) (imd ts)) (prm s))
  end.

(* getRecord *)
Definition get_rec (s : sstate) (i : nat) : sstate * drec :=
  match aget i (recs s) with
  | Some r => (s, r)
  | None => let r := {| dstat := DUnknown; validated := 0; dpeers := [] |} in
            (set_recs s (aset i r (recs s)) (dq s ++ [(i, snow s + spSeenTTL (prm s))]), r)
  end.
Definition put_rec (s : sstate) (i : nat) (r : drec) : sstate := set_recs s (aset i r (recs s)) (dq s).

Inductive reason := RSig (* missing / invalid / unexpected signature, unexpected auth info, self origin *)
                  | RBlacklist (* blacklisted peer / source *) | RQueueFull | RThrottled | RIgnored | ROther (* validation failed *).

Definition sticky (tp : tparams) (ts : tstats) (need_mesh : bool) : F :=
  if (if need_mesh then inMesh ts else true) && mmdActive ts && (mmd ts <. tpMMDThreshold tp)
  then let d := tpMMDThreshold tp -. mmd ts in mfp ts +. d *. d
  else mfp ts.

Inductive sop :=
| SAddPeer (p : peer)                       (* OnNewOutboundStream *)
| SRemovePeer (p : peer) (app : F)          (* OnClosedOutboundStream; the application score is read *)
| SGraft (p : peer) (t : topic) | SPrune (p : peer) (t : topic)
| SValidate (i : nat)
| SDeliver (i : nat) (from : peer) (t : topic)
| SReject (i : nat) (from : peer) (t : topic) (r : reason)
| SDuplicate (i : nat) (from : peer) (t : topic)
| SPenalty (p : peer) (n : Z)
| SRefresh | SGc
| SSetTopic (t : topic) (tp : tparams)
| SSetIPs (p : peer) (l : list nat)
| SAdvance (d : Z).

Definition decay0 (x d z : F) : F := let y := x *. d in if y <. z then f0 A else y.

Definition sstep (s : sstate) (o : sop) : option sstate :=
  match o with
  | SAddPeer p =>
      match aget p (pst s) with
      | Some ps => Some (set_pst s (aset p {| connected := true; expire := expire ps; topics := topics ps; ips := []; bp := bp ps |} (pst s)))
      | None => Some (set_pst s (aset p {| connected := true; expire := 0; topics := []; ips := []; bp := f0 A |} (pst s)))
      end
  | SRemovePeer p app =>
      match aget p (pst s) with
      | None => Some s
      | Some ps =>
          let sc := score_of_stats s app ps in
              if sc >. f0 A then Some (set_pst s (adel p (pst s)))
              else
                let ts' := map (fun e => (fst e,
                               let ts := snd e in
                               let m := match aget (fst e) (spTopics (prm s)) with
                                        | Some tp => sticky tp ts true
                                        | None => mfp ts end in
                               set_ts ts false (graftTime ts) (meshTime ts) (f0 A) (mmd ts) (mmdActive ts) m (imd ts))) (topics ps) in
                Some (set_pst s (aset p {| connected := false; expire := snow s + spRetain (prm s); topics := ts'; ips := ips ps; bp := bp ps |} (pst s)))
      end
  | SGraft p t =>
      Some (with_peer s p (fun ps => upd_topic ps t (fun ts =>
              set_ts ts true (snow s) 0 (fmd ts) (mmd ts) false (mfp ts) (imd ts)) (prm s)))
  | SPrune p t =>
      match tp_of s t with
      | None => Some s
      | Some tp => Some (with_peer s p (fun ps => upd_topic ps t (fun ts =>
                     set_ts ts false (graftTime ts) (meshTime ts) (fmd ts) (mmd ts) (mmdActive ts) (sticky tp ts false) (imd ts)) (prm s)))
      end
  | SValidate i => Some (fst (get_rec s i))
  | SDeliver i from t =>
      let s1 := mark_first s from t in
      let (s2, r) := get_rec s1 i in
      match dstat r with
      | DUnknown =>
          let s3 := put_rec s2 i {| dstat := DValid; validated := snow s; dpeers := dpeers r |} in
          Some (fold_left (fun st q => if Nat.eqb q from then st else mark_duplicate st q t None) (dpeers r) s3)
      | _ => Some s2
      end
  | SReject i from t r =>
      match r with
      | RSig => Some (mark_invalid s from t)
      | RBlacklist | RQueueFull => Some s
      | _ =>
          let (s2, rc) := get_rec s i in
          match dstat rc with
          | DUnknown =>
              match r with
              | RThrottled => Some (put_rec s2 i {| dstat := DThrottled; validated := validated rc; dpeers := [] |})
              | RIgnored => Some (put_rec s2 i {| dstat := DIgnored; validated := validated rc; dpeers := [] |})
              | _ =>
                  let s3 := put_rec s2 i {| dstat := DInvalid; validated := validated rc; dpeers := [] |} in
                  Some (fold_left (fun st q => mark_invalid st q t) (dpeers rc) (mark_invalid s3 from t))
              end
          | _ => Some s2
          end
      end
  | SDuplicate i from t =>
      let (s2, rc) := get_rec s i in
      if memb from (dpeers rc) then Some s2
      else match dstat rc with
           | DUnknown => Some (put_rec s2 i {| dstat := DUnknown; validated := validated rc; dpeers := dpeers rc ++ [from] |})
           | DValid => Some (mark_duplicate (put_rec s2 i {| dstat := DValid; validated := validated rc; dpeers := dpeers rc ++ [from] |}) from t (Some (validated rc)))
           | DInvalid => Some (mark_invalid s2 from t)
           | _ => Some s2
           end
  | SPenalty p n =>
      Some (with_peer s p (fun ps => {| connected := connected ps; expire := expire ps; topics := topics ps; ips := ips ps; bp := bp ps +. fofZ A n |}))
  | SRefresh =>
      let P := prm s in
      let keep := filter (fun e => connected (snd e) || negb (expire (snd e) <? snow s)) (pst s) in
      Some (set_pst s (map (fun e =>
        let ps := snd e in
        if negb (connected ps) then e
        else (fst e,
              {| connected := true; expire := expire ps;
                 topics := map (fun te =>
                    match aget (fst te) (spTopics P) with
                    | None => te
                    | Some tp =>
                        let ts := snd te in
                        let mt := if inMesh ts then snow s - graftTime ts else meshTime ts in
                        let act := if inMesh ts && (tpMMDActivation tp <? mt) then true else mmdActive ts in
                        (fst te, set_ts ts (inMesh ts) (graftTime ts) mt
                                   (decay0 (fmd ts) (tpFMDDecay tp) (spDecayToZero P))
                                   (decay0 (mmd ts) (tpMMDDecay tp) (spDecayToZero P))
                                   act
                                   (decay0 (mfp ts) (tpMFPDecay tp) (spDecayToZero P))
                                   (decay0 (imd ts) (tpIMDDecay tp) (spDecayToZero P)))
                    end) (topics ps);
                 ips := ips ps;
                 bp := decay0 (bp ps) (spBPDecay P) (spDecayToZero P) |})) keep))
  | SGc =>
      let dead := map fst (filter (fun e => snd e <? snow s) (dq s)) in
      (* the queue is in expiry order: everything before the first live entry goes *)
      let fix drop (q : list (nat * Z)) := match q with
                                            | [] => []
                                            | e :: q' => if snd e <? snow s then drop q' else q end in
      let q' := drop (dq s) in
      let gone := firstn (length (dq s) - length q') (dq s) in
      Some (set_recs s (filter (fun e => negb (memb (fst e) (map fst gone))) (recs s)) q')
  | SSetTopic t tp =>
      let P := prm s in
      let P' := {| spTopics := aset t tp (spTopics P); spTopicScoreCap := spTopicScoreCap P; spAppWeight := spAppWeight P;
                   spIPWeight := spIPWeight P; spIPThreshold := spIPThreshold P; spBPWeight := spBPWeight P;
                   spBPThreshold := spBPThreshold P; spBPDecay := spBPDecay P; spDecayToZero := spDecayToZero P;
                   spRetain := spRetain P; spSeenTTL := spSeenTTL P |} in
      let s1 := {| prm := P'; pst := pst s; recs := recs s; dq := dq s; snow := snow s |} in
      match aget t (spTopics P) with
      | None => Some s1
      | Some old =>
          if (tpFMDCap tp <. tpFMDCap old) || (tpMMDCap tp <. tpMMDCap old) then
            Some (set_pst s1 (map (fun e =>
              let ps := snd e in
              (fst e, {| connected := connected ps; expire := expire ps;
                         topics := map (fun te => if Nat.eqb (fst te) t
                                                  then let ts := snd te in
                                                       (fst te, set_ts ts (inMesh ts) (graftTime ts) (meshTime ts)
                                                                  (cap_at (fmd ts) (tpFMDCap tp)) (cap_at (mmd ts) (tpMMDCap tp))
                                                                  (mmdActive ts) (mfp ts) (imd ts))
                                                  else te) (topics ps);
                         ips := ips ps; bp := bp ps |})) (pst s1)))
          else Some s1
      end
  | SSetIPs p l =>
      Some (with_peer s p (fun ps => {| connected := connected ps; expire := expire ps; topics := topics ps; ips := l; bp := bp ps |}))
  | SAdvance d => if d <? 0 then None else Some {| prm := prm s; pst := pst s; recs := recs s; dq := dq s; snow := snow s + d |}
  end.

(* the parameters in force after an operation: only SetTopicScoreParams changes them, and what it changes them to depends
   on the operation alone *)
Definition prm_after (P : sparams) (o : sop) : sparams :=
  match o with
  | SSetTopic t tp =>
      {| spTopics := aset t tp (spTopics P); spTopicScoreCap := spTopicScoreCap P; spAppWeight := spAppWeight P;
         spIPWeight := spIPWeight P; spIPThreshold := spIPThreshold P; spBPWeight := spBPWeight P;
         spBPThreshold := spBPThreshold P; spBPDecay := spBPDecay P; spDecayToZero := spDecayToZero P;
         spRetain := spRetain P; spSeenTTL := spSeenTTL P |}
  | _ => P
  end.

Fixpoint srun (s : sstate) (l : list sop) : option sstate :=
  match l with
  | [] => Some s
  | o :: l' => match sstep s o with Some s' => srun s' l' | None => None end
  end.

End Model.
