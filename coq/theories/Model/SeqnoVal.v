(* Model of validation_builtin.go BasicSeqnoValidator: per-author nonce store, validations as
   two-phase threads (shared-lock read + compare; exclusive-lock re-read + compare + store). *)
From Coq Require Import List Bool NArith Arith.
Import ListNotations.
Local Open Scope N_scope.

Definition author := nat.
Definition tid := nat.

Inductive vres := Accept | Ignore.

(* binary.BigEndian.Uint64 on the first 8 bytes; the Go function indexes b[7], so 1..7 bytes is a
   run-time panic in the pinned code and "malformed -> Ignore" after the fix: [None] here. *)
Fixpoint be (l : list N) (acc : N) : N :=
  match l with [] => acc | b :: l' => be l' (acc * 256 + b) end.
Definition decode (bytes : list N) : option N :=
  match bytes with
  | [] => Some 0
  | _ => if Nat.ltb (length bytes) 8 then None else Some (be (firstn 8 bytes) 0)
  end.

Fixpoint sget (a : author) (st : list (author * N)) : option N :=
  match st with [] => None | (b, n) :: st' => if Nat.eqb a b then Some n else sget a st' end.
Definition nonce_of (a : author) (st : list (author * N)) : N :=
  match sget a st with Some n => n | None => 0 end.

Inductive phase := Fresh | Second.     (* Fresh: before the shared-lock read; Second: waiting for the exclusive lock *)
Record thr := { t_id : tid; t_author : author; t_seq : list N; t_phase : phase }.

Record st := {
  store : list (author * N);             (* PeerMetadataStore, decoded *)
  threads : list thr;
  accepted : list (author * N);          (* acceptance log, NEWEST FIRST *)
  results : list (tid * vres)
}.
Definition init : st := {| store := []; threads := []; accepted := []; results := [] |}.

Inductive action :=
| AStart (i : tid) (a : author) (seq : list N)
| AP1 (i : tid)        (* first Get under RLock + compare *)
| AP2 (i : tid).       (* exclusive section: Get + compare + Put *)

Fixpoint find_thr (i : tid) (l : list thr) : option thr :=
  match l with [] => None | t :: l' => if Nat.eqb i (t_id t) then Some t else find_thr i l' end.
Definition del_thr (i : tid) (l : list thr) : list thr := filter (fun t => negb (Nat.eqb i (t_id t))) l.

Definition step (s : st) (x : action) : option st :=
  match x with
  | AStart i a seq =>
      match find_thr i (threads s) with
      | Some _ => None
      | None => Some {| store := store s;
                        threads := {| t_id := i; t_author := a; t_seq := seq; t_phase := Fresh |} :: threads s;
                        accepted := accepted s; results := results s |}
      end
  | AP1 i =>
      match find_thr i (threads s) with
      | Some t =>
          match t_phase t with
          | Fresh =>
              match decode (t_seq t) with
              | None => Some {| store := store s; threads := del_thr i (threads s);
                                accepted := accepted s; results := (i, Ignore) :: results s |}
              | Some q =>
                  if q <=? nonce_of (t_author t) (store s)
                  then Some {| store := store s; threads := del_thr i (threads s);
                               accepted := accepted s; results := (i, Ignore) :: results s |}
                  else Some {| store := store s;
                               threads := {| t_id := i; t_author := t_author t; t_seq := t_seq t; t_phase := Second |}
                                            :: del_thr i (threads s);
                               accepted := accepted s; results := results s |}
              end
          | Second => None
          end
      | None => None
      end
  | AP2 i =>
      match find_thr i (threads s) with
      | Some t =>
          match t_phase t, decode (t_seq t) with
          | Second, Some q =>
              if q <=? nonce_of (t_author t) (store s)
              then Some {| store := store s; threads := del_thr i (threads s);
                           accepted := accepted s; results := (i, Ignore) :: results s |}
              else Some {| store := (t_author t, q) :: store s; threads := del_thr i (threads s);
                           accepted := (t_author t, q) :: accepted s; results := (i, Accept) :: results s |}
          | _, _ => None
          end
      | None => None
      end
  end.

Fixpoint run (s : st) (l : list action) : option st :=
  match l with
  | [] => Some s
  | a :: l' => match step s a with Some s' => run s' l' | None => None end
  end.

(* accepted sequence numbers of one author, newest first *)
Definition acc_of (a : author) (l : list (author * N)) : list N :=
  map snd (filter (fun e => Nat.eqb a (fst e)) l).

Fixpoint strictly_decreasing (l : list N) : bool :=
  match l with
  | [] => true
  | x :: l' => match l' with [] => true | y :: _ => (y <? x) && strictly_decreasing l' end
  end.
