(* C05: one node's interest announcements as seen by its peers.  The node announces a topic while it holds a
   subscription (on a topic not fanout-only) or a relay reference; an announcement that hits a full outbound
   queue is retried later, after re-checking the CURRENT state; every new outbound stream starts with a hello
   packet listing the current interests.  Whether a push succeeds is an observation (the queue is a resource
   the model does not predict).  Executable, no proofs. *)
From Coq Require Import List Bool Arith.
Import ListNotations.
From PS Require Import Model.Router.

Record astate := {
  a_subs : list (topic * nat);      (* live subscriptions per topic *)
  a_relays : list (topic * nat);    (* relay references per topic *)
  a_conn : list peer;               (* peers with an outbound stream *)
  a_view : list (peer * list topic);  (* what each connected peer has been told (its PubSub.topics entry for us) *)
  a_pending : list (peer * topic * bool)   (* announcements waiting in announceRetry *)
}.
Definition ainit : astate := {| a_subs := []; a_relays := []; a_conn := []; a_view := []; a_pending := [] |}.

Definition cnt (t : topic) (l : list (topic * nat)) : nat := match aget t l with Some n => n | None => 0 end.
Definition interested (s : astate) (t : topic) : bool := Nat.ltb 0 (cnt t (a_subs s)) || Nat.ltb 0 (cnt t (a_relays s)).
Definition view_of (s : astate) (q : peer) : list topic := aget_l q (a_view s).
Definition told (s : astate) (q : peer) (t : topic) : bool := memb t (view_of s q).

Definition set_view (s : astate) (q : peer) (t : topic) (b : bool) : astate :=
  {| a_subs := a_subs s; a_relays := a_relays s; a_conn := a_conn s;
     a_view := aset q (if b then sadd t (view_of s q) else srem t (view_of s q)) (a_view s);
     a_pending := a_pending s |}.
Definition add_pending (s : astate) (q : peer) (t : topic) (b : bool) : astate :=
  {| a_subs := a_subs s; a_relays := a_relays s; a_conn := a_conn s; a_view := a_view s; a_pending := a_pending s ++ [(q, t, b)] |}.

(* announce to every connected peer; [full] = the peers whose queue refused the push *)
Definition announce (s : astate) (t : topic) (b : bool) (full : list peer) : astate :=
  fold_left (fun st q => if memb q full then add_pending st q t b else set_view st q t b) (a_conn s) s.

Inductive aop :=
| ASubscribe (t : topic) (full : list peer) | ACancel (t : topic) (full : list peer)
| ARelay (t : topic) (full : list peer) | ARelayCancel (t : topic) (full : list peer)
| AConnect (q : peer)            (* outbound stream up: hello packet with the current interests goes first *)
| ADisconnect (q : peer)
| ARetry (k : nat) (full : bool) (* the k-th pending announcement fires; [full] = the queue refuses again *)
| AForget (q : peer).            (* the receiver drops what it was told although the connection survives (its outbound
                                    stream to us was reset): known finding *)

Definition set_counts (s : astate) su re : astate :=
  {| a_subs := su; a_relays := re; a_conn := a_conn s; a_view := a_view s; a_pending := a_pending s |}.

Definition all_topics (s : astate) : list topic :=
  filter (interested s) (map fst (a_subs s) ++ map fst (a_relays s)).
Fixpoint dedup_t (l : list topic) : list topic := match l with [] => [] | x :: r => x :: filter (fun y => negb (Nat.eqb x y)) (dedup_t r) end.

Definition astep (s : astate) (o : aop) : option astate :=
  match o with
  | ASubscribe t full =>
      let was := interested s t in
      let s1 := set_counts s (aset t (S (cnt t (a_subs s))) (a_subs s)) (a_relays s) in
      Some (if was then s1 else announce s1 t true full)
  | ACancel t full =>
      match cnt t (a_subs s) with
      | O => None
      | S n => let s1 := set_counts s (aset t n (a_subs s)) (a_relays s) in
               Some (if interested s1 t then s1 else announce s1 t false full)
      end
  | ARelay t full =>
      let was := interested s t in
      let s1 := set_counts s (a_subs s) (aset t (S (cnt t (a_relays s))) (a_relays s)) in
      Some (if was then s1 else announce s1 t true full)
  | ARelayCancel t full =>
      match cnt t (a_relays s) with
      | O => None
      | S n => let s1 := set_counts s (a_subs s) (aset t n (a_relays s)) in
               Some (if interested s1 t then s1 else announce s1 t false full)
      end
  | AConnect q =>
      if memb q (a_conn s) then None
      else Some {| a_subs := a_subs s; a_relays := a_relays s; a_conn := a_conn s ++ [q];
                   a_view := aset q (dedup_t (all_topics s)) (a_view s);
                   a_pending := filter (fun e => negb (Nat.eqb (fst (fst e)) q)) (a_pending s) |}
  | ADisconnect q =>
      Some {| a_subs := a_subs s; a_relays := a_relays s; a_conn := srem q (a_conn s); a_view := adel q (a_view s);
              a_pending := a_pending s |}
  | ARetry k full =>
      match nth_error (a_pending s) k with
      | None => None
      | Some (q, t, b) =>
          let rest := firstn k (a_pending s) ++ skipn (S k) (a_pending s) in
          let s1 := {| a_subs := a_subs s; a_relays := a_relays s; a_conn := a_conn s; a_view := a_view s; a_pending := rest |} in
          (* announceRetry re-checks the current state, and the peer must still have a queue *)
          if Bool.eqb (interested s t) b && memb q (a_conn s)
          then Some (if full then add_pending s1 q t b else set_view s1 q t b)
          else Some s1
      end
  | AForget q =>
      Some {| a_subs := a_subs s; a_relays := a_relays s; a_conn := a_conn s; a_view := aset q [] (a_view s); a_pending := a_pending s |}
  end.

Fixpoint arun (s : astate) (l : list aop) : option astate :=
  match l with [] => Some s | o :: l' => match astep s o with Some s' => arun s' l' | None => None end end.
