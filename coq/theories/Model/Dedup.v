(* Model of the duplicate-suppression gates of pubsub.go / validation.go for a node with ONE
   validation worker: shouldPush's seen check (event loop), the validation queue, markSeen as the
   atomic gate in validation.validate (worker) and in pushMsg (direct path, no validators),
   a user validator that may block the worker, local publication through ValidateLocal, and the
   seen cache with its periodic sweep under explicit virtual time. *)
From Coq Require Import List Bool ZArith Arith.
Import ListNotations.
From PS Require Import Model.TimeCache.
Local Open Scope Z_scope.

Inductive verdict := VAccept | VReject | VIgnore.

Record cfg := {
  has_val : bool;                   (* a validator applies (otherwise the direct path is taken) *)
  verdict_of : list (id * verdict); (* the validator's verdict per message id (default Accept) *)
  blocks : list id;                 (* ids on which the validator blocks until released *)
  qcap : nat;                       (* validation queue capacity *)
  interval : Z                      (* sweep interval of the seen cache *)
}.

Fixpoint vlook (i : id) (l : list (id * verdict)) : verdict :=
  match l with [] => VAccept | (j, v) :: l' => if Nat.eqb i j then v else vlook i l' end.
Definition memb (i : nat) (l : list nat) : bool := existsb (Nat.eqb i) l.

Inductive ev :=
| EInvoke (i : id)      (* the application's validator was called for this id *)
| EDeliver (i : id)     (* publishMessage: delivered to subscriptions and forwarded *)
| EDup (i : id)         (* traced as duplicate *)
| EQFull (i : id)       (* dropped: validation queue full *)
| ELocal (ok : bool).   (* return of a local Publish: nil / error *)

Record st := {
  cache : tc; clock : Z; next_sweep : Z;
  queue : list id;                 (* validateQ, oldest first *)
  busy : option id;                (* the worker is inside a blocking validator for this id *)
  passes : list (id * Z)           (* ghost: (id, time) of every successful markSeen, newest first *)
}.

Definition init (s : strategy) (ttl0 : Z) (c : cfg) : st :=
  {| cache := {| strat := s; ttl := ttl0; entries := [] |}; clock := 0; next_sweep := interval c;
     queue := []; busy := None; passes := [] |}.

Inductive op :=
| ORecv (ids : list id)            (* one RPC carrying these messages, in order *)
| ORelease (v : verdict)           (* the blocked validator returns *)
| OLocal (i : id)                  (* Topic.Publish of a message with this id *)
| OSleep (d : Z).                  (* virtual time passes *)

Definition set_cache (s : st) c := {| cache := c; clock := clock s; next_sweep := next_sweep s; queue := queue s; busy := busy s; passes := passes s |}.

(* markSeen at the current instant *)
Definition gate (s : st) (i : id) : bool * st :=
  let (fresh, c) := tc_add (cache s) i (clock s) in
  (fresh, {| cache := c; clock := clock s; next_sweep := next_sweep s; queue := queue s; busy := busy s;
             passes := if fresh then (i, clock s) :: passes s else passes s |}).

(* the worker drains the queue until it is empty or a validator blocks *)
Fixpoint drain (c : cfg) (fuel : nat) (s : st) (out : list ev) : st * list ev :=
  match fuel with
  | O => (s, out)
  | S f =>
      match busy s, queue s with
      | Some _, _ => (s, out)
      | None, [] => (s, out)
      | None, i :: q' =>
          let s1 := {| cache := cache s; clock := clock s; next_sweep := next_sweep s; queue := q'; busy := None; passes := passes s |} in
          let (fresh, s2) := gate s1 i in
          if fresh then
            if memb i (blocks c)
            then ({| cache := cache s2; clock := clock s2; next_sweep := next_sweep s2; queue := queue s2; busy := Some i; passes := passes s2 |},
                  out ++ [EInvoke i])
            else match vlook i (verdict_of c) with
                 | VAccept => drain c f s2 (out ++ [EInvoke i; EDeliver i])
                 | _ => drain c f s2 (out ++ [EInvoke i])
                 end
          else drain c f s2 (out ++ [EDup i])
      end
  end.

(* shouldPush for every message of the RPC first (seen check), then pushMsg for the survivors *)
Fixpoint filter_seen (s : st) (ids : list id) (keep : list id) (out : list ev) : st * list id * list ev :=
  match ids with
  | [] => (s, keep, out)
  | i :: ids' =>
      let (seen, c) := tc_has (cache s) i (clock s) in
      let s' := set_cache s c in
      if seen then filter_seen s' ids' keep (out ++ [EDup i]) else filter_seen s' ids' (keep ++ [i]) out
  end.

Fixpoint push_all (c : cfg) (s : st) (ids : list id) (out : list ev) : st * list ev :=
  match ids with
  | [] => (s, out)
  | i :: ids' =>
      if has_val c then
        if Nat.ltb (length (queue s)) (qcap c)
        then push_all c {| cache := cache s; clock := clock s; next_sweep := next_sweep s; queue := queue s ++ [i]; busy := busy s; passes := passes s |} ids' out
        else push_all c s ids' (out ++ [EQFull i])
      else
        let (fresh, s') := gate s i in
        push_all c s' ids' (if fresh then out ++ [EDeliver i] else out)
  end.

(* time advances to [target]; every sweep instant on the way fires *)
Fixpoint advance (c : cfg) (fuel : nat) (s : st) (target : Z) : st :=
  match fuel with
  | O => s
  | S f =>
      if next_sweep s <=? target
      then advance c f {| cache := tc_sweep (cache s) (next_sweep s); clock := next_sweep s;
                          next_sweep := next_sweep s + interval c; queue := queue s; busy := busy s; passes := passes s |} target
      else {| cache := cache s; clock := target; next_sweep := next_sweep s; queue := queue s; busy := busy s; passes := passes s |}
  end.

Definition step (c : cfg) (s : st) (o : op) : option (st * list ev) :=
  match o with
  | ORecv ids =>
      let '(s1, keep, out1) := filter_seen s ids [] [] in
      let (s2, out2) := push_all c s1 keep out1 in
      Some (drain c (S (length (queue s2))) s2 out2)
  | ORelease v =>
      match busy s with
      | Some i =>
          let s1 := {| cache := cache s; clock := clock s; next_sweep := next_sweep s; queue := queue s; busy := None; passes := passes s |} in
          Some (drain c (S (length (queue s1))) s1 (match v with VAccept => [EDeliver i] | _ => [] end))
      | None => None
      end
  | OLocal i =>
      let (fresh, s1) := gate s i in
      if fresh then
        if has_val c then
          match vlook i (verdict_of c) with
          | VAccept => Some (s1, [EInvoke i; EDeliver i; ELocal true])
          | _ => Some (s1, [EInvoke i; ELocal false])
          end
        else Some (s1, [EDeliver i; ELocal true])
      else Some (s1, [ELocal true])        (* a local duplicate is success; raw tracers are not told *)
  | OSleep d =>
      if d <? 0 then None
      else Some (advance c (S (S (Z.to_nat (d / interval c)))) s (clock s + d), [])
  end.

Fixpoint run (c : cfg) (s : st) (l : list op) : option (st * list ev) :=
  match l with
  | [] => Some (s, [])
  | o :: l' => match step c s o with
               | Some (s1, e1) => match run c s1 l' with Some (s2, e2) => Some (s2, e1 ++ e2) | None => None end
               | None => None
               end
  end.

Definition count_ev (f : ev -> bool) (l : list ev) : nat := length (filter f l).
Definition is_invoke (i : id) (e : ev) := match e with EInvoke j => Nat.eqb i j | _ => false end.
Definition is_deliver (i : id) (e : ev) := match e with EDeliver j => Nat.eqb i j | _ => false end.
Definition passes_of (i : id) (s : st) : list Z := map snd (filter (fun p => Nat.eqb i (fst p)) (passes s)).
