(* Models of FloodSubRouter.Publish and RandomSubRouter.Publish (C06: "for each of the three routers")
   with the trace events they owe an attached tracer (C19).  Executable, no proofs. *)
From Coq Require Import List Bool Arith.
Import ListNotations.
From PS Require Import Model.Router Model.Trace.

Record srstate := {
  sr_peers : list (peer * bool);          (* outbound queue exists; true = speaks floodsub only (RandomSub: rs.peers[p] = FloodSubID) *)
  sr_tmap : list (topic * list peer);     (* PubSub.topics *)
  sr_joined : list topic;
  sr_seen : list nat
}.
Definition srinit : srstate := {| sr_peers := []; sr_tmap := []; sr_joined := []; sr_seen := [] |}.

Record smsg := { sm_id : nat; sm_topic : topic; sm_from : option peer; sm_author : option peer }.
Definition sexcl (m : smsg) (q : peer) : bool :=
  (match sm_from m with Some x => Nat.eqb q x | None => false end)
  || (match sm_author m with Some x => Nat.eqb q x | None => false end).
Definition has_q (s : srstate) (p : peer) : bool := match aget p (sr_peers s) with Some _ => true | None => false end.
Definition is_fs (s : srstate) (p : peer) : bool := match aget p (sr_peers s) with Some b => b | None => false end.

(* FloodSub: every topic peer with a queue, except the source and the author *)
Definition fs_recipients (s : srstate) (m : smsg) : list peer :=
  filter (fun p => negb (sexcl m p) && has_q s p) (aget_l (sm_topic m) (sr_tmap s)).

(* RandomSub: the floodsub-only topic peers, plus all randomsub topic peers when there are at most RandomSubD
   of them, otherwise a random subset of max(RandomSubD, ceil(sqrt(size))) of them ([chosen], an observation) *)
Definition RandomSubD : nat := 6.
Fixpoint csqrt_aux (fuel k n : nat) : nat :=
  match fuel with O => k | S f => if Nat.leb n (k * k) then k else csqrt_aux f (S k) n end.
Definition csqrt (n : nat) : nat := csqrt_aux (S n) 0 n.
Definition rs_target (size nrs : nat) : nat := Nat.min (Nat.max RandomSubD (csqrt size)) nrs.
Definition rs_recipients (s : srstate) (size : nat) (m : smsg) (chosen : list peer) : option (list peer) :=
  match aget (sm_topic m) (sr_tmap s) with
  | None => match chosen with [] => Some [] | _ => None end
  | Some tm =>
      let cand := filter (fun p => negb (sexcl m p)) tm in
      let fl := filter (is_fs s) cand in
      let rsp := filter (fun p => negb (is_fs s p)) cand in
      if Nat.ltb RandomSubD (length rsp) then
        if nodup_b chosen && subset chosen rsp && Nat.eqb (length chosen) (rs_target size (length rsp))
        then Some (filter (has_q s) (fl ++ chosen)) else None
      else match chosen with [] => Some (filter (has_q s) (fl ++ rsp)) | _ => None end
  end.

Inductive srop :=
| RAddPeer (p : peer) (fsonly : bool) | RRemovePeer (p : peer)
| RSub (p : peer) (t : topic) | RUnsub (p : peer) (t : topic)
| RJoin (t : topic) | RLeave (t : topic)
| RMsg (m : smsg) (chosen : list peer)      (* local publication (sm_from = None) or a message from a peer *)
| RLocalOnly (m : smsg).                    (* WithLocalPublication: for the in-process subscribers only *)

Definition set_tm (s : srstate) tm := {| sr_peers := sr_peers s; sr_tmap := tm; sr_joined := sr_joined s; sr_seen := sr_seen s |}.

(* [rand] = true for RandomSub.  Returns the new state, the recipients of the message and the trace events. *)
Definition srstep (rand : bool) (size : nat) (s : srstate) (o : srop) : option (srstate * list peer * list tev) :=
  match o with
  | RAddPeer p b => Some ({| sr_peers := aset p b (sr_peers s); sr_tmap := sr_tmap s; sr_joined := sr_joined s; sr_seen := sr_seen s |}, [], [TAddPeer p])
  | RRemovePeer p =>
      Some ({| sr_peers := adel p (sr_peers s);
               sr_tmap := filter (fun e => match snd e with [] => false | _ => true end) (map (fun e => (fst e, srem p (snd e))) (sr_tmap s));
               sr_joined := sr_joined s; sr_seen := sr_seen s |}, [], [TRemovePeer p])
  | RSub p t => Some (set_tm s (aset t (sadd p (aget_l t (sr_tmap s))) (sr_tmap s)), [], [])
  | RUnsub p t =>
      let l := srem p (aget_l t (sr_tmap s)) in
      Some (set_tm s (match l with [] => adel t (sr_tmap s) | _ => aset t l (sr_tmap s) end), [], [])
  | RJoin t => if memb t (sr_joined s) then None
               else Some ({| sr_peers := sr_peers s; sr_tmap := sr_tmap s; sr_joined := sadd t (sr_joined s); sr_seen := sr_seen s |}, [],
                          (* the subscription is announced to every connected peer *)
                          map TSend (map fst (sr_peers s)) ++ [TJoin t])
  | RLeave t => if memb t (sr_joined s)
                then Some ({| sr_peers := sr_peers s; sr_tmap := sr_tmap s; sr_joined := srem t (sr_joined s); sr_seen := sr_seen s |}, [],
                           map TSend (map fst (sr_peers s)) ++ [TLeave t])
                else None
  | RMsg m chosen =>
      let local := match sm_from m with None => true | Some _ => false end in
      let pubev := if local then [TPublish (sm_id m)] else [] in
      if memb (sm_id m) (sr_seen s) then match chosen with [] => Some (s, [], pubev) | _ => None end
      else if negb local && negb (memb (sm_topic m) (sr_joined s)) then
        (* a message in a topic the node is not subscribed to is dropped *)
        match chosen with [] => Some (s, [], []) | _ => None end
      else
        let s' := {| sr_peers := sr_peers s; sr_tmap := sr_tmap s; sr_joined := sr_joined s; sr_seen := sadd (sm_id m) (sr_seen s) |} in
        let r := if rand then rs_recipients s size m chosen
                 else match chosen with [] => Some (fs_recipients s m) | _ => None end in
        match r with
        | Some rc => Some (s', rc, pubev ++ [TDeliver (sm_id m)] ++ map TSend rc)
        | None => None
        end
  | RLocalOnly m =>
      (* the router is never asked: the message is published, delivered in-process once, and goes to nobody *)
      if memb (sm_id m) (sr_seen s) then Some (s, [], [TPublish (sm_id m)])
      else Some ({| sr_peers := sr_peers s; sr_tmap := sr_tmap s; sr_joined := sr_joined s; sr_seen := sadd (sm_id m) (sr_seen s) |},
                 [], [TPublish (sm_id m); TDeliver (sm_id m)])
  end.
