(* The property's vocabulary for C11: the ordered contents of an RPC / of a list of fragments,
   kind by kind, and what counts as one indivisible element. *)
From Coq Require Import List Bool NArith Arith.
Import ListNotations.
From PS Require Import Model.Wire.

Inductive kind := KSub | KPub | KGraft | KPrune | KIwant | KIhave | KIdw | KExt | KPartial | KTest.

Inductive atom :=
| ASub (s : subopt) | APub (m : pmsg) | AGraft (g : graft) | APrune (p : prune)
| AIwant (i : mid) | AIhave (ptr : option nat) (i : mid) | AIdw (i : mid)   (* an IHAVE id with the identity of its topic *)
| AExt (e : exts) | APartial (p : partial) | ATest.

Definition ih_atoms (h : ihave) : list atom := map (AIhave (ih_ptr h)) (ih_ids h).

Definition ctl_content (c : control) (k : kind) : list atom :=
  match k with
  | KGraft => map AGraft (c_graft c)
  | KPrune => map APrune (c_prune c)
  | KIwant => map AIwant (concat (map iw_ids (c_iwant c)))
  | KIhave => concat (map ih_atoms (c_ihave c))
  | KIdw => map AIdw (concat (map iw_ids (c_idw c)))
  | KExt => match c_ext c with Some e => [AExt e] | None => [] end
  | _ => []
  end.

Definition content (r : rpc) (k : kind) : list atom :=
  match k with
  | KSub => map ASub (r_subs r)
  | KPub => map APub (r_pub r)
  | KPartial => match r_partial r with Some p => [APartial p] | None => [] end
  | KTest => if r_test r then [ATest] else []
  | _ => match r_ctl r with Some c => ctl_content c k | None => [] end
  end.

Definition flat (l : list rpc) (k : kind) : list atom := concat (map (fun r => content r k) l).

Definition kinds : list kind := [KSub; KPub; KGraft; KPrune; KIwant; KIhave; KIdw; KExt; KPartial; KTest].
Definition atoms (r : rpc) : nat := length (concat (map (content r) kinds)).
