(* C13 / C16: what a gossipsub node holds about ONE remote peer, as a vector of presence bits, and the
   event handlers of pubsub.go / gossipsub.go / extensions.go / tag_tracer.go / score.go / peer_gater.go
   that set and clear them.  Executable, no proofs. *)
From Coq Require Import List Bool Arith.
Import ListNotations.

Record pv := {
  v_queue : bool;      (* PubSub.peers[p]: outbound queue (created when the connection is noticed) *)
  v_out : bool;        (* outbound stream established: gs.peers[p], gs.outbound[p] *)
  v_in : bool;         (* inbound stream handler registered: PubSub.inboundStreams[p] *)
  v_topics : bool;     (* member of some PubSub.topics[t] *)
  v_mesh : bool;       (* member of some mesh *)
  v_fanout : bool;
  v_bufs : bool;       (* pending control / gossip buffers, unwanted set *)
  v_prot : bool;       (* connection-manager protection pubsub:<topic> *)
  v_ext_peer : bool;   (* extensions.peerExtensions[p] *)
  v_ext_sent : bool;   (* extensions.sentExtensions[p] *)
  v_gater : bool;      (* peerGater.peerStats[p] *)
  v_score : option nat;    (* score statistics; Some n = retained, n refresh ticks left (None = absent); connected peers: Some 0 with v_out *)
  v_backoff : option nat;  (* prune backoff entry, heartbeats left *)
  v_counters : bool;   (* peerhave / iasked / peerdontwant: cleared by every heartbeat *)
  v_promises : option nat; (* IWANT promises, heartbeats until they expire *)
  v_blacklisted : bool
}.

Definition pv0 : pv :=
  {| v_queue := false; v_out := false; v_in := false; v_topics := false; v_mesh := false; v_fanout := false; v_bufs := false;
     v_prot := false; v_ext_peer := false; v_ext_sent := false; v_gater := false; v_score := None; v_backoff := None;
     v_counters := false; v_promises := None; v_blacklisted := false |}.

Inductive lev :=
| LNotify                 (* handlePendingPeers sees the connection: queue created unless blacklisted *)
| LOutUp                  (* newPeerStream: outbound stream established (refused when blacklisted) *)
| LDead (respawn : bool)  (* handleDeadPeers: outbound side gone; [respawn] = connection still up, a new queue is made *)
| LNewStreamError         (* newPeerError: opening the outbound stream failed *)
| LInUp | LInDown         (* inbound stream registered / closed *)
| LSub | LUnsub           (* subscription announcements (arrive on the inbound stream) *)
| LGraft (accepted : bool) | LPrune
| LOurGraft | LOurPrune   (* the node's own mesh maintenance (only ever picks peers with an outbound stream) *)
| LFanoutAdd
| LGossip                 (* IHAVE / IWANT / IDONTWANT received: counters, promises, unwanted *)
| LCtlBuffered            (* a control message for the peer could not be sent and is kept for piggybacking *)
| LAnyRPC                 (* any RPC: the extensions handshake records the peer *)
| LMsg                    (* a published message from the peer enters the pipeline: the gater keeps statistics for its source *)
| LHeartbeat
| LRefresh                (* score / gater refresh tick *)
| LBlacklist (api : bool). (* BlacklistPeer (true) or direct insertion into the blacklist (false) *)

Definition dec (o : option nat) : option nat := match o with Some (S n) => Some n | _ => None end.

Definition RETAIN : nat := 3.   (* abstract retention periods, in ticks *)

(* closing of the outbound side: OnClosedOutboundStream of the router and of every tracer *)
Definition out_down (v : pv) : pv :=
  {| v_queue := false; v_out := false; v_in := v_in v; v_topics := false; v_mesh := false; v_fanout := false; v_bufs := false;
     v_prot := false;                      (* FIXED tree: the mesh protections are dropped together with the mesh entries *)
     v_ext_peer := v_ext_peer v; v_ext_sent := false;
     v_gater := false;
     v_score := if v_out v then Some RETAIN else v_score v;
     v_backoff := v_backoff v; v_counters := v_counters v; v_promises := v_promises v; v_blacklisted := v_blacklisted v |}.

Definition lstep (v : pv) (e : lev) : pv :=
  match e with
  | LNotify => if v_queue v || v_blacklisted v then v
               else {| v_queue := true; v_out := v_out v; v_in := v_in v; v_topics := v_topics v; v_mesh := v_mesh v; v_fanout := v_fanout v; v_bufs := v_bufs v;
                       v_prot := v_prot v; v_ext_peer := v_ext_peer v; v_ext_sent := v_ext_sent v; v_gater := v_gater v; v_score := v_score v;
                       v_backoff := v_backoff v; v_counters := v_counters v; v_promises := v_promises v; v_blacklisted := v_blacklisted v |}
  | LOutUp =>
      if negb (v_queue v) then v
      else if v_blacklisted v then out_down v        (* queue closed and dropped, stream reset *)
      else {| v_queue := true; v_out := true; v_in := v_in v; v_topics := v_topics v; v_mesh := v_mesh v; v_fanout := v_fanout v; v_bufs := v_bufs v;
              v_prot := v_prot v; v_ext_peer := v_ext_peer v; v_ext_sent := true; v_gater := true; v_score := Some 0;
              v_backoff := v_backoff v; v_counters := v_counters v; v_promises := v_promises v; v_blacklisted := false |}
  | LDead respawn =>
      if negb (v_queue v) then v
      else let w := out_down v in
           if respawn then {| v_queue := true; v_out := false; v_in := v_in w; v_topics := false; v_mesh := false; v_fanout := false; v_bufs := false;
                              v_prot := false; v_ext_peer := v_ext_peer w; v_ext_sent := false; v_gater := v_gater w; v_score := v_score w;
                              v_backoff := v_backoff w; v_counters := v_counters w; v_promises := v_promises w; v_blacklisted := v_blacklisted w |}
           else w
  | LNewStreamError =>
      if v_out v then v
      else {| v_queue := false; v_out := false; v_in := v_in v; v_topics := v_topics v; v_mesh := v_mesh v; v_fanout := v_fanout v; v_bufs := v_bufs v;
              v_prot := v_prot v; v_ext_peer := v_ext_peer v; v_ext_sent := v_ext_sent v; v_gater := v_gater v; v_score := v_score v;
              v_backoff := v_backoff v; v_counters := v_counters v; v_promises := v_promises v; v_blacklisted := v_blacklisted v |}
  | LInUp => {| v_queue := v_queue v; v_out := v_out v; v_in := true; v_topics := v_topics v; v_mesh := v_mesh v; v_fanout := v_fanout v; v_bufs := v_bufs v;
                v_prot := v_prot v; v_ext_peer := v_ext_peer v; v_ext_sent := v_ext_sent v; v_gater := v_gater v; v_score := v_score v;
                v_backoff := v_backoff v; v_counters := v_counters v; v_promises := v_promises v; v_blacklisted := v_blacklisted v |}
  | LInDown =>
      (* onClosedIncomingStream: topic state cleared; extensions handshake state dropped (FIXED tree: for every protocol version);
         the gater forgets a peer that has no outbound stream *)
      {| v_queue := v_queue v; v_out := v_out v; v_in := false; v_topics := false; v_mesh := v_mesh v; v_fanout := v_fanout v; v_bufs := v_bufs v;
         v_prot := v_prot v; v_ext_peer := false; v_ext_sent := v_ext_sent v; v_gater := if v_out v then v_gater v else false; v_score := v_score v;
         v_backoff := v_backoff v; v_counters := v_counters v; v_promises := v_promises v; v_blacklisted := v_blacklisted v |}
  | LSub => if v_in v then {| v_queue := v_queue v; v_out := v_out v; v_in := true; v_topics := true; v_mesh := v_mesh v; v_fanout := v_fanout v; v_bufs := v_bufs v;
                              v_prot := v_prot v; v_ext_peer := v_ext_peer v; v_ext_sent := v_ext_sent v; v_gater := v_gater v; v_score := v_score v;
                              v_backoff := v_backoff v; v_counters := v_counters v; v_promises := v_promises v; v_blacklisted := v_blacklisted v |} else v
  | LUnsub => {| v_queue := v_queue v; v_out := v_out v; v_in := v_in v; v_topics := false; v_mesh := v_mesh v; v_fanout := v_fanout v; v_bufs := v_bufs v;
                 v_prot := v_prot v; v_ext_peer := v_ext_peer v; v_ext_sent := v_ext_sent v; v_gater := v_gater v; v_score := v_score v;
                 v_backoff := v_backoff v; v_counters := v_counters v; v_promises := v_promises v; v_blacklisted := v_blacklisted v |}
  | LGraft accepted =>
      (* handleGraft: NO check that the sender has an outbound stream *)
      if v_in v then
        if accepted then {| v_queue := v_queue v; v_out := v_out v; v_in := true; v_topics := v_topics v; v_mesh := true; v_fanout := v_fanout v; v_bufs := v_bufs v;
                            v_prot := true; v_ext_peer := v_ext_peer v; v_ext_sent := v_ext_sent v; v_gater := v_gater v; v_score := v_score v;
                            v_backoff := v_backoff v; v_counters := v_counters v; v_promises := v_promises v; v_blacklisted := v_blacklisted v |}
        else {| v_queue := v_queue v; v_out := v_out v; v_in := true; v_topics := v_topics v; v_mesh := v_mesh v; v_fanout := v_fanout v; v_bufs := v_bufs v;
                v_prot := v_prot v; v_ext_peer := v_ext_peer v; v_ext_sent := v_ext_sent v; v_gater := v_gater v; v_score := v_score v;
                v_backoff := Some RETAIN; v_counters := v_counters v; v_promises := v_promises v; v_blacklisted := v_blacklisted v |}
      else v
  | LPrune | LOurPrune =>
      {| v_queue := v_queue v; v_out := v_out v; v_in := v_in v; v_topics := v_topics v; v_mesh := false; v_fanout := v_fanout v; v_bufs := v_bufs v;
         v_prot := false; v_ext_peer := v_ext_peer v; v_ext_sent := v_ext_sent v; v_gater := v_gater v; v_score := v_score v;
         v_backoff := if v_mesh v then Some RETAIN else v_backoff v; v_counters := v_counters v; v_promises := v_promises v; v_blacklisted := v_blacklisted v |}
  | LOurGraft =>
      if v_out v then {| v_queue := v_queue v; v_out := true; v_in := v_in v; v_topics := v_topics v; v_mesh := true; v_fanout := v_fanout v; v_bufs := v_bufs v;
                         v_prot := true; v_ext_peer := v_ext_peer v; v_ext_sent := v_ext_sent v; v_gater := v_gater v; v_score := v_score v;
                         v_backoff := v_backoff v; v_counters := v_counters v; v_promises := v_promises v; v_blacklisted := v_blacklisted v |} else v
  | LFanoutAdd =>
      if v_out v then {| v_queue := v_queue v; v_out := true; v_in := v_in v; v_topics := v_topics v; v_mesh := v_mesh v; v_fanout := true; v_bufs := v_bufs v;
                         v_prot := v_prot v; v_ext_peer := v_ext_peer v; v_ext_sent := v_ext_sent v; v_gater := v_gater v; v_score := v_score v;
                         v_backoff := v_backoff v; v_counters := v_counters v; v_promises := v_promises v; v_blacklisted := v_blacklisted v |} else v
  | LGossip =>
      if v_in v then
        {| v_queue := v_queue v; v_out := v_out v; v_in := true; v_topics := v_topics v; v_mesh := v_mesh v; v_fanout := v_fanout v;
           v_bufs := v_bufs v || v_out v;
           v_prot := v_prot v; v_ext_peer := v_ext_peer v; v_ext_sent := v_ext_sent v; v_gater := v_gater v; v_score := v_score v;
           v_backoff := v_backoff v; v_counters := true; v_promises := Some RETAIN; v_blacklisted := v_blacklisted v |}
      else v
  | LCtlBuffered =>
      if v_out v then {| v_queue := v_queue v; v_out := true; v_in := v_in v; v_topics := v_topics v; v_mesh := v_mesh v; v_fanout := v_fanout v; v_bufs := true;
                         v_prot := v_prot v; v_ext_peer := v_ext_peer v; v_ext_sent := v_ext_sent v; v_gater := v_gater v; v_score := v_score v;
                         v_backoff := v_backoff v; v_counters := v_counters v; v_promises := v_promises v; v_blacklisted := v_blacklisted v |} else v
  | LAnyRPC =>
      if v_in v then
        {| v_queue := v_queue v; v_out := v_out v; v_in := true; v_topics := v_topics v; v_mesh := v_mesh v; v_fanout := v_fanout v; v_bufs := v_bufs v;
           v_prot := v_prot v; v_ext_peer := true; v_ext_sent := v_ext_sent v; v_gater := v_gater v; v_score := v_score v;
           v_backoff := v_backoff v; v_counters := v_counters v; v_promises := v_promises v; v_blacklisted := v_blacklisted v |}
      else v
  | LMsg =>
      if v_in v then
        {| v_queue := v_queue v; v_out := v_out v; v_in := true; v_topics := v_topics v; v_mesh := v_mesh v; v_fanout := v_fanout v; v_bufs := v_bufs v;
           v_prot := v_prot v; v_ext_peer := true; v_ext_sent := v_ext_sent v; v_gater := true; v_score := v_score v;
           v_backoff := v_backoff v; v_counters := v_counters v; v_promises := v_promises v; v_blacklisted := v_blacklisted v |}
      else v
  | LHeartbeat =>
      {| v_queue := v_queue v; v_out := v_out v; v_in := v_in v; v_topics := v_topics v; v_mesh := v_mesh v; v_fanout := v_fanout v;
         v_bufs := if v_out v then v_bufs v else false;
         v_prot := v_prot v; v_ext_peer := v_ext_peer v; v_ext_sent := v_ext_sent v; v_gater := v_gater v; v_score := v_score v;
         v_backoff := dec (v_backoff v); v_counters := false; v_promises := dec (v_promises v); v_blacklisted := v_blacklisted v |}
  | LRefresh =>
      {| v_queue := v_queue v; v_out := v_out v; v_in := v_in v; v_topics := v_topics v; v_mesh := v_mesh v; v_fanout := v_fanout v; v_bufs := v_bufs v;
         v_prot := v_prot v; v_ext_peer := v_ext_peer v; v_ext_sent := v_ext_sent v; v_gater := v_gater v;
         v_score := if v_out v then v_score v else dec (v_score v);
         v_backoff := v_backoff v; v_counters := v_counters v; v_promises := v_promises v; v_blacklisted := v_blacklisted v |}
  | LBlacklist api =>
      let w := if api && v_queue v then out_down v else v in
      {| v_queue := v_queue w; v_out := v_out w; v_in := v_in w; v_topics := v_topics w; v_mesh := v_mesh w; v_fanout := v_fanout w; v_bufs := v_bufs w;
         v_prot := v_prot w; v_ext_peer := v_ext_peer w; v_ext_sent := v_ext_sent w; v_gater := v_gater w; v_score := v_score w;
         v_backoff := v_backoff w; v_counters := v_counters w; v_promises := v_promises w; v_blacklisted := true |}
  end.

Definition lrun (v : pv) (l : list lev) : pv := fold_left lstep l v.

(* nothing attributable to the peer is left *)
Definition reclaimed (v : pv) : bool :=
  negb (v_queue v || v_out v || v_in v || v_topics v || v_mesh v || v_fanout v || v_bufs v || v_prot v || v_ext_peer v || v_ext_sent v
        || v_gater v || v_counters v)
  && match v_score v, v_backoff v, v_promises v with None, None, None => true | _, _, _ => false end.
