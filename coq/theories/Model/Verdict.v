(* Model of how validation.go combines validator verdicts (inline stage, asynchronous stage with its
   throttles, completion order) into the fate of a message, and of score.go's delivery-record
   automaton that turns the fate into penalties for every peer that forwarded the message. *)
From Coq Require Import List Bool Arith.
Import ListNotations.

Inductive vres := Acc | Rej | Ign | Other.          (* what a validator returns; Other = any out-of-range value *)
Definition norm (v : vres) : vres := match v with Other => Ign | x => x end.   (* validateMsg *)

Inductive tres := TAcc | TRej | TIgn | TThr.         (* combined result; TThr = validationThrottled *)
Definition of_v (v : vres) : tres := match norm v with Acc => TAcc | Rej => TRej | _ => TIgn end.

Record vcfg := { v_inline : bool; v_res : vres }.

(* inline stage: Reject breaks, Ignore is sticky, Accept never overwrites.  Returns the result and the
   number of validators actually executed. *)
Fixpoint inline_stage (l : list vres) (acc : tres) (n : nat) : tres * nat :=
  match l with
  | [] => (acc, n)
  | v :: l' => match of_v v with
               | TRej => (TRej, S n)
               | TIgn => inline_stage l' TIgn (S n)
               | _ => inline_stage l' acc (S n)
               end
  end.

(* validateTopic's loop over results in arrival order: Reject breaks, Throttled dominates Ignore *)
Fixpoint async_loop (l : list tres) (acc : tres) : tres :=
  match l with
  | [] => acc
  | r :: l' => match r with
               | TRej => TRej
               | TIgn => async_loop l' (match acc with TThr => TThr | _ => TIgn end)
               | TThr => async_loop l' TThr
               | TAcc => async_loop l' acc
               end
  end.

Inductive fate := Deliver | RejectPenalise | IgnoreNoPenalty | ThrottledNoPenalty.
Definition fate_of (t : tres) : fate :=
  match t with TAcc => Deliver | TRej => RejectPenalise | TIgn => IgnoreNoPenalty | TThr => ThrottledNoPenalty end.

Record setup := {
  s_vals : list vcfg;               (* default validators in registration order, then the topic validator *)
  s_local : bool;                   (* locally published: every validator runs inline *)
  s_global_thr : bool;              (* the global validation throttle is exhausted when the async stage is reached *)
  s_thr : list bool;                (* per asynchronous validator: its own throttle is exhausted *)
  s_order : list nat                (* completion order of the non-throttled async validators (indices into the async list) *)
}.

Definition inl (s : setup) : list vres :=
  map v_res (filter (fun v => v_inline v || s_local s) (s_vals s)).
Definition asy (s : setup) : list vres :=
  map v_res (filter (fun v => negb (v_inline v || s_local s)) (s_vals s)).

(* results in the order the loop receives them: throttled ones are put on the channel at once *)
Definition async_results (s : setup) : list tres :=
  let a := asy s in
  let thr := map (fun _ => TThr) (filter (fun b => b) (firstn (length a) (s_thr s))) in
  thr ++ map (fun j => of_v (nth j a Acc)) (s_order s).

Definition nth_thr (s : setup) (j : nat) : bool := nth j (s_thr s) false.

Definition async_stage (s : setup) : tres :=
  match asy s with
  | [] => TAcc
  | [v] => if nth_thr s 0 then TThr else of_v v            (* validateSingleTopic *)
  | _ => async_loop (async_results s) TAcc
  end.

Definition verdict (s : setup) : tres :=
  let (ir, _) := inline_stage (inl s) TAcc 0 in
  match ir with
  | TRej => TRej
  | _ => match asy s with
         | [] => ir
         | _ => if s_global_thr s then TThr
                else match async_stage s with TAcc => ir | r => r end
         end
  end.

Definition fate_of_setup (s : setup) : fate := fate_of (verdict s).

(* validation.Push: a remote message for which something has to be checked is handed to the bounded validation queue;
   when that queue is full the message is dropped on the spot (traced as "validation queue full"), no validator ever
   sees it and nobody is penalised.  A message nothing applies to bypasses the queue. *)
Definition queued (s : setup) : bool := negb (s_local s) && match s_vals s with [] => false | _ => true end.
Definition verdict_q (s : setup) (queue_full : bool) : tres := if queue_full && queued s then TThr else verdict s.
Definition fate_q (s : setup) (queue_full : bool) : fate := fate_of (verdict_q s queue_full).

(* which validators are invoked: inline ones up to and including the first Reject; async ones only
   if the inline stage did not reject, the global throttle admits the message and their own does *)
Definition executed_inline (s : setup) : nat := snd (inline_stage (inl s) TAcc 0).

(* ---- delivery record automaton (score.go) ---- *)
Definition peer := nat.
Inductive dstatus := DUnknown | DValid | DInvalid | DIgnored | DThrottled.
Record drec := { d_status : dstatus; d_peers : list peer }.
Definition memb (p : nat) (l : list nat) := existsb (Nat.eqb p) l.

Inductive sev :=
| SDup (p : peer)                    (* DuplicateMessage from p *)
| SFate (from : peer) (f : fate).    (* DeliverMessage / RejectMessage(reason) for the copy received from [from] *)

(* returns the new record and the peers whose invalid-message counter is incremented (with multiplicity) *)
Definition dstep (r : drec) (e : sev) : drec * list peer :=
  match e with
  | SDup p =>
      if memb p (d_peers r) then (r, [])
      else match d_status r with
           | DUnknown => ({| d_status := DUnknown; d_peers := p :: d_peers r |}, [])
           | DValid => ({| d_status := DValid; d_peers := p :: d_peers r |}, [])
           | DInvalid => (r, [p])
           | _ => (r, [])
           end
  | SFate from f =>
      match d_status r with
      | DUnknown =>
          match f with
          | Deliver => ({| d_status := DValid; d_peers := d_peers r |}, [])
          | RejectPenalise => ({| d_status := DInvalid; d_peers := [] |}, from :: d_peers r)
          | IgnoreNoPenalty => ({| d_status := DIgnored; d_peers := [] |}, [])
          | ThrottledNoPenalty => ({| d_status := DThrottled; d_peers := [] |}, [])
          end
      | _ => (r, [])
      end
  end.

Fixpoint drun (r : drec) (l : list sev) : drec * list peer :=
  match l with
  | [] => (r, [])
  | e :: l' => let (r1, p1) := dstep r e in let (r2, p2) := drun r1 l' in (r2, p1 ++ p2)
  end.
Definition dinit : drec := {| d_status := DUnknown; d_peers := [] |}.
