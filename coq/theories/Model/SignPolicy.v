(* Model of the signature policy: pubsub.go checkSigningPolicy + the self-origin check of shouldPush,
   validation.go's signature gate (any present signature is verified before markSeen, under every
   policy) and sign.go verifyMessageSignature / messagePubKey / signMessage.  The cryptographic
   primitives are parameters. *)
From Coq Require Import List Bool Arith.
Import ListNotations.

Inductive policy := StrictSign | StrictNoSign | LaxSign | LaxNoSign.
Definition must_verify (p : policy) := match p with StrictSign | StrictNoSign => true | _ => false end.
Definition must_sign (p : policy) := match p with StrictSign | LaxSign => true | _ => false end.

Inductive reason := RMissingSignature | RUnexpectedSignature | RUnexpectedAuthInfo | RSelfOrigin | RInvalidSignature.
Inductive outcome := Accepted | Rejected (r : reason).

Section Crypto.
  Variables (bytes pid pubkey privkey : Type).
  Variable bytes_eqb : bytes -> bytes -> bool.
  Variable pid_of_bytes : bytes -> option pid.          (* peer.IDFromBytes *)
  Variable extract : pid -> option pubkey.              (* ExtractPublicKey (identity-multihash peer IDs) *)
  Variable unmarshal_key : bytes -> option pubkey.      (* crypto.UnmarshalPublicKey *)
  Variable matches : pid -> pubkey -> bool.             (* pid.MatchesPublicKey *)
  Variable verify : pubkey -> bytes -> bytes -> bool.   (* pubk.Verify(payload, signature) *)

  Record msg := { m_from : option bytes; m_data : option bytes; m_seqno : option bytes; m_topic : option bytes;
                  m_sig : option bytes; m_key : option bytes; m_unk : option bytes }.

  (* SignPrefix ++ Marshal(m with Signature and Key cleared); unknown fields are part of it *)
  Variable signed_payload : msg -> bytes.

  (* messagePubKey: the key the signature must verify under, bound to the claimed author *)
  Definition message_pubkey (m : msg) : option pubkey :=
    match m_from m with
    | None => None                                       (* IDFromBytes(nil) fails *)
    | Some f =>
        match pid_of_bytes f with
        | None => None
        | Some p =>
            match m_key m with
            | None => extract p
            | Some kb => match unmarshal_key kb with
                         | Some k => if matches p k then Some k else None
                         | None => None
                         end
            end
        end
    end.

  Definition verify_signature (m : msg) : bool :=
    match message_pubkey m, m_sig m with
    | Some k, Some s => verify k (signed_payload m) s
    | _, _ => false
    end.

  Definition present {A} (o : option A) : bool := match o with Some _ => true | None => false end.

  (* what happens to a message received from [src]; [anonymous]: the node has no signing identity;
     [self_b]: the node's own peer ID as bytes *)
  Definition accept (p : policy) (anonymous : bool) (self_b : bytes) (src_is_self : bool) (m : msg) : outcome :=
    if must_verify p && must_sign p && negb (present (m_sig m)) then Rejected RMissingSignature
    else if must_verify p && negb (must_sign p) && present (m_sig m) then Rejected RUnexpectedSignature
    else if must_verify p && negb (must_sign p) && anonymous
            && (present (m_seqno m) || present (m_from m) || present (m_key m)) then Rejected RUnexpectedAuthInfo
    else if (match m_from m with Some f => bytes_eqb f self_b | None => false end) && negb src_is_self then Rejected RSelfOrigin
    else if present (m_sig m) && negb (verify_signature m) then Rejected RInvalidSignature
    else Accepted.
End Crypto.

Arguments m_from {bytes}. Arguments m_data {bytes}. Arguments m_seqno {bytes}. Arguments m_topic {bytes}.
Arguments m_sig {bytes}. Arguments m_key {bytes}. Arguments m_unk {bytes}. Arguments Build_msg {bytes}.
