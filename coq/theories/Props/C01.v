(* C01 - complete exactly-once delivery in a connected network of correct nodes. Property theorems only. *)
From Coq Require Import List Bool Arith.
Import ListNotations.
From PS Require Import Model.Router Model.Flood Proofs.FloodProofs.

(* eager push along the overlay with duplicate suppression: exactly the nodes reachable from the publisher deliver
   the message, and none delivers it twice - for EVERY overlay graph and publisher *)
Theorem C01_flood_exactly_once : forall g src,
  NoDup (delivered g src) /\ forall v, In v (delivered g src) <-> reach g src v.
Proof. exact flood_exactly_once. Qed.
(* hence in a connected overlay every member delivers exactly once *)
Theorem C01_connected_overlay_exactly_once : forall g src members,
  connected_from g src members -> forall v, In v members -> count_occ Nat.eq_dec (delivered g src) v = 1.
Proof. exact connected_overlay_exactly_once. Qed.
Print Assumptions C01_connected_overlay_exactly_once.
(* within the degree bound the routers' random peer selection is exhaustive (gossipsub: up to D out of at most D
   candidates; randomsub: at most RandomSubD eligible peers), so their eager push IS flooding along every overlay edge *)
Theorem C01_selection_exhaustive_within_bound : forall chosen cands n,
  pick_ok chosen cands n = true -> (n = 0 \/ length cands <= n) -> forall p, In p cands -> In p chosen.
Proof. exact pick_all. Qed.

Example C01_nonvacuous :
  delivered [(0, 1); (1, 2); (2, 0); (2, 3); (5, 6)] 1 = [1; 0; 2; 3]
  /\ connected_from [(0, 1); (1, 2); (2, 0); (2, 3); (5, 6)] 1 [0; 2; 3]
  /\ ~ In 5 (delivered [(0, 1); (1, 2); (2, 0); (2, 3); (5, 6)] 1).
Proof.
  split; [vm_compute; reflexivity|]. split.
  - intros v Hv. apply (proj2 (flood_exactly_once _ _)). vm_compute. vm_compute in Hv. tauto.
  - vm_compute. intuition discriminate.
Qed.
