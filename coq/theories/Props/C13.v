(* C13 - all state attributable to a peer is reclaimed after it disconnects. Property theorems only. *)
From Coq Require Import List Bool Arith.
Import ListNotations.
From PS Require Import Model.Lifecycle Proofs.LifecycleDep Proofs.LifecycleProofs.

(* every handler preserves the dependency discipline: whatever has no timer of its own hangs off the outbound
   queue (mesh, fanout, buffers, protections via the mesh, extension "sent" state, gater statistics) or off the
   inbound stream (topic membership, extension handshake state).  One handler is excluded: a GRAFT accepted from
   a peer WITHOUT an outbound stream (known finding). *)
Theorem C13_dependencies_preserved : forall v e, depb v = true -> guarded v e = true -> depb (lstep v e) = true.
Proof. exact dep_step. Qed.
Print Assumptions C13_dependencies_preserved.

(* whatever the peer did while connected - any history of stream opens / closes in any order, RPCs of every
   kind (also on a stream that outlives the other direction), blacklisting, respawned writers - once its streams
   and connection are gone and the retention periods have passed, nothing attributable to it is left *)
Theorem C13_reclaimed_after_disconnect : forall l n,
  lrun_guarded pv0 l = true -> RETAIN < n ->
  reclaimed (lrun (lrun (lrun pv0 l) goodbye) (ticks n)) = true.
Proof. exact reclaimed_after_disconnect. Qed.
Print Assumptions C13_reclaimed_after_disconnect.

(* without the exclusion the statement is FALSE of the faithful model (and of the code: known finding) *)
Theorem C13_reclaim_refuted_graft_without_outbound :
  exists l n, RETAIN < n /\ reclaimed (lrun (lrun (lrun pv0 l) goodbye) (ticks n)) = false.
Proof. exact reclaim_refuted_graft_without_outbound. Qed.

Example C13_nonvacuous :
  let l := [LNotify; LOutUp; LInUp; LAnyRPC; LSub; LGraft true; LGossip; LCtlBuffered; LDead true; LOutUp; LOurGraft; LInDown; LInUp; LSub] in
  lrun_guarded pv0 l = true /\ reclaimed (lrun pv0 l) = false
  /\ v_mesh (lrun pv0 l) = true /\ v_prot (lrun pv0 l) = true /\ v_topics (lrun pv0 l) = true.
Proof. vm_compute. repeat split. Qed.
