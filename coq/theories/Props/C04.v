(* C04 - validator verdicts decide delivery, forwarding and penalties. Property theorems only. *)
From Coq Require Import List Bool Permutation.
Import ListNotations.
From PS Require Import Model.Verdict Proofs.VerdictProofs.

(* delivered (and forwarded) only if every applicable validator accepted: no inline Reject, Ignore or
   out-of-range value, and the asynchronous stage ran un-throttled and accepted *)
Theorem C04_deliver_needs_inline_accept : forall s,
  fate_of_setup s = Deliver -> any_inline_rej s = false /\ any_inline_ign s = false.
Proof. exact deliver_needs_inline_accept. Qed.
Theorem C04_deliver_needs_async_accept : forall s,
  fate_of_setup s = Deliver -> asy s <> [] -> s_global_thr s = false /\ async_stage s = TAcc.
Proof. exact deliver_needs_async_accept. Qed.
Theorem C04_async_accept_iff_all_accept : forall s v1 v2 rest, asy s = v1 :: v2 :: rest ->
  (async_stage s = TAcc <-> forallb (fun r => match r with TAcc => true | _ => false end) (async_results s) = true).
Proof. exact async_stage_multi_accept_iff. Qed.
Print Assumptions C04_deliver_needs_async_accept.

(* Reject decides: an inline Reject rejects whatever else is configured; the asynchronous stage
   rejects iff some asynchronous validator rejected, in whatever order they complete *)
Theorem C04_inline_reject_rejects : forall s, any_inline_rej s = true -> fate_of_setup s = RejectPenalise.
Proof. exact inline_reject_rejects. Qed.
Theorem C04_async_reject_iff : forall l, async_loop l TAcc = TRej <-> existsb is_rej l = true.
Proof. exact async_precedence. Qed.
Theorem C04_completion_order_irrelevant : forall l1 l2 acc, Permutation l1 l2 -> async_loop l1 acc = async_loop l2 acc.
Proof. exact async_order_irrelevant. Qed.
Theorem C04_throttled_over_ignore : forall l, existsb is_rej l = false -> existsb is_thr l = true -> async_loop l TAcc = TThr.
Proof. exact async_throttled_over_ignore. Qed.
Print Assumptions C04_completion_order_irrelevant.

(* no penalty without a Reject: Ignore, out-of-range values and throttling never give RejectPenalise *)
Theorem C04_reject_needs_a_reject : forall s, fate_of_setup s = RejectPenalise ->
  any_inline_rej s = true \/ (asy s <> [] /\ s_global_thr s = false /\ async_stage s = TRej).
Proof. exact reject_needs_a_reject. Qed.
Print Assumptions C04_reject_needs_a_reject.

(* penalties: on Reject every forwarder (first sender, duplicates during validation, later senders)
   is penalised; on any other fate nobody ever is *)
Theorem C04_penalised_on_reject : forall during from after p,
  In p (snd (drun dinit (map SDup during ++ [SFate from RejectPenalise] ++ map SDup after)))
  <-> p = from \/ In p during \/ In p after.
Proof. exact penalised_on_reject. Qed.
Theorem C04_penalised_only_on_reject : forall during from f after, f <> RejectPenalise ->
  snd (drun dinit (map SDup during ++ [SFate from f] ++ map SDup after)) = [].
Proof. exact penalised_only_on_reject. Qed.
Print Assumptions C04_penalised_on_reject.

(* a locally published message runs every validator inline (never throttled); anything but Deliver
   makes Publish return the validation error and the message never leaves the node *)
Theorem C04_local_all_inline : forall s, s_local s = true -> asy s = [].
Proof. exact local_all_inline. Qed.
Theorem C04_local_never_throttled : forall s, s_local s = true -> fate_of_setup s <> ThrottledNoPenalty.
Proof. exact local_never_throttled. Qed.

(* the bounded validation queue in front of the pipeline: when it is full a remote message that validators apply to is
   dropped without penalty and without being delivered; delivery always needs the pipeline's Deliver *)
Theorem C04_queue_full_drops : forall s, queued s = true -> fate_q s true = ThrottledNoPenalty.
Proof. exact queue_full_drops. Qed.
Theorem C04_deliver_needs_pipeline : forall s q, fate_q s q = Deliver -> fate_of_setup s = Deliver /\ (q = false \/ queued s = false).
Proof. exact deliver_q_needs_pipeline. Qed.
Print Assumptions C04_deliver_needs_pipeline.

Example C04_nonvacuous :
  let s := {| s_vals := [{| v_inline := true; v_res := Other |}; {| v_inline := false; v_res := Acc |};
                         {| v_inline := false; v_res := Rej |}; {| v_inline := false; v_res := Ign |}];
              s_local := false; s_global_thr := false; s_thr := [false; false; true]; s_order := [1; 0] |} in
  fate_of_setup s = RejectPenalise /\ async_results s = [TThr; TRej; TAcc]
  /\ snd (drun dinit (map SDup [3; 4; 3] ++ [SFate 1 (fate_of_setup s)] ++ map SDup [5])) = [1; 4; 3; 5].
Proof. vm_compute. repeat split. Qed.
