(* C19 - the event trace is a faithful account from which state can be rebuilt. Property theorems only.
   The first group fixes the meaning of "applying the events as set operations" (Model/Trace.v [replay]).  The second
   group is the property on the model: for ANY two views the trace a transition owes ([diff_events]: leaves, removed
   peers, prunes, joins, added peers, grafts) replays from the old view to the new one and its JOIN / LEAVE events
   alternate; hence for EVERY history of the router model (Model/Router.v [step]: joins, leaves, GRAFT / PRUNE handling,
   heartbeats, peers coming and going) the accumulated trace rebuilds the peer set and every mesh of the final state.
   That the REAL trace replays to the REAL router state (which the runner also compares with the model state), and the
   exactly-once clauses, are decided on every run by the monitors of Run/GossipRun.v and Run/SimpleRun.v on the
   events an attached tracer received. *)
From Coq Require Import List Bool Arith.
Import ListNotations.
From Coq Require Import ZArith.
From PS Require Import Model.Router Model.Trace Proofs.TraceProofs Proofs.TraceDiff.

Theorem C19_replay_graft : forall v p t q u,
  in_mesh (replay1 v (TGraft p t)) u q = (joined v t && Nat.eqb u t && Nat.eqb q p) || in_mesh v u q.
Proof. exact replay_graft. Qed.
Theorem C19_replay_prune : forall v p t q u,
  in_mesh (replay1 v (TPrune p t)) u q = in_mesh v u q && negb (Nat.eqb u t && Nat.eqb p q).
Proof. exact replay_prune. Qed.
Theorem C19_replay_remove_peer : forall v p q u,
  in_mesh (replay1 v (TRemovePeer p)) u q = in_mesh v u q && negb (Nat.eqb p q)
  /\ memb q (tv_peers (replay1 v (TRemovePeer p))) = negb (Nat.eqb p q) && memb q (tv_peers v).
Proof. exact replay_remove_peer. Qed.
Theorem C19_replay_add_peer : forall v p q,
  memb q (tv_peers (replay1 v (TAddPeer p))) = Nat.eqb q p || memb q (tv_peers v)
  /\ tv_mesh (replay1 v (TAddPeer p)) = tv_mesh v.
Proof. exact replay_add_peer. Qed.
Theorem C19_replay_join : forall v t u, joined (replay1 v (TJoin t)) u = Nat.eqb u t || joined v u.
Proof. exact replay_join. Qed.
Theorem C19_replay_leave : forall v t u, joined (replay1 v (TLeave t)) u = negb (Nat.eqb u t) && joined v u.
Proof. exact replay_leave. Qed.
(* for every trace: the joined topics rebuilt by the replay are exactly those with an unmatched JOIN *)
Theorem C19_replay_joined : forall l v j,
  (forall u, joined v u = memb u j) -> forall u, joined (replay v l) u = memb u (joined_after j l).
Proof. exact replay_joined. Qed.
Print Assumptions C19_replay_joined.

(* the owed trace of ANY transition replays, from any view agreeing with the old state, to the new state *)
Theorem C19_owed_trace_rebuilds : forall a b v, vagree v a -> vagree (replay v (diff_events a b)) b.
Proof. exact replay_diff. Qed.
Theorem C19_owed_trace_alternates : forall a b j, (forall u, memb u j = joined a u) ->
  alt_ok j (diff_events a b) = true /\ (forall u, memb u (joined_after j (diff_events a b)) = joined b u).
Proof. exact alt_ok_diff. Qed.
(* every history of the router model: the accumulated trace rebuilds the final peer set and meshes, and alternates *)
Theorem C19_trace_faithful : forall P l s tr,
  run_trace P init l = Some (s, tr) -> vagree (replay tview0 tr) (view_of s) /\ alt_ok [] tr = true.
Proof. exact trace_faithful. Qed.
Print Assumptions C19_trace_faithful.

Example C19_nonvacuous :
  let l := [TAddPeer 1; TAddPeer 2; TJoin 0; TGraft 1 0; TGraft 2 0; TDeliver 7; TSend 1; TRemovePeer 2; TPrune 1 0; TLeave 0; TJoin 1; TGraft 1 1] in
  alt_ok [] l = true
  /\ tview_eqb (replay tview0 l) {| tv_peers := [1]; tv_mesh := [(1, [1])] |} = true
  /\ alt_ok [] [TJoin 0; TJoin 0] = false.
Proof. vm_compute. repeat split. Qed.

Example C19_run_nonvacuous :
  let P := {| pD := 2; pDlo := 1; pDhi := 3; pDscore := 1; pDout := 0;
              pPruneBackoff := 60000000000; pUnsubBackoff := 10000000000; pSlack := 1000000000; pGraftFlood := 10000000000;
              pOGTicks := 60; pOGPeers := 2; pOGThreshold := 1; pFanoutTTL := 60000000000; pPublishThr := -50 |}%Z in
  let i := {| pi_mesh := true; pi_px := true; pi_out := true |} in
  match run_trace P init [([], OAddPeer 1 i); ([], OAddPeer 2 i); ([], OSub 1 0); ([], OSub 2 0); ([], OJoin 0 [1; 2]);
                          ([], ORecvPrune 1 [(0, None)]); ([], ODisconnect 2); ([], OLeave 0)] with
  | Some (s, tr) => tr = [TAddPeer 1; TAddPeer 2; TJoin 0; TGraft 1 0; TGraft 2 0; TPrune 1 0; TRemovePeer 2; TLeave 0]
                    /\ tview_eqb (replay tview0 tr) (view_of s) = true
  | None => False
  end.
Proof. vm_compute. split; reflexivity. Qed.
