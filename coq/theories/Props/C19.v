(* C19 - the event trace is a faithful account from which state can be rebuilt. Property theorems only.
   The theorems fix the meaning of "applying the events as set operations" (Model/Trace.v [replay]); that the
   REAL trace replays to the REAL router state, and the exactly-once clauses, are decided on every run by
   the monitors of Run/GossipRun.v and Run/SimpleRun.v on the events an attached tracer received. *)
From Coq Require Import List Bool Arith.
Import ListNotations.
From PS Require Import Model.Router Model.Trace Proofs.TraceProofs.

Theorem C19_replay_graft : forall v p t q u,
  in_mesh (replay1 v (TGraft p t)) u q = (joined v t && Nat.eqb u t && Nat.eqb q p) || in_mesh v u q.
Proof. exact replay_graft. Qed.
Theorem C19_replay_prune : forall v p t q u,
  in_mesh (replay1 v (TPrune p t)) u q = in_mesh v u q && negb (Nat.eqb u t && Nat.eqb p q).
Proof. exact replay_prune. Qed.
Theorem C19_replay_remove_peer : forall v p q u,
  in_mesh (replay1 v (TRemovePeer p)) u q = in_mesh v u q && negb (Nat.eqb p q)
  /\ memb q (tv_peers (replay1 v (TRemovePeer p))) = negb (Nat.eqb p q) && memb q (tv_peers v).
Proof. exact replay_remove_peer. Qed.
Theorem C19_replay_add_peer : forall v p q,
  memb q (tv_peers (replay1 v (TAddPeer p))) = Nat.eqb q p || memb q (tv_peers v)
  /\ tv_mesh (replay1 v (TAddPeer p)) = tv_mesh v.
Proof. exact replay_add_peer. Qed.
Theorem C19_replay_join : forall v t u, joined (replay1 v (TJoin t)) u = Nat.eqb u t || joined v u.
Proof. exact replay_join. Qed.
Theorem C19_replay_leave : forall v t u, joined (replay1 v (TLeave t)) u = negb (Nat.eqb u t) && joined v u.
Proof. exact replay_leave. Qed.
(* for every trace: the joined topics rebuilt by the replay are exactly those with an unmatched JOIN *)
Theorem C19_replay_joined : forall l v j,
  (forall u, joined v u = memb u j) -> forall u, joined (replay v l) u = memb u (joined_after j l).
Proof. exact replay_joined. Qed.
Print Assumptions C19_replay_joined.

Example C19_nonvacuous :
  let l := [TAddPeer 1; TAddPeer 2; TJoin 0; TGraft 1 0; TGraft 2 0; TDeliver 7; TSend 1; TRemovePeer 2; TPrune 1 0; TLeave 0; TJoin 1; TGraft 1 1] in
  alt_ok [] l = true
  /\ tview_eqb (replay tview0 l) {| tv_peers := [1]; tv_mesh := [(1, [1])] |} = true
  /\ alt_ok [] [TJoin 0; TJoin 0] = false.
Proof. vm_compute. repeat split. Qed.
