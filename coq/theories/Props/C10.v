(* C10 - peer scores equal the GossipSub v1.1 scoring function of the peer's history. Property theorems only.
   The scoring function IS Model/Score.v (topic_score, score_of_stats and the event-driven counters),
   compared bit-for-bit with score.go on every run (Run/ScoreRun.v, binary64 instance).  The theorems below
   are about its exact-rational instance QA. *)
From Coq Require Import List ZArith Bool QArith Floats Lqa.
Import ListNotations.
From PS Require Import Model.Router Model.Score Proofs.ScoreProofs Proofs.ScoreParams Run.ScoreRun.

(* counters never become negative or exceed their caps: in every state reachable by any history of
   scoring events (connect, disconnect, reconnect, graft, prune, validate, deliver, reject with each reason,
   duplicates, penalties, decay ticks, gc, parameter updates that lower or raise caps, IP assignments,
   arbitrary virtual times) from valid parameters *)
Theorem C10_counters_bounded : forall P l s p ps t ts,
  sp_ok P -> ops_ok l -> srun QA (sinit QA P) l = Some s ->
  In (p, ps) (pst QA s) -> In (t, ts) (topics QA ps) ->
  0 <= bp QA ps /\ 0 <= fmd QA ts /\ 0 <= mmd QA ts /\ 0 <= imd QA ts /\ 0 <= mfp QA ts
  /\ exists tp, aget t (spTopics QA (prm QA s)) = Some tp /\ fmd QA ts <= tpFMDCap QA tp /\ mmd QA ts <= tpMMDCap QA tp.
Proof. exact counters_bounded. Qed.
Print Assumptions C10_counters_bounded.

(* the caps the counters are bounded by are those in force AFTER each operation, and these depend on the operation alone
   (in any arithmetic): the runner judges every observed step against [prm_after] *)
Theorem C10_params_after_step : forall A s o s', sstep A s o = Some s' -> prm A s' = prm_after A (prm A s) o.
Proof. exact prm_after_step. Qed.

(* penalty components only ever lower the score *)
Theorem C10_topic_penalties_only_lower : forall (tp : tparams QA) (ts : tstats QA),
  tp_ok tp -> 0 <= mfp QA ts -> topic_score QA tp ts <= topic_score QA tp (no_penalties ts).
Proof. exact topic_penalties_only_lower. Qed.
Theorem C10_p6_nonpositive : forall (s : sstate QA) ps, sp_ok (prm QA s) -> ip_factor QA s ps * spIPWeight QA (prm QA s) <= 0.
Proof. exact p6_nonpositive. Qed.
Theorem C10_p7_nonpositive : forall (P : sparams QA) (b : Q), sp_ok P -> p7 QA P b <= 0.
Proof. exact p7_nonpositive. Qed.

(* time in mesh is quantised (whole quanta) and capped *)
Theorem C10_p1_quantised_and_capped : forall (tp : tparams QA) (mt : Z),
  tp_ok tp -> (0 < tpTIMQuantum QA tp)%Z -> (0 <= mt)%Z ->
  let p1 := cap_at QA (inject_Z (Z.quot mt (tpTIMQuantum QA tp))) (tpTIMCap QA tp) in
  0 <= p1 /\ p1 <= tpTIMCap QA tp /\ p1 <= inject_Z (Z.quot mt (tpTIMQuantum QA tp))
  /\ (inject_Z (Z.quot mt (tpTIMQuantum QA tp)) * inject_Z (tpTIMQuantum QA tp) <= inject_Z mt).
Proof. exact p1_quantised_and_capped. Qed.

(* periodic decay with decay-to-zero *)
Theorem C10_decay_to_zero : forall (x d z : Q), 0 <= x -> 0 <= d <= 1 ->
  0 <= decay0 QA x d z <= x /\ (x * d < z -> decay0 QA x d z == 0) /\ (z <= x * d -> decay0 QA x d z == x * d).
Proof. exact decay_to_zero. Qed.

(* mesh deliveries count only inside the delivery window *)
Theorem C10_duplicate_outside_window_ignored : forall (s : sstate QA) p t v tp,
  aget t (spTopics QA (prm QA s)) = Some tp -> (tpMMDWindow QA tp < snow QA s - v)%Z ->
  forall ps, aget p (pst QA s) = Some ps -> forall ts, aget t (topics QA ps) = Some ts ->
  exists ps', aget p (pst QA (mark_duplicate QA s p t (Some v))) = Some ps' /\ aget t (topics QA ps') = Some ts.
Proof. exact duplicate_outside_window_ignored. Qed.

(* retention *)
Theorem C10_retention_rule : forall (s : sstate QA) p app ps s',
  aget p (pst QA s) = Some ps -> sstep QA s (SRemovePeer QA p app) = Some s' ->
  (0 < score_of_stats QA s app ps -> aget p (pst QA s') = None \/ exists ps', aget p (pst QA s') = Some ps' /\ In (p, ps') (adel p (pst QA s)))
  /\ (score_of_stats QA s app ps <= 0 ->
        exists ps', aget p (pst QA s') = Some ps' /\ connected QA ps' = false /\ expire QA ps' = (snow QA s + spRetain QA (prm QA s))%Z
                    /\ bp QA ps' = bp QA ps
                    /\ forall t ts', In (t, ts') (topics QA ps') -> fmd QA ts' == 0 /\ inMesh QA ts' = false).
Proof. exact retention_rule. Qed.
Theorem C10_reconnect_keeps_retained : forall (s : sstate QA) p ps s',
  aget p (pst QA s) = Some ps -> sstep QA s (SAddPeer QA p) = Some s' ->
  exists ps', aget p (pst QA s') = Some ps' /\ connected QA ps' = true /\ topics QA ps' = topics QA ps /\ bp QA ps' = bp QA ps.
Proof. exact reconnect_keeps_retained. Qed.
Theorem C10_refresh_retained : forall (s : sstate QA) p ps s',
  In (p, ps) (pst QA s) -> connected QA ps = false -> sstep QA s (SRefresh QA) = Some s' ->
  ((expire QA ps < snow QA s)%Z -> ~ In (p, ps) (pst QA s'))
  /\ ((snow QA s <= expire QA ps)%Z -> In (p, ps) (pst QA s')).
Proof. exact refresh_retained. Qed.
Print Assumptions C10_retention_rule.

(* "for every parameter set the library accepts computing a score never yields NaN" is FALSE of the faithful
   binary64 model (and of the code: known finding C10/nan-from-huge-weights): finite weights near the float64
   maximum are accepted and make one component +Inf and another -Inf. *)
Definition nanP : sparams FA :=
  mkSP [] 0%float (0x1.e42d130773b76p+1023)%float 0%float 1%nat (-0x1.e42d130773b76p+1023)%float 0%float (0x1p-1)%float (0x1p-7)%float 0%Z 0%Z.
Definition nanS : sstate FA :=
  Eval vm_compute in match srun FA (sinit FA nanP) [fAddPeer 0%nat; fPenalty 0%nat 2%Z] with Some s => s | None => sinit FA nanP end.
Theorem C10_never_nan_refuted :
  exists P l app s, srun FA (sinit FA P) l = Some s /\ PrimFloat.is_nan (score FA s app 0%nat) = true.
Proof.
  exists nanP, [fAddPeer 0%nat; fPenalty 0%nat 2%Z], [(0%nat, 2%float)], nanS.
  (* (the vm_compute TACTIC loops on this goal in Coq 8.16.1 although evaluation is instant; the VM cast is
     checked by the kernel at Qed) *)
  split; [vm_cast_no_check (eq_refl (Some nanS)) | vm_cast_no_check (eq_refl true)].
Qed.
Print Assumptions C10_never_nan_refuted.

(* ---- non-vacuity (exact rationals) ---- *)
Definition tq : tparams QA :=
  Build_tparams QA 1 (1#2) 1000%Z 3 1 (1#2) 2 (-1) (1#2) 4 2 2000%Z 1000%Z (-1) (1#2) (-1) (1#2).
Definition pq : sparams QA := Build_sparams QA [(0%nat, tq)] 0 1 (-1) 1%nat (-1) 1 (1#2) (1#100) 5000%Z 5000%Z.
Lemma tq_ok : tp_ok tq.
Proof. constructor; cbn; lra. Qed.
Lemma pq_ok : sp_ok pq.
Proof.
  constructor; cbn; try lra. intros t tp. destruct t as [|t]; cbn; [intros E; inversion E; exact tq_ok | discriminate].
Qed.
Definition hist10 : list (sop QA) :=
  [SAddPeer QA 1%nat; SGraft QA 1%nat 0%nat; SDeliver QA 7%nat 1%nat 0%nat; SDeliver QA 8%nat 1%nat 0%nat; SDeliver QA 9%nat 1%nat 0%nat;
   SAdvance QA 2500%Z; SRefresh QA; SReject QA 10%nat 1%nat 0%nat ROther; SPrune QA 1%nat 0%nat; SRemovePeer QA 1%nat 0].
Example C10_nonvacuous :
  exists s, srun QA (sinit QA pq) hist10 = Some s
    /\ exists ps ts, aget 1%nat (pst QA s) = Some ps /\ connected QA ps = false /\ aget 0%nat (topics QA ps) = Some ts
                     /\ fmd QA ts == 0 /\ mmd QA ts == (3#2) /\ imd QA ts == 1 /\ mfp QA ts == (1#4).
Proof.
  exists (match srun QA (sinit QA pq) hist10 with Some s => s | None => sinit QA pq end).
  split; [vm_compute; reflexivity|].
  eexists. eexists. split; [vm_compute; reflexivity|]. split; [reflexivity|]. split; [vm_compute; reflexivity|].
  vm_compute. repeat split; discriminate.
Qed.
