(* C20 - the sequence-number validator never accepts a replay. Property theorems only. *)
From Coq Require Import List NArith.
Import ListNotations.
From PS Require Import Model.SeqnoVal Proofs.SeqnoValProofs.
Local Open Scope N_scope.

(* For every multiset of validations, every arrival order and every interleaving of their two
   phases: per author the accepted sequence numbers are strictly increasing in acceptance order
   ([accepted] is newest-first, hence strictly decreasing). *)
Theorem C20_accepted_strictly_increasing :
  forall l s, run init l = Some s -> forall a, strictly_decreasing (acc_of a (accepted s)) = true.
Proof. exact accepted_strictly_increasing. Qed.
Print Assumptions C20_accepted_strictly_increasing.

(* The stored nonce always equals the highest (= latest) accepted sequence number, 0 if none ... *)
Theorem C20_nonce_is_highest_accepted :
  forall l s, run init l = Some s -> forall a, nonce_of a (store s) = top a (accepted s).
Proof. exact nonce_is_highest_accepted. Qed.
Print Assumptions C20_nonce_is_highest_accepted.

(* ... and never decreases. *)
Theorem C20_nonce_monotone :
  forall s x s', step s x = Some s' -> forall a, nonce_of a (store s) <= nonce_of a (store s').
Proof. exact nonce_monotone. Qed.
Print Assumptions C20_nonce_monotone.

(* A message is accepted only with a sequence number strictly above the stored nonce. *)
Theorem C20_accept_only_above_nonce :
  forall s x s' i, step s x = Some s' -> In (i, Accept) (results s') -> ~ In (i, Accept) (results s) ->
  x = AP2 i /\ exists t q, find_thr i (threads s) = Some t /\ decode (t_seq t) = Some q
                           /\ nonce_of (t_author t) (store s) < q
                           /\ store s' = (t_author t, q) :: store s
                           /\ accepted s' = (t_author t, q) :: accepted s.
Proof. exact accept_only_above_nonce. Qed.
Print Assumptions C20_accept_only_above_nonce.

(* A replay (sequence number not above the nonce) is ignored in whichever phase it is and leaves
   the store untouched; Ignore means neither delivery, forwarding nor penalty (C04). *)
Theorem C20_replay_ignored :
  forall s i t q, find_thr i (threads s) = Some t -> decode (t_seq t) = Some q ->
  q <= nonce_of (t_author t) (store s) ->
  forall x s', (x = AP1 i \/ x = AP2 i) -> step s x = Some s' ->
    In (i, Ignore) (results s') /\ store s' = store s /\ accepted s' = accepted s.
Proof. exact replay_ignored_unchanged. Qed.
Print Assumptions C20_replay_ignored.

(* Wrong-length encodings (1..7 bytes) are ignored, never decoded. *)
Theorem C20_malformed_ignored :
  forall s i t s', find_thr i (threads s) = Some t -> decode (t_seq t) = None -> step s (AP1 i) = Some s' ->
  In (i, Ignore) (results s') /\ store s' = store s /\ accepted s' = accepted s.
Proof. exact malformed_ignored. Qed.
Print Assumptions C20_malformed_ignored.

(* Zero - an absent or all-zero sequence number - is never accepted, first time or replay. *)
Theorem C20_zero_never_accepted :
  forall l s, run init l = Some s -> forall a q, In (a, q) (accepted s) -> 0 < q.
Proof. intros l s R. apply (zero_never_accepted l init s); [intros a q []|exact R]. Qed.
Print Assumptions C20_zero_never_accepted.

(* non-vacuity, including the maximum value 2^64-1, zero, a concurrent duplicate and a short encoding *)
Example C20_nonvacuous :
  exists s, run init [AStart 1%nat 7%nat [0;0;0;0;0;0;0;5]; AStart 2%nat 7%nat [0;0;0;0;0;0;0;5];
                      AStart 3%nat 7%nat [255;255;255;255;255;255;255;255]; AStart 4%nat 7%nat [0;0;0;0;0;0;0;0];
                      AStart 5%nat 7%nat [1;2;3];
                      AP1 1%nat; AP1 2%nat; AP2 2%nat; AP2 1%nat; AP1 4%nat; AP1 5%nat; AP1 3%nat; AP2 3%nat] = Some s
    /\ results s = [(3, Accept); (5, Ignore); (4, Ignore); (1, Ignore); (2, Accept)]%nat
    /\ nonce_of 7%nat (store s) = 18446744073709551615.
Proof. eexists. vm_compute. repeat split. Qed.
