(* C02 - a message ID is delivered and validated at most once within the seen window. *)
From Coq Require Import List ZArith.
Import ListNotations.
From PS Require Import Model.TimeCache Model.Dedup Proofs.DedupProofs.
Local Open Scope Z_scope.

(* the cache alone *)
Theorem C02_add_true_iff_absent : forall c i now, fst (tc_add c i now) = true <-> lookup i (entries c) = None.
Proof. exact tc_add_true_iff_absent. Qed.
Theorem C02_add_makes_present : forall c i now, exists e, lookup i (entries (snd (tc_add c i now))) = Some e.
Proof. exact tc_add_present. Qed.
Theorem C02_sweep_removes_exactly_expired : forall c i now, NoDup (keys (entries c)) ->
  lookup i (entries (tc_sweep c now))
  = match lookup i (entries c) with Some e => if e <? now then None else Some e | None => None end.
Proof. exact tc_sweep_spec. Qed.
Print Assumptions C02_sweep_removes_exactly_expired.

(* the node: for every history of RPCs carrying any multiset of copies, local publishes of the same
   IDs, a validator blocking the worker for any length of time, and any passage of time, under both
   strategies: successful markSeen's of one ID are more than the TTL apart ... *)
Theorem C02_passes_separated : forall sg t c l s evs i,
  0 <= t -> 0 < interval c -> run c (init sg t c) l = Some (s, evs) -> sep t (passes_of i s).
Proof. exact passes_separated. Qed.
Print Assumptions C02_passes_separated.

(* ... and the validators are invoked, and the message delivered, at most once per successful markSeen *)
Theorem C02_invoked_at_most_once_per_window : forall sg t c l s evs i,
  0 <= t -> 0 < interval c -> run c (init sg t c) l = Some (s, evs) ->
  (count_ev (is_invoke i) evs <= length (passes_of i s))%nat.
Proof. exact invoked_le_passes. Qed.
Theorem C02_delivered_at_most_once_per_window : forall sg t c l s evs i,
  0 <= t -> 0 < interval c -> run c (init sg t c) l = Some (s, evs) ->
  (count_ev (is_deliver i) evs <= length (passes_of i s))%nat.
Proof. exact delivered_le_passes. Qed.
Print Assumptions C02_delivered_at_most_once_per_window.

(* remembered for at least the TTL (from the first sighting under first-seen; the last-seen
   strategy only ever extends the expiry) *)
Theorem C02_remembered_for_ttl : forall sg t c l s evs i a,
  0 <= t -> 0 < interval c -> run c (init sg t c) l = Some (s, evs) ->
  In (i, a) (passes s) -> clock s <= a + t -> lookup i (entries (cache s)) <> None.
Proof. exact remembered_for_ttl. Qed.
Print Assumptions C02_remembered_for_ttl.

Example C02_nonvacuous :
  let c := {| has_val := true; verdict_of := []; blocks := [7%nat]; qcap := 3; interval := 60 |} in
  exists s evs, run c (init FirstSeen 100 c) [ORecv [7%nat]; ORecv [5%nat; 5%nat; 7%nat]; OLocal 5%nat; ORelease VAccept;
                                              OSleep 161; ORecv [5%nat]] = Some (s, evs)
    /\ evs = [EInvoke 7%nat; EDup 7%nat; EInvoke 5%nat; EDeliver 5%nat; ELocal true; EDeliver 7%nat;
              EDup 5%nat; EDup 5%nat; EInvoke 5%nat; EDeliver 5%nat]
    /\ passes_of 5%nat s = [161; 0].
Proof. eexists. eexists. vm_compute. repeat split. Qed.
