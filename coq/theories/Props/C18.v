(* C18 - the peer-event stream of a topic reproduces the topic's peer set.
   Property theorems only; proofs live in Proofs/EventLogProofs.v. *)
From Coq Require Import List.
Import ListNotations.
From PS Require Import Model.EventLog Proofs.EventLogProofs.

(* For every history of membership changes, handler creation/cancellation and any number of
   concurrent / cancelled NextPeerEvent calls under every fine-grained schedule: once the handler is
   drained, replaying the returned events from the empty set yields exactly the topic's peer set. *)
Theorem C18_replay_reproduces_membership :
  forall l s, run init l = Some s -> active s = true -> log_of s = [] ->
    forall p, memb p (replay (rev (returned s))) = memb p (members s).
Proof. exact replay_membership. Qed.
Print Assumptions C18_replay_reproduces_membership.

(* ... and before it is drained the replay differs from the truth exactly on the pending entries *)
Theorem C18_replay_pending :
  forall l s, run init l = Some s -> active s = true ->
    forall p, memb p (replay (rev (returned s))) =
              match lk p (log_of s) with
              | None => memb p (members s) | Some Join => false | Some Leave => true end.
Proof. exact replay_membership_pending. Qed.
Print Assumptions C18_replay_pending.

(* For any single peer the returned events strictly alternate, starting with Join (also after Cancel). *)
Theorem C18_alternation :
  forall l s, run init l = Some s -> forall p, altseq Join (types_of p (rev (returned s))) = true.
Proof. exact alternation. Qed.
Print Assumptions C18_alternation.

(* No lost wake-up under any schedule: pending events + a parked call + nobody about to pull
   implies the wake-up token is present, and the parked call can then return an event. *)
Theorem C18_no_lost_token :
  forall l s, run init l = Some s -> log_of s <> [] -> pulling s = [] -> waiting s <> [] -> token_of s = true.
Proof. exact no_lost_token. Qed.
Print Assumptions C18_no_lost_token.

Theorem C18_parked_call_progress :
  forall l s i, run init l = Some s -> log_of s <> [] -> pulling s = [] -> memb i (waiting s) = true ->
    exists e s1 s2, step s (AWake i) = Some s1 /\ step s1 (APull i (Some e)) = Some s2.
Proof. exact parked_call_progress. Qed.
Print Assumptions C18_parked_call_progress.

(* non-vacuity: a history with a seeded handler, a coalesced pair, a parked call that is woken *)
Example C18_nonvacuous :
  exists s, run init [ASub 1; ACreate; ACall 7; APull 7 (Some (1, Join)); ASub 2; AUnsub 2;
                      ACall 8; APull 8 None; AWake 8; APull 8 None; AUnsub 1; AWake 8;
                      APull 8 (Some (1, Leave))] = Some s
            /\ active s = true /\ log_of s = [] /\ returned s = [(1, Leave); (1, Join)].
Proof. eexists. vm_compute. repeat split. Qed.
