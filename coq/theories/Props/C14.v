(* C14 - after shutdown every API call returns and every library goroutine exits. Property theorems only.
   The hypotheses [all_guarded gen_sites = true] and [all_replies_safe gen_replies = true] are OBLIGATIONS generated from
   /repo's source on every run (work/ShutdownGenObl.v); goroutine exit and the absence of panics are decided by the harness (TestVF_Shutdown). *)
From Coq Require Import List String Bool Arith.
Import ListNotations.
From PS Require Import Model.Shutdown Proofs.ShutdownProofs.

Theorem C14_guarded_calls_return : forall l, all_guarded l = true -> forall free, fst (call_after_shutdown l free) = Returned.
Proof. exact guarded_calls_return. Qed.
Theorem C14_guarded_sublist : forall l l', all_guarded l = true -> incl l' l -> forall free, fst (call_after_shutdown l' free) = Returned.
Proof. exact guarded_sublist. Qed.
Theorem C14_unguarded_send_can_block : forall s, s_guarded s = false -> fst (call_after_shutdown [s; s] 1) = BlockedForever.
Proof. exact unguarded_send_can_block. Qed.
(* the event loop itself never hangs on an answer: every reply channel is buffered or its maker receives unconditionally *)
Theorem C14_loop_reply_returns : forall l r caller_left,
  all_replies_safe l = true -> In r l -> (caller_left = true -> caller_may_leave r = true) -> reply_send r caller_left = Returned.
Proof. exact loop_reply_returns. Qed.
Theorem C14_unsafe_reply_blocks_loop : forall r, reply_safe r = false -> caller_may_leave r = true /\ reply_send r true = BlockedForever.
Proof. exact unsafe_reply_blocks_loop. Qed.
Print Assumptions C14_guarded_sublist.

Open Scope string_scope.
Example C14_nonvacuous :
  let ok := {| s_fn := "PubSub.ListPeers"; s_chan := "getPeers"; s_guarded := true; s_buffered := false |} in
  let bad := {| s_fn := "PubSub.PublishBatch"; s_chan := "sendMessageBatch"; s_guarded := false; s_buffered := true |} in
  fst (call_after_shutdown [ok; ok] 0) = Returned /\ fst (call_after_shutdown [bad] 1) = Returned /\ fst (call_after_shutdown [bad; bad] 1) = BlockedForever.
Proof. vm_compute. repeat split. Qed.
