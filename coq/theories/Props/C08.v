(* C08 - prune backoff is honoured in both directions. Property theorems only. *)
From Coq Require Import List ZArith.
Import ListNotations.
From PS Require Import Model.Router Proofs.RouterProofs.
Local Open Scope Z_scope.

(* In every accepted history (peer arrivals and departures, subscriptions, joins, leaves, received GRAFT
   and PRUNE with or without a backoff period, heartbeats with any admissible random selections and any
   scores, at arbitrary virtual times, for every valid parameter set): a GRAFT the node decides to send
   for (topic, peer) comes no earlier than every backoff deadline established before it for that pair. *)
Theorem C08_no_early_graft : forall P l s c l1 l2 t p tau d,
  valid_params P = true -> run P init l = Some (s, c) ->
  glog s = l1 ++ GGraft t p tau :: l2 -> In (GDeadline t p d) l2 -> d <= tau.
Proof. exact no_early_graft. Qed.
Print Assumptions C08_no_early_graft.

(* A GRAFT from a peer still under backoff is refused with a PRUNE, penalised (doubly inside the
   graft-flood threshold), the peer is not admitted and the backoff is extended. *)
Theorem C08_graft_in_backoff_refused : forall P sc s p t g e,
  aget t (mesh s) = Some g -> memb p g = false -> memb p (direct s) = false ->
  backoff_of s t p = Some e -> now s < e ->
  handle_graft1 P sc s p t
  = (add_backoff s t p (pPruneBackoff P), true, if now s <? e + (pGraftFlood P - pPruneBackoff P) then 2%nat else 1%nat).
Proof. exact graft_in_backoff_refused. Qed.
Theorem C08_refused_graft_not_admitted_backoff_extended : forall P sc s p t g e,
  aget t (mesh s) = Some g -> memb p g = false -> memb p (direct s) = false ->
  backoff_of s t p = Some e -> now s < e ->
  mesh (fst (fst (handle_graft1 P sc s p t))) = mesh s
  /\ exists e', backoff_of (fst (fst (handle_graft1 P sc s p t))) t p = Some e' /\ e <= e' /\ now s + pPruneBackoff P <= e'.
Proof. exact refused_graft_not_in_mesh. Qed.
Print Assumptions C08_refused_graft_not_admitted_backoff_extended.

(* every PRUNE to a peer speaking v1.1 or later states the backoff period *)
Theorem C08_prune_states_backoff : forall P s p t unsub, speaks_px s p = true ->
  mk_prune P s p t unsub = CPrune p t (Some ((if unsub then pUnsubBackoff P else pPruneBackoff P) / 1000000000)).
Proof. exact prune_states_backoff. Qed.

Definition P0 : params :=
  {| pD := 2; pDlo := 1; pDhi := 3; pDscore := 1; pDout := 0; pOGTicks := 1; pOGPeers := 1; pOGThreshold := 2;
     pPruneBackoff := 60; pUnsubBackoff := 10; pGraftFlood := 10; pSlack := 2; pFanoutTTL := 60; pPublishThr := -3 |}.
Definition gp := {| pi_mesh := true; pi_px := true; pi_out := false |}.
Example C08_nonvacuous :
  exists s c, run P0 init [([], OAddPeer 1%nat gp); ([], OSub 1%nat 0%nat); ([], OJoin 0%nat [1%nat]);
                           ([], ORecvPrune 1%nat [(0%nat, Some 30)]); ([], OAdvance 20);
                           ([], OHeartbeat [] []); ([], OAdvance 11000000000); ([], OHeartbeat [] []);
                           ([], OAdvance 30000000000)] = Some (s, c)
    /\ c = [CGraft 1%nat 0%nat] /\ backoff_of s 0%nat 1%nat = Some 30000000000.
Proof. eexists. eexists. vm_compute. repeat split. Qed.
