(* C16 - a blacklisted peer can neither inject messages nor receive traffic. Property theorems only.
   (That nothing from / authored by a blacklisted peer is delivered, and that nothing is sent to it after
   BlacklistPeer, is decided on every run by the monitors of Run/LifeRun.v on real streams.) *)
From Coq Require Import List Bool Arith.
Import ListNotations.
From PS Require Import Model.Lifecycle Proofs.LifecycleDep Proofs.LifecycleProofs.

(* BlacklistPeer at ANY point of the peer's lifecycle: at that moment its outbound queue is closed and dropped and
   it is in no topic list, mesh or fanout set *)
Theorem C16_blacklist_api_clears : forall v,
  let w := lstep v (LBlacklist true) in
  v_blacklisted w = true
  /\ (depb v = true ->
      v_queue w = false /\ v_out w = false /\ v_topics w = (v_topics v && negb (v_queue v)) /\ v_mesh w = false /\ v_fanout w = false
      /\ v_bufs w = false /\ v_prot w = false).
Proof. exact blacklist_api_clears. Qed.
(* by either route, once blacklisted without an established outbound stream, none is ever established again:
   no queue is created for the peer and a stream that completes later is refused - over EVERY later history *)
Theorem C16_blacklisted_no_outbound : forall l v,
  v_blacklisted v = true -> v_out v = false -> v_out (lrun v l) = false /\ v_blacklisted (lrun v l) = true.
Proof. exact blacklisted_no_outbound. Qed.
Print Assumptions C16_blacklisted_no_outbound.

Example C16_nonvacuous :
  let l := [LNotify; LBlacklist false; LOutUp; LNotify; LInUp; LSub; LMsg] in
  v_out (lrun pv0 l) = false /\ v_queue (lrun pv0 l) = false /\ v_blacklisted (lrun pv0 l) = true
  /\ v_topics (lrun pv0 l) = true.   (* its announcements are still recorded: the property does not forbid that *)
Proof. vm_compute. repeat split. Qed.
