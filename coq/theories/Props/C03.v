(* C03 - only authentic messages are accepted under the configured signature policy.
   Property theorems only.  The cryptographic primitives are parameters; unforgeability itself is
   not a theorem (the statements say: accepted => the signature verifies under the bound key). *)
From Coq Require Import List Bool.
From PS Require Import Model.SignPolicy Proofs.SignPolicyProofs.

Theorem C03_signed_accepted_verifies :
  forall (bytes pid pubkey : Type) bytes_eqb pid_of_bytes extract unmarshal_key matches verify signed_payload
         p anon self src_self (m : msg bytes),
  accept bytes pid pubkey bytes_eqb pid_of_bytes extract unmarshal_key matches verify signed_payload p anon self src_self m = Accepted ->
  present (m_sig m) = true ->
  exists f a k s, m_from m = Some f /\ pid_of_bytes f = Some a
    /\ message_pubkey bytes pid pubkey pid_of_bytes extract unmarshal_key matches m = Some k /\ m_sig m = Some s
    /\ verify k (signed_payload m) s = true
    /\ match m_key m with None => extract a = Some k | Some kb => unmarshal_key kb = Some k /\ matches a k = true end.
Proof. exact signed_accepted_verifies. Qed.
Print Assumptions C03_signed_accepted_verifies.

Theorem C03_strict_requires_signature :
  forall (bytes pid pubkey : Type) bytes_eqb pid_of_bytes extract unmarshal_key matches verify signed_payload anon self src_self (m : msg bytes),
  accept bytes pid pubkey bytes_eqb pid_of_bytes extract unmarshal_key matches verify signed_payload StrictSign anon self src_self m = Accepted ->
  present (m_sig m) = true.
Proof. exact strict_requires_signature. Qed.

Theorem C03_nosign_rejects_signature :
  forall (bytes pid pubkey : Type) bytes_eqb pid_of_bytes extract unmarshal_key matches verify signed_payload anon self src_self (m : msg bytes),
  present (m_sig m) = true ->
  accept bytes pid pubkey bytes_eqb pid_of_bytes extract unmarshal_key matches verify signed_payload StrictNoSign anon self src_self m
  = Rejected RUnexpectedSignature.
Proof. exact nosign_rejects_signature. Qed.

Theorem C03_anonymous_rejects_auth_fields :
  forall (bytes pid pubkey : Type) bytes_eqb pid_of_bytes extract unmarshal_key matches verify signed_payload self src_self (m : msg bytes),
  present (m_seqno m) || present (m_from m) || present (m_key m) = true ->
  accept bytes pid pubkey bytes_eqb pid_of_bytes extract unmarshal_key matches verify signed_payload StrictNoSign true self src_self m <> Accepted.
Proof. exact anonymous_rejects_auth_fields. Qed.

Theorem C03_self_origin_dropped :
  forall (bytes pid pubkey : Type) bytes_eqb pid_of_bytes extract unmarshal_key matches verify signed_payload p anon self (m : msg bytes) f,
  m_from m = Some f -> bytes_eqb f self = true ->
  accept bytes pid pubkey bytes_eqb pid_of_bytes extract unmarshal_key matches verify signed_payload p anon self false m <> Accepted.
Proof. exact self_origin_dropped. Qed.

Theorem C03_tampered_payload_rejected :
  forall (bytes pid pubkey : Type) bytes_eqb pid_of_bytes extract unmarshal_key matches verify signed_payload p anon self src_self (m : msg bytes) k s,
  message_pubkey bytes pid pubkey pid_of_bytes extract unmarshal_key matches m = Some k -> m_sig m = Some s ->
  verify k (signed_payload m) s = false ->
  accept bytes pid pubkey bytes_eqb pid_of_bytes extract unmarshal_key matches verify signed_payload p anon self src_self m <> Accepted.
Proof. exact tampered_payload_rejected. Qed.
Print Assumptions C03_tampered_payload_rejected.

(* messages signed by a correct node (key embedded in, or attached and matching, the author ID)
   are accepted by every correct receiver under every signing-compatible policy; hypotheses =
   correctness of the signature scheme and of the (un)marshalling round trips *)
Theorem C03_own_messages_verify :
  forall (bytes pid pubkey privkey : Type) bytes_eqb pid_of_bytes extract unmarshal_key matches verify signed_payload
         (sign : privkey -> bytes -> bytes) (pub : privkey -> pubkey) (marshal_key : pubkey -> bytes) (pid_bytes : pid -> bytes),
  (forall key b, verify (pub key) b (sign key b) = true) ->
  (forall a, pid_of_bytes (pid_bytes a) = Some a) ->
  (forall k, unmarshal_key (marshal_key k) = Some k) ->
  (forall (m : msg bytes) s k, signed_payload {| m_from := m_from m; m_data := m_data m; m_seqno := m_seqno m; m_topic := m_topic m;
                                                 m_sig := s; m_key := k; m_unk := m_unk m |} = signed_payload m) ->
  forall p anon self a key (m : msg bytes),
  m_from m = Some (pid_bytes a) ->
  match extract a with Some pk => pk = pub key | None => matches a (pub key) = true end ->
  bytes_eqb (pid_bytes a) self = false ->
  (must_verify p = true -> must_sign p = true) ->
  accept bytes pid pubkey bytes_eqb pid_of_bytes extract unmarshal_key matches verify signed_payload p anon self false
         (sign_message bytes pid pubkey privkey extract signed_payload sign pub marshal_key a key m) = Accepted.
Proof. exact own_messages_verify. Qed.
Print Assumptions C03_own_messages_verify.
