(* C05 - interest announcements converge to the true subscription state. Property theorems only. *)
From Coq Require Import List Bool Arith.
Import ListNotations.
From PS Require Import Model.Router Model.Announce Proofs.AnnounceProofs.

(* after ANY sequence of subscribe / cancel / relay / relay-cancel / connect / disconnect on a node, with any
   announcement pushes refused by full outbound queues and retried in any order (announceRetry re-checks the
   current state), once no retry is pending every connected peer has been told exactly the topics the node holds
   a subscription or relay reference for *)
Theorem C05_announcements_converge : forall l s,
  forallb no_forget l = true -> arun ainit l = Some s -> a_pending s = [] ->
  forall q t, In q (a_conn s) -> told s q t = interested s t.
Proof. exact announcements_converge. Qed.
Print Assumptions C05_announcements_converge.
(* the invariant behind it, at every point of every history: what a connected peer has been told is right, or the
   right announcement is waiting to be retried *)
Theorem C05_invariant : forall l s s', AInv s -> forallb no_forget l = true -> arun s l = Some s' -> AInv s'.
Proof. exact AInv_run. Qed.
(* if the RECEIVER forgets what it was told while the connection survives (its own outbound stream to the
   announcer was reset and respawned), nothing makes the announcer repeat itself: the statement is false
   (known finding) *)
Theorem C05_converge_refuted_by_forget :
  exists l s, arun ainit l = Some s /\ a_pending s = [] /\ exists q t, In q (a_conn s) /\ told s q t <> interested s t.
Proof. exact converge_refuted_by_forget. Qed.

Example C05_nonvacuous :
  exists s, arun ainit [AConnect 1; AConnect 2; ASubscribe 0 [2]; ARelay 0 []; ACancel 0 []; ARetry 0 true; ARetry 0 false;
                        ARelayCancel 0 [1]; ASubscribe 1 []; ARetry 0 false] = Some s
    /\ a_pending s = [] /\ told s 1 0 = false /\ told s 2 0 = false /\ told s 1 1 = true /\ told s 2 1 = true.
Proof. eexists. split; [vm_compute; reflexivity|]. vm_compute. repeat split. Qed.
