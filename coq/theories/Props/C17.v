(* C17 - gossip stays within its protocol bounds and message-cache windows. Property theorems only. *)
From Coq Require Import List ZArith Bool.
Import ListNotations.
From PS Require Import Model.Router Model.Gossip Proofs.McacheProofs Proofs.GossipProofs.
Local Open Scope Z_scope.

(* (1) The message cache alone, for EVERY sequence of put / get-for-peer / shift operations: a fresh id
   stays retrievable through IWANT for exactly HistoryLength shifts and is in the gossip (IHAVE) window
   of its own topic only, for exactly the first HistoryGossip of them. *)
Theorem C17_mcache_window : forall HL HG c i t l p,
  (0 < HL)%nat -> (HG <= HL)%nat -> Gone HL c i ->
  forallb (fun o => negb (puts_id i o)) l = true ->
  let c' := mrun (mc_put c i t) l in
  (retrievable c' i p = true <-> (shifts l < HL)%nat)
  /\ (In i (mc_gossip_ids c' HG t) <-> (shifts l < HG)%nat)
  /\ (forall t', In i (mc_gossip_ids c' HG t') -> t' = t).
Proof. exact mcache_window. Qed.
Print Assumptions C17_mcache_window.

(* (1') the same along router histories: after ANY history following the publication of an unseen
   message (forwards, IHAVE / IWANT / IDONTWANT traffic, joins, heartbeats, ...), the message is
   retrievable iff fewer than HistoryLength heartbeats went by, advertised iff fewer than HistoryGossip. *)
Theorem C17_published_message_window : forall P g0 log sc0 m ch g out0 l g' out p,
  (0 < gHistLen P)%nat -> (gHistGossip P <= gHistLen P)%nat ->
  reach P g0 log -> memb (m_id m) (seen g0) = false ->
  gstep P sc0 g0 (GPublish m ch) = Some (g, out0) ->
  grun P g l = Some (g', out) ->
  (retrievable (mc g') (m_id m) p = true <-> (hbs l < gHistLen P)%nat)
  /\ (In (m_id m) (mc_gossip_ids (mc g') (gHistGossip P) (m_topic m)) <-> (hbs l < gHistGossip P)%nat).
Proof. exact published_message_window. Qed.
Print Assumptions C17_published_message_window.

(* (2) IHAVE goes only to non-mesh (non-fanout), non-direct topic peers that speak gossipsub and are at
   or above the gossip threshold, with at most MaxIHaveLength ids, all from the gossip window. *)
Theorem C17_ihave_emission : forall P sc g obs fobs gobs g' out q t ids,
  gstep P sc g (GHeartbeat obs fobs gobs) = Some (g', out) -> In (OIHave q t ids) out ->
  exists c excl,
    core g' = c
    /\ (aget t (mesh c) = Some excl \/ (aget t (mesh c) = None /\ aget t (fanout c) = Some excl))
    /\ In q (aget_l t (tmap c)) /\ ~ In q excl /\ ~ In q (direct c) /\ speaks_mesh c q = true
    /\ gGossipThr P <= score_of sc q
    /\ (length ids <= gMaxIHaveLen P)%nat
    /\ forall i, In i ids -> In i (mc_gossip_ids (mc g) (gHistGossip P) t).
Proof. exact ihave_emission. Qed.

(* (3) over every history a peer is served the same message at most GossipRetransmission times ... *)
Theorem C17_served_at_most_retransmission : forall P g log p i,
  reach P g log -> (served_cnt log p i <= gRetrans P)%nat.
Proof. exact served_at_most_retransmission. Qed.
Print Assumptions C17_served_at_most_retransmission.
(* ... only while it is cached, and never a message the peer declared unwanted *)
Theorem C17_iwant_answers : forall P g log en p ids i,
  reach P g log -> In en log -> e_op en = GRecvIWant p ids -> In (OMsg p i) (e_out en) ->
  In i ids /\ memb i (mmsgs (mc (e_pre en))) = true /\ is_unwanted (e_pre en) p i = false
  /\ gGossipThr P <= score_of (e_sc en) p /\ accept_from P (e_sc en) (e_pre en) p = true.
Proof. exact iwant_answers. Qed.

(* (4) the node requests only ids it has not seen, that the peer advertised, without duplicates ... *)
Theorem C17_iwant_requests : forall P g log en p ih a pr asked,
  reach P g log -> In en log -> e_op en = GRecvIHave p ih a pr -> In (OIWant p asked) (e_out en) ->
  asked = a /\ NoDup asked
  /\ (forall i, In i asked -> memb i (seen (e_pre en)) = false /\ exists t ids, In (t, ids) ih /\ In i ids)
  /\ gGossipThr P <= score_of (e_sc en) p /\ accept_from P (e_sc en) (e_pre en) p = true.
Proof. exact iwant_requests. Qed.
(* ... at most MaxIHaveLength of them per peer between two heartbeats, answering at most
   MaxIHaveMessages IHAVEs per peer between two heartbeats *)
Theorem C17_asked_per_heartbeat_bounded : forall P g log p,
  reach P g log -> (since_hb (asked_in p) log <= gMaxIHaveLen P)%nat.
Proof. exact asked_per_heartbeat_bounded. Qed.
Theorem C17_ihave_honoured_per_heartbeat_bounded : forall P g log p,
  reach P g log -> (since_hb (honoured_in p) log <= gMaxIHaveMsgs P)%nat.
Proof. exact ihave_honoured_per_heartbeat_bounded. Qed.
Print Assumptions C17_asked_per_heartbeat_bounded.

(* (5) IDONTWANT received: an IDONTWANT is either ignored or counted; when counted the counter was below
   MaxIDontWantMessages, and exactly the first MaxIDontWantLength ids are recorded with the TTL. The
   counter never exceeds the cap and is reset only by the heartbeat. *)
Theorem C17_idontwant_honoured : forall P g p idws,
  let g' := handle_idontwant P g p idws in
  g' = g \/
  (idws <> [] /\ (cget p (peerdontwant g) < gMaxIDWMsgs P)%nat /\ peerdontwant g' = bump p (peerdontwant g)
   /\ forall q i, uttl g' q i = if Nat.eqb q p && memb i (firstn (gMaxIDWLen P) (concat idws)) then Some (gIDWTTL P) else uttl g q i).
Proof. exact idontwant_spec. Qed.
Theorem C17_idontwant_counter_bounded : forall P g log p,
  reach P g log -> (cget p (peerdontwant g) <= gMaxIDWMsgs P)%nat.
Proof. intros P g log p H. exact (idontwant_counter_bounded P g log H p). Qed.
Theorem C17_heartbeat_resets_counters : forall P sc g obs fobs gobs g' out,
  gstep P sc g (GHeartbeat obs fobs gobs) = Some (g', out) ->
  peerhave g' = [] /\ iasked g' = [] /\ peerdontwant g' = [].
Proof. intros P sc g obs fobs gobs g' out H. destruct (hb_fields _ _ _ _ _ _ _ _ H) as (A & B & C & _). auto. Qed.
(* ... and is forgotten after exactly its TTL in heartbeats, whatever else happens meanwhile *)
Theorem C17_idontwant_ttl : forall P p i l g g' out n,
  UK g -> uttl g p i = Some n -> (1 <= n)%nat -> forallb (fun e => quiet_for p (snd e)) l = true ->
  grun P g l = Some (g', out) ->
  uttl g' p i = if Nat.ltb (hbs l) n then Some (n - hbs l)%nat else None.
Proof. exact idontwant_ttl. Qed.
Theorem C17_unwanted_keys_unique_reachable : forall P g log, reach P g log -> UK g.
Proof. exact UK_reach. Qed.
Print Assumptions C17_idontwant_ttl.

(* (6) IDONTWANT sent: only for messages at or above the size threshold, only to mesh peers of the
   message's topic that speak v1.2+ and have a queue, never to the sender. *)
Theorem C17_idontwant_sent : forall P g from msgs q t ids,
  In (q, t, ids) (idontwant_targets P g from msgs) ->
  q <> from /\ memb q (idw_peers g) = true /\ In q (aget_l t (mesh (core g))) /\ has_queue g q = true
  /\ ids <> []
  /\ forall i, In i ids -> exists m, In m msgs /\ m_id m = i /\ m_topic m = t /\ (gIDWThr P <= m_size m)%nat.
Proof. exact idontwant_sent_spec. Qed.

(* (7) a peer is penalised for broken promises only at a heartbeat, by exactly the number of its
   promises that are past their deadline; each of those was for an id the node really requested from
   that peer (deadline = request time + follow-up time) and that has still not arrived from anyone. *)
Theorem C17_penalty_only_if_never_arrived : forall P g log sc obs fobs gobs g' out p n,
  reach P g log -> gstep P sc g (GHeartbeat obs fobs gobs) = Some (g', out) -> In (OPenalty p n) out ->
  n = length (filter (fun e => (snd e <? now (core g)) && Nat.eqb p (snd (fst e))) (promises g))
  /\ (0 < n)%nat
  /\ forall i e, In ((i, p), e) (promises g) ->
       memb i (seen g) = false
       /\ exists en ih a pr, In en log /\ e_op en = GRecvIHave p ih a pr /\ In (OIWant p a) (e_out en) /\ In i a
                             /\ e = now (core (e_pre en)) + gFollowup P.
Proof. exact penalty_only_if_never_arrived. Qed.
Print Assumptions C17_penalty_only_if_never_arrived.

(* ---- non-vacuity: a concrete history that exercises the hypotheses ---- *)
Local Close Scope Z_scope.
Definition RP : params :=
  {| pD := 2; pDlo := 1; pDhi := 3; pDscore := 1; pDout := 0; pOGTicks := 1; pOGPeers := 1; pOGThreshold := 2%Z;
     pPruneBackoff := 60%Z; pUnsubBackoff := 10%Z; pGraftFlood := 10%Z; pSlack := 2%Z; pFanoutTTL := 60%Z; pPublishThr := (-3)%Z |}.
Definition GP : gparams :=
  {| gCore := RP; gHistLen := 3; gHistGossip := 2; gDlazy := 1; gFactorNum := 1; gFactorDen := 4;
     gMaxIHaveLen := 2; gMaxIHaveMsgs := 3; gRetrans := 1; gMaxIDWMsgs := 1; gMaxIDWLen := 2; gIDWTTL := 2; gIDWThr := 10;
     gGossipThr := (-2)%Z; gGraylistThr := (-5)%Z; gFollowup := 3%Z; gFlood := false |}.
Definition pg := {| pi_mesh := true; pi_px := true; pi_out := false |}.
Definition m1 := {| m_id := 100; m_topic := 0; m_size := 20; m_from := None; m_author := None |}.
Definition hist1 : list (list (peer * Z) * gop) :=
  [([], GAddPeer 1 pg true); ([], GCore (OSub 1 0)); ([], GAddPeer 2 pg true); ([], GCore (OSub 2 0));
   ([], GAddPeer 3 pg true); ([], GCore (OSub 3 0));
   ([], GCore (OJoin 0 [1; 2])); ([], GPublish m1 []);
   ([], GRecvIWant 3 [100]); ([], GRecvIWant 3 [100]);
   ([], GRecvIHave 3 [(0, [101; 102; 103])] [101; 102] (Some 101));
   ([], GRecvIDontWant 1 [[100; 7; 8]]);
   ([], GCore (OAdvance 10%Z)); ([], GHeartbeat [] [] [(0, [(3, [100])])])].
(* peer 3 asks twice for message 100 and is served once (GossipRetransmission = 1); the IHAVE with three
   ids is answered with an IWANT for two (MaxIHaveLength = 2); the IDONTWANT with three ids records two
   (MaxIDontWantLength = 2) which have one heartbeat left after the heartbeat; the promise for 101 is
   broken (follow-up 3 < 10) and penalised; message 100 is advertised to the only non-mesh peer. *)
Example C17_nonvacuous :
  exists g out, grun GP (ginit GP) hist1 = Some (g, out)
    /\ out = [OCtl (CGraft 1 0); OCtl (CGraft 2 0); OIDontWant 1 0 [100]; OIDontWant 2 0 [100];
              OMsg 1 100; OMsg 2 100; OMsg 3 100; OIWant 3 [101; 102]; OPenalty 3 1; OIHave 3 0 [100]]
    /\ uttl g 1 100 = Some 1 /\ uttl g 1 7 = Some 1 /\ uttl g 1 8 = None.
Proof. eexists. eexists. vm_compute. repeat split. Qed.
