(* C06 - every forwarded copy goes to exactly the peers the router rules require (gossipsub router).
   Property theorems only. *)
From Coq Require Import List ZArith Bool.
Import ListNotations.
From PS Require Import Model.Router Model.Gossip Model.Trace Model.SimpleRouters Proofs.GossipProofs Proofs.SimpleProofs.
Local Open Scope Z_scope.

(* The recipient set of one message, in every router state (reachable or not), for local and remote
   origin, with and without flood publishing:
   - never the peer it came from, never its author, never somebody who is neither subscribed to the
     topic nor a member of the eager-push overlay used (mesh when joined, fanout otherwise);
   - flood publishing of an own message: exactly the topic peers that are direct or at / above the
     publish threshold;
   - otherwise exactly: the direct peers in the topic, the floodsub-only peers in the topic at / above the
     publish threshold, and the overlay members that did not announce IDONTWANT for this message. *)
Theorem C06_recipients : forall P sc g m ch g' r,
  recipients P sc g m ch = Some (g', r) ->
  let s := core g in let t := m_topic m in let tm := aget_l t (tmap s) in
  (forall q, In q r -> excluded m q = false /\ (In q tm \/ In q (overlay g g' t)))
  /\ (aget t (tmap s) = None -> r = [])
  /\ (own_flood P m = true ->
        forall q, In q r <-> In q tm /\ excluded m q = false /\ (In q (direct s) \/ pPublishThr (gCore P) <= score_of sc q))
  /\ (own_flood P m = false -> aget t (tmap s) <> None ->
        forall q, excluded m q = false ->
          (In q (direct s) /\ In q tm -> In q r)
          /\ (In q tm /\ speaks_mesh s q = false /\ pPublishThr (gCore P) <= score_of sc q -> In q r)
          /\ (In q (overlay g g' t) /\ is_unwanted g q (m_id m) = false -> In q r)
          /\ (In q r -> (In q (direct s) /\ In q tm)
                        \/ (In q tm /\ speaks_mesh s q = false /\ pPublishThr (gCore P) <= score_of sc q)
                        \/ (In q (overlay g g' t) /\ is_unwanted g q (m_id m) = false))).
Proof. exact recipients_spec. Qed.
Print Assumptions C06_recipients.

(* copies are queued for exactly the recipients that have an outbound queue *)
Theorem C06_publish_sends : forall P sc g m ch g' r,
  publish P sc g m ch = Some (g', r) ->
  exists g1 r0, recipients P sc (put_state g m) m ch = Some (g1, r0) /\ g' = g1 /\ r = filter (has_queue g1) r0.
Proof. exact publish_sends. Qed.

(* when the topic is not joined: an existing fanout is used as it is (its members are kept and the
   last-published time refreshed); otherwise up to D distinct peers that are subscribed, speak gossipsub,
   are not direct and are at / above the publish threshold *)
Theorem C06_fanout_for_publishing : forall P sc g t ch g' gm,
  fanout_for_publishing P sc g t ch = Some (g', gm) ->
  aget_l t (fanout (core g')) = gm
  /\ aget t (lastpub (core g')) = Some (now (core g))
  /\ mesh (core g') = mesh (core g) /\ tmap (core g') = tmap (core g) /\ direct (core g') = direct (core g) /\ peers (core g') = peers (core g)
  /\ ((aget_l t (fanout (core g)) <> [] /\ gm = aget_l t (fanout (core g)))
      \/ (aget_l t (fanout (core g)) = [] /\ gm = ch /\ NoDup gm /\ (length gm <= pD (gCore P) \/ pD (gCore P) = 0)%nat
          /\ forall q, In q gm -> In q (aget_l t (tmap (core g))) /\ speaks_mesh (core g) q = true
                                  /\ ~ In q (direct (core g)) /\ pPublishThr (gCore P) <= score_of sc q)).
Proof. exact fanout_for_publishing_spec. Qed.

(* fanout maintenance at the heartbeat keeps every member that is still subscribed and at / above the
   publish threshold; everybody in the maintained fanout is subscribed and meets the threshold *)
Theorem C06_fanout_members_kept : forall P sc s t added s',
  hb_fanout P sc s t added = Some s' ->
  (forall p, In p (aget_l t (fanout s)) -> In p (aget_l t (tmap s)) -> pPublishThr P <= score_of sc p -> In p (aget_l t (fanout s')))
  /\ (forall p, In p (aget_l t (fanout s')) -> pPublishThr P <= score_of sc p /\ In p (aget_l t (tmap s))).
Proof. exact hb_fanout_spec. Qed.

(* a local-only publication reaches nobody *)
Theorem C06_local_publication_sends_nothing : forall P sc g m g' out q i,
  gstep P sc g (GPublishLocal m) = Some (g', out) -> ~ In (OMsg q i) out.
Proof. exact local_publication_sends_nothing. Qed.
Print Assumptions C06_local_publication_sends_nothing.

(* ---- the two simple routers ---- *)
(* floodsub: exactly the topic peers with an outbound queue, minus the source and the author *)
Theorem C06_floodsub_recipients : forall s m q,
  In q (fs_recipients s m) <-> In q (aget_l (sm_topic m) (sr_tmap s)) /\ sexcl m q = false /\ has_q s q = true.
Proof. exact fs_recipients_spec. Qed.
(* randomsub: never the source, the author or a non-member; always every floodsub-only topic peer; all randomsub
   topic peers when at most RandomSubD are eligible, otherwise min(max(RandomSubD, ceil(sqrt(size))), #eligible) distinct ones *)
Theorem C06_randomsub_recipients : forall s size m chosen r tm,
  aget (sm_topic m) (sr_tmap s) = Some tm ->
  rs_recipients s size m chosen = Some r ->
  let rsp := filter (fun p => negb (is_fs s p)) (filter (fun p => negb (sexcl m p)) tm) in
  (forall q, In q r -> In q tm /\ sexcl m q = false /\ has_q s q = true)
  /\ (forall q, In q tm -> sexcl m q = false -> has_q s q = true -> is_fs s q = true -> In q r)
  /\ ((length rsp <= RandomSubD)%nat -> forall q, In q rsp -> has_q s q = true -> In q r)
  /\ ((RandomSubD < length rsp)%nat ->
        NoDup chosen /\ length chosen = Nat.min (Nat.max RandomSubD (csqrt size)) (length rsp)
        /\ (forall q, In q chosen -> In q rsp)
        /\ (forall q, In q r -> is_fs s q = false -> In q chosen)).
Proof. exact rs_recipients_spec. Qed.
Theorem C06_randomsub_no_topic : forall s size m chosen r,
  aget (sm_topic m) (sr_tmap s) = None -> rs_recipients s size m chosen = Some r -> r = [].
Proof. exact rs_no_topic. Qed.
Print Assumptions C06_randomsub_recipients.
(* a local-only publication goes to nobody under floodsub and randomsub alike *)
Theorem C06_simple_local_only_sends_nothing : forall rand size s m s' rc tr,
  srstep rand size s (RLocalOnly m) = Some (s', rc, tr) ->
  rc = [] /\ (forall q, ~ In (TSend q) tr) /\ sr_peers s' = sr_peers s /\ sr_tmap s' = sr_tmap s /\ sr_joined s' = sr_joined s.
Proof. exact local_only_sends_nothing. Qed.
Print Assumptions C06_simple_local_only_sends_nothing.

(* ---- non-vacuity ---- *)
Local Close Scope Z_scope.
Definition RP : params :=
  {| pD := 2; pDlo := 1; pDhi := 3; pDscore := 1; pDout := 0; pOGTicks := 1; pOGPeers := 1; pOGThreshold := 2%Z;
     pPruneBackoff := 60%Z; pUnsubBackoff := 10%Z; pGraftFlood := 10%Z; pSlack := 2%Z; pFanoutTTL := 60%Z; pPublishThr := (-3)%Z |}.
Definition GP : gparams :=
  {| gCore := RP; gHistLen := 3; gHistGossip := 2; gDlazy := 1; gFactorNum := 1; gFactorDen := 4;
     gMaxIHaveLen := 2; gMaxIHaveMsgs := 3; gRetrans := 1; gMaxIDWMsgs := 1; gMaxIDWLen := 2; gIDWTTL := 2; gIDWThr := 100;
     gGossipThr := (-2)%Z; gGraylistThr := (-5)%Z; gFollowup := 3%Z; gFlood := false |}.
Definition pg := {| pi_mesh := true; pi_px := true; pi_out := false |}.
Definition pf := {| pi_mesh := false; pi_px := false; pi_out := false |}.
(* 1, 2: mesh; 3: gossipsub non-mesh; 4: floodsub; 5: floodsub below the publish threshold; 6: direct;
   message 200 arrives from 1 with author 6, after 2 said IDONTWANT *)
Definition m2 := {| m_id := 200; m_topic := 0; m_size := 20; m_from := Some 1; m_author := Some 6 |}.
Definition m3 := {| m_id := 201; m_topic := 0; m_size := 20; m_from := Some 3; m_author := None |}.
Definition sc1 : list (peer * Z) := [(5, (-4)%Z)].
Definition hist2 : list (list (peer * Z) * gop) :=
  [(sc1, GAddPeer 1 pg true); (sc1, GCore (OSub 1 0)); (sc1, GAddPeer 2 pg true); (sc1, GCore (OSub 2 0));
   (sc1, GAddPeer 3 pg true); (sc1, GCore (OSub 3 0)); (sc1, GAddPeer 4 pf false); (sc1, GCore (OSub 4 0));
   (sc1, GAddPeer 5 pf false); (sc1, GCore (OSub 5 0)); (sc1, GAddPeer 6 pg true); (sc1, GCore (OSub 6 0));
   (sc1, GCore (OAddDirect 6)); (sc1, GCore (OJoin 0 [1; 2]));
   (sc1, GRecvIDontWant 2 [[201]]);
   (sc1, GRecvMsgs 1 [m2] []); (sc1, GRecvMsgs 3 [m3] [])].
Example C06_nonvacuous :
  exists g out, grun GP (ginit GP) hist2 = Some (g, out)
    /\ out = [OCtl (CGraft 1 0); OCtl (CGraft 2 0);
              OMsg 4 200; OMsg 2 200;            (* not 1 (source), not 6 (author), not 5 (threshold), not 3 (non-mesh) *)
              OMsg 6 201; OMsg 4 201; OMsg 1 201] (* not 2 (IDONTWANT), not 3 (source) *).
Proof. eexists. eexists. vm_compute. repeat split. Qed.
