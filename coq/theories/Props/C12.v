(* C12 - no input from remote peers can crash the node or stall its event loop. Property theorems only.
   The theorems are about the inbound stream reader (Model/Frame.v), which the harness compares with a real
   node on arbitrary byte streams; absence of panics and liveness under hostile well-formed RPCs are harness
   observations (TestVF_Hostile). *)
From Coq Require Import List Bool Arith NArith.
Import ListNotations.
From PS Require Import Model.Frame Proofs.FrameProofs.
Local Open Scope N_scope.

(* for EVERY byte stream a peer writes: the reader terminates with a definite outcome (it is a total function of the
   bytes of that one stream) *)
Theorem C12_read_stream_total : forall max decodes bs, exists fs e, read_stream max decodes bs = (fs, e).
Proof. exact read_stream_total. Qed.
(* every frame handed to the event loop is non-empty, within the size limit and decodes as an RPC *)
Theorem C12_frames_wellformed : forall fuel max decodes bs fs e,
  reader fuel max decodes bs = (fs, e) ->
  forall f, In f fs -> f <> [] /\ (N.of_nat (length f) <= max) /\ decodes f = true.
Proof. exact frames_wellformed. Qed.
(* a frame announcing more than the limit, or whose payload does not decode, resets the stream and is not delivered *)
Theorem C12_oversize_resets : forall max decodes bs len rest,
  next_len bs = UOk len rest -> max < len -> reader (S (length bs)) max decodes bs = ([], EReset 2).
Proof. exact oversize_resets. Qed.
Theorem C12_undecodable_resets : forall max decodes bs len rest payload rest',
  next_len bs = UOk len rest -> len <> 0 -> len <= max -> take (N.to_nat len) rest = Some (payload, rest') -> decodes payload = false ->
  reader (S (length bs)) max decodes bs = ([], EReset 4).
Proof. exact undecodable_resets. Qed.
Print Assumptions C12_frames_wellformed.

Example C12_nonvacuous :
  (* two good frames, then a length prefix above the limit *)
  read_stream 4 (fun p => match p with [7] => true | [1; 2] => true | _ => false end) [1; 7; 0; 2; 1; 2; 9; 0; 0]
  = ([[7]; [1; 2]], EReset 2)
  /\ read_stream 4 (fun _ => true) [130; 0; 1; 5] = ([[5]], EClean)   (* a non-minimal varint is skipped, not fatal *)
  /\ read_stream 4 (fun _ => true) [3; 1] = ([], EReset 3)
  /\ read_stream 4 (fun _ => true) [171; 176] = ([], EClean).   (* a varint cut off by the end of the stream ends it politely *)
Proof. vm_compute. repeat split. Qed.
