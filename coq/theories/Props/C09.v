(* C09 - score thresholds gate what a peer may send and receive. Property theorems only.
   The gater, the dispatch under each AcceptFrom verdict and peer exchange are in Model/Gate.v. *)
From Coq Require Import List ZArith Bool.
Import ListNotations.
From PS Require Import Model.Router Model.Gossip Model.Gate Proofs.RouterProofs Proofs.GossipProofs Proofs.GateProofs.
Local Open Scope Z_scope.

(* graylist: exactly the non-direct peers below the graylist threshold are rejected, and every RPC part
   of a rejected peer (messages, GRAFT, PRUNE, IHAVE, IWANT, IDONTWANT) leaves the state untouched and
   produces no output; direct peers are always accepted *)
Theorem C09_graylist_rule : forall P sc g p,
  accept_from P sc g p = false <-> (~ In p (direct (core g)) /\ score_of sc p < gGraylistThr P).
Proof. exact graylist_rule. Qed.
Theorem C09_graylisted_ignored : forall P sc g o p,
  sender_of o = Some p -> accept_from P sc g p = false -> gstep P sc g o = Some (g, []).
Proof. exact graylisted_ignored. Qed.
Theorem C09_direct_always_accepted : forall P sc g p, In p (direct (core g)) -> accept_from P sc g p = true.
Proof. exact direct_always_accepted. Qed.
Print Assumptions C09_graylisted_ignored.

(* gossip threshold: IHAVE from below it is ignored entirely, IWANT from below it goes unanswered, and
   no IHAVE is ever sent to a peer below it (every IHAVE recipient is at or above it) *)
Theorem C09_ihave_ignored_below_gossip_threshold : forall P sc g p ih a pr g' a',
  score_of sc p < gGossipThr P -> handle_ihave P sc g p ih a pr = Some (g', a') -> g' = g /\ a' = [].
Proof. exact below_gossip_threshold_ihave_ignored. Qed.
Theorem C09_iwant_unanswered_below_gossip_threshold : forall P sc g p ids,
  score_of sc p < gGossipThr P -> handle_iwant P sc g p ids = (g, []).
Proof. exact below_gossip_threshold_iwant_unanswered. Qed.
Theorem C09_no_ihave_below_gossip_threshold : forall P sc g obs fobs gobs g' out q t ids,
  gstep P sc g (GHeartbeat obs fobs gobs) = Some (g', out) -> In (OIHave q t ids) out ->
  gGossipThr P <= score_of sc q.
Proof.
  intros P sc g obs fobs gobs g' out q t ids H Hin.
  destruct (ihave_emission _ _ _ _ _ _ _ _ _ _ _ H Hin) as [c [excl (_ & _ & _ & _ & _ & _ & Hs & _)]]. exact Hs.
Qed.
(* over whole histories: an IWANT is answered / an IHAVE is followed up only for accepted peers at or
   above the gossip threshold *)
Theorem C09_iwant_answers_gated : forall P g log en p ids i,
  reach P g log -> In en log -> e_op en = GRecvIWant p ids -> In (OMsg p i) (e_out en) ->
  gGossipThr P <= score_of (e_sc en) p /\ accept_from P (e_sc en) (e_pre en) p = true.
Proof. intros P g log en p ids i H1 H2 H3 H4. destruct (iwant_answers _ _ _ _ _ _ _ H1 H2 H3 H4) as (_ & _ & _ & A & B). auto. Qed.
Theorem C09_ihave_followed_gated : forall P g log en p ih a pr asked,
  reach P g log -> In en log -> e_op en = GRecvIHave p ih a pr -> In (OIWant p asked) (e_out en) ->
  gGossipThr P <= score_of (e_sc en) p /\ accept_from P (e_sc en) (e_pre en) p = true.
Proof. intros P g log en p ih a pr asked H1 H2 H3 H4. destruct (iwant_requests _ _ _ _ _ _ _ _ _ H1 H2 H3 H4) as (_ & _ & _ & A & B). auto. Qed.

(* publish threshold: flood publishing reaches a non-direct peer only at or above it (C06_recipients
   gives the exact set); a new fanout contains only peers at or above it; after the heartbeat's fanout
   maintenance everybody left in the fanout is at or above it *)
Theorem C09_flood_publish_threshold : forall P sc g m ch g' r q,
  recipients P sc g m ch = Some (g', r) -> own_flood P m = true -> In q r ->
  In q (direct (core g)) \/ pPublishThr (gCore P) <= score_of sc q.
Proof.
  intros P sc g m ch g' r q H Hf Hq. destruct (recipients_spec _ _ _ _ _ _ _ H) as (_ & _ & F & _).
  apply (F Hf) in Hq. tauto.
Qed.
Theorem C09_new_fanout_threshold : forall P sc g t ch g' gm q,
  fanout_for_publishing P sc g t ch = Some (g', gm) -> aget_l t (fanout (core g)) = [] -> In q gm ->
  pPublishThr (gCore P) <= score_of sc q.
Proof.
  intros P sc g t ch g' gm q H He Hq. destruct (fanout_for_publishing_spec _ _ _ _ _ _ _ H) as (_ & _ & _ & _ & _ & _ & [[Hne _]|(_ & _ & _ & _ & Hall)]).
  - contradiction.
  - apply Hall. exact Hq.
Qed.
Theorem C09_fanout_dropped_below_threshold : forall P sc s t added s' p,
  hb_fanout P sc s t added = Some s' -> In p (aget_l t (fanout s')) -> pPublishThr P <= score_of sc p.
Proof. intros P sc s t added s' p H Hp. destruct (hb_fanout_spec _ _ _ _ _ _ H) as [_ F]. apply (F p Hp). Qed.

(* negative score: never grafted (Join, and every grafting phase of the heartbeat), its GRAFT is refused
   with a PRUNE and a backoff while the mesh stays as it was, and it is pruned, without peer exchange,
   at the next heartbeat *)
Theorem C09_join_never_grafts_negative : forall P sc s t ch s' c p,
  join P sc s t ch = Some (s', c) -> aget t (mesh s) = None -> In p (aget_l t (mesh s')) -> 0 <= score_of sc p.
Proof. exact join_never_grafts_negative. Qed.
Theorem C09_heartbeat_mesh_nonnegative : forall P sc s t evs s' gr pr npx,
  hb_topic P sc s t evs = Some (s', gr, pr, npx) -> forall p, In p (aget_l t (mesh s')) -> 0 <= score_of sc p.
Proof. exact hb_no_negative. Qed.
Theorem C09_negative_score_graft_refused : forall P sc s p t gm,
  aget t (mesh s) = Some gm -> memb p gm = false -> memb p (direct s) = false -> score_of sc p < 0 ->
  exists s' pen, handle_graft1 P sc s p t = (s', true, pen) /\ mesh s' = mesh s.
Proof. exact negative_score_graft_refused. Qed.
Theorem C09_heartbeat_prunes_negative_without_px : forall P sc s t evs s' gr pr npx g0 p,
  hb_topic P sc s t evs = Some (s', gr, pr, npx) -> aget t (mesh s) = Some g0 -> In p g0 -> score_of sc p < 0 ->
  In p npx /\ In p pr /\ ~ In p (aget_l t (mesh s')).
Proof. exact hb_prunes_negative_without_px. Qed.
Print Assumptions C09_heartbeat_prunes_negative_without_px.

(* the validation-overload gater only ever suppresses payload messages, never control traffic: it never answers
   AcceptNone, and under either of its answers the control part (and the subscriptions) of the RPC are processed *)
Theorem C09_gater_never_none : forall P g st coin, gater_accept P g st coin <> AcceptNone.
Proof. exact gater_never_none. Qed.
Theorem C09_gater_only_suppresses_payload : forall P g st coin,
  p_control (dispatch (gater_accept P g st coin)) = true /\ p_subs (dispatch (gater_accept P g st coin)) = true.
Proof. exact gater_only_suppresses_payload. Qed.
Theorem C09_direct_accept_all : forall score gl gate, router_accept true score gl gate = AcceptAll.
Proof. exact direct_accept_all. Qed.
Theorem C09_graylisted_none : forall score gl gate, (score < gl)%Z -> router_accept false score gl gate = AcceptNone.
Proof. exact graylisted_none. Qed.
Theorem C09_not_graylisted_control_processed : forall score gl P g st coin,
  (gl <= score)%Z -> p_control (dispatch (router_accept false score gl (Some (gater_accept P g st coin)))) = true.
Proof. exact not_graylisted_control_processed. Qed.
(* peer exchange: a record is followed only if the pruning peer is at or above the accept-PX threshold, the advertised
   peer is not already connected, and the signed record - when there is one - is valid for the advertised id *)
Theorem C09_px_only_if : forall score thr conn r,
  px_followed score thr conn r = true -> (thr <= score)%Z /\ r <> PxInvalid /\ conn = false.
Proof. exact px_only_if. Qed.
(* a GRAFT from a peer with a negative score never admits it, and the PRUNE that refuses it carries no peer exchange;
   the heartbeat's PRUNE of a negative-score mesh member carries none either *)
Theorem C09_negative_graft_refused : forall doPX spx cands d o gs,
  let '(pr, adm, px) := graft_reply doPX spx cands d true o gs in
  forallb negb adm = true /\ (existsb (fun b => b) pr = true -> px = false).
Proof. exact negative_graft_refused. Qed.
Theorem C09_negative_hb_prune_no_px : forall doPX spx cands, hb_prune_px doPX spx cands true = false.
Proof. exact negative_hb_prune_no_px. Qed.
Print Assumptions C09_gater_only_suppresses_payload.

(* ---- non-vacuity ---- *)
Local Close Scope Z_scope.
Definition RP : params :=
  {| pD := 2; pDlo := 1; pDhi := 3; pDscore := 1; pDout := 0; pOGTicks := 1; pOGPeers := 1; pOGThreshold := 2%Z;
     pPruneBackoff := 60%Z; pUnsubBackoff := 10%Z; pGraftFlood := 10%Z; pSlack := 2%Z; pFanoutTTL := 60%Z; pPublishThr := (-3)%Z |}.
Definition GP : gparams :=
  {| gCore := RP; gHistLen := 3; gHistGossip := 2; gDlazy := 1; gFactorNum := 1; gFactorDen := 4;
     gMaxIHaveLen := 2; gMaxIHaveMsgs := 3; gRetrans := 1; gMaxIDWMsgs := 1; gMaxIDWLen := 2; gIDWTTL := 2; gIDWThr := 100;
     gGossipThr := (-2)%Z; gGraylistThr := (-5)%Z; gFollowup := 3%Z; gFlood := true |}.
Definition pg := {| pi_mesh := true; pi_px := true; pi_out := false |}.
Definition m1 := {| m_id := 100; m_topic := 0; m_size := 20; m_from := None; m_author := None |}.
Definition ok : list (peer * Z) := [].
(* 2 drops below zero (pruned at the heartbeat), 3 is below the gossip threshold, 4 is graylisted *)
Definition bad : list (peer * Z) := [(2, (-1)%Z); (3, (-3)%Z); (4, (-6)%Z)].
Definition hist3 : list (list (peer * Z) * gop) :=
  [(ok, GAddPeer 1 pg true); (ok, GCore (OSub 1 0)); (ok, GAddPeer 2 pg true); (ok, GCore (OSub 2 0));
   (ok, GAddPeer 3 pg true); (ok, GCore (OSub 3 0)); (ok, GAddPeer 4 pg true); (ok, GCore (OSub 4 0));
   (ok, GCore (OJoin 0 [1; 2]));
   (bad, GPublish m1 []);                               (* flood publish: 4 is below the publish threshold *)
   (bad, GRecvIWant 3 [100]);                           (* unanswered *)
   (bad, GRecvIHave 3 [(0, [101])] [] None);            (* ignored *)
   (bad, GCore (ORecvGraft 4 [0]));                     (* graylisted: ignored entirely *)
   (bad, GCore (ORecvGraft 3 [0]));                     (* negative: refused with PRUNE *)
   (bad, GHeartbeat [(0, [HPrune 2])] [] [(0, [(2, [100])])])].        (* 2 pruned and, now outside the mesh and above the gossip threshold, gossiped to; 3 and 4 are not *)
Example C09_nonvacuous :
  exists g out, grun GP (ginit GP) hist3 = Some (g, out)
    /\ out = [OCtl (CGraft 1 0); OCtl (CGraft 2 0); OMsg 1 100; OMsg 2 100; OMsg 3 100;
              OCtl (CPrune 3 0 (Some 0%Z)); OCtl (CPrune 2 0 (Some 0%Z)); OIHave 2 0 [100]]
    /\ aget_l 0 (mesh (core g)) = [1].
Proof. eexists. eexists. vm_compute. repeat split. Qed.
