(* C15 - the per-peer outbound queue is a linearizable bounded two-class FIFO. Property theorems only. *)
From Coq Require Import List.
Import ListNotations.
From PS Require Import Model.RpcQueue Proofs.RpcQueueProofs.

(* In every reachable state of every schedule of any number of pushers, poppers, cancellers and
   closers (with or without the mutex in the AfterFunc): *)

Theorem C15_bounded : forall afl cap l s, run afl (init cap) l = Some s -> len s <= s_cap (q s).
Proof. exact bounded. Qed.
Print Assumptions C15_bounded.

Theorem C15_capacity_constant : forall afl s a s', step afl s a = Some s' -> s_cap (q s') = s_cap (q s).
Proof. exact cap_const. Qed.
Print Assumptions C15_capacity_constant.

(* per class, what was accepted = what was popped (in the same order) followed by what is queued:
   nothing lost, nothing duplicated, each class FIFO *)
Theorem C15_fifo_no_loss_no_dup : forall afl cap l s, run afl (init cap) l = Some s ->
  pushedU s = poppedU s ++ s_prio (q s) /\ pushedN s = poppedN s ++ s_norm (q s).
Proof. exact fifo_no_loss_no_dup. Qed.
Print Assumptions C15_fifo_no_loss_no_dup.

(* linearizability: each step applies at most one operation of the sequential specification *)
Theorem C15_refines_spec : forall afl s a s', step afl s a = Some s' ->
  (q s' = q s /\ (results s' = results s \/ exists i r, results s' = (i, r) :: results s /\
                   (r = RCancelled \/ r = RClosed /\ s_closed (q s) = true \/ r = RPanic /\ s_closed (q s) = true
                    \/ r = RFull /\ exists x u, s_push (q s) x u = (q s, RFull))))
  \/ (exists i x, s_pop (q s) = (q s', RItem x) /\ results s' = (i, RItem x) :: results s)
  \/ (exists i x u, s_push (q s) x u = (q s', ROk) /\ results s' = (i, ROk) :: results s)
  \/ (q s' = s_close (q s) /\ results s' = results s).
Proof. exact step_refines_spec. Qed.
Print Assumptions C15_refines_spec.

(* the sequential specification: urgent first, queue-full exactly when full, closed reported *)
Theorem C15_spec_urgent_first : forall qq q' x, s_pop qq = (q', RItem x) ->
  match s_prio qq with y :: _ => x = y | [] => exists n, s_norm qq = x :: n end.
Proof. exact spec_pop_urgent_first. Qed.
Theorem C15_spec_full_iff : forall qq x u, s_closed qq = false -> (snd (s_push qq x u) = RFull <-> s_len qq = s_cap qq).
Proof. exact spec_push_full_iff. Qed.
Theorem C15_spec_push_on_closed : forall qq x u, s_closed qq = true -> s_push qq x u = (qq, RPanic).
Proof. exact spec_push_on_closed. Qed.
Theorem C15_spec_pop_on_closed : forall qq, s_closed qq = true -> s_pop qq = (qq, RClosed).
Proof. exact spec_pop_on_closed. Qed.
Print Assumptions C15_spec_full_iff.

(* no lost Signal: at quiescence a pusher is blocked only on a full queue, a popper only on an empty one *)
Theorem C15_blocked_push_only_when_full : forall afl cap l s, run afl (init cap) l = Some s ->
  s_closed (q s) = false -> space_wait s <> [] -> u_woken s = [] -> len s = s_cap (q s).
Proof. exact blocked_push_only_when_full. Qed.
Print Assumptions C15_blocked_push_only_when_full.
Theorem C15_blocked_pop_only_when_empty : forall afl cap l s, run afl (init cap) l = Some s ->
  s_closed (q s) = false -> data_wait s <> [] -> p_woken s = [] -> len s = 0.
Proof. exact blocked_pop_only_when_empty. Qed.
Print Assumptions C15_blocked_pop_only_when_empty.
Theorem C15_nobody_parked_after_close : forall afl cap l s, run afl (init cap) l = Some s ->
  s_closed (q s) = true -> space_wait s = [] /\ data_wait s = [].
Proof. exact nobody_parked_after_close. Qed.
Print Assumptions C15_nobody_parked_after_close.

(* cancellation is never lost when the AfterFunc broadcasts under the mutex ... *)
Theorem C15_no_lost_cancel : forall cap l s i, run true (init cap) l = Some s ->
  memb i (data_wait s) = true -> memb i (cancelled s) = true -> aget i (af s) = Some AFPending.
Proof. exact no_lost_cancel. Qed.
Print Assumptions C15_no_lost_cancel.
Theorem C15_cancel_progress : forall cap l s i, run true (init cap) l = Some s -> holder s = None ->
  memb i (data_wait s) = true -> memb i (cancelled s) = true ->
  exists s1, step true s (AFRun i) = Some s1 /\ memb i (p_woken s1) = true /\ data_wait s1 = [].
Proof. exact cancel_progress. Qed.
Theorem C15_cancelled_pop_returns : forall afl s i w s', memb i (cancelled s) = true ->
  step afl s (PopRelock i w) = Some s' -> exists r, results s' = (i, r) :: results s.
Proof. exact relock_cancelled_returns. Qed.
Print Assumptions C15_cancel_progress.

(* ... and can be lost for good without it (the pinned tree's defect, fixed by a "fix:" commit) *)
Theorem C15_lost_cancel_without_lock :
  exists s, run false (init 1) lost_cancel_schedule = Some s
            /\ memb 1 (data_wait s) = true /\ memb 1 (cancelled s) = true
            /\ aget 1 (af s) = Some AFRan /\ p_woken s = [] /\ holder s = None.
Proof. exact lost_cancel_without_lock. Qed.

Example C15_nonvacuous :
  exists s, run true (init 1) [PushBegin 1 10 false true None; PushBegin 2 11 false true None;
                               PopBegin 3 (Some 2); PushRelock 2 None; PopBegin 4 None; PopBegin 5 None;
                               PopWait 5; Cancel 5; AFRun 5; PopRelock 5 None] = Some s
            /\ results s = [(5, RCancelled); (4, RItem 11); (2, ROk); (3, RItem 10); (1, ROk)].
Proof. eexists. vm_compute. repeat split. Qed.
