(* C07 - mesh maintenance keeps every joined topic's mesh within its invariants. Property theorems only.
   Random selection and scores are observations: the theorems hold for every admissible selection. *)
From Coq Require Import List Bool ZArith.
Import ListNotations.
From PS Require Import Model.Router Proofs.RouterProofs.
Local Open Scope Z_scope.

(* after a heartbeat the mesh contains no peer with a negative score *)
Theorem C07_hb_no_negative : forall P sc s t evs s' gr pr npx,
  hb_topic P sc s t evs = Some (s', gr, pr, npx) -> forall p, In p (aget_l t (mesh s')) -> 0 <= score_of sc p.
Proof. exact hb_no_negative. Qed.
Print Assumptions C07_hb_no_negative.

(* fewer than Dlo members: grown to D, or to the previous members plus all eligible candidates *)
Theorem C07_hb_undersubscribed_grows : forall P sc s t evs s' gr pr npx, (pDlo P <= pD P)%nat ->
  hb_topic P sc s t evs = Some (s', gr, pr, npx) ->
  exists g0 gr2 s1,
    aget t (mesh s) = Some g0 /\
    let g1 := filter (fun p => negb (score_of sc p <? 0)) g0 in
    let cands := gs_peers s1 t (fun p => elig s1 t p && (0 <=? score_of sc p)) in
    aget_l t (mesh s1) = g1 /\
    ((length g1 < pDlo P)%nat -> length (g1 ++ gr2) = Nat.min (pD P) (length g1 + length cands)) /\
    ((pDlo P <= length g1)%nat -> gr2 = []).
Proof. exact hb_undersubscribed_grows. Qed.
Print Assumptions C07_hb_undersubscribed_grows.

(* reached Dhi: cut back to exactly D (before the outbound-quota / opportunistic additions), the kept
   set satisfying cut_ok: the Dscore best-scoring members are kept unless dropped to make room for the
   outbound quota, and at least min(Dout, available) outbound members are kept *)
Theorem C07_hb_oversubscribed_cut : forall P sc s t evs s' gr pr npx,
  hb_topic P sc s t evs = Some (s', gr, pr, npx) ->
  exists g2 pr3 s2 s3,
    aget_l t (mesh s2) = g2 /\ aget_l t (mesh s3) = filter (fun p => negb (memb p pr3)) g2 /\
    ((pDhi P <= length g2)%nat -> length (aget_l t (mesh s3)) = pD P /\ cut_ok P sc s2 g2 (aget_l t (mesh s3)) = true) /\
    ((length g2 < pDhi P)%nat -> pr3 = []).
Proof. exact hb_oversubscribed_cut. Qed.
Print Assumptions C07_hb_oversubscribed_cut.

(* no direct peer, backed-off peer or current member is ever added; only subscribed gossipsub peers *)
Theorem C07_hb_never_adds_ineligible : forall P sc s t evs s' gr pr npx,
  hb_topic P sc s t evs = Some (s', gr, pr, npx) ->
  forall p, In p gr -> exists st, elig st t p = true /\ In p (aget_l t (tmap st)) /\ speaks_mesh st p = true.
Proof. exact hb_never_adds_ineligible. Qed.
Theorem C07_elig_spec : forall s t p, elig s t p = true ->
  memb p (aget_l t (mesh s)) = false /\ in_backoff s t p = false /\ memb p (direct s) = false.
Proof. exact elig_spec. Qed.
Print Assumptions C07_hb_never_adds_ineligible.

(* every peer added on our own initiative is sent GRAFT, every peer removed is sent PRUNE *)
Theorem C07_hb_emits_graft_prune : forall P sc s obs fobs s' c,
  heartbeat P sc s obs fobs = Some (s', c) ->
  exists s0 s1 res, hb_topics P sc s0 (map fst (mesh s0)) obs = Some (s1, res) /\
    forall t gr pr, In (t, (gr, pr)) res ->
      (forall p, In p gr -> In (CGraft p t) c) /\ (forall p, In p pr -> In (mk_prune P s p t false) c).
Proof. exact hb_emits_graft_prune. Qed.
Print Assumptions C07_hb_emits_graft_prune.

Definition P0 : params :=
  {| pD := 2; pDlo := 2; pDhi := 3; pDscore := 1; pDout := 0; pOGTicks := 1; pOGPeers := 1; pOGThreshold := 2;
     pPruneBackoff := 60; pUnsubBackoff := 10; pGraftFlood := 10; pSlack := 2; pFanoutTTL := 60; pPublishThr := -3 |}.
Definition gp := {| pi_mesh := true; pi_px := true; pi_out := false |}.
Example C07_nonvacuous :
  exists s c, run P0 init [([], OJoin 0%nat []);
                           ([], OAddPeer 1%nat gp); ([], OSub 1%nat 0%nat); ([], OAddPeer 2%nat gp); ([], OSub 2%nat 0%nat);
                           ([], OAddPeer 3%nat gp); ([], OSub 3%nat 0%nat); ([], OAddPeer 4%nat gp); ([], OSub 4%nat 0%nat);
                           ([], ORecvGraft 1%nat [0%nat]); ([], ORecvGraft 2%nat [0%nat]); ([], ORecvGraft 3%nat [0%nat]);
                           ([(1%nat, -1); (4%nat, 5)], OHeartbeat [(0%nat, [HPrune 1%nat; HGraft 4%nat])] [])] = Some (s, c)
    /\ aget_l 0%nat (mesh s) = [2%nat; 3%nat; 4%nat].
Proof. eexists. eexists. vm_compute. repeat split. Qed.
