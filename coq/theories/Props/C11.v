(* C11 - splitting an oversized RPC loses nothing and respects the size limit. Property theorems only. *)
From Coq Require Import List NArith.
Import ListNotations.
From PS Require Import Model.Wire Model.Split Model.SplitContent Proofs.SplitProofs.
Local Open Scope N_scope.

(* For every RPC and every limit, kind by kind (published messages, subscriptions, GRAFT, PRUNE,
   IWANT ids, IHAVE (topic, id) pairs, IDONTWANT ids, extensions, partial, test extension) the
   fragments carry exactly the original contents, in order: nothing dropped, nothing duplicated. *)
Theorem C11_split_content : forall limit r k, flat (split limit r) k = content r k.
Proof. exact split_content. Qed.
Print Assumptions C11_split_content.

Theorem C11_split_no_empty : forall limit r f, In f (split limit r) -> is_empty f = false.
Proof. exact split_no_empty. Qed.
Print Assumptions C11_split_no_empty.

(* every fragment fits the limit unless it is a single indivisible element *)
Theorem C11_split_fits : forall limit r f, In f (split limit r) -> size f <= limit \/ (atoms f <= 1)%nat.
Proof. exact split_fits. Qed.
Print Assumptions C11_split_fits.

(* sendRPC: nothing larger than the limit is queued; what is dropped is a single oversize element;
   every element of the original is in a queued or a (reported) dropped fragment *)
Theorem C11_send_never_queues_oversize : forall max r f, In f (fst (send_rpc max r)) -> size f <= max.
Proof. exact send_never_queues_oversize. Qed.
Theorem C11_send_drops_only_single_oversize : forall max r f,
  In f (snd (send_rpc max r)) -> max < size f /\ (atoms f <= 1)%nat /\ is_empty f = false.
Proof. exact send_drops_only_single_oversize. Qed.
Theorem C11_send_content : forall max r k x, In x (content r k) -> size r >= max ->
  exists f, (In f (fst (send_rpc max r)) \/ In f (snd (send_rpc max r))) /\ In x (content f k).
Proof. exact send_content. Qed.
Print Assumptions C11_send_drops_only_single_oversize.

Example C11_nonvacuous :
  let m := fun t n => {| pm_tag := t; pm_from := None; pm_data := Some n; pm_seqno := None; pm_topic := Some 3;
                         pm_sig := None; pm_key := None; pm_unk := 0 |} in
  let r := {| r_subs := [{| so_tag := 1; so_sub := true; so_topic := Some 5; so_req := false; so_sup := false |}];
              r_pub := [m 2%nat 40; m 3%nat 10; m 4%nat 10];
              r_ctl := Some {| c_ihave := [{| ih_ptr := Some 7%nat; ih_tlen := 4; ih_ids := [(8%nat, 6); (9%nat, 6)] |}];
                               c_iwant := []; c_graft := []; c_prune := [];
                               c_idw := [{| iw_ids := [(10%nat, 6); (11%nat, 6)] |}];
                               c_ext := Some {| ex_partial := true; ex_test := false |} |};
              r_partial := None; r_test := true |} in
  map size (split 30 r) = [49; 19; 19; 30; 28; 20] /\ map atoms (split 30 r) = [1; 1; 1; 3; 2; 2]%nat.
Proof. vm_compute. split; reflexivity. Qed.
