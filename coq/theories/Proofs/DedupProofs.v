From Coq Require Import List Bool ZArith Arith Lia.
Import ListNotations.
From PS Require Import Model.TimeCache Model.Dedup.
Local Open Scope Z_scope.

(* ---------------- the time cache alone ---------------- *)

Lemma lookup_setk_same i e l : lookup i (setk i e l) = Some e.
Proof.
  induction l as [|[j e0] l IH]; cbn; [now rewrite Nat.eqb_refl|].
  destruct (Nat.eqb_spec i j) as [->|]; cbn; [now rewrite Nat.eqb_refl|].
  destruct (Nat.eqb_spec i j); [contradiction|exact IH].
Qed.
Lemma lookup_setk_other i j e l : i <> j -> lookup i (setk j e l) = lookup i l.
Proof.
  intros H. induction l as [|[k e0] l IH]; cbn.
  - destruct (Nat.eqb_spec i j); [contradiction|reflexivity].
  - destruct (Nat.eqb_spec j k) as [->|]; cbn.
    + destruct (Nat.eqb_spec i k); [contradiction|reflexivity].
    + destruct (Nat.eqb_spec i k); [reflexivity|exact IH].
Qed.

Definition keys (l : list (id * Z)) := map fst l.
Lemma keys_setk_in i e l k : In k (keys (setk i e l)) -> k = i \/ In k (keys l).
Proof.
  induction l as [|[j e0] l IH]; cbn; [intros [H|[]]; auto|].
  destruct (Nat.eqb_spec i j) as [->|]; cbn; [tauto|]. intros [H|H]; [auto|]. destruct (IH H); auto.
Qed.
Lemma NoDup_setk i e l : NoDup (keys l) -> NoDup (keys (setk i e l)).
Proof.
  induction l as [|[j e0] l IH]; cbn; intros H.
  - constructor; [intros []|constructor].
  - inversion H as [|? ? Hn Hd]; subst. destruct (Nat.eqb_spec i j) as [->|Hne]; cbn.
    + constructor; assumption.
    + constructor; [|apply IH; assumption]. intros Hin. apply keys_setk_in in Hin as [->|Hin]; [congruence|contradiction].
Qed.

Lemma lookup_not_in i l : ~ In i (keys l) -> lookup i l = None.
Proof.
  induction l as [|[j e] l IH]; cbn; [reflexivity|]. intros H.
  destruct (Nat.eqb_spec i j) as [->|]; [exfalso; apply H; now left|]. apply IH. tauto.
Qed.

Lemma lookup_filter_sweep i l now :
  NoDup (keys l) ->
  lookup i (filter (fun e => negb (snd e <? now)) l)
  = match lookup i l with Some e => if e <? now then None else Some e | None => None end.
Proof.
  induction l as [|[j e] l IH]; cbn; [reflexivity|]. intros H. inversion H as [|? ? Hn Hd]; subst.
  destruct (Nat.eqb_spec i j) as [->|Hne].
  - destruct (e <? now) eqn:E; cbn.
    + rewrite IH by assumption. rewrite (lookup_not_in j l Hn). reflexivity.
    + now rewrite Nat.eqb_refl.
  - destruct (e <? now); cbn; [apply IH; assumption|].
    destruct (Nat.eqb_spec i j); [contradiction|apply IH; assumption].
Qed.

Lemma NoDup_filter_keys (f : id * Z -> bool) l : NoDup (keys l) -> NoDup (keys (filter f l)).
Proof.
  induction l as [|[j e] l IH]; cbn; [auto|]. intros H. inversion H as [|? ? Hn Hd]; subst.
  destruct (f (j, e)); cbn; [|auto]. constructor; [|auto].
  intros Hin. apply Hn. clear - Hin. induction l as [|[k e1] l IH]; cbn in *; [contradiction|].
  destruct (f (k, e1)); cbn in *; tauto.
Qed.

(* Add returns true exactly when the id is absent, and afterwards it is present *)
Theorem tc_add_true_iff_absent c i now :
  fst (tc_add c i now) = true <-> lookup i (entries c) = None.
Proof. unfold tc_add. destruct (lookup i (entries c)); cbn; split; congruence. Qed.

Theorem tc_add_present c i now : exists e, lookup i (entries (snd (tc_add c i now))) = Some e.
Proof.
  unfold tc_add. destruct (lookup i (entries c)) eqn:E; cbn.
  - destruct (strat c); cbn; [eauto|]. rewrite lookup_setk_same. eauto.
  - rewrite lookup_setk_same. eauto.
Qed.

(* a sweep removes exactly the entries whose expiry lies strictly before the sweep instant *)
Theorem tc_sweep_spec c i now :
  NoDup (keys (entries c)) ->
  lookup i (entries (tc_sweep c now))
  = match lookup i (entries c) with Some e => if e <? now then None else Some e | None => None end.
Proof. intros H. unfold tc_sweep; cbn. apply lookup_filter_sweep; assumption. Qed.

(* ---------------- the invariant of the node model ---------------- *)

Record Inv (s : st) : Prop := {
  i_nodup : NoDup (keys (entries (cache s)));
  i_ttl : 0 <= ttl (cache s);
  i_exp : forall i e, lookup i (entries (cache s)) = Some e -> e <= clock s + ttl (cache s);
  i_pass : forall i a, In (i, a) (passes s) ->
             a <= clock s /\ match lookup i (entries (cache s)) with
                             | Some e => a + ttl (cache s) <= e
                             | None => a + ttl (cache s) < clock s
                             end
}.

Lemma Inv_init sg t c : 0 <= t -> Inv (init sg t c).
Proof. intros H. split; cbn; auto; try (intros; discriminate); try (intros ? ? []). constructor. Qed.

(* touching id j at the current instant (Has / Add on a present or absent id) *)
Lemma touch_inv s j :
  Inv s ->
  Inv {| cache := with_entries (cache s) (setk j (clock s + ttl (cache s)) (entries (cache s)));
         clock := clock s; next_sweep := next_sweep s; queue := queue s; busy := busy s; passes := passes s |}.
Proof.
  intros [N T E P]. split; cbn.
  - apply NoDup_setk; assumption.
  - assumption.
  - intros i e. destruct (Nat.eq_dec i j) as [->|Hne].
    + rewrite lookup_setk_same. intros H; inversion H; lia.
    + rewrite lookup_setk_other by assumption. apply E.
  - intros i a Hin. destruct (P i a Hin) as [P1 P2]. split; [assumption|].
    destruct (Nat.eq_dec i j) as [->|Hne].
    + rewrite lookup_setk_same. destruct (lookup j (entries (cache s))) as [e|] eqn:El.
      * specialize (E j e El). lia.
      * lia.
    + rewrite lookup_setk_other by assumption. exact P2.
Qed.

Lemma set_fields_inv s q b : Inv s ->
  Inv {| cache := cache s; clock := clock s; next_sweep := next_sweep s; queue := q; busy := b; passes := passes s |}.
Proof. intros [N T E P]. split; cbn; assumption. Qed.

Lemma tc_has_inv s j : Inv s -> Inv (set_cache s (snd (tc_has (cache s) j (clock s)))).
Proof.
  intros I. unfold tc_has. destruct (lookup j (entries (cache s))); cbn.
  - destruct (strat (cache s)) eqn:Es.
    + destruct I; split; cbn; assumption.
    + exact (touch_inv s j I).
  - destruct I; split; cbn; assumption.
Qed.

Lemma gate_inv s j : Inv s -> Inv (snd (gate s j)).
Proof.
  intros I. unfold gate, tc_add. destruct (lookup j (entries (cache s))) as [e|] eqn:El; cbn.
  - destruct (strat (cache s)).
    + destruct I; split; cbn; assumption.
    + exact (touch_inv s j I).
  - pose proof (touch_inv s j I) as [N T E P]. cbn in *. split; cbn; try assumption.
    intros i a [H|H].
    + inversion H; subst. rewrite lookup_setk_same. split; lia.
    + apply P. exact H.
Qed.

(* a fresh pass happens only when the id is absent: every earlier pass is more than ttl old *)
Lemma gate_fresh_separated s j :
  Inv s -> fst (gate s j) = true -> forall a, In (j, a) (passes s) -> a + ttl (cache s) < clock s.
Proof.
  intros I F a Hin. unfold gate in F. destruct (tc_add (cache s) j (clock s)) as [fresh c] eqn:Et. cbn in F. subst fresh.
  assert (L : lookup j (entries (cache s)) = None).
  { apply (tc_add_true_iff_absent (cache s) j (clock s)). now rewrite Et. }
  destruct (i_pass _ I j a Hin) as [_ P2]. now rewrite L in P2.
Qed.

(* ---------------- passes are separated by more than ttl; accounting of events ---------------- *)

Fixpoint sep (t : Z) (l : list Z) : Prop :=      (* newest first *)
  match l with
  | b :: ((a :: _) as l') => a + t < b /\ sep t l'
  | _ => True
  end.

Definition cnt (f : ev -> bool) (l : list ev) : nat := count_ev f l.
Lemma cnt_app f l1 l2 : cnt f (l1 ++ l2) = (cnt f l1 + cnt f l2)%nat.
Proof. unfold cnt, count_ev. now rewrite filter_app, app_length. Qed.

Definition busy_is (i : id) (s : st) : nat := match busy s with Some j => if Nat.eqb i j then 1%nat else 0%nat | None => 0%nat end.

Record J (t : Z) (s : st) (out : list ev) : Prop := {
  j_inv : Inv s;
  j_ttl : ttl (cache s) = t;
  j_sw : clock s < next_sweep s;
  j_sep : forall i, sep t (passes_of i s);
  j_inv_le : forall i, (cnt (is_invoke i) out <= length (passes_of i s))%nat;
  j_del_le : forall i, (cnt (is_deliver i) out + busy_is i s <= length (passes_of i s))%nat
}.

Lemma gate_fields s i :
  clock (snd (gate s i)) = clock s /\ next_sweep (snd (gate s i)) = next_sweep s /\
  queue (snd (gate s i)) = queue s /\ busy (snd (gate s i)) = busy s /\
  ttl (cache (snd (gate s i))) = ttl (cache s) /\
  passes (snd (gate s i)) = if fst (gate s i) then (i, clock s) :: passes s else passes s.
Proof.
  unfold gate, tc_add. destruct (lookup i (entries (cache s))); cbn.
  - destruct (strat (cache s)); cbn; auto 10.
  - auto 10.
Qed.

Lemma passes_of_cons (i j : nat) (a : Z) (l : list (id * Z)) :
  map snd (filter (fun p => Nat.eqb i (fst p)) ((j, a) :: l))
  = if Nat.eqb i j then a :: map snd (filter (fun p => Nat.eqb i (fst p)) l) else map snd (filter (fun p => Nat.eqb i (fst p)) l).
Proof. cbn. destruct (Nat.eqb i j); reflexivity. Qed.

Lemma in_passes_of i a s : In a (passes_of i s) -> In (i, a) (passes s).
Proof.
  unfold passes_of. intros H. apply in_map_iff in H as ([j b] & Hb & Hin). cbn in Hb; subst.
  apply filter_In in Hin as [Hin E]. cbn in E. apply Nat.eqb_eq in E. now subst.
Qed.

(* the gate, followed by events [evs] that mention at most one invocation and at most one
   delivery-or-busy of the gated id when fresh, and none otherwise *)
Lemma gate_J t s out i s' evs :
  J t s out ->
  busy s' = busy s \/ (fst (gate s i) = true /\ busy s = None /\ busy s' = Some i /\ cnt (is_deliver i) evs = 0%nat) ->
  cache s' = cache (snd (gate s i)) -> clock s' = clock s -> next_sweep s' = next_sweep s ->
  passes s' = passes (snd (gate s i)) ->
  (forall k, (cnt (is_invoke k) evs <= if fst (gate s i) && Nat.eqb k i then 1 else 0)%nat) ->
  (forall k, (cnt (is_deliver k) evs <= if fst (gate s i) && Nat.eqb k i then 1 else 0)%nat) ->
  J t s' (out ++ evs).
Proof.
  intros [I T W S A B] Hbusy Hc Hk Hn Hp Hi Hd.
  destruct (gate_fields s i) as (G1 & G2 & G3 & G4 & G5 & G6).
  pose proof (gate_inv s i I) as I'.
  assert (Inv s').
  { destruct I' as [N0 T0 E0 P0]. split; rewrite ?Hc, ?Hk, ?Hp; rewrite <- ?G1; assumption. }
  split; try assumption.
  - rewrite Hc, G5. exact T.
  - rewrite Hk, Hn. exact W.
  - intros k. unfold passes_of. rewrite Hp, G6. destruct (fst (gate s i)) eqn:F; [|apply S].
    rewrite passes_of_cons. destruct (Nat.eqb_spec k i) as [->|]; [|apply S].
    specialize (S i). unfold passes_of in S.
    destruct (map snd (filter (fun p => Nat.eqb i (fst p)) (passes s))) as [|a l] eqn:El; cbn; [exact Logic.I|].
    split; [|exact S]. rewrite <- T. apply (gate_fresh_separated s i I F).
    apply in_passes_of. unfold passes_of. rewrite El. now left.
  - intros k. rewrite cnt_app. specialize (A k). specialize (Hi k).
    unfold passes_of in *. rewrite Hp, G6. destruct (fst (gate s i)) eqn:F; cbn [andb] in Hi.
    + rewrite passes_of_cons. destruct (Nat.eqb k i); cbn [length]; lia.
    + lia.
  - intros k. rewrite cnt_app. specialize (B k). specialize (Hd k).
    assert (Hbs : (busy_is k s' + cnt (is_deliver k) evs
                   <= busy_is k s + if fst (gate s i) && Nat.eqb k i then 1 else 0)%nat).
    { unfold busy_is. destruct Hbusy as [Hbusy|(F & Hb0 & Hbusy & Hz)].
      - rewrite Hbusy. lia.
      - rewrite Hbusy, Hb0, F. rewrite F in Hd. cbn [andb] in *. destruct (Nat.eqb_spec k i) as [->|]; [rewrite Hz; lia|lia]. }
    unfold passes_of in *. rewrite Hp, G6. destruct (fst (gate s i)) eqn:F; cbn [andb] in Hbs.
    + rewrite passes_of_cons. destruct (Nat.eqb k i); cbn [length]; lia.
    + lia.
Qed.

Lemma J_same t s s' out :
  J t s out -> Inv s' -> ttl (cache s') = ttl (cache s) -> clock s' = clock s ->
  next_sweep s' = next_sweep s -> passes s' = passes s -> busy s' = busy s -> J t s' out.
Proof.
  intros [I T W S A B] I' Ht Hc Hn Hp Hb. split; auto.
  - congruence.
  - rewrite Hc, Hn. exact W.
  - intros i. unfold passes_of. rewrite Hp. apply S.
  - intros i. unfold passes_of. rewrite Hp. apply A.
  - intros i. unfold passes_of, busy_is. rewrite Hp, Hb. apply B.
Qed.

Lemma J_neutral t s out evs :
  (forall k, cnt (is_invoke k) evs = 0%nat /\ cnt (is_deliver k) evs = 0%nat) -> J t s out -> J t s (out ++ evs).
Proof.
  intros H [I T W S A B]. split; auto.
  - intros i. rewrite cnt_app. destruct (H i) as [-> _]. specialize (A i). lia.
  - intros i. rewrite cnt_app. destruct (H i) as [_ ->]. specialize (B i). lia.
Qed.

Ltac cnt_small := intros; unfold cnt, count_ev; cbn;
  repeat match goal with |- context [Nat.eqb ?a ?b] => destruct (Nat.eqb a b) end; cbn; try rewrite ?andb_false_r; auto; lia.

Ltac gclose Eg1 Eg2 :=
  try assumption; try reflexivity;
  try (cbn [cache clock next_sweep passes busy queue]; rewrite ?Eg2; congruence);
  try (rewrite Eg1; cnt_small).

Lemma drain_J t c fuel : forall s out, J t s out -> J t (fst (drain c fuel s out)) (snd (drain c fuel s out)).
Proof.
  induction fuel as [|f IH]; intros s out Hj; cbn [drain]; [exact Hj|].
  destruct (busy s) eqn:Eb; [exact Hj|]. destruct (queue s) as [|i q'] eqn:Eq; [exact Hj|].
  set (s1 := {| cache := cache s; clock := clock s; next_sweep := next_sweep s; queue := q'; busy := None; passes := passes s |}).
  assert (J1 : J t s1 out).
  { apply (J_same t s); auto; try (cbn; congruence). apply set_fields_inv, Hj. }
  assert (B1 : busy s1 = None) by reflexivity.
  destruct (gate s1 i) as [fresh s2] eqn:Eg.
  assert (Eg1 : fst (gate s1 i) = fresh) by now rewrite Eg.
  assert (Eg2 : snd (gate s1 i) = s2) by now rewrite Eg.
  destruct (gate_fields s1 i) as (G1 & G2 & G3 & G4 & G5 & G6). rewrite Eg2 in *.
  destruct fresh.
  - destruct (memb i (blocks c)).
    + cbn [fst snd].
      apply (gate_J t s1 out i _ [EInvoke i] J1).
      * right. split; [exact Eg1|]. split; [reflexivity|]. split; [reflexivity|cnt_small].
      * gclose Eg1 Eg2.
      * gclose Eg1 Eg2.
      * gclose Eg1 Eg2.
      * gclose Eg1 Eg2.
      * gclose Eg1 Eg2.
      * gclose Eg1 Eg2.
    + destruct (vlook i (verdict_of c)); apply IH.
      * apply (gate_J t s1 out i s2 [EInvoke i; EDeliver i] J1); [left; congruence| | | | | |]; gclose Eg1 Eg2.
      * apply (gate_J t s1 out i s2 [EInvoke i] J1); [left; congruence| | | | | |]; gclose Eg1 Eg2.
      * apply (gate_J t s1 out i s2 [EInvoke i] J1); [left; congruence| | | | | |]; gclose Eg1 Eg2.
  - apply IH. apply (gate_J t s1 out i s2 [EDup i] J1); [left; congruence| | | | | |]; gclose Eg1 Eg2.
Qed.

Lemma filter_seen_J t ids : forall s keep out,
  J t s out ->
  let r := filter_seen s ids keep out in J t (fst (fst r)) (snd r).
Proof.
  induction ids as [|i ids IH]; intros s keep out Hj; cbn [filter_seen]; [exact Hj|].
  destruct (tc_has (cache s) i (clock s)) as [seen c] eqn:Eh.
  assert (Js : J t (set_cache s c) out).
  { assert (E : c = snd (tc_has (cache s) i (clock s))) by now rewrite Eh. subst c.
    apply (J_same t s); auto; [apply tc_has_inv, Hj|].
    unfold tc_has. destruct (lookup i (entries (cache s))); cbn; [destruct (strat (cache s)); reflexivity|reflexivity]. }
  destruct seen; apply IH; [|exact Js]. apply J_neutral; [cnt_small|exact Js].
Qed.

Lemma push_all_J t c ids : forall s out,
  J t s out -> J t (fst (push_all c s ids out)) (snd (push_all c s ids out)).
Proof.
  induction ids as [|i ids IH]; intros s out Hj; cbn [push_all]; [auto|].
  destruct (has_val c).
  - destruct (Nat.ltb (length (queue s)) (qcap c)); apply IH; auto.
    + apply (J_same t s); auto. apply set_fields_inv, Hj.
    + apply J_neutral; [cnt_small|exact Hj].
  - destruct (gate s i) as [fresh s'] eqn:Eg.
    assert (Eg1 : fst (gate s i) = fresh) by now rewrite Eg.
    assert (Eg2 : snd (gate s i) = s') by now rewrite Eg.
    destruct (gate_fields s i) as (G1 & G2 & G3 & G4 & G5 & G6). rewrite Eg2 in *.
    apply IH.
    destruct fresh.
    + apply (gate_J t s out i s' [EDeliver i] Hj); [left; congruence| | | | | |]; gclose Eg1 Eg2.
    + replace out with (out ++ []) by apply app_nil_r.
      apply (gate_J t s out i s' [] Hj); [left; congruence| | | | | |]; gclose Eg1 Eg2.
Qed.

Lemma sweep_inv s sw ns :
  Inv s -> clock s < sw ->
  Inv {| cache := tc_sweep (cache s) sw; clock := sw; next_sweep := ns; queue := queue s; busy := busy s; passes := passes s |}.
Proof.
  intros [N T E P] H. split; cbn.
  - apply NoDup_filter_keys; assumption.
  - assumption.
  - intros i e. rewrite lookup_filter_sweep by assumption. destruct (lookup i (entries (cache s))) as [e0|] eqn:El; [|discriminate].
    destruct (e0 <? sw); [discriminate|]. intros X; inversion X; subst. specialize (E i e El). lia.
  - intros i a Hin. destruct (P i a Hin) as [P1 P2]. split; [lia|].
    rewrite lookup_filter_sweep by assumption. destruct (lookup i (entries (cache s))) as [e0|] eqn:El.
    + destruct (Z.ltb_spec e0 sw); [lia|assumption].
    + lia.
Qed.

Lemma tick_inv s target :
  Inv s -> clock s <= target ->
  Inv {| cache := cache s; clock := target; next_sweep := next_sweep s; queue := queue s; busy := busy s; passes := passes s |}.
Proof.
  intros [N T E P] H. split; cbn; auto.
  - intros i e El. specialize (E i e El). lia.
  - intros i a Hin. destruct (P i a Hin) as [P1 P2]. split; [lia|].
    destruct (lookup i (entries (cache s))); lia.
Qed.

Lemma advance_J t c fuel : forall s out target,
  0 < interval c -> J t s out -> clock s <= target ->
  J t (advance c fuel s target) out.
Proof.
  induction fuel as [|f IH]; intros s out target Hi Hj Ht; cbn [advance]; [exact Hj|].
  destruct (Z.leb_spec (next_sweep s) target).
  - apply IH; [exact Hi| |cbn; exact H].
    destruct Hj as [I T W S A B].
    split; [apply sweep_inv; assumption|cbn; exact T|cbn; lia|exact S|exact A|exact B].
  - destruct Hj as [I T W S A B].
    split; [apply tick_inv; assumption|exact T|cbn; lia|exact S|exact A|exact B].
Qed.

(* the helper functions only ever append to their event accumulator *)
Lemma drain_prefix c fuel : forall s out,
  drain c fuel s out = (fst (drain c fuel s []), out ++ snd (drain c fuel s [])).
Proof.
  induction fuel as [|f IH]; intros s out; cbn [drain]; [now rewrite app_nil_r|].
  destruct (busy s); [now rewrite app_nil_r|]. destruct (queue s) as [|i q']; [now rewrite app_nil_r|].
  destruct (gate _ i) as [fresh s2]. destruct fresh.
  - destruct (memb i (blocks c)); [reflexivity|].
    destruct (vlook i (verdict_of c)); rewrite IH; rewrite (IH s2 ([] ++ _)); cbn [fst snd]; now rewrite <- app_assoc.
  - rewrite IH. rewrite (IH s2 ([] ++ _)). cbn [fst snd]. now rewrite <- app_assoc.
Qed.

Lemma filter_seen_prefix ids : forall s keep out,
  filter_seen s ids keep out
  = (fst (filter_seen s ids keep []), out ++ snd (filter_seen s ids keep [])).
Proof.
  induction ids as [|i ids IH]; intros s keep out; cbn [filter_seen]; [now rewrite app_nil_r|].
  destruct (tc_has (cache s) i (clock s)) as [seen c]. destruct seen.
  - rewrite IH. rewrite (IH _ keep ([] ++ _)). cbn [fst snd]. now rewrite <- app_assoc.
  - apply IH.
Qed.

Lemma push_all_prefix c ids : forall s out,
  push_all c s ids out = (fst (push_all c s ids []), out ++ snd (push_all c s ids [])).
Proof.
  induction ids as [|i ids IH]; intros s out; cbn [push_all]; [now rewrite app_nil_r|].
  destruct (has_val c).
  - destruct (Nat.ltb (length (queue s)) (qcap c)); [apply IH|].
    rewrite IH. rewrite (IH s ([] ++ _)). cbn [fst snd]. now rewrite <- app_assoc.
  - destruct (gate s i) as [fresh s']. destruct fresh.
    + rewrite IH. rewrite (IH s' ([] ++ _)). cbn [fst snd]. now rewrite <- app_assoc.
    + apply IH.
Qed.

Lemma filter_seen_busy ids : forall s keep out, busy (fst (fst (filter_seen s ids keep out))) = busy s.
Proof.
  induction ids as [|i ids IH]; intros s keep out; cbn [filter_seen]; [reflexivity|].
  destruct (tc_has (cache s) i (clock s)) as [seen c]. destruct seen; rewrite IH; reflexivity.
Qed.


Lemma step_J t c s o s' evs out :
  0 < interval c -> J t s out -> step c s o = Some (s', evs) -> J t s' (out ++ evs).
Proof.
  intros Hi Hj H. destruct o as [ids|v|i|d]; cbn [step] in H.
  - destruct (filter_seen s ids [] []) as [[s1 keep] out1] eqn:Ef.
    destruct (push_all c s1 keep out1) as [s2 out2] eqn:Ep.
    assert (Hd : drain c (S (length (queue s2))) s2 out2 = (s', evs)) by congruence. clear H.
    pose proof (filter_seen_J t ids s [] out Hj) as F. cbn zeta in F.
    rewrite filter_seen_prefix, Ef in F. cbn [fst snd] in F.
    pose proof (push_all_J t c keep s1 (out ++ out1) F) as P.
    rewrite push_all_prefix in P. cbn [fst snd] in P.
    assert (Ep' : push_all c s1 keep [] = (s2, snd (push_all c s1 keep []))).
    { rewrite push_all_prefix in Ep. inversion Ep. destruct (push_all c s1 keep []); reflexivity. }
    assert (Eo2 : out2 = out1 ++ snd (push_all c s1 keep [])).
    { rewrite push_all_prefix in Ep. now inversion Ep. }
    rewrite Ep' in P. cbn [fst snd] in P.
    pose proof (drain_J t c (S (length (queue s2))) s2 _ P) as D.
    rewrite drain_prefix in D. cbn [fst snd] in D.
    rewrite (drain_prefix c _ s2 out2) in Hd. inversion Hd; subst; clear Hd.
    rewrite <- !app_assoc in *. exact D.
  - destruct (busy s) as [i|] eqn:Eb; [|discriminate].
    assert (Hd : drain c (S (length (queue s))) {| cache := cache s; clock := clock s; next_sweep := next_sweep s; queue := queue s; busy := None; passes := passes s |}
                   (match v with VAccept => [EDeliver i] | _ => [] end) = (s', evs)) by (injection H as H; exact H). clear H.
    set (s1 := {| cache := cache s; clock := clock s; next_sweep := next_sweep s; queue := queue s; busy := None; passes := passes s |}).
    set (e0 := match v with VAccept => [EDeliver i] | _ => [] end).
    assert (J1 : J t s1 (out ++ e0)).
    { destruct Hj as [I T W S A B]. split; auto.
      - apply set_fields_inv. exact I.
      - intros k. rewrite cnt_app. specialize (A k). change (passes_of k s1) with (passes_of k s).
        replace (cnt (is_invoke k) e0) with 0%nat; [lia|]. subst e0. destruct v; reflexivity.
      - intros k. rewrite cnt_app. specialize (B k). change (passes_of k s1) with (passes_of k s).
        unfold busy_is in *. rewrite Eb in B. change (busy s1) with (@None id).
        assert (cnt (is_deliver k) e0 <= if Nat.eqb k i then 1 else 0)%nat.
        { subst e0. destruct v; unfold cnt, count_ev; cbn; destruct (Nat.eqb k i); cbn; lia. }
        cbv iota. destruct (Nat.eqb k i); lia. }
    pose proof (drain_J t c (S (length (queue s1))) s1 _ J1) as D.
    rewrite drain_prefix in D. cbn [fst snd] in D.
    fold s1 e0 in Hd. change (length (queue s)) with (length (queue s1)) in Hd.
    rewrite (drain_prefix c _ s1 e0) in Hd. inversion Hd; subst; clear Hd. rewrite <- app_assoc in D. exact D.
  - destruct (gate s i) as [fresh s1] eqn:Eg.
    assert (Eg1 : fst (gate s i) = fresh) by now rewrite Eg.
    assert (Eg2 : snd (gate s i) = s1) by now rewrite Eg.
    destruct (gate_fields s i) as (G1 & G2 & G3 & G4 & G5 & G6). rewrite Eg2 in *.
    destruct fresh.
    + destruct (has_val c).
      * destruct (vlook i (verdict_of c)); injection H as Hs He; subst s' evs;
          (apply (gate_J t s out i _ _ Hj); [left; congruence| | | | | |]; gclose Eg1 Eg2).
      * injection H as Hs He; subst s' evs.
        apply (gate_J t s out i _ _ Hj); [left; congruence| | | | | |]; gclose Eg1 Eg2.
    + injection H as Hs He; subst s' evs.
      apply (gate_J t s out i _ _ Hj); [left; congruence| | | | | |]; gclose Eg1 Eg2.
  - destruct (Z.ltb_spec d 0); [discriminate|].
    assert (Ha : advance c (S (S (Z.to_nat (d / interval c)))) s (clock s + d) = s' /\ evs = []) by (injection H as H1 H2; auto).
    clear H. destruct Ha as [<- ->]. rewrite app_nil_r.
    apply advance_J; auto. lia.
Qed.

Lemma run_J t c l : forall s s' evs out,
  0 < interval c -> J t s out -> run c s l = Some (s', evs) -> J t s' (out ++ evs).
Proof.
  induction l as [|o l IH]; intros s s' evs out Hi Hj H; cbn [run] in H.
  - inversion H; subst. now rewrite app_nil_r.
  - destruct (step c s o) as [[s1 e1]|] eqn:Es; [|discriminate].
    destruct (run c s1 l) as [[s2 e2]|] eqn:Er; [|discriminate]. inversion H; subst; clear H.
    rewrite app_assoc. eapply IH; eauto. eapply step_J; eauto.
Qed.

Lemma J_init t sg c : 0 <= t -> 0 < interval c -> J t (init sg t c) [].
Proof.
  intros Ht Hi. split; cbn; auto. apply Inv_init. exact Ht.
Qed.

(* ---------------- results exported to Props/C02.v ---------------- *)

(* successful markSeen's of one id are more than ttl apart, whatever the history *)
Theorem passes_separated sg t c l s evs i :
  0 <= t -> 0 < interval c -> run c (init sg t c) l = Some (s, evs) -> sep t (passes_of i s).
Proof. intros Ht Hi R. pose proof (run_J t c l _ _ _ [] Hi (J_init t sg c Ht Hi) R) as Jf. apply (j_sep _ _ _ Jf). Qed.

(* the validators are invoked, and the message delivered, at most once per successful markSeen *)
Theorem invoked_le_passes sg t c l s evs i :
  0 <= t -> 0 < interval c -> run c (init sg t c) l = Some (s, evs) ->
  (count_ev (is_invoke i) evs <= length (passes_of i s))%nat.
Proof. intros Ht Hi R. pose proof (run_J t c l _ _ _ [] Hi (J_init t sg c Ht Hi) R) as Jf. apply (j_inv_le _ _ _ Jf i). Qed.

Theorem delivered_le_passes sg t c l s evs i :
  0 <= t -> 0 < interval c -> run c (init sg t c) l = Some (s, evs) ->
  (count_ev (is_deliver i) evs <= length (passes_of i s))%nat.
Proof.
  intros Ht Hi R. pose proof (run_J t c l _ _ _ [] Hi (J_init t sg c Ht Hi) R) as Jf.
  pose proof (j_del_le _ _ _ Jf i) as H. rewrite app_nil_l in H. unfold cnt in H. lia.
Qed.

(* remembered for at least the TTL: while no more than ttl has passed since a successful markSeen,
   the id is still in the cache, so every copy arriving then is a duplicate *)
Theorem remembered_for_ttl sg t c l s evs i a :
  0 <= t -> 0 < interval c -> run c (init sg t c) l = Some (s, evs) ->
  In (i, a) (passes s) -> clock s <= a + t -> lookup i (entries (cache s)) <> None.
Proof.
  intros Ht Hi R Hin Hc. pose proof (run_J t c l _ _ _ [] Hi (J_init t sg c Ht Hi) R) as Jf.
  destruct (i_pass _ (j_inv _ _ _ Jf) i a Hin) as [_ P]. rewrite (j_ttl _ _ _ Jf) in P.
  destruct (lookup i (entries (cache s))); [discriminate|lia].
Qed.
