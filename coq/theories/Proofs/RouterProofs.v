From Coq Require Import List Bool ZArith Arith Lia.
Import ListNotations.
From PS Require Import Model.Router.
Local Open Scope Z_scope.

(* ---------------- association lists ---------------- *)
Definition ukeys {V} (l : list (nat * V)) : Prop := NoDup (map fst l).

Lemma aget_aset_same {V} k (v : V) l : aget k (aset k v l) = Some v.
Proof.
  induction l as [|[j w] l IH]; cbn; [now rewrite Nat.eqb_refl|].
  destruct (Nat.eqb_spec k j) as [->|]; cbn; [now rewrite Nat.eqb_refl|].
  destruct (Nat.eqb_spec k j); [contradiction|exact IH].
Qed.
Lemma aget_aset_other {V} k j (v : V) l : k <> j -> aget k (aset j v l) = aget k l.
Proof.
  intros H. induction l as [|[i w] l IH]; cbn.
  - destruct (Nat.eqb_spec k j); [contradiction|reflexivity].
  - destruct (Nat.eqb_spec j i) as [->|]; cbn.
    + destruct (Nat.eqb_spec k i); [contradiction|reflexivity].
    + destruct (Nat.eqb_spec k i); [reflexivity|exact IH].
Qed.
Lemma keys_aset_in {V} k (v : V) l x : In x (map fst (aset k v l)) -> x = k \/ In x (map fst l).
Proof.
  induction l as [|[j w] l IH]; cbn; [intros [H|[]]; auto|].
  destruct (Nat.eqb_spec k j) as [->|]; cbn; [tauto|]. intros [H|H]; [auto|]. destruct (IH H); auto.
Qed.
Lemma ukeys_aset {V} k (v : V) l : ukeys l -> ukeys (aset k v l).
Proof.
  unfold ukeys. induction l as [|[j w] l IH]; cbn; intros H.
  - constructor; [intros []|constructor].
  - inversion H as [|? ? Hn Hd]; subst. destruct (Nat.eqb_spec k j) as [->|Hne]; cbn.
    + constructor; assumption.
    + constructor; [|apply IH; assumption]. intros Hin. apply keys_aset_in in Hin as [->|Hin]; [congruence|contradiction].
Qed.
Lemma aget_map_vals {V W} (f : V -> W) k (l : list (nat * V)) :
  aget k (map (fun e => (fst e, f (snd e))) l) = option_map f (aget k l).
Proof. induction l as [|[j w] l IH]; cbn; [reflexivity|]. destruct (Nat.eqb k j); [reflexivity|exact IH]. Qed.
Lemma keys_map_vals {V W} (f : V -> W) (l : list (nat * V)) : map fst (map (fun e => (fst e, f (snd e))) l) = map fst l.
Proof. induction l as [|[j w] l IH]; cbn; [reflexivity|]. now rewrite IH. Qed.
Lemma aget_notin {V} k (l : list (nat * V)) : ~ In k (map fst l) -> aget k l = None.
Proof.
  induction l as [|[j w] l IH]; cbn; [reflexivity|]. intros H.
  destruct (Nat.eqb_spec k j) as [->|]; [exfalso; apply H; now left|]. apply IH. tauto.
Qed.
Lemma aget_filter_uk {V} (g : nat * V -> bool) k (l : list (nat * V)) :
  ukeys l -> aget k (filter g l) = match aget k l with Some v => if g (k, v) then Some v else None | None => None end.
Proof.
  unfold ukeys. induction l as [|[j w] l IH]; cbn; [reflexivity|]. intros H. inversion H as [|? ? Hn Hd]; subst.
  destruct (Nat.eqb_spec k j) as [->|Hne].
  - destruct (g (j, w)) eqn:E; cbn.
    + now rewrite Nat.eqb_refl.
    + rewrite IH by assumption. now rewrite (aget_notin j l Hn).
  - destruct (g (j, w)); cbn; [|apply IH; assumption].
    destruct (Nat.eqb_spec k j); [contradiction|apply IH; assumption].
Qed.
Lemma ukeys_filter {V} (g : nat * V -> bool) (l : list (nat * V)) : ukeys l -> ukeys (filter g l).
Proof.
  unfold ukeys. induction l as [|[j w] l IH]; cbn; [auto|]. intros H. inversion H as [|? ? Hn Hd]; subst.
  destruct (g (j, w)); cbn; [|auto]. constructor; [|auto].
  intros Hin. apply Hn. clear - Hin. induction l as [|[i x] l IH]; cbn in *; [contradiction|].
  destruct (g (i, x)); cbn in *; tauto.
Qed.

(* ---------------- the C08 invariant ---------------- *)
Fixpoint log_ok (l : list gev) : Prop :=      (* newest first *)
  match l with
  | [] => True
  | GGraft t p tau :: l' => (forall d, In (GDeadline t p d) l' -> d <= tau) /\ log_ok l'
  | _ :: l' => log_ok l'
  end.

Record Inv (P : params) (s : rstate) : Prop := {
  i_uk : ukeys (backoff s);
  i_uki : forall t m, aget t (backoff s) = Some m -> ukeys m;
  i_dl : forall t p d, In (GDeadline t p d) (glog s) ->
           match backoff_of s t p with Some e => d <= e | None => d <= now s end;
  i_log : log_ok (glog s)
}.

Lemma Inv_init P : Inv P init.
Proof. split; cbn; auto; try (intros; discriminate); try constructor. intros ? ? ? []. Qed.

(* anything that leaves backoff, the ghost log and the clock alone *)
Lemma Inv_frame P s s' : Inv P s -> backoff s' = backoff s -> glog s' = glog s -> now s' = now s -> Inv P s'.
Proof.
  intros [A B C D] Hb Hg Hn. split; rewrite ?Hb, ?Hg; auto.
  intros t p d Hin. specialize (C t p d Hin). unfold backoff_of in *. rewrite Hb, Hn. exact C.
Qed.

Lemma backoff_of_add s t p iv t' p' :
  backoff_of (add_backoff s t p iv) t' p'
  = if Nat.eqb t' t && Nat.eqb p' p
    then Some (match backoff_of s t p with Some old => Z.max old (now s + iv) | None => now s + iv end)
    else backoff_of s t' p'.
Proof.
  unfold add_backoff, backoff_of. cbn [backoff set_backoff].
  destruct (Nat.eqb_spec t' t) as [->|Ht]; cbn [andb].
  - rewrite aget_aset_same. destruct (Nat.eqb_spec p' p) as [->|Hp].
    + rewrite aget_aset_same. destruct (aget t (backoff s)); reflexivity.
    + rewrite aget_aset_other by assumption. destruct (aget t (backoff s)); reflexivity.
  - rewrite aget_aset_other by assumption. reflexivity.
Qed.

Lemma Inv_add_backoff P s t p iv : 0 <= iv -> Inv P s -> Inv P (add_backoff s t p iv).
Proof.
  intros Hiv [A B C D]. split.
  - unfold add_backoff; cbn. apply ukeys_aset. exact A.
  - unfold add_backoff; cbn. intros t' m H. destruct (Nat.eq_dec t' t) as [->|Hne].
    + rewrite aget_aset_same in H. inversion H; subst. apply ukeys_aset.
      destruct (aget t (backoff s)) eqn:E; [eapply B; eauto|constructor].
    + rewrite aget_aset_other in H by assumption. eapply B; eauto.
  - intros t' p' d Hin. rewrite backoff_of_add. cbn [glog add_backoff set_backoff] in Hin.
    destruct Hin as [Hin|Hin].
    + inversion Hin; subst. rewrite !Nat.eqb_refl. cbn [andb]. destruct (backoff_of s t' p'); lia.
    + specialize (C t' p' d Hin). destruct (Nat.eqb_spec t' t) as [->|]; cbn [andb]; [|exact C].
      destruct (Nat.eqb_spec p' p) as [->|]; [|exact C].
      cbn [now add_backoff set_backoff]. destruct (backoff_of s t p); lia.
  - cbn. exact D.
Qed.

Lemma Inv_fold_add_backoff P t iv l : 0 <= iv -> forall s, Inv P s -> Inv P (fold_left (fun st p => add_backoff st t p iv) l s).
Proof. intros Hiv. induction l as [|p l IH]; intros s I; cbn; [exact I|]. apply IH, Inv_add_backoff; assumption. Qed.

Lemma fold_add_backoff_now t iv l : forall s, now (fold_left (fun st p => add_backoff st t p iv) l s) = now s.
Proof. induction l as [|p l IH]; intros s; cbn; [reflexivity|]. now rewrite IH. Qed.

(* logging a GRAFT is sound when the peer has no backoff entry *)
Lemma Inv_log_graft P s t p : Inv P s -> in_backoff s t p = false -> Inv P (log_graft s t p).
Proof.
  intros [A B C D] H. split; cbn; auto.
  - intros t' p' d [Hin|Hin]; [discriminate|]. apply (C t' p' d Hin).
  - split; [|exact D]. intros d Hin. specialize (C t p d Hin). unfold in_backoff in H.
    destruct (backoff_of s t p); [discriminate|exact C].
Qed.

Lemma in_backoff_log_graft s t p t' p' : in_backoff (log_graft s t p) t' p' = in_backoff s t' p'.
Proof. reflexivity. Qed.

Lemma Inv_fold_log_graft P t l : forall s,
  Inv P s -> (forall p, In p l -> in_backoff s t p = false) -> Inv P (fold_left (fun st p => log_graft st t p) l s).
Proof.
  induction l as [|p l IH]; intros s I H; cbn; [exact I|]. apply IH.
  - apply Inv_log_graft; [exact I|]. apply H. now left.
  - intros q Hq. rewrite in_backoff_log_graft. apply H. now right.
Qed.

Lemma Inv_set_time P s tk nw : Inv P s -> now s <= nw -> Inv P (set_time s tk nw).
Proof.
  intros [A B C D] H. split; cbn; auto. intros t p d Hin. specialize (C t p d Hin).
  unfold backoff_of in *. cbn. destruct (aget t (backoff s)) as [m|]; [destruct (aget p m)|]; lia.
Qed.

Lemma Inv_clear_backoff P s : 0 <= pSlack P -> Inv P s -> Inv P (clear_backoff P s).
Proof.
  intros Hs I. pose proof I as [A B C D]. unfold clear_backoff. destruct (Nat.eqb (Nat.modulo (ticks s) 15) 0); [|exact I].
  set (f := fun (m : list (peer * Z)) => filter (fun pe => negb (snd pe + pSlack P <? now s)) m).
  assert (Hb : forall t, aget t (filter (fun e => match snd e with [] => false | _ => true end)
                                     (map (fun e => (fst e, f (snd e))) (backoff s)))
                         = match aget t (backoff s) with
                           | Some m => match f m with [] => None | x => Some x end
                           | None => None end).
  { intros t. rewrite aget_filter_uk.
    - rewrite aget_map_vals. destruct (aget t (backoff s)); cbn; [|reflexivity]. destruct (f l); reflexivity.
    - unfold ukeys. rewrite keys_map_vals. exact A. }
  split; cbn [backoff glog set_backoff now].
  - apply ukeys_filter. unfold ukeys. rewrite keys_map_vals. exact A.
  - intros t m H. fold f in H. rewrite Hb in H. destruct (aget t (backoff s)) as [m0|] eqn:E; [|discriminate].
    destruct (f m0) eqn:Ef; [discriminate|]. inversion H; subst. rewrite <- Ef. apply ukeys_filter. eapply B; eauto.
  - intros t p d Hin. specialize (C t p d Hin). unfold backoff_of in *. cbn [backoff set_backoff]. fold f. rewrite Hb.
    destruct (aget t (backoff s)) as [m0|] eqn:E; [|exact C].
    assert (Hf : aget p (f m0) = match aget p m0 with Some e => if negb (e + pSlack P <? now s) then Some e else None | None => None end).
    { unfold f. rewrite aget_filter_uk by (eapply B; eauto). reflexivity. }
    destruct (f m0) as [|x r] eqn:Ef.
    + cbn in Hf. destruct (aget p m0) as [e|]; [|exact C].
      destruct (Z.ltb_spec (e + pSlack P) (now s)); cbn in Hf; [lia|discriminate].
    + rewrite Hf. destruct (aget p m0) as [e|]; [|exact C].
      destruct (Z.ltb_spec (e + pSlack P) (now s)); cbn; [lia|exact C].
  - exact D.
Qed.

(* ---- membership helpers ---- *)
Lemma memb_In x l : memb x l = true <-> In x l.
Proof.
  unfold memb. rewrite existsb_exists. split.
  - intros (y & Hy & E). apply Nat.eqb_eq in E. now subst.
  - intros H. exists x. split; [exact H|apply Nat.eqb_refl].
Qed.
Lemma subset_In a b x : subset a b = true -> In x a -> In x b.
Proof. unfold subset. rewrite forallb_forall. intros H Hx. apply memb_In. apply H. exact Hx. Qed.
Lemma pick_ok_sub chosen cands n x : pick_ok chosen cands n = true -> In x chosen -> In x cands.
Proof. unfold pick_ok. intros H. apply andb_prop in H as [H _]. apply andb_prop in H as [_ H]. apply subset_In. exact H. Qed.
Lemma gs_peers_In s t f x : In x (gs_peers s t f) -> f x = true.
Proof. unfold gs_peers. intros H. apply filter_In in H as [_ H]. apply andb_prop in H. tauto. Qed.

(* ---------------- every operation preserves the invariant ---------------- *)
Definition nonneg (P : params) : Prop := 0 <= pPruneBackoff P /\ 0 <= pUnsubBackoff P /\ 0 <= pSlack P.

Lemma valid_nonneg P : valid_params P = true -> nonneg P.
Proof.
  unfold valid_params. rewrite !andb_true_iff. intros (((((_ & _) & _) & A) & B) & C).
  unfold nonneg. apply Z.leb_le in A, B, C. auto.
Qed.

Ltac frame I := apply (Inv_frame _ _ _ I); reflexivity.

Lemma Inv_join P sc s t chosen s' c : Inv P s -> join P sc s t chosen = Some (s', c) -> Inv P s'.
Proof.
  intros I H. unfold join in H. destruct (aget t (mesh s)) as [g|].
  - destruct chosen; [|discriminate]. inversion H; subst. exact I.
  - destruct (aget t (fanout s)) as [fan|].
    + set (kept := filter (fun p => negb ((score_of sc p <? 0) || in_backoff s t p)) fan) in *.
      set (elig := fun p => negb (memb p (direct s)) && negb (in_backoff s t p) && (0 <=? score_of sc p)) in *.
      set (cands := gs_peers s t (fun p => negb (memb p kept) && elig p)) in *.
      destruct (Nat.ltb (length kept) (pD P)) eqn:El; cbv beta iota in H.
      * match type of H with (if ?c then _ else _) = _ => destruct c eqn:Ep; [|discriminate] end. inversion H; subst; clear H.
        apply Inv_fold_log_graft; [frame I|].
        intros p Hp. apply in_app_or in Hp as [Hp|Hp].
        -- unfold kept in Hp. apply filter_In in Hp as [_ Hp]. apply negb_true_iff, orb_false_iff in Hp. tauto.
        -- pose proof (gs_peers_In _ _ _ _ (pick_ok_sub _ _ _ _ Ep Hp)) as F. cbn beta in F.
           unfold elig in F. rewrite !andb_true_iff in F. destruct F as (_ & (_ & F) & _). now apply negb_true_iff in F.
      * destruct chosen; [|discriminate]. inversion H; subst; clear H. rewrite app_nil_r.
        apply Inv_fold_log_graft; [frame I|].
        intros p Hp. unfold kept in Hp. apply filter_In in Hp as [_ Hp]. apply negb_true_iff, orb_false_iff in Hp. tauto.
    + set (elig := fun p => negb (memb p (direct s)) && negb (in_backoff s t p) && (0 <=? score_of sc p)) in *.
      destruct (pick_ok chosen (gs_peers s t elig) (pD P)) eqn:Ep; [|discriminate]. inversion H; subst; clear H.
      apply Inv_fold_log_graft; [frame I|].
      intros p Hp. pose proof (gs_peers_In _ _ _ _ (pick_ok_sub _ _ _ _ Ep Hp)) as F.
      unfold elig in F. rewrite !andb_true_iff in F. destruct F as ((_ & F) & _). now apply negb_true_iff in F.
Qed.

Lemma Inv_leave P s t : nonneg P -> Inv P s -> Inv P (fst (leave P s t)).
Proof.
  intros (_ & Hu & _) I. unfold leave. destruct (aget t (mesh s)) as [g|]; cbn [fst]; [|exact I].
  apply Inv_fold_add_backoff; [exact Hu|]. frame I.
Qed.

Lemma Inv_handle_graft1 P sc s p t : nonneg P -> Inv P s -> Inv P (fst (fst (handle_graft1 P sc s p t))).
Proof.
  intros (Hp & _ & _) I. unfold handle_graft1.
  destruct (aget t (mesh s)) as [g|]; cbn [fst]; [|exact I].
  destruct (memb p g); cbn [fst]; [exact I|]. destruct (memb p (direct s)); cbn [fst]; [exact I|].
  destruct (backoff_of s t p) as [e|].
  - destruct (now s <? e); cbn [fst]; [apply Inv_add_backoff; assumption|].
    destruct (score_of sc p <? 0); cbn [fst]; [apply Inv_add_backoff; assumption|].
    destruct (Nat.leb (pDhi P) (length g) && negb (is_outbound s p)); cbn [fst]; [apply Inv_add_backoff; assumption|frame I].
  - destruct (score_of sc p <? 0); cbn [fst]; [apply Inv_add_backoff; assumption|].
    destruct (Nat.leb (pDhi P) (length g) && negb (is_outbound s p)); cbn [fst]; [apply Inv_add_backoff; assumption|frame I].
Qed.

Lemma Inv_handle_graft P sc p ts : nonneg P -> forall s, Inv P s -> Inv P (fst (fst (handle_graft P sc s p ts))).
Proof.
  intros Hn. induction ts as [|t ts IH]; intros s I; cbn [handle_graft fst]; [exact I|].
  pose proof (Inv_handle_graft1 P sc s p t Hn I) as I1.
  destruct (handle_graft1 P sc s p t) as [[s1 pr] pen]. cbn [fst] in I1.
  specialize (IH s1 I1). destruct (handle_graft P sc s1 p ts) as [[s2 cs] pen2]. exact IH.
Qed.

Lemma Inv_handle_prune1 P s p t bo : nonneg P -> Inv P s -> Inv P (handle_prune1 P s p t bo).
Proof.
  intros (Hp & _ & _) I. unfold handle_prune1. destruct (aget t (mesh s)) as [g|]; [|exact I].
  apply Inv_add_backoff; [|frame I].
  destruct bo as [secs|]; [|exact Hp]. destruct (Z.ltb_spec 0 secs); [lia|exact Hp].
Qed.

Lemma Inv_fold_prune P p prs : nonneg P -> forall s, Inv P s ->
  Inv P (fold_left (fun st e => handle_prune1 P st p (fst e) (snd e)) prs s).
Proof. intros Hn. induction prs as [|e prs IH]; intros s I; cbn; [exact I|]. apply IH, Inv_handle_prune1; assumption. Qed.

Lemma Inv_do_prunes P s t pr : nonneg P -> Inv P s -> Inv P (do_prunes P s t pr).
Proof. intros (Hp & _ & _) I. unfold do_prunes. apply Inv_fold_add_backoff; [exact Hp|frame I]. Qed.

Lemma Inv_phase_graft P s t active (f : peer -> bool) n evs s' gr evs' :
  Inv P s -> (forall p, f p = true -> in_backoff s t p = false) ->
  phase_graft s t active (gs_peers s t f) n evs = Some (s', gr, evs') -> Inv P s'.
Proof.
  intros I Hf H. unfold phase_graft in H. destruct active; [|inversion H; subst; exact I].
  destruct (take_grafts _ evs) as [[g e]|]; [|discriminate].
  destruct (pick_ok g (gs_peers s t f) n) eqn:Ep; [|discriminate]. inversion H; subst; clear H.
  apply Inv_fold_log_graft; [frame I|].
  intros p Hp. change (in_backoff s t p = false). apply Hf. eapply gs_peers_In. eapply pick_ok_sub; eauto.
Qed.

Lemma elig_not_backoff s t p : elig s t p = true -> in_backoff s t p = false.
Proof. unfold elig. rewrite !andb_true_iff. intros ((_ & H) & _). now apply negb_true_iff in H. Qed.

Lemma Inv_hb_topic P sc s t evs s' gr pr npx :
  nonneg P -> Inv P s -> hb_topic P sc s t evs = Some (s', gr, pr, npx) -> Inv P s'.
Proof.
  intros Hn I H. unfold hb_topic in H.
  destruct (aget t (mesh s)) as [g0|]; [|discriminate].
  destruct (take_prunes _ evs) as [[pr1 evs1]|]; [|discriminate].
  destruct (negb (seteq pr1 _)); [discriminate|].
  set (s1 := do_prunes P s t (filter (fun p => score_of sc p <? 0) g0)) in *.
  assert (I1 : Inv P s1) by (apply Inv_do_prunes; assumption).
  destruct (phase_graft s1 t _ _ _ evs1) as [[[s2 gr2] evs2]|] eqn:E2; [|discriminate].
  assert (I2 : Inv P s2).
  { eapply Inv_phase_graft; [exact I1| |exact E2]. intros p Hp. apply andb_prop in Hp as [Hp _]. now apply elig_not_backoff. }
  destruct (take_prunes _ evs2) as [[pr3 evs3]|]; [|discriminate].
  match type of H with (if ?c then _ else _) = _ => destruct c; [discriminate|] end.
  set (s3 := do_prunes P s2 t pr3) in *.
  assert (I3 : Inv P s3) by (apply Inv_do_prunes; assumption).
  destruct (phase_graft s3 t _ _ _ evs3) as [[[s4 gr4] evs4]|] eqn:E4; [|discriminate].
  assert (I4 : Inv P s4).
  { eapply Inv_phase_graft; [exact I3| |exact E4]. intros p Hp. apply andb_prop in Hp as [Hp _]. apply andb_prop in Hp as [Hp _]. now apply elig_not_backoff. }
  destruct (phase_graft s4 t _ _ _ evs4) as [[[s5 gr5] evs5]|] eqn:E5; [|discriminate].
  destruct evs5; [|discriminate]. inversion H; subst; clear H.
  eapply Inv_phase_graft; [exact I4| |exact E5]. intros p Hp. apply andb_prop in Hp as [Hp _]. now apply elig_not_backoff.
Qed.

Lemma Inv_hb_topics P sc ts obs : nonneg P -> forall s s' r, Inv P s -> hb_topics P sc s ts obs = Some (s', r) -> Inv P s'.
Proof.
  intros Hn. induction ts as [|t ts IH]; intros s s' r I H; cbn [hb_topics] in H; [inversion H; subst; exact I|].
  destruct (hb_topic P sc s t _) as [[[[s1 gr] pr] npx]|] eqn:E; [|discriminate].
  destruct (hb_topics P sc s1 ts obs) as [[s2 r2]|] eqn:E2; [|discriminate]. inversion H; subst; clear H.
  eapply IH; [|exact E2]. eapply Inv_hb_topic; eauto.
Qed.

Lemma Inv_hb_fanouts P sc ts obs : forall s s', Inv P s -> hb_fanouts P sc s ts obs = Some s' -> Inv P s'.
Proof.
  induction ts as [|t ts IH]; intros s s' I H; cbn [hb_fanouts] in H; [inversion H; subst; exact I|].
  destruct (hb_fanout P sc s t _) as [s1|] eqn:E; [|discriminate]. eapply IH; [|exact H].
  unfold hb_fanout in E. destruct (aget t (fanout s)); [|discriminate].
  match type of E with (if ?c then _ else _) = _ => destruct c; [|discriminate] end. inversion E; subst. frame I.
Qed.

Lemma Inv_heartbeat P sc s obs fobs s' c : nonneg P -> Inv P s -> heartbeat P sc s obs fobs = Some (s', c) -> Inv P s'.
Proof.
  intros Hn I H. unfold heartbeat in H.
  set (s0 := clear_backoff P (set_time s (S (ticks s)) (now s))) in *.
  assert (I0 : Inv P s0).
  { apply Inv_clear_backoff; [apply Hn|]. apply Inv_set_time; [exact I|lia]. }
  match type of H with (if ?c then _ else _) = _ => destruct c; [discriminate|] end.
  destruct (hb_topics P sc s0 _ obs) as [[s1 res]|] eqn:E1; [|discriminate].
  pose proof (Inv_hb_topics _ _ _ _ Hn _ _ _ I0 E1) as I1.
  destruct (hb_fanouts P sc (expire_fanout P s1) _ fobs) as [s3|] eqn:E3; [|discriminate].
  inversion H; subst; clear H. eapply Inv_hb_fanouts; [|exact E3]. frame I1.
Qed.

Lemma Inv_step P sc s o s' c pen : nonneg P -> Inv P s -> step P sc s o = Some (s', c, pen) -> Inv P s'.
Proof.
  intros Hn I H. destruct o; cbn [step] in H; try (inversion H; subst; clear H; frame I).
  - destruct (join P sc s t chosen) as [[s1 c1]|] eqn:E; [|discriminate]. inversion H; subst. eapply Inv_join; eauto.
  - pose proof (Inv_leave P s t Hn I) as L. destruct (leave P s t) as [s1 c1]. inversion H; subst. exact L.
  - pose proof (Inv_handle_graft P sc p ts Hn s I) as G. destruct (handle_graft P sc s p ts) as [[s1 c1] p1].
    inversion H; subst. exact G.
  - inversion H; subst. apply Inv_fold_prune; assumption.
  - destruct (heartbeat P sc s obs fobs) as [[s1 c1]|] eqn:E; [|discriminate]. inversion H; subst. eapply Inv_heartbeat; eauto.
  - destruct (Z.ltb_spec d 0); [discriminate|]. inversion H; subst. apply Inv_set_time; [exact I|lia].
  - destruct (aget t (mesh s)); [discriminate|]. destruct (fanout_pub P sc s t chosen) as [[s1 l1]|] eqn:E; [|discriminate].
    inversion H; subst. unfold fanout_pub in E. destruct (aget_l t (fanout s)).
    + destruct (pick_ok chosen _ (pD P)); [|discriminate]. inversion E; subst. frame I.
    + destruct chosen; [|discriminate]. inversion E; subst. frame I.
Qed.

Lemma Inv_run P l : nonneg P -> forall s s' c, Inv P s -> run P s l = Some (s', c) -> Inv P s'.
Proof.
  intros Hn. induction l as [|[sc o] l IH]; intros s s' c I H; cbn [run] in H; [inversion H; subst; exact I|].
  destruct (step P sc s o) as [[[s1 c1] pen]|] eqn:E; [|discriminate].
  destruct (run P s1 l) as [[s2 c2]|] eqn:E2; [|discriminate]. inversion H; subst.
  eapply IH; [|exact E2]. eapply Inv_step; eauto.
Qed.

(* ---------------- C08 ---------------- *)

Lemma log_ok_split l1 : forall l2 t p tau d,
  log_ok (l1 ++ GGraft t p tau :: l2) -> In (GDeadline t p d) l2 -> d <= tau.
Proof.
  induction l1 as [|e l1 IH]; intros l2 t p tau d H Hin; cbn [app log_ok] in H.
  - destruct H as [H _]. apply H. exact Hin.
  - destruct e; [eapply IH; eauto|]. destruct H as [_ H]. eapply IH; eauto.
Qed.

(* every GRAFT the node decides to send for (t,p) comes no earlier than every backoff deadline
   established before it for (t,p): own prunes, refused GRAFTs, received PRUNEs (with the period they
   name, else the configured one) and Leave (unsubscribe backoff) *)
Theorem no_early_graft P l s c l1 l2 t p tau d :
  valid_params P = true -> run P init l = Some (s, c) ->
  glog s = l1 ++ GGraft t p tau :: l2 -> In (GDeadline t p d) l2 -> d <= tau.
Proof.
  intros Hv R Hg Hin. pose proof (Inv_run P l (valid_nonneg P Hv) _ _ _ (Inv_init P) R) as I.
  eapply log_ok_split; [|exact Hin]. rewrite <- Hg. apply (i_log _ _ I).
Qed.

(* a GRAFT received from a peer still under backoff is refused with a PRUNE, penalised (doubly within
   the flood threshold) and extends the backoff *)
Theorem graft_in_backoff_refused P sc s p t g e :
  aget t (mesh s) = Some g -> memb p g = false -> memb p (direct s) = false ->
  backoff_of s t p = Some e -> now s < e ->
  handle_graft1 P sc s p t
  = (add_backoff s t p (pPruneBackoff P), true,
     if now s <? e + (pGraftFlood P - pPruneBackoff P) then 2%nat else 1%nat).
Proof.
  intros Hm Hg Hd Hb Hlt. unfold handle_graft1. rewrite Hm, Hg, Hd, Hb.
  destruct (Z.ltb_spec (now s) e); [reflexivity|lia].
Qed.

Theorem refused_graft_not_in_mesh P sc s p t g e :
  aget t (mesh s) = Some g -> memb p g = false -> memb p (direct s) = false ->
  backoff_of s t p = Some e -> now s < e ->
  mesh (fst (fst (handle_graft1 P sc s p t))) = mesh s
  /\ exists e', backoff_of (fst (fst (handle_graft1 P sc s p t))) t p = Some e' /\ e <= e' /\ now s + pPruneBackoff P <= e'.
Proof.
  intros Hm Hg Hd Hb Hlt. rewrite (graft_in_backoff_refused P sc s p t g e Hm Hg Hd Hb Hlt). cbn [fst].
  split; [reflexivity|]. rewrite backoff_of_add, !Nat.eqb_refl, Hb. cbn [andb]. eexists; split; [reflexivity|lia].
Qed.

(* every PRUNE to a peer speaking v1.1 or later states the backoff period *)
Theorem prune_states_backoff P s p t unsub :
  speaks_px s p = true ->
  mk_prune P s p t unsub = CPrune p t (Some ((if unsub then pUnsubBackoff P else pPruneBackoff P) / 1000000000)).
Proof. intros H. unfold mk_prune. now rewrite H. Qed.

(* ---------------- C07: what a heartbeat guarantees for one topic ---------------- *)

Lemma aget_l_aset_same k v (l : list (nat * list nat)) : aget_l k (aset k v l) = v.
Proof. unfold aget_l. now rewrite aget_aset_same. Qed.

Lemma mesh_fold_log_graft t l : forall s, mesh (fold_left (fun st p => log_graft st t p) l s) = mesh s.
Proof. induction l as [|p l IH]; intros s; cbn; [reflexivity|]. now rewrite IH. Qed.
Lemma mesh_fold_add_backoff t iv l : forall s, mesh (fold_left (fun st p => add_backoff st t p iv) l s) = mesh s.
Proof. induction l as [|p l IH]; intros s; cbn; [reflexivity|]. now rewrite IH. Qed.

Lemma phase_graft_spec s t active cands n evs s' gr evs' :
  phase_graft s t active cands n evs = Some (s', gr, evs') ->
  aget_l t (mesh s') = aget_l t (mesh s) ++ gr
  /\ (active = true -> pick_ok gr cands n = true)
  /\ (active = false -> gr = []).
Proof.
  unfold phase_graft. destruct active.
  - destruct (take_grafts _ evs) as [[g e]|]; [|discriminate].
    destruct (pick_ok g cands n) eqn:Ep; [|discriminate]. intros H; inversion H; subst; clear H.
    rewrite mesh_fold_log_graft. cbn [mesh set_mesh]. rewrite aget_l_aset_same. repeat split; auto. discriminate.
  - intros H; inversion H; subst. rewrite app_nil_r. repeat split; auto. discriminate.
Qed.

Lemma do_prunes_mesh P s t pr :
  aget_l t (mesh (do_prunes P s t pr)) = filter (fun p => negb (memb p pr)) (aget_l t (mesh s)).
Proof. unfold do_prunes. rewrite mesh_fold_add_backoff. cbn [mesh set_mesh]. apply aget_l_aset_same. Qed.

Lemma pick_ok_length gr cands n : pick_ok gr cands n = true -> length gr = take_count n cands.
Proof. unfold pick_ok. intros H. apply andb_prop in H as [_ H]. now apply Nat.eqb_eq in H. Qed.

Lemma aget_l_of k (l : list (nat * list nat)) v : aget k l = Some v -> aget_l k l = v.
Proof. unfold aget_l. now intros ->. Qed.

Lemma memb_filter (f : nat -> bool) p l : memb p (filter f l) = memb p l && f p.
Proof.
  unfold memb. induction l as [|x l IH]; cbn [filter existsb]; [reflexivity|].
  destruct (f x) eqn:E; cbn [existsb]; rewrite IH.
  - destruct (Nat.eqb_spec p x) as [->|]; cbn [orb andb]; [now rewrite E|reflexivity].
  - destruct (Nat.eqb_spec p x) as [->|]; cbn [orb andb]; [rewrite E; now rewrite andb_false_r|reflexivity].
Qed.

Lemma filter_out_filter (f : nat -> bool) l :
  filter (fun p => negb (memb p (filter f l))) l = filter (fun p => negb (f p)) l.
Proof.
  apply filter_ext_in. intros a Ha. rewrite memb_filter. apply memb_In in Ha. now rewrite Ha.
Qed.

(* decomposition of an accepted per-topic heartbeat into its five phases *)
Theorem hb_topic_phases P sc s t evs s' gr pr npx :
  hb_topic P sc s t evs = Some (s', gr, pr, npx) ->
  exists g0 gr2 pr3 gr4 gr5 s1 s2 s3 s4,
    let g1 := filter (fun p => negb (score_of sc p <? 0)) g0 in
    aget t (mesh s) = Some g0
    /\ npx = filter (fun p => score_of sc p <? 0) g0
    /\ aget_l t (mesh s1) = g1
    (* under-subscription *)
    /\ (Nat.ltb (length g1) (pDlo P) = true ->
          pick_ok gr2 (gs_peers s1 t (fun p => elig s1 t p && (0 <=? score_of sc p))) (pD P - length g1) = true)
    /\ (Nat.ltb (length g1) (pDlo P) = false -> gr2 = [])
    /\ aget_l t (mesh s2) = g1 ++ gr2
    (* over-subscription *)
    /\ (Nat.leb (pDhi P) (length (g1 ++ gr2)) = true ->
          subset pr3 (g1 ++ gr2) = true
          /\ cut_ok P sc s2 (g1 ++ gr2) (filter (fun p => negb (memb p pr3)) (g1 ++ gr2)) = true)
    /\ (Nat.leb (pDhi P) (length (g1 ++ gr2)) = false -> pr3 = [])
    /\ aget_l t (mesh s3) = filter (fun p => negb (memb p pr3)) (g1 ++ gr2)
    (* outbound quota, opportunistic grafting *)
    /\ aget_l t (mesh s4) = aget_l t (mesh s3) ++ gr4
    /\ (gr4 <> [] -> pick_ok gr4 (gs_peers s3 t (fun p => elig s3 t p && is_outbound s3 p && (0 <=? score_of sc p)))
                             (pDout P - count_out s3 (aget_l t (mesh s3))) = true)
    /\ aget_l t (mesh s') = aget_l t (mesh s4) ++ gr5
    /\ (gr5 <> [] -> pick_ok gr5 (gs_peers s4 t (fun p => elig s4 t p && (median_score sc (aget_l t (mesh s4)) <? score_of sc p)))
                             (pOGPeers P) = true)
    /\ gr = gr2 ++ gr4 ++ gr5 /\ pr = npx ++ pr3.
Proof.
  intros H. unfold hb_topic in H.
  destruct (aget t (mesh s)) as [g0|] eqn:Eg; [|discriminate].
  destruct (take_prunes _ evs) as [[pr1 evs1]|]; [|discriminate].
  destruct (negb (seteq pr1 _)); [discriminate|].
  set (neg := filter (fun p => score_of sc p <? 0) g0) in *.
  set (s1 := do_prunes P s t neg) in *.
  assert (M1 : aget_l t (mesh s1) = filter (fun p => negb (score_of sc p <? 0)) g0).
  { unfold s1. rewrite do_prunes_mesh. rewrite (aget_l_of _ _ _ Eg). unfold neg. apply filter_out_filter. }
  rewrite M1 in H.
  destruct (phase_graft s1 t _ _ _ evs1) as [[[s2 gr2] evs2]|] eqn:E2; [|discriminate].
  destruct (phase_graft_spec _ _ _ _ _ _ _ _ _ E2) as (M2 & A2 & N2). rewrite M1 in M2.
  rewrite M2 in H.
  destruct (take_prunes _ evs2) as [[pr3 evs3]|] eqn:Et3; [|discriminate].
  match type of H with (if negb ?c then _ else _) = _ => destruct c eqn:Ec; [|discriminate] end. cbn [negb] in H.
  set (s3 := do_prunes P s2 t pr3) in *.
  assert (M3 : aget_l t (mesh s3) = filter (fun p => negb (memb p pr3)) (filter (fun p => negb (score_of sc p <? 0)) g0 ++ gr2)).
  { unfold s3. rewrite do_prunes_mesh, M2. reflexivity. }
  destruct (phase_graft s3 t _ _ _ evs3) as [[[s4 gr4] evs4]|] eqn:E4; [|discriminate].
  destruct (phase_graft_spec _ _ _ _ _ _ _ _ _ E4) as (M4 & A4 & N4).
  destruct (phase_graft s4 t _ _ _ evs4) as [[[s5 gr5] evs5]|] eqn:E5; [|discriminate].
  destruct (phase_graft_spec _ _ _ _ _ _ _ _ _ E5) as (M5 & A5 & N5).
  destruct evs5; [|discriminate]. inversion H; subst; clear H.
  exists g0, gr2, pr3, gr4, gr5, s1, s2, s3, s4. cbn zeta.
  split; [reflexivity|]. split; [reflexivity|]. split; [exact M1|]. split; [exact A2|]. split; [exact N2|].
  split; [exact M2|].
  split.
  { intros Ho. match type of Ec with (if ?c then _ else _) = true => replace c with true in Ec by (symmetry; exact Ho) end.
    rewrite !andb_true_iff in Ec. destruct Ec as ((_ & B) & C). auto. }
  split.
  { intros Ho. match type of Et3 with take_prunes (if ?c then _ else _) _ = _ => replace c with false in Et3 by (symmetry; exact Ho) end.
    cbn in Et3. now inversion Et3. }
  split; [exact M3|]. split; [exact M4|].
  split.
  { intros Hne. apply A4. destruct (Nat.leb (pDlo P) (length (aget_l t (mesh s3))) && Nat.ltb (count_out s3 (aget_l t (mesh s3))) (pDout P)); [reflexivity|].
    exfalso. apply Hne. now apply N4. }
  split; [exact M5|].
  split.
  { intros Hne. apply A5. match goal with |- ?c = true => destruct c; [reflexivity|] end. exfalso. apply Hne. now apply N5. }
  split; reflexivity.
Qed.

(* ---- corollaries ---- *)
Lemma insert_desc_In z l x : In x (insert_desc z l) <-> x = z \/ In x l.
Proof.
  induction l as [|y l IH]; cbn; [intuition congruence|]. destruct (y <? z); cbn; [intuition congruence|]. rewrite IH. intuition congruence.
Qed.
Lemma insert_desc_length z l : length (insert_desc z l) = S (length l).
Proof. induction l as [|y l IH]; cbn; [reflexivity|]. destruct (y <? z); cbn; [reflexivity|now rewrite IH]. Qed.
Lemma sorted_desc_In l x : In x (sorted_desc l) <-> In x l.
Proof. unfold sorted_desc. induction l as [|y l IH]; cbn [fold_right In]; [tauto|]. rewrite insert_desc_In, IH. intuition congruence. Qed.
Lemma sorted_desc_length l : length (sorted_desc l) = length l.
Proof. unfold sorted_desc. induction l as [|y l IH]; cbn [fold_right length]; [reflexivity|]. now rewrite insert_desc_length, IH. Qed.

Lemma median_nonneg sc g : (forall p, In p g -> 0 <= score_of sc p) -> 0 <= median_score sc g.
Proof.
  intros H. unfold median_score. destruct g as [|p0 g']; [cbn; lia|].
  set (l := rev (sorted_desc (map (score_of sc) (p0 :: g')))).
  assert (Hl : length l = length (p0 :: g')) by (unfold l; now rewrite rev_length, sorted_desc_length, map_length).
  assert (Hi : (length (p0 :: g') / 2 < length l)%nat).
  { rewrite Hl. apply Nat.div_lt; cbn; lia. }
  pose proof (nth_In l 0 Hi) as Hin. unfold l in Hin at 2. apply in_rev in Hin. rewrite sorted_desc_In in Hin.
  apply in_map_iff in Hin as (q & Eq & Hq). rewrite <- Eq. apply H. exact Hq.
Qed.

Lemma In_filter_nonneg sc g p : In p (filter (fun p => negb (score_of sc p <? 0)) g) -> 0 <= score_of sc p.
Proof. intros H. apply filter_In in H as [_ H]. apply negb_true_iff in H. apply Z.ltb_ge in H. exact H. Qed.

Lemma picked_sat s t f gr n p : pick_ok gr (gs_peers s t f) n = true -> In p gr -> f p = true.
Proof. intros Hp Hin. eapply gs_peers_In. eapply pick_ok_sub; eauto. Qed.

(* after the heartbeat the mesh of the topic contains no peer with a negative score *)
Theorem hb_no_negative P sc s t evs s' gr pr npx :
  hb_topic P sc s t evs = Some (s', gr, pr, npx) ->
  forall p, In p (aget_l t (mesh s')) -> 0 <= score_of sc p.
Proof.
  intros H. destruct (hb_topic_phases _ _ _ _ _ _ _ _ _ H) as (g0 & gr2 & pr3 & gr4 & gr5 & s1 & s2 & s3 & s4 & X).
  cbn zeta in X. destruct X as (_ & _ & M1 & A2 & N2 & M2 & _ & _ & M3 & M4 & A4 & M5 & A5 & _ & _).
  assert (H2 : forall p, In p (filter (fun p => negb (score_of sc p <? 0)) g0 ++ gr2) -> 0 <= score_of sc p).
  { intros p Hp. apply in_app_or in Hp as [Hp|Hp]; [eapply In_filter_nonneg; eauto|].
    destruct (Nat.ltb (length (filter (fun p => negb (score_of sc p <? 0)) g0)) (pDlo P)) eqn:E.
    - pose proof (picked_sat _ _ _ _ _ _ (A2 eq_refl) Hp) as F. cbn beta in F. apply andb_prop in F as [_ F]. now apply Z.leb_le in F.
    - rewrite (N2 eq_refl) in Hp. contradiction. }
  assert (H4 : forall p, In p (aget_l t (mesh s4)) -> 0 <= score_of sc p).
  { intros p Hp. rewrite M4 in Hp. apply in_app_or in Hp as [Hp|Hp].
    - rewrite M3 in Hp. apply filter_In in Hp as [Hp _]. auto.
    - assert (Hne : gr4 <> []) by (intros E; rewrite E in Hp; contradiction).
      pose proof (picked_sat _ _ _ _ _ _ (A4 Hne) Hp) as F. cbn beta in F. apply andb_prop in F as [_ F]. now apply Z.leb_le in F. }
  intros p Hp. rewrite M5 in Hp. apply in_app_or in Hp as [Hp|Hp]; [auto|].
  assert (Hne : gr5 <> []) by (intros E; rewrite E in Hp; contradiction).
  pose proof (picked_sat _ _ _ _ _ _ (A5 Hne) Hp) as F. cbn beta in F. apply andb_prop in F as [_ F]. apply Z.ltb_lt in F.
  pose proof (median_nonneg sc (aget_l t (mesh s4)) H4). lia.
Qed.

(* under-subscribed: the mesh grows to D, or to its previous members plus all eligible candidates *)
Theorem hb_undersubscribed_grows P sc s t evs s' gr pr npx :
  (pDlo P <= pD P)%nat ->
  hb_topic P sc s t evs = Some (s', gr, pr, npx) ->
  exists g0 gr2 s1,
    aget t (mesh s) = Some g0 /\
    let g1 := filter (fun p => negb (score_of sc p <? 0)) g0 in
    let cands := gs_peers s1 t (fun p => elig s1 t p && (0 <=? score_of sc p)) in
    aget_l t (mesh s1) = g1 /\
    ((length g1 < pDlo P)%nat -> length (g1 ++ gr2) = Nat.min (pD P) (length g1 + length cands)) /\
    ((pDlo P <= length g1)%nat -> gr2 = []).
Proof.
  intros HD H. destruct (hb_topic_phases _ _ _ _ _ _ _ _ _ H) as (g0 & gr2 & pr3 & gr4 & gr5 & s1 & s2 & s3 & s4 & X).
  cbn zeta in X. destruct X as (Eg & _ & M1 & A2 & N2 & _).
  exists g0, gr2, s1. split; [exact Eg|]. cbn zeta. split; [exact M1|]. split.
  - intros Hlt. assert (E : Nat.ltb (length (filter (fun p => negb (score_of sc p <? 0)) g0)) (pDlo P) = true) by (apply Nat.ltb_lt; exact Hlt).
    rewrite app_length, (pick_ok_length _ _ _ (A2 E)). unfold take_count.
    match goal with |- context [match ?n with O => _ | S _ => _ end] => destruct n eqn:En end; lia.
  - intros Hge. apply N2. apply Nat.ltb_ge. exact Hge.
Qed.

(* over-subscribed: cut back to exactly D, keeping what cut_ok demands (best scores, outbound quota) *)
Theorem hb_oversubscribed_cut P sc s t evs s' gr pr npx :
  hb_topic P sc s t evs = Some (s', gr, pr, npx) ->
  exists g2 pr3 s2 s3,
    aget_l t (mesh s2) = g2 /\
    aget_l t (mesh s3) = filter (fun p => negb (memb p pr3)) g2 /\
    ((pDhi P <= length g2)%nat ->
       length (aget_l t (mesh s3)) = pD P /\ cut_ok P sc s2 g2 (aget_l t (mesh s3)) = true) /\
    ((length g2 < pDhi P)%nat -> pr3 = []).
Proof.
  intros H. destruct (hb_topic_phases _ _ _ _ _ _ _ _ _ H) as (g0 & gr2 & pr3 & gr4 & gr5 & s1 & s2 & s3 & s4 & X).
  cbn zeta in X. destruct X as (_ & _ & _ & _ & _ & M2 & A3 & N3 & M3 & _).
  exists (filter (fun p => negb (score_of sc p <? 0)) g0 ++ gr2), pr3, s2, s3.
  split; [exact M2|]. split; [exact M3|]. split.
  - intros Hge. apply Nat.leb_le in Hge. destruct (A3 Hge) as [_ C]. rewrite M3. split; [|exact C].
    unfold cut_ok in C. rewrite !andb_true_iff in C. destruct C as ((((_ & _) & L) & _) & _). now apply Nat.eqb_eq in L.
  - intros Hlt. apply N3. apply Nat.leb_gt. exact Hlt.
Qed.

Lemma gs_peers_In_full s t f x : In x (gs_peers s t f) -> In x (aget_l t (tmap s)) /\ speaks_mesh s x = true /\ f x = true.
Proof. unfold gs_peers. intros H. apply filter_In in H as [H1 H2]. apply andb_prop in H2. tauto. Qed.

(* no direct peer, backed-off peer or current member is ever added by the heartbeat, only subscribed
   peers that speak gossipsub (negative scores are excluded by hb_no_negative) *)
Theorem hb_never_adds_ineligible P sc s t evs s' gr pr npx :
  hb_topic P sc s t evs = Some (s', gr, pr, npx) ->
  forall p, In p gr ->
    exists st, elig st t p = true /\ In p (aget_l t (tmap st)) /\ speaks_mesh st p = true.
Proof.
  intros H p Hp. destruct (hb_topic_phases _ _ _ _ _ _ _ _ _ H) as (g0 & gr2 & pr3 & gr4 & gr5 & s1 & s2 & s3 & s4 & X).
  cbn zeta in X. destruct X as (_ & _ & M1 & A2 & N2 & M2 & _ & _ & M3 & M4 & A4 & M5 & A5 & Eg & _).
  subst gr. apply in_app_or in Hp as [Hp|Hp]; [|apply in_app_or in Hp as [Hp|Hp]].
  - destruct (Nat.ltb (length (filter (fun p => negb (score_of sc p <? 0)) g0)) (pDlo P)) eqn:E.
    + destruct (gs_peers_In_full _ _ _ _ (pick_ok_sub _ _ _ _ (A2 eq_refl) Hp)) as (T & Sm & F).
      cbn beta in F. apply andb_prop in F as [F _]. exists s1. auto.
    + rewrite (N2 eq_refl) in Hp. contradiction.
  - assert (Hne : gr4 <> []) by (intros E; rewrite E in Hp; contradiction).
    destruct (gs_peers_In_full _ _ _ _ (pick_ok_sub _ _ _ _ (A4 Hne) Hp)) as (T & Sm & F).
    cbn beta in F. apply andb_prop in F as [F _]. apply andb_prop in F as [F _]. exists s3. auto.
  - assert (Hne : gr5 <> []) by (intros E; rewrite E in Hp; contradiction).
    destruct (gs_peers_In_full _ _ _ _ (pick_ok_sub _ _ _ _ (A5 Hne) Hp)) as (T & Sm & F).
    cbn beta in F. apply andb_prop in F as [F _]. exists s4. auto.
Qed.

Lemma elig_spec s t p : elig s t p = true ->
  memb p (aget_l t (mesh s)) = false /\ in_backoff s t p = false /\ memb p (direct s) = false.
Proof. unfold elig. rewrite !andb_true_iff, !negb_true_iff. tauto. Qed.

(* every peer added on our own initiative is sent GRAFT, every peer removed is sent PRUNE *)
Theorem hb_emits_graft_prune P sc s obs fobs s' c :
  heartbeat P sc s obs fobs = Some (s', c) ->
  exists s0 s1 res, hb_topics P sc s0 (map fst (mesh s0)) obs = Some (s1, res) /\
    forall t gr pr, In (t, (gr, pr)) res ->
      (forall p, In p gr -> In (CGraft p t) c) /\ (forall p, In p pr -> In (mk_prune P s p t false) c).
Proof.
  unfold heartbeat. intros H.
  set (s0 := clear_backoff P (set_time s (S (ticks s)) (now s))) in *.
  match type of H with (if ?c then _ else _) = _ => destruct c; [discriminate|] end.
  destruct (hb_topics P sc s0 _ obs) as [[s1 res]|] eqn:E1; [|discriminate].
  destruct (hb_fanouts P sc (expire_fanout P s1) _ fobs) as [s3|]; [|discriminate].
  inversion H; subst; clear H. exists s0, s1, res. split; [exact E1|].
  intros t gr pr Hin. split; intros p Hp; apply in_or_app; [left|right]; apply in_concat.
  - exists (map (fun q => CGraft q t) gr). split; [|apply (in_map (fun q => CGraft q t)); exact Hp].
    apply in_map_iff. exists (t, (gr, pr)). auto.
  - exists (map (fun q => mk_prune P s q t false) pr). split; [|apply (in_map (fun q => mk_prune P s q t false)); exact Hp].
    apply in_map_iff. exists (t, (gr, pr)). auto.
Qed.
