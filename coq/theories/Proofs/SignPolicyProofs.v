From Coq Require Import List Bool Arith.
Import ListNotations.
From PS Require Import Model.SignPolicy.

Section Proofs.
  Variables (bytes pid pubkey privkey : Type).
  Variable bytes_eqb : bytes -> bytes -> bool.
  Variable pid_of_bytes : bytes -> option pid.
  Variable extract : pid -> option pubkey.
  Variable unmarshal_key : bytes -> option pubkey.
  Variable matches : pid -> pubkey -> bool.
  Variable verify : pubkey -> bytes -> bytes -> bool.
  Variable signed_payload : msg bytes -> bytes.

  Notation accept := (accept bytes pid pubkey bytes_eqb pid_of_bytes extract unmarshal_key matches verify signed_payload).
  Notation verify_signature := (verify_signature bytes pid pubkey pid_of_bytes extract unmarshal_key matches verify signed_payload).
  Notation message_pubkey := (message_pubkey bytes pid pubkey pid_of_bytes extract unmarshal_key matches).

  (* under every policy: an accepted message that carries a signature carries one that verifies,
     over its contents with the signing prefix, under the key bound to its claimed author *)
  Theorem signed_accepted_verifies p anon self src_self m :
    accept p anon self src_self m = Accepted -> present (m_sig m) = true ->
    exists f a k s, m_from m = Some f /\ pid_of_bytes f = Some a /\ message_pubkey m = Some k /\ m_sig m = Some s
                    /\ verify k (signed_payload m) s = true
                    /\ match m_key m with
                       | None => extract a = Some k
                       | Some kb => unmarshal_key kb = Some k /\ matches a k = true
                       end.
  Proof.
    unfold SignPolicy.accept. intros H S. rewrite S in H. cbn [negb andb] in H.
    repeat match type of H with (if ?c then _ else _) = _ => destruct c eqn:?; try discriminate end.
    apply negb_false_iff in Heqb3. unfold SignPolicy.verify_signature in Heqb3.
    destruct (message_pubkey m) as [k|] eqn:Ek; [|discriminate].
    destruct (m_sig m) as [s|] eqn:Es; [|discriminate].
    unfold SignPolicy.message_pubkey in Ek.
    destruct (m_from m) as [f|] eqn:Ef; [|discriminate].
    destruct (pid_of_bytes f) as [a|] eqn:Ea; [|discriminate].
    exists f, a, k, s.
    split; [reflexivity|]. split; [exact Ea|].
    split; [first [reflexivity | unfold SignPolicy.message_pubkey; rewrite ?Ef, ?Ea; exact Ek]|].
    split; [reflexivity|]. split; [exact Heqb3|].
    destruct (m_key m) as [kb|]; [|exact Ek].
    destruct (unmarshal_key kb) as [k'|]; [|discriminate]. destruct (matches a k') eqn:Em; [|discriminate].
    inversion Ek; subst. auto.
  Qed.

  (* strict signing: nothing without a signature is accepted *)
  Theorem strict_requires_signature anon self src_self m :
    accept StrictSign anon self src_self m = Accepted -> present (m_sig m) = true.
  Proof. unfold SignPolicy.accept. cbn. destruct (present (m_sig m)); [reflexivity|discriminate]. Qed.

  (* strict no-signing: a message carrying a signature is never accepted; in anonymous mode neither
     is one carrying an author, a sequence number or a key *)
  Theorem nosign_rejects_signature anon self src_self m :
    present (m_sig m) = true -> accept StrictNoSign anon self src_self m = Rejected RUnexpectedSignature.
  Proof. intros H. unfold SignPolicy.accept. cbn. now rewrite H. Qed.

  Theorem anonymous_rejects_auth_fields self src_self m :
    present (m_seqno m) || present (m_from m) || present (m_key m) = true ->
    accept StrictNoSign true self src_self m <> Accepted.
  Proof.
    intros H. unfold SignPolicy.accept. cbn. destruct (present (m_sig m)); [discriminate|]. cbn. rewrite H. discriminate.
  Qed.

  (* under every policy a message naming the local node as author that arrives from another peer is dropped *)
  Theorem self_origin_dropped p anon self m f :
    m_from m = Some f -> bytes_eqb f self = true -> accept p anon self false m <> Accepted.
  Proof.
    intros Hf He. unfold SignPolicy.accept. rewrite Hf, He. cbn [negb andb].
    repeat match goal with |- (if ?c then _ else _) <> _ => destruct c; try discriminate end.
  Qed.

  (* tampering: whatever the other fields, a message is accepted with a signature only if that
     signature verifies over exactly the payload computed from the message as received *)
  Corollary tampered_payload_rejected p anon self src_self m k s :
    message_pubkey m = Some k -> m_sig m = Some s -> verify k (signed_payload m) s = false ->
    accept p anon self src_self m <> Accepted.
  Proof.
    intros Hk Hs Hv H. destruct (signed_accepted_verifies _ _ _ _ _ H) as (f & a & k' & s' & _ & _ & Hk' & Hs' & Hv' & _).
    - now rewrite Hs.
    - congruence.
  Qed.

  (* ---- messages the node signs itself verify at every correct receiver ---- *)
  Variable sign : privkey -> bytes -> bytes.
  Variable pub : privkey -> pubkey.
  Variable marshal_key : pubkey -> bytes.
  Variable pid_bytes : pid -> bytes.

  Definition sign_message (a : pid) (key : privkey) (m : msg bytes) : msg bytes :=
    {| m_from := m_from m; m_data := m_data m; m_seqno := m_seqno m; m_topic := m_topic m;
       m_sig := Some (sign key (signed_payload m));
       m_key := match extract a with None => Some (marshal_key (pub key)) | Some _ => None end;
       m_unk := m_unk m |}.

  Hypothesis sign_verify : forall key b, verify (pub key) b (sign key b) = true.
  Hypothesis pid_roundtrip : forall a, pid_of_bytes (pid_bytes a) = Some a.
  Hypothesis key_roundtrip : forall k, unmarshal_key (marshal_key k) = Some k.
  (* the payload is computed with Signature and Key cleared *)
  Hypothesis payload_ignores_sig_key : forall m s k,
    signed_payload {| m_from := m_from m; m_data := m_data m; m_seqno := m_seqno m; m_topic := m_topic m;
                      m_sig := s; m_key := k; m_unk := m_unk m |} = signed_payload m.

  Theorem own_messages_verify p anon self a key m :
    m_from m = Some (pid_bytes a) ->
    (* the signing key belongs to the author id: embedded in it, or matching it *)
    match extract a with Some pk => pk = pub key | None => matches a (pub key) = true end ->
    bytes_eqb (pid_bytes a) self = false ->
    (must_verify p = true -> must_sign p = true) ->
    accept p anon self false (sign_message a key m) = Accepted.
  Proof.
    intros Hf Hk Hs Hp.
    assert (V : verify_signature (sign_message a key m) = true).
    { unfold SignPolicy.verify_signature, SignPolicy.message_pubkey, sign_message. cbn [m_from m_key m_sig].
      rewrite payload_ignores_sig_key. rewrite Hf, pid_roundtrip.
      destruct (extract a) as [pk|] eqn:Ee.
      - rewrite ?Ee. subst pk. apply sign_verify.
      - rewrite key_roundtrip, Hk. apply sign_verify. }
    unfold SignPolicy.accept. rewrite V. unfold sign_message. cbn [m_sig m_from m_seqno m_key present negb andb].
    rewrite Hf, Hs. cbn [andb].
    destruct p; cbn in *; try reflexivity. specialize (Hp eq_refl). discriminate.
  Qed.
End Proofs.
