(* C01: flooding with duplicate suppression delivers a message exactly once to every node of a connected overlay. *)
From Coq Require Import List Bool Arith Lia Setoid.
Import ListNotations.
From PS Require Import Model.Router Model.Flood Proofs.RouterProofs.

Lemma memb_false_In' x l : memb x l = false <-> ~ In x l.
Proof. split; intros H. - intros Hin. apply memb_In in Hin. congruence. - destruct (memb x l) eqn:E; [|reflexivity]. apply memb_In in E. contradiction. Qed.

Lemma uniq_In x l : In x (uniq l) <-> In x l.
Proof.
  induction l as [|y l IH]; cbn; [tauto|]. destruct (memb y l) eqn:E.
  - rewrite IH. split; [tauto|]. intros [->|H]; [apply memb_In; exact E | exact H].
  - cbn. rewrite IH. tauto.
Qed.
Lemma uniq_NoDup l : NoDup (uniq l).
Proof.
  induction l as [|y l IH]; cbn; [constructor|]. destruct (memb y l) eqn:E; [exact IH|].
  constructor; [|exact IH]. rewrite uniq_In. apply memb_false_In'. exact E.
Qed.

Lemma nbrs_nodes g u v : In v (nbrs g u) -> In v (nodes g).
Proof.
  unfold nbrs, nodes. rewrite !in_flat_map. intros [e [He Hv]]. exists e. split; [exact He|].
  destruct (Nat.eqb (fst e) u); [destruct Hv as [<-|[]]; right; left; reflexivity|].
  destruct (Nat.eqb (snd e) u); [destruct Hv as [<-|[]]; left; reflexivity | destruct Hv].
Qed.

Lemma NoDup_app_intro' (a b : list nat) : NoDup a -> NoDup b -> (forall x, In x a -> In x b -> False) -> NoDup (a ++ b).
Proof.
  intros Ha Hb Hd. induction a as [|x a IH]; [exact Hb|]. cbn. inversion Ha; subst. constructor.
  - intros Hin. apply in_app_or in Hin. destruct Hin as [Hin|Hin]; [contradiction | apply (Hd x); [left; reflexivity | exact Hin]].
  - apply IH; [assumption|]. intros y Hy. apply Hd. right. exact Hy.
Qed.

Record FI (g : graph) (src : nat) (seen frontier : list nat) : Prop := {
  fi_nodup : NoDup seen;
  fi_src : In src seen;
  fi_sound : forall v, In v seen -> reach g src v;
  fi_front : incl frontier seen;
  fi_closed : forall u, In u seen -> ~ In u frontier -> forall v, In v (nbrs g u) -> In v seen;
  fi_nodes : incl seen (src :: nodes g)
}.

Definition closed (g : graph) (l : list nat) : Prop := forall u, In u l -> forall v, In v (nbrs g u) -> In v l.

Lemma closed_reach g src l : closed g l -> In src l -> forall v, reach g src v -> In v l.
Proof. intros Hc Hs v Hr. induction Hr as [|u v Hr IH Hv]; [exact Hs | eapply Hc; eassumption]. Qed.

Lemma flood_spec fuel : forall g src seen frontier,
  FI g src seen frontier -> S (length (nodes g)) < fuel + length seen ->
  let r := flood fuel g seen frontier in
  NoDup r /\ closed g r /\ In src r /\ forall v, In v r -> reach g src v.
Proof.
  induction fuel as [|fuel IH]; intros g src seen frontier HF Hfuel.
  - exfalso. destruct HF. assert (length seen <= length (src :: nodes g)) by (apply NoDup_incl_length; assumption). cbn in *. lia.
  - cbn [flood]. set (next := uniq (filter (fun v => negb (memb v seen)) (flat_map (nbrs g) frontier))).
    assert (Hnext : forall v, In v next <-> (~ In v seen /\ exists u, In u frontier /\ In v (nbrs g u))).
    { intros v. unfold next. rewrite uniq_In, filter_In, in_flat_map, negb_true_iff, memb_false_In'. tauto. }
    assert (Hnd : NoDup next) by (unfold next; apply uniq_NoDup).
    destruct next as [|n0 next'] eqn:En.
    + (* nothing new: seen is closed *)
      destruct HF. cbn zeta. split; [assumption|]. split; [|split; assumption].
      intros u Hu v Hv. destruct (in_dec Nat.eq_dec u frontier) as [Hf|Hf]; [|eapply fi_closed0; eassumption].
      destruct (in_dec Nat.eq_dec v seen) as [Hs|Hs]; [exact Hs|].
      exfalso. assert (In v []) by (apply Hnext; split; [exact Hs | exists u; auto]). contradiction.
    + clear En. set (nx := n0 :: next') in *.
      assert (Hne : 1 <= length nx) by (unfold nx; cbn; lia).
      apply IH.
      * destruct HF. constructor.
        -- apply NoDup_app_intro'; [assumption | exact Hnd|]. intros v Hv Hn. apply Hnext in Hn. tauto.
        -- apply in_or_app. left. assumption.
        -- intros v Hv. apply in_app_or in Hv. destruct Hv as [Hv|Hv]; [apply fi_sound0; exact Hv|].
           apply Hnext in Hv. destruct Hv as [_ [u [Hu Hv]]]. eapply reach_step; [apply fi_sound0; apply fi_front0; exact Hu | exact Hv].
        -- intros v Hv. apply in_or_app. right. exact Hv.
        -- intros u Hu Hnf v Hv. apply in_app_or in Hu. destruct Hu as [Hu|Hu]; [|contradiction].
           destruct (in_dec Nat.eq_dec u frontier) as [Hf|Hf].
           ++ destruct (in_dec Nat.eq_dec v seen) as [Hs|Hs]; [apply in_or_app; left; exact Hs|].
              apply in_or_app. right. apply Hnext. split; [exact Hs | exists u; auto].
           ++ apply in_or_app. left. eapply fi_closed0; eassumption.
        -- intros v Hv. apply in_app_or in Hv. destruct Hv as [Hv|Hv]; [apply fi_nodes0; exact Hv|].
           apply Hnext in Hv. destruct Hv as [_ [u [_ Hv]]]. right. eapply nbrs_nodes. exact Hv.
      * rewrite app_length. lia.
Qed.

(* the initial state *)
Lemma FI_init g src : FI g src [src] [src].
Proof.
  constructor.
  - constructor; [intros []|constructor].
  - left. reflexivity.
  - intros v [<-|[]]. constructor.
  - apply incl_refl.
  - intros u [<-|[]] Hn. exfalso. apply Hn. left. reflexivity.
  - intros v [<-|[]]. left. reflexivity.
Qed.

(* C01: exactly the nodes reachable from the publisher along overlay edges deliver the message, each exactly once *)
Theorem flood_exactly_once g src :
  NoDup (delivered g src) /\ forall v, In v (delivered g src) <-> reach g src v.
Proof.
  unfold delivered.
  destruct (flood_spec (S (length (nodes g))) g src [src] [src] (FI_init g src)) as (Hnd & Hcl & Hs & Hsound); [cbn; lia|].
  split; [exact Hnd|]. intros v. split; [apply Hsound | apply closed_reach; assumption].
Qed.

(* in a connected overlay: every member delivers, exactly once *)
Definition connected_from (g : graph) (src : nat) (members : list nat) : Prop := forall v, In v members -> reach g src v.
Theorem connected_overlay_exactly_once g src members :
  connected_from g src members ->
  forall v, In v members -> count_occ Nat.eq_dec (delivered g src) v = 1.
Proof.
  intros Hc v Hv. destruct (flood_exactly_once g src) as [Hnd Hiff].
  assert (Hin : In v (delivered g src)) by (apply Hiff; apply Hc; exact Hv).
  apply NoDup_count_occ' with (decA := Nat.eq_dec) in Hin; [exact Hin | exact Hnd].
Qed.

(* within the degree bound the routers' random selection is exhaustive: picking up to n out of at most n candidates
   (n > 0) picks all of them - gossipsub's mesh / fanout selection with degree <= D, randomsub's with at most
   RandomSubD eligible peers - so eager push runs along every overlay edge *)
Lemma subset_len_all (a b : list nat) : NoDup a -> incl a b -> length b <= length a -> incl b a.
Proof. intros Hnd Hin Hlen. apply NoDup_length_incl; assumption. Qed.
Theorem pick_all chosen cands n :
  pick_ok chosen cands n = true -> (n = 0 \/ length cands <= n) -> forall p, In p cands -> In p chosen.
Proof.
  unfold pick_ok. intros H Hb p Hp. apply andb_true_iff in H. destruct H as [H Hlen]. apply andb_true_iff in H. destruct H as [Hnd Hsub].
  apply Nat.eqb_eq in Hlen.
  assert (Hl : length chosen = length cands).
  { rewrite Hlen. unfold take_count. destruct n as [|n]; [reflexivity|]. destruct Hb as [Hb|Hb]; [discriminate|]. apply Nat.min_r. exact Hb. }
  assert (NoDup chosen).
  { clear -Hnd. induction chosen as [|x l IH]; [constructor|]. cbn in Hnd. apply andb_true_iff in Hnd. destruct Hnd as [H1 H2].
    constructor; [|apply IH; exact H2]. apply negb_true_iff in H1. apply memb_false_In'. exact H1. }
  assert (Hinc : incl cands chosen).
  { apply subset_len_all; [assumption | intros x Hx; eapply subset_In; eassumption | apply Nat.eq_le_incl; symmetry; exact Hl]. }
  apply Hinc. exact Hp.
Qed.
