(* C05: interest announcements converge to the true subscription state. *)
From Coq Require Import List Bool Arith Lia.
Import ListNotations.
From PS Require Import Model.Router Model.Announce Proofs.RouterProofs Proofs.TraceProofs.

Lemma aget_Some_In' {V} k (v : V) l : aget k l = Some v -> In (k, v) l.
Proof.
  induction l as [|[j w] l IH]; cbn; [discriminate|].
  destruct (Nat.eqb_spec k j) as [->|Hne]; intros H; [inversion H; left; reflexivity | right; apply IH; exact H].
Qed.
Lemma memb_false_In' x l : memb x l = false -> ~ In x l.
Proof. intros H Hin. apply memb_In in Hin. congruence. Qed.

Lemma cnt_pos_In u l : 0 < cnt u l -> In u (map fst l).
Proof.
  unfold cnt. destruct (aget u l) as [n|] eqn:Ea; [|lia]. intros _.
  apply in_map_iff. exists (u, n). split; [reflexivity | apply aget_Some_In'; exact Ea].
Qed.

Definition AInv (s : astate) : Prop :=
  forall q t, In q (a_conn s) -> told s q t = interested s t \/ In (q, t, interested s t) (a_pending s).

Lemma cnt_aset_same t n l : cnt t (aset t n l) = n.
Proof. unfold cnt. rewrite aget_aset_same. reflexivity. Qed.
Lemma cnt_aset_other t u n l : t <> u -> cnt t (aset u n l) = cnt t l.
Proof. intros H. unfold cnt. rewrite aget_aset_other by exact H. reflexivity. Qed.

Lemma told_set_view s q t b q' t' :
  told (set_view s q t b) q' t' = if Nat.eqb q' q && Nat.eqb t' t then b else told s q' t'.
Proof.
  unfold told, view_of, set_view, aget_l. cbn [a_view].
  destruct (Nat.eqb_spec q' q) as [->|Hq]; cbn [andb].
  - rewrite aget_aset_same. destruct b.
    + rewrite memb_sadd'. destruct (Nat.eqb_spec t' t); reflexivity.
    + rewrite memb_srem'. rewrite (Nat.eqb_sym t t'). destruct (Nat.eqb_spec t' t); reflexivity.
  - rewrite aget_aset_other by exact Hq. reflexivity.
Qed.

Lemma interested_set_view s q t b u : interested (set_view s q t b) u = interested s u.
Proof. reflexivity. Qed.
Lemma interested_add_pending s q t b u : interested (add_pending s q t b) u = interested s u.
Proof. reflexivity. Qed.

(* what announcing does *)
Lemma announce_spec t b full : forall conn s,
  let s' := fold_left (fun st q => if memb q full then add_pending st q t b else set_view st q t b) conn s in
  a_subs s' = a_subs s /\ a_relays s' = a_relays s /\ a_conn s' = a_conn s
  /\ incl (a_pending s) (a_pending s')
  /\ (forall q u, u <> t -> told s' q u = told s q u)
  /\ (forall q, ~ In q conn -> told s' q t = told s q t)
  /\ (forall q, In q conn -> told s' q t = b \/ In (q, t, b) (a_pending s'))
  /\ (forall q, told s' q t = b \/ told s' q t = told s q t).
Proof.
  induction conn as [|q0 conn IH]; intros s; cbn [fold_left].
  - repeat split; try reflexivity; try (intros; auto); try apply incl_refl. contradiction.
  - set (s1 := if memb q0 full then add_pending s q0 t b else set_view s q0 t b).
    destruct (IH s1) as (E1 & E2 & E3 & I1 & T1 & T2 & T3 & T4). cbn zeta in *.
    assert (S1 : a_subs s1 = a_subs s /\ a_relays s1 = a_relays s /\ a_conn s1 = a_conn s /\ incl (a_pending s) (a_pending s1))
      by (unfold s1; destruct (memb q0 full); cbn; repeat split; try apply incl_refl; apply incl_appl, incl_refl).
    destruct S1 as (F1 & F2 & F3 & F4).
    assert (V1 : forall q u, u <> t -> told s1 q u = told s q u).
    { intros q u Hu. unfold s1. destruct (memb q0 full); [reflexivity|]. rewrite told_set_view.
      destruct (Nat.eqb_spec u t); [contradiction|]. rewrite andb_false_r. reflexivity. }
    assert (V2 : forall q, q <> q0 -> told s1 q t = told s q t).
    { intros q Hq. unfold s1. destruct (memb q0 full); [reflexivity|]. rewrite told_set_view.
      destruct (Nat.eqb_spec q q0); [contradiction | reflexivity]. }
    assert (V3 : told s1 q0 t = b \/ In (q0, t, b) (a_pending s1)).
    { unfold s1. destruct (memb q0 full).
      - right. cbn. apply in_or_app. right. left. reflexivity.
      - left. rewrite told_set_view, !Nat.eqb_refl. reflexivity. }
    assert (V4 : forall q, told s1 q t = b \/ told s1 q t = told s q t).
    { intros q. unfold s1. destruct (memb q0 full); [right; reflexivity|]. rewrite told_set_view.
      destruct (Nat.eqb q q0 && Nat.eqb t t); auto. }
    split; [congruence|]. split; [congruence|]. split; [congruence|].
    split; [eapply incl_tran; eassumption|].
    split; [intros q u Hu; rewrite T1 by exact Hu; apply V1; exact Hu|].
    split.
    { intros q Hq. rewrite T2 by (intros H; apply Hq; right; exact H). apply V2. intros ->. apply Hq. left. reflexivity. }
    split.
    { intros q [<-|Hq]; [|apply T3; exact Hq].
      destruct (T4 q0) as [H|H]; [left; exact H|]. destruct V3 as [V3|V3]; [left; congruence | right; apply I1; exact V3]. }
    intros q. destruct (T4 q) as [H|H]; [left; exact H|]. destruct (V4 q) as [H'|H']; [left; congruence | right; congruence].
Qed.

Lemma AInv_flip s s1 t full :
  AInv s -> a_conn s1 = a_conn s -> a_view s1 = a_view s -> a_pending s1 = a_pending s ->
  (forall u, u <> t -> interested s1 u = interested s u) ->
  AInv (announce s1 t (interested s1 t) full).
Proof.
  intros HI Ec Ev Ep Hoth. unfold announce.
  destruct (announce_spec t (interested s1 t) full (a_conn s1) s1) as (E1 & E2 & E3 & I1 & T1 & T2 & T3 & T4). cbn zeta in *.
  match type of E1 with a_subs ?x = _ => set (s' := x) in * end.
  assert (Hint : forall u, interested s' u = interested s1 u) by (intros u; unfold interested; rewrite E1, E2; reflexivity).
  intros q u Hq. rewrite E3 in Hq. rewrite Hint.
  destruct (Nat.eq_dec u t) as [->|Hu].
  - apply T3. exact Hq.
  - rewrite T1 by exact Hu. rewrite Hoth by exact Hu.
    assert (Et : told s1 q u = told s q u) by (unfold told, view_of; rewrite Ev; reflexivity). rewrite Et.
    rewrite Ec in Hq. destruct (HI q u Hq) as [H|H]; [left; exact H | right; apply I1; rewrite Ep; exact H].
Qed.

Lemma AInv_same_interest s s1 :
  AInv s -> a_conn s1 = a_conn s -> a_view s1 = a_view s -> a_pending s1 = a_pending s ->
  (forall u, interested s1 u = interested s u) -> AInv s1.
Proof.
  intros HI Ec Ev Ep Hint q u Hq. rewrite Ec in Hq. rewrite Hint, Ep.
  assert (Et : told s1 q u = told s q u) by (unfold told, view_of; rewrite Ev; reflexivity). rewrite Et. apply HI. exact Hq.
Qed.

Definition no_forget (o : aop) : bool := match o with AForget _ => false | _ => true end.

Lemma interested_counts s su re u :
  interested (set_counts s su re) u = Nat.ltb 0 (cnt u su) || Nat.ltb 0 (cnt u re).
Proof. reflexivity. Qed.

Lemma In_remove_nth {A} (l : list A) k x y :
  nth_error l k = Some y -> In x l -> x = y \/ In x (firstn k l ++ skipn (S k) l).
Proof.
  revert k. induction l as [|a l IH]; intros k Hn Hin; [destruct Hin|].
  destruct k as [|k]; cbn in *.
  - inversion Hn; subst. destruct Hin as [<-|Hin]; auto.
  - destruct Hin as [<-|Hin]; [right; left; reflexivity|]. destruct (IH k Hn Hin) as [H|H]; auto.
Qed.

Lemma dedup_t_In x l : In x (dedup_t l) <-> In x l.
Proof.
  induction l as [|y l IH]; cbn; [tauto|]. rewrite filter_In, IH, negb_true_iff, Nat.eqb_neq.
  destruct (Nat.eq_dec y x); [subst; tauto|]. split; [tauto|]. intros [H|H]; [contradiction|]. right. split; [exact H | exact n].
Qed.

Lemma AInv_step s o s' : AInv s -> no_forget o = true -> astep s o = Some s' -> AInv s'.
Proof.
  intros HI Hnf H. destruct o as [t full|t full|t full|t full|q|q|k full|q]; cbn [astep] in H; try discriminate.
  - (* Subscribe *)
    set (s1 := set_counts s (aset t (S (cnt t (a_subs s))) (a_subs s)) (a_relays s)) in *.
    assert (Hoth : forall u, u <> t -> interested s1 u = interested s u)
      by (intros u Hu; unfold s1; rewrite interested_counts; unfold interested; rewrite cnt_aset_other by exact Hu; reflexivity).
    assert (Hnow : interested s1 t = true) by (unfold s1; rewrite interested_counts, cnt_aset_same; reflexivity).
    destruct (interested s t) eqn:Ew; inversion H; subst s'.
    + apply (AInv_same_interest s); try reflexivity; [exact HI|]. intros u. destruct (Nat.eq_dec u t) as [->|Hu]; [congruence | apply Hoth; exact Hu].
    + rewrite <- Hnow. apply (AInv_flip s); try reflexivity; assumption.
  - (* Cancel *)
    destruct (cnt t (a_subs s)) as [|n] eqn:Ec; [discriminate|].
    set (s1 := set_counts s (aset t n (a_subs s)) (a_relays s)) in *.
    assert (Hoth : forall u, u <> t -> interested s1 u = interested s u)
      by (intros u Hu; unfold s1; rewrite interested_counts; unfold interested; rewrite cnt_aset_other by exact Hu; reflexivity).
    assert (Hwas : interested s t = true) by (unfold interested; rewrite Ec; reflexivity).
    destruct (interested s1 t) eqn:En; inversion H; subst s'.
    + apply (AInv_same_interest s); try reflexivity; [exact HI|]. intros u. destruct (Nat.eq_dec u t) as [->|Hu]; [congruence | apply Hoth; exact Hu].
    + rewrite <- En. apply (AInv_flip s); try reflexivity; assumption.
  - (* Relay *)
    set (s1 := set_counts s (a_subs s) (aset t (S (cnt t (a_relays s))) (a_relays s))) in *.
    assert (Hoth : forall u, u <> t -> interested s1 u = interested s u)
      by (intros u Hu; unfold s1; rewrite interested_counts; unfold interested; rewrite cnt_aset_other by exact Hu; reflexivity).
    assert (Hnow : interested s1 t = true) by (unfold s1; rewrite interested_counts, cnt_aset_same; apply orb_true_r).
    destruct (interested s t) eqn:Ew; inversion H; subst s'.
    + apply (AInv_same_interest s); try reflexivity; [exact HI|]. intros u. destruct (Nat.eq_dec u t) as [->|Hu]; [congruence | apply Hoth; exact Hu].
    + rewrite <- Hnow. apply (AInv_flip s); try reflexivity; assumption.
  - (* RelayCancel *)
    destruct (cnt t (a_relays s)) as [|n] eqn:Ec; [discriminate|].
    set (s1 := set_counts s (a_subs s) (aset t n (a_relays s))) in *.
    assert (Hoth : forall u, u <> t -> interested s1 u = interested s u)
      by (intros u Hu; unfold s1; rewrite interested_counts; unfold interested; rewrite cnt_aset_other by exact Hu; reflexivity).
    assert (Hwas : interested s t = true) by (unfold interested; rewrite Ec; apply orb_true_r).
    destruct (interested s1 t) eqn:En; inversion H; subst s'.
    + apply (AInv_same_interest s); try reflexivity; [exact HI|]. intros u. destruct (Nat.eq_dec u t) as [->|Hu]; [congruence | apply Hoth; exact Hu].
    + rewrite <- En. apply (AInv_flip s); try reflexivity; assumption.
  - (* Connect: hello *)
    destruct (memb q (a_conn s)) eqn:Em; [discriminate|]. inversion H; subst s'. clear H.
    intros q' u Hq'. cbn [a_conn] in Hq'. apply in_app_or in Hq'.
    change (interested {| a_subs := a_subs s; a_relays := a_relays s; a_conn := a_conn s ++ [q]; a_view := _; a_pending := _ |} u) with (interested s u).
    destruct (Nat.eq_dec q' q) as [->|Hne].
    + left. unfold told, view_of, aget_l. cbn [a_view]. rewrite aget_aset_same.
      destruct (interested s u) eqn:Ei.
      * apply memb_In. apply dedup_t_In. unfold all_topics. apply filter_In. split; [|exact Ei].
        unfold interested in Ei. apply orb_true_iff in Ei. apply in_or_app.
        destruct Ei as [Ei|Ei]; [left|right]; apply Nat.ltb_lt in Ei; apply cnt_pos_In; exact Ei.
      * destruct (memb u (dedup_t (all_topics s))) eqn:Emm; [|reflexivity].
        apply memb_In in Emm. apply (proj1 (dedup_t_In _ _)) in Emm. unfold all_topics in Emm. apply filter_In in Emm. destruct Emm as [_ Emm]. congruence.
    + destruct Hq' as [Hq'|[->|[]]]; [|contradiction].
      assert (Et : told {| a_subs := a_subs s; a_relays := a_relays s; a_conn := a_conn s ++ [q];
                           a_view := aset q (dedup_t (all_topics s)) (a_view s);
                           a_pending := filter (fun e => negb (Nat.eqb (fst (fst e)) q)) (a_pending s) |} q' u = told s q' u).
      { unfold told, view_of, aget_l. cbn [a_view]. rewrite aget_aset_other by exact Hne. reflexivity. }
      rewrite Et. cbn [a_pending]. destruct (HI q' u Hq') as [Hh|Hh]; [left; exact Hh|].
      right. apply filter_In. split; [exact Hh|]. cbn. apply negb_true_iff, Nat.eqb_neq. exact Hne.
  - (* Disconnect *)
    inversion H; subst s'. clear H. intros q' u Hq'. cbn [a_conn] in Hq'.
    unfold srem in Hq'. apply filter_In in Hq'. destruct Hq' as [Hq' Hne]. apply negb_true_iff, Nat.eqb_neq in Hne.
    change (interested {| a_subs := a_subs s; a_relays := a_relays s; a_conn := _; a_view := _; a_pending := a_pending s |} u) with (interested s u).
    assert (Et : told {| a_subs := a_subs s; a_relays := a_relays s; a_conn := srem q (a_conn s); a_view := adel q (a_view s); a_pending := a_pending s |} q' u = told s q' u).
    { unfold told, view_of, aget_l. cbn [a_view]. rewrite aget_adel_other' by congruence. reflexivity. }
    rewrite Et. cbn [a_pending]. apply HI. exact Hq'.
  - (* Retry *)
    destruct (nth_error (a_pending s) k) as [[[q t] b]|] eqn:En; [|discriminate].
    set (rest := firstn k (a_pending s) ++ skipn (S k) (a_pending s)) in *.
    set (s1 := {| a_subs := a_subs s; a_relays := a_relays s; a_conn := a_conn s; a_view := a_view s; a_pending := rest |}) in *.
    assert (H1 : forall q' u, In q' (a_conn s) -> told s q' u = interested s u \/ In (q', u, interested s u) rest \/ (q', u, interested s u) = (q, t, b)).
    { intros q' u Hq'. destruct (HI q' u Hq') as [Hh|Hh]; [left; exact Hh|].
      destruct (In_remove_nth _ _ _ _ En Hh) as [E|E]; [right; right; exact E | right; left; exact E]. }
    destruct (Bool.eqb (interested s t) b && memb q (a_conn s)) eqn:Ec; inversion H; subst s'; clear H.
    + apply andb_true_iff in Ec. destruct Ec as [Eb _]. apply eqb_prop in Eb.
      destruct full.
      * intros q' u Hq'. change (interested (add_pending s1 q t b) u) with (interested s u). cbn [a_conn add_pending s1] in Hq'.
        change (told (add_pending s1 q t b) q' u) with (told s q' u). cbn [a_pending add_pending s1].
        destruct (H1 q' u Hq') as [Hh|[Hh|Hh]]; [left; exact Hh | right; apply in_or_app; left; exact Hh|].
        right. apply in_or_app. right. left. symmetry. exact Hh.
      * intros q' u Hq'. change (interested (set_view s1 q t b) u) with (interested s u). cbn [a_conn set_view s1] in Hq'.
        rewrite told_set_view. change (told s1 q' u) with (told s q' u). cbn [a_pending set_view s1].
        destruct (Nat.eqb_spec q' q) as [->|Hq]; cbn [andb].
        -- destruct (Nat.eqb_spec u t) as [->|Hu]; [left; congruence|].
           destruct (H1 q u Hq') as [Hh|[Hh|Hh]]; [left; exact Hh | right; exact Hh | inversion Hh; contradiction].
        -- destruct (H1 q' u Hq') as [Hh|[Hh|Hh]]; [left; exact Hh | right; exact Hh | inversion Hh; contradiction].
    + (* dropped: stale, or the peer is gone *)
      intros q' u Hq'. change (interested s1 u) with (interested s u). change (told s1 q' u) with (told s q' u). cbn [a_conn s1] in Hq'. cbn [a_pending s1].
      destruct (H1 q' u Hq') as [Hh|[Hh|Hh]]; [left; exact Hh | right; exact Hh|].
      inversion Hh; subst q' u b. apply andb_false_iff in Ec. destruct Ec as [Ec|Ec].
      * rewrite eqb_reflx in Ec. discriminate.
      * apply memb_false_In' in Ec. contradiction.
Qed.

Theorem AInv_run l : forall s s', AInv s -> forallb no_forget l = true -> arun s l = Some s' -> AInv s'.
Proof.
  induction l as [|o l IH]; intros s s' HI Hnf H; cbn in H; [inversion H; subst; exact HI|].
  cbn in Hnf. apply andb_true_iff in Hnf. destruct Hnf as [H1 H2].
  destruct (astep s o) as [s1|] eqn:E; [|discriminate]. eapply IH; [eapply AInv_step; eassumption | exact H2 | exact H].
Qed.

(* C05: after ANY sequence of subscribe / cancel / relay / relay-cancel / connect / disconnect, with any pushes
   refused by full queues and retried in any order, once no retry is pending every connected peer has been told
   exactly the topics the node is interested in *)
Theorem announcements_converge l s :
  forallb no_forget l = true -> arun ainit l = Some s -> a_pending s = [] ->
  forall q t, In q (a_conn s) -> told s q t = interested s t.
Proof.
  intros Hnf Hr Hp q t Hq.
  assert (HI : AInv s) by (eapply AInv_run; [|exact Hnf | exact Hr]; intros q' t' []).
  destruct (HI q t Hq) as [H|H]; [exact H|]. rewrite Hp in H. destruct H.
Qed.

(* if a receiver forgets while the connection survives, nothing re-announces: convergence fails (known finding) *)
Theorem converge_refuted_by_forget :
  exists l s, arun ainit l = Some s /\ a_pending s = [] /\ exists q t, In q (a_conn s) /\ told s q t <> interested s t.
Proof.
  exists [AConnect 1; ASubscribe 0 []; AForget 1]. eexists. split; [vm_compute; reflexivity|]. split; [reflexivity|].
  exists 1, 0. split; [left; reflexivity | vm_compute; discriminate].
Qed.
