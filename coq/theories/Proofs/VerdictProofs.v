From Coq Require Import List Bool Arith Lia Permutation.
Import ListNotations.
From PS Require Import Model.Verdict.

Definition is_rej (t : tres) := match t with TRej => true | _ => false end.
Definition is_thr (t : tres) := match t with TThr => true | _ => false end.
Definition is_ign (t : tres) := match t with TIgn => true | _ => false end.

(* the loop over asynchronous results depends only on which kinds of result occur *)
Lemma async_loop_spec l : forall acc,
  async_loop l acc =
  if existsb is_rej l then TRej
  else if existsb is_thr l || is_thr acc then TThr
  else if existsb is_ign l || is_ign acc then TIgn
  else acc.
Proof.
  induction l as [|r l IH]; intros acc; cbn [async_loop existsb].
  - destruct acc; reflexivity.
  - destruct r; cbn [is_rej is_thr is_ign orb]; rewrite ?IH.
    + reflexivity.
    + reflexivity.
    + destruct (existsb is_rej l); [reflexivity|]. destruct acc; cbn; rewrite ?orb_true_r; try reflexivity;
        destruct (existsb is_thr l); reflexivity.
    + destruct (existsb is_rej l); [reflexivity|]. rewrite orb_true_r. reflexivity.
Qed.

Lemma existsb_perm {A} (f : A -> bool) l1 l2 : Permutation l1 l2 -> existsb f l1 = existsb f l2.
Proof.
  induction 1; cbn; auto.
  - now rewrite IHPermutation.
  - destruct (f x), (f y); reflexivity.
  - congruence.
Qed.

(* completion order of the asynchronous validators does not matter *)
Theorem async_order_irrelevant l1 l2 acc : Permutation l1 l2 -> async_loop l1 acc = async_loop l2 acc.
Proof.
  intros P. rewrite !async_loop_spec.
  now rewrite (existsb_perm is_rej _ _ P), (existsb_perm is_thr _ _ P), (existsb_perm is_ign _ _ P).
Qed.

Lemma inline_stage_spec l : forall acc n,
  fst (inline_stage l acc n) =
  if existsb (fun v => is_rej (of_v v)) l then TRej
  else if existsb (fun v => is_ign (of_v v)) l then TIgn else acc.
Proof.
  induction l as [|v l IH]; intros acc n; cbn [inline_stage existsb]; [reflexivity|].
  destruct (of_v v) eqn:E; cbn [is_rej is_ign orb fst].
  - apply IH.
  - reflexivity.
  - rewrite IH. destruct (existsb (fun v0 => is_rej (of_v v0)) l); [reflexivity|].
    destruct (existsb (fun v0 => is_ign (of_v v0)) l); reflexivity.
  - destruct v; discriminate.
Qed.

(* validators after the first inline Reject are not executed *)
Lemma inline_executed l : forall acc n,
  (snd (inline_stage l acc n) <= n + length l)%nat /\
  (existsb (fun v => is_rej (of_v v)) l = false -> snd (inline_stage l acc n) = (n + length l)%nat).
Proof.
  induction l as [|v l IH]; intros acc n; cbn [inline_stage existsb length]; [cbn [snd]; split; [lia|intros; lia]|].
  destruct (of_v v) eqn:E; cbn [is_rej orb snd].
  - destruct (IH acc (S n)) as [A B]. split; [lia|]. intros H. rewrite (B H). lia.
  - split; [lia|discriminate].
  - destruct (IH TIgn (S n)) as [A B]. split; [lia|]. intros H. rewrite (B H). lia.
  - destruct v; discriminate.
Qed.

(* ---- the fate of a message ---- *)

Definition any_inline_rej (s : setup) := existsb (fun v => is_rej (of_v v)) (inl s).
Definition any_inline_ign (s : setup) := existsb (fun v => is_ign (of_v v)) (inl s).

Lemma verdict_unfold s :
  verdict s =
  if any_inline_rej s then TRej
  else let ir := if any_inline_ign s then TIgn else TAcc in
       match asy s with
       | [] => ir
       | _ => if s_global_thr s then TThr else match async_stage s with TAcc => ir | r => r end
       end.
Proof.
  unfold verdict. destruct (inline_stage (inl s) TAcc 0) as [ir n] eqn:E.
  pose proof (inline_stage_spec (inl s) TAcc 0) as S. rewrite E in S. cbn [fst] in S.
  unfold any_inline_rej, any_inline_ign. rewrite S.
  destruct (existsb (fun v => is_rej (of_v v)) (inl s)); [reflexivity|].
  destruct (existsb (fun v => is_ign (of_v v)) (inl s)); reflexivity.
Qed.

(* an inline Reject decides, whatever else is configured *)
Theorem inline_reject_rejects s : any_inline_rej s = true -> fate_of_setup s = RejectPenalise.
Proof. intros H. unfold fate_of_setup. rewrite verdict_unfold, H. reflexivity. Qed.

(* delivered only if every validator that applies accepted: no inline Reject / Ignore / unknown value ... *)
Theorem deliver_needs_inline_accept s :
  fate_of_setup s = Deliver -> any_inline_rej s = false /\ any_inline_ign s = false.
Proof.
  unfold fate_of_setup. rewrite verdict_unfold.
  destruct (any_inline_rej s); [discriminate|]. destruct (any_inline_ign s); [|auto].
  cbn zeta. destruct (asy s); [discriminate|]. destruct (s_global_thr s); [discriminate|].
  destruct (async_stage s); discriminate.
Qed.

(* ... and the asynchronous stage, if any, ran un-throttled and produced Accept *)
Theorem deliver_needs_async_accept s :
  fate_of_setup s = Deliver -> asy s <> [] -> s_global_thr s = false /\ async_stage s = TAcc.
Proof.
  unfold fate_of_setup. rewrite verdict_unfold.
  destruct (any_inline_rej s); [discriminate|]. cbn zeta.
  destruct (asy s) eqn:Ea; [congruence|]. intros H _.
  destruct (s_global_thr s); [destruct (any_inline_ign s); discriminate|].
  destruct (async_stage s); destruct (any_inline_ign s); try discriminate; auto.
Qed.

(* several asynchronous validators: the stage accepts iff all of them ran and accepted *)
Theorem async_stage_multi_accept_iff s v1 v2 rest :
  asy s = v1 :: v2 :: rest ->
  (async_stage s = TAcc <-> forallb (fun r => match r with TAcc => true | _ => false end) (async_results s) = true).
Proof.
  intros Ea. unfold async_stage. rewrite Ea. rewrite async_loop_spec. cbn [is_thr is_ign orb].
  induction (async_results s) as [|r l IH]; cbn; [tauto|].
  destruct r; cbn [is_rej is_thr is_ign orb andb].
  - exact IH.
  - split; discriminate.
  - destruct (existsb is_rej l); [split; discriminate|]. destruct (existsb is_thr l); split; discriminate.
  - destruct (existsb is_rej l); split; discriminate.
Qed.

(* precedence among asynchronous results: Reject > Throttled > Ignore > Accept *)
Theorem async_precedence l :
  async_loop l TAcc = TRej <-> existsb is_rej l = true.
Proof.
  rewrite async_loop_spec. cbn. destruct (existsb is_rej l); [tauto|].
  destruct (existsb is_thr l); [split; discriminate|]. rewrite !orb_false_r. destruct (existsb is_ign l); split; discriminate.
Qed.
Theorem async_throttled_over_ignore l :
  existsb is_rej l = false -> existsb is_thr l = true -> async_loop l TAcc = TThr.
Proof. intros H1 H2. rewrite async_loop_spec, H1, H2. reflexivity. Qed.

(* no penalty without a Reject: Ignore, unknown values and throttling never yield RejectPenalise *)
Theorem reject_needs_a_reject s :
  fate_of_setup s = RejectPenalise ->
  any_inline_rej s = true \/
  (asy s <> [] /\ s_global_thr s = false /\ async_stage s = TRej).
Proof.
  unfold fate_of_setup. rewrite verdict_unfold.
  destruct (any_inline_rej s); [auto|]. cbn zeta. intros H. right.
  destruct (asy s) eqn:Ea.
  - destruct (any_inline_ign s); discriminate.
  - destruct (s_global_thr s); [discriminate|]. split; [discriminate|]. split; [reflexivity|].
    destruct (async_stage s); destruct (any_inline_ign s); try discriminate; reflexivity.
Qed.

(* a locally published message runs every validator inline: no throttling, and failure is visible *)
Theorem local_all_inline s : s_local s = true -> asy s = [].
Proof.
  intros H. unfold asy. rewrite H. induction (s_vals s) as [|v l IH]; [reflexivity|].
  cbn. rewrite orb_true_r. cbn. exact IH.
Qed.
Theorem local_never_throttled s : s_local s = true -> fate_of_setup s <> ThrottledNoPenalty.
Proof.
  intros H. unfold fate_of_setup. rewrite verdict_unfold, (local_all_inline s H).
  destruct (any_inline_rej s); [discriminate|]. destruct (any_inline_ign s); discriminate.
Qed.

(* ---- penalties ---- *)

Lemma drun_app r l1 l2 :
  drun r (l1 ++ l2) = let (r1, p1) := drun r l1 in let (r2, p2) := drun r1 l2 in (r2, p1 ++ p2).
Proof.
  revert r. induction l1 as [|e l1 IH]; intros r; cbn [app drun].
  - destruct (drun r l2); reflexivity.
  - destruct (dstep r e) as [r1 p1]. rewrite IH. destruct (drun r1 l1) as [r2 p2].
    destruct (drun r2 l2) as [r3 p3]. now rewrite app_assoc.
Qed.

(* while the status is unknown duplicates only accumulate, without penalty *)
Lemma dups_unknown l : forall ps,
  exists ps', drun {| d_status := DUnknown; d_peers := ps |} (map SDup l) = ({| d_status := DUnknown; d_peers := ps' |}, [])
              /\ (forall p, In p ps' <-> In p ps \/ In p l).
Proof.
  induction l as [|q l IH]; intros ps; cbn [map drun].
  - exists ps. split; [reflexivity|]. intros p; cbn; tauto.
  - cbn [dstep d_peers d_status]. destruct (memb q ps) eqn:M.
    + destruct (IH ps) as (ps' & E & H). rewrite E. exists ps'. split; [reflexivity|].
      intros p. rewrite H. cbn. split; [tauto|]. intros [?|[->|?]]; auto.
      left. unfold memb in M. apply existsb_exists in M as (x & Hx & Ex). apply Nat.eqb_eq in Ex. now subst.
    + destruct (IH (q :: ps)) as (ps' & E & H). rewrite E. exists ps'. split; [reflexivity|].
      intros p. rewrite H. cbn. tauto.
Qed.

(* after an Ignore / Throttled / Deliver outcome nobody is ever penalised for this message *)
Lemma no_penalty_after st l :
  st <> DUnknown -> st <> DInvalid -> forall ps, snd (drun {| d_status := st; d_peers := ps |} l) = [].
Proof.
  intros H1 H2. induction l as [|e l IH]; intros ps; cbn [drun]; [reflexivity|].
  destruct e as [p|from f]; cbn [dstep d_status d_peers].
  - destruct (memb p ps); [specialize (IH ps); destruct (drun _ l); exact IH|].
    destruct st; try congruence.
    + specialize (IH (p :: ps)). destruct (drun _ l). exact IH.
    + specialize (IH ps). destruct (drun _ l). exact IH.
    + specialize (IH ps). destruct (drun _ l). exact IH.
  - destruct st; try congruence; specialize (IH ps); destruct (drun _ l); exact IH.
Qed.

Theorem penalised_only_on_reject during from f after :
  f <> RejectPenalise ->
  snd (drun dinit (map SDup during ++ [SFate from f] ++ map SDup after)) = [].
Proof.
  intros Hf. rewrite drun_app. destruct (dups_unknown during []) as (ps & E & _). unfold dinit. rewrite E.
  cbn [app]. cbn [drun dstep d_status d_peers].
  destruct f; try congruence.
  - pose proof (no_penalty_after DValid (map SDup after) ltac:(discriminate) ltac:(discriminate) ps) as N.
    destruct (drun _ (map SDup after)); cbn in *. now rewrite N.
  - pose proof (no_penalty_after DIgnored (map SDup after) ltac:(discriminate) ltac:(discriminate) []) as N.
    destruct (drun _ (map SDup after)); cbn in *. now rewrite N.
  - pose proof (no_penalty_after DThrottled (map SDup after) ltac:(discriminate) ltac:(discriminate) []) as N.
    destruct (drun _ (map SDup after)); cbn in *. now rewrite N.
Qed.

Lemma dups_invalid l : drun {| d_status := DInvalid; d_peers := [] |} (map SDup l) = ({| d_status := DInvalid; d_peers := [] |}, l).
Proof.
  induction l as [|q l IH]; cbn [map drun]; [reflexivity|]. cbn [dstep d_status d_peers memb existsb].
  rewrite IH. reflexivity.
Qed.

(* on Reject every forwarder is penalised: the first one, everyone whose duplicate arrived during
   validation, and everyone who sends it afterwards *)
Theorem penalised_on_reject during from after p :
  In p (snd (drun dinit (map SDup during ++ [SFate from RejectPenalise] ++ map SDup after)))
  <-> p = from \/ In p during \/ In p after.
Proof.
  rewrite drun_app. destruct (dups_unknown during []) as (ps & E & H). unfold dinit. rewrite E.
  cbn [app]. cbn [drun dstep d_status d_peers]. rewrite dups_invalid. cbn [snd app].
  cbn [In]. rewrite in_app_iff, H. cbn [In]. split.
  - intros [<-|[[[]|?]|?]]; auto.
  - intros [->|[?|?]]; auto.
Qed.

(* a full validation queue: the message is dropped without penalty whatever the validators would have said;
   with room in the queue the verdict is the pipeline's *)
Theorem queue_full_drops s : queued s = true -> fate_q s true = ThrottledNoPenalty.
Proof. intros H. unfold fate_q, verdict_q. rewrite H. reflexivity. Qed.
Theorem queue_room_is_pipeline s : fate_q s false = fate_of_setup s.
Proof. reflexivity. Qed.
Theorem deliver_q_needs_pipeline s q : fate_q s q = Deliver -> fate_of_setup s = Deliver /\ (q = false \/ queued s = false).
Proof.
  unfold fate_q, verdict_q, fate_of_setup. destruct q; cbn [andb].
  - destruct (queued s); [discriminate|]. intros H. split; [exact H | right; reflexivity].
  - intros H. split; [exact H | left; reflexivity].
Qed.
