From Coq Require Import List Bool Arith PeanoNat Lia.
Import ListNotations.
From PS Require Import Model.EventLog.

Ltac prj := cbn [hd h_log members returned pulling waiting h_token h_active] in *.

(* ---------- basic lemmas about the list-backed sets and the log ---------- *)

Lemma memb_cons p q l : memb p (q :: l) = Nat.eqb p q || memb p l.
Proof. reflexivity. Qed.

Lemma memb_srem p q l : memb p (srem q l) = negb (Nat.eqb q p) && memb p l.
Proof.
  induction l as [|x l IH]; cbn [srem filter memb existsb].
  - now rewrite andb_false_r.
  - destruct (Nat.eqb_spec q x) as [->|Hqx]; cbn [negb].
    + fold (srem x l). fold (memb p (srem x l)). rewrite IH.
      destruct (Nat.eqb_spec x p) as [->|Hxp]; cbn.
      * reflexivity.
      * destruct (Nat.eqb_spec p x); [congruence|reflexivity].
    + cbn [existsb]. fold (srem q l). fold (memb p (srem q l)). rewrite IH.
      destruct (Nat.eqb_spec q p) as [->|Hqp]; cbn.
      * destruct (Nat.eqb_spec p x); [congruence|reflexivity].
      * reflexivity.
Qed.

Lemma memb_sadd p q l : memb p (sadd q l) = Nat.eqb p q || memb p l.
Proof.
  unfold sadd. destruct (memb q l) eqn:E.
  - destruct (Nat.eqb_spec p q) as [->|]; [now rewrite E|reflexivity].
  - reflexivity.
Qed.

Lemma lk_rm p q l : lk p (rm q l) = if Nat.eqb p q then None else lk p l.
Proof.
  induction l as [|[x t] l IH]; cbn [rm filter lk fst].
  - now destruct (Nat.eqb p q).
  - destruct (Nat.eqb_spec q x) as [->|Hqx]; cbn [negb].
    + fold (rm x l). rewrite IH. destruct (Nat.eqb_spec p x); reflexivity.
    + prj; cbn [lk]. fold (rm q l). rewrite IH.
      destruct (Nat.eqb_spec p q) as [->|Hpq].
      * destruct (Nat.eqb_spec q x); [congruence|reflexivity].
      * reflexivity.
Qed.

Lemma lk_none_nil l : (forall p, lk p l = None) -> l = [].
Proof.
  destruct l as [|[q t] l]; [reflexivity|].
  intros H. specialize (H q). cbn in H. now rewrite Nat.eqb_refl in H.
Qed.

Lemma lk_seed p m : lk p (map (fun q => (q, Join)) m) = if memb p m then Some Join else None.
Proof.
  induction m as [|x m IH]; cbn [map lk memb existsb]; [reflexivity|].
  fold (memb p m). destruct (Nat.eqb p x); cbn; [reflexivity|exact IH].
Qed.

(* ---------- the "view": what replaying the returned events says about p ---------- *)

Fixpoint view (p : peer) (r : list event) : bool :=   (* r newest first *)
  match r with
  | [] => false
  | (q, t) :: r' => if Nat.eqb p q then ety_eqb t Join else view p r'
  end.

Fixpoint alt (p : peer) (r : list event) : bool :=    (* r newest first *)
  match r with
  | [] => true
  | (q, t) :: r' =>
      if Nat.eqb p q
      then (match t with Join => negb (view p r') | Leave => view p r' end) && alt p r'
      else alt p r'
  end.

Lemma memb_apply_event p m e :
  memb p (apply_event m e) =
  if Nat.eqb p (fst e) then ety_eqb (snd e) Join else memb p m.
Proof.
  destruct e as [q t]; unfold apply_event; cbn [fst snd]. destruct t.
  - rewrite memb_sadd. destruct (Nat.eqb p q); reflexivity.
  - rewrite memb_srem. rewrite (Nat.eqb_sym q p). destruct (Nat.eqb p q); reflexivity.
Qed.

Lemma memb_fold_apply p chron m :
  memb p (fold_left apply_event chron m) =
  (fix go (l : list event) (acc : bool) :=
     match l with [] => acc
     | e :: l' => go l' (if Nat.eqb p (fst e) then ety_eqb (snd e) Join else acc) end)
    chron (memb p m).
Proof.
  revert m. induction chron as [|e l IH]; intros m; cbn [fold_left]; [reflexivity|].
  rewrite IH, memb_apply_event. reflexivity.
Qed.

Lemma replay_view p r : memb p (replay (rev r)) = view p r.
Proof.
  unfold replay.
  assert (G : forall l m, memb p (fold_left apply_event (rev l) m) =
                          if existsb (fun e => Nat.eqb p (fst e)) l then view p l else memb p m).
  { induction l as [|[q t] l IH]; intros m; [reflexivity|].
    cbn [rev]. rewrite fold_left_app. cbn [fold_left].
    rewrite memb_apply_event. cbn [fst snd existsb view].
    destruct (Nat.eqb p q); cbn [orb]; [reflexivity|].
    apply IH. }
  rewrite G. destruct (existsb (fun e => Nat.eqb p (fst e)) r) eqn:E; [reflexivity|].
  cbn [memb existsb]. clear G. induction r as [|[q t] l IH]; [reflexivity|].
  cbn [existsb fst view] in *.
  destruct (Nat.eqb p q); cbn [orb] in E; [discriminate|]. exact (IH E).
Qed.

(* alternation on the chronological sequence, from the step-wise formulation *)
Definition expect_after (l : list ety) : ety :=     (* chronological types of one peer *)
  match rev l with [] => Join | t :: _ => flip t end.

Lemma altseq_snoc e l t :
  altseq e (l ++ [t]) = altseq e l && ety_eqb t (if Nat.even (length l) then e else flip e).
Proof.
  revert e. induction l as [|x l IH]; intros e; cbn [app altseq length].
  - cbn. now rewrite andb_true_r.
  - rewrite IH, Nat.even_succ, <- Nat.negb_even, <- andb_assoc.
    destruct (Nat.even (length l)); cbn [negb]; destruct e; reflexivity.
Qed.

Lemma types_of_snoc p l e :
  types_of p (l ++ [e]) = types_of p l ++ (if Nat.eqb p (fst e) then [snd e] else []).
Proof.
  unfold types_of. rewrite filter_app, map_app. cbn [filter]. cbn beta.
  destruct (Nat.eqb _ _); reflexivity.
Qed.

Lemma alt_view_parity p r :
  alt p r = true -> view p r = Nat.odd (length (types_of p (rev r))).
Proof.
  induction r as [|[q t] r IH]; intros H; [reflexivity|].
  prj; cbn [alt view] in *. cbn [rev]. rewrite types_of_snoc. cbn [fst snd].
  destruct (Nat.eqb p q).
  - apply andb_prop in H as [H1 H2]. specialize (IH H2).
    rewrite app_length. cbn [length]. rewrite Nat.add_1_r, Nat.odd_succ, <- Nat.negb_odd, <- IH.
    destruct t; cbn [ety_eqb].
    + now rewrite H1.
    + now rewrite H1.
  - rewrite app_nil_r. auto.
Qed.

Lemma alt_chrono p r : alt p r = true -> altseq Join (types_of p (rev r)) = true.
Proof.
  induction r as [|[q t] r IH]; intros H; [reflexivity|].
  prj; cbn [alt] in H. cbn [rev]. rewrite types_of_snoc. cbn [fst snd].
  destruct (Nat.eqb p q).
  - apply andb_prop in H as [H1 H2]. rewrite altseq_snoc, (IH H2). cbn [andb].
    pose proof (alt_view_parity p r H2) as V. rewrite <- Nat.negb_odd, <- V.
    destruct t; cbn [flip].
    + apply negb_true_iff in H1. now rewrite H1.
    + now rewrite H1.
  - rewrite app_nil_r. auto.
Qed.

(* ---------- the invariant ---------- *)

Definition pend_ok (p : peer) (s : st) : Prop :=
  match lk p (log_of s) with
  | Some Join => view p (returned s) = false
  | Some Leave => view p (returned s) = true
  | None => True
  end.

Definition mem_ok (p : peer) (s : st) : Prop :=
  match lk p (log_of s) with
  | None => view p (returned s) = memb p (members s)
  | Some Join => memb p (members s) = true
  | Some Leave => memb p (members s) = false
  end.

Definition tok_ok (s : st) : Prop :=
  log_of s <> [] -> token_of s = true \/ pulling s <> [] \/ waiting s = [].

Record Inv (s : st) : Prop := {
  inv_pre   : hd s = None -> pulling s = [] /\ waiting s = [] /\ returned s = [];
  inv_pend  : forall p, pend_ok p s;
  inv_mem   : active s = true -> forall p, mem_ok p s;
  inv_alt   : forall p, alt p (returned s) = true;
  inv_tok   : tok_ok s
}.

Lemma Inv_init : Inv init.
Proof.
  split; cbn; try easy.
Qed.

Lemma cons_neq_nil {A} (x : A) l : x :: l <> [].
Proof. discriminate. Qed.

(* notification preserves the invariant pieces, given the ground truth changed accordingly *)
Lemma notify_inv s s0 e :
  Inv s0 ->
  hd s = hd s0 -> pulling s = pulling s0 -> waiting s = waiting s0 -> returned s = returned s0 ->
  (forall p, p <> fst e -> memb p (members s) = memb p (members s0)) ->
  memb (fst e) (members s0) = ety_eqb (snd e) Leave ->
  memb (fst e) (members s) = ety_eqb (snd e) Join ->
  Inv (notify s e).
Proof.
  intros I Hh Hp Hw Hr Hoth Hold Hnew.
  destruct e as [q t]. cbn [fst snd] in *.
  unfold notify. rewrite Hh.
  destruct (hd s0) as [h|] eqn:Ehd.
  2:{ (* no handler *)
    split.
    - intros _. rewrite Hp, Hw, Hr. apply (inv_pre _ I). exact Ehd.
    - intros p. unfold pend_ok, log_of. rewrite Hh. exact Logic.I.
    - unfold active. rewrite Hh. discriminate.
    - intros p. rewrite Hr. apply (inv_alt _ I).
    - unfold tok_ok, log_of. rewrite Hh. congruence. }
  destruct (h_active h) eqn:Eact.
  2:{ (* cancelled handler: nothing logged *)
    split.
    - rewrite Hh. discriminate.
    - intros p. pose proof (inv_pend _ I p) as P. unfold pend_ok, log_of in *.
      rewrite Hh, Hr. rewrite Ehd in P. exact P.
    - unfold active. rewrite Hh, Eact. discriminate.
    - intros p. rewrite Hr. apply (inv_alt _ I).
    - pose proof (inv_tok _ I) as T. unfold tok_ok, log_of, token_of in *.
      rewrite Hh, Hp, Hw. rewrite Ehd in T. exact T. }
  assert (Act0 : active s0 = true) by (unfold active; now rewrite Ehd).
  pose proof (inv_mem _ I Act0) as M0.
  pose proof (inv_pend _ I) as P0.
  pose proof (inv_tok _ I) as T0.
  unfold mem_ok, pend_ok, log_of in M0, P0. rewrite Ehd in M0, P0.
  unfold add_to_log. cbn [fst snd].
  destruct (lk q (h_log h)) as [t0|] eqn:Elk.
  - (* an entry is pending for q *)
    destruct (ety_eqb t0 t) eqn:Ett.
    + (* same type: impossible by the invariant, but harmless *)
      exfalso. specialize (M0 q). rewrite Elk in M0.
      destruct t0, t; cbn in *; try discriminate; congruence.
    + (* opposite: coalesce *)
      split; prj.
      * discriminate.
      * intros p. unfold pend_ok, log_of. prj. rewrite lk_rm.
        destruct (Nat.eqb_spec p q); [exact Logic.I|]. rewrite Hr. apply P0.
      * intros _ p. unfold mem_ok, log_of. prj. rewrite lk_rm, Hr.
        destruct (Nat.eqb_spec p q) as [->|Hpq].
        -- specialize (M0 q). specialize (P0 q). rewrite Elk in M0, P0. rewrite Hnew.
           destruct t0, t; cbn in *; try discriminate; congruence.
        -- rewrite (Hoth p Hpq). apply M0.
      * intros p. rewrite Hr. apply (inv_alt _ I).
      * unfold tok_ok, log_of, token_of in *. prj. rewrite Hp, Hw.
        rewrite Ehd in T0. intros Hne. apply T0. intros E. rewrite E in Hne. now cbn in Hne.
  - (* fresh entry *)
    split; prj.
    * discriminate.
    * intros p. unfold pend_ok, log_of. prj; cbn [lk].
      destruct (Nat.eqb_spec p q) as [->|Hpq].
      -- specialize (M0 q). rewrite Elk in M0. rewrite Hr, M0, Hold. destruct t; reflexivity.
      -- rewrite Hr. apply P0.
    * intros _ p. unfold mem_ok, log_of. prj; cbn [lk].
      destruct (Nat.eqb_spec p q) as [->|Hpq].
      -- rewrite Hnew. destruct t; reflexivity.
      -- rewrite Hr, (Hoth p Hpq). apply M0.
    * intros p. rewrite Hr. apply (inv_alt _ I).
    * unfold tok_ok, token_of. prj. intros _. now left.
Qed.

Ltac nrm := unfold pend_ok, mem_ok, tok_ok, log_of, token_of, active in *; prj;
  repeat match goal with E : hd _ = _ |- _ => progress (rewrite E in * ) end.

Lemma step_inv s a s' : Inv s -> step s a = Some s' -> Inv s'.
Proof.
  intros I H. destruct a as [p|p| | |i|i r|i|i]; cbn [step] in H.
  - (* ASub *)
    destruct (memb p (members s)) eqn:Em; inversion H; subst; [exact I|].
    apply (notify_inv _ s); cbn [set_members hd pulling waiting returned members fst snd ety_eqb]; auto.
    + intros q Hq. rewrite memb_cons. destruct (Nat.eqb_spec q p); [contradiction|reflexivity].
    + rewrite memb_cons. now rewrite Nat.eqb_refl.
  - (* AUnsub *)
    destruct (memb p (members s)) eqn:Em; inversion H; subst; [|exact I].
    apply (notify_inv _ s); cbn [set_members hd pulling waiting returned members fst snd ety_eqb]; auto.
    + intros q Hq. rewrite memb_srem. destruct (Nat.eqb_spec p q); [congruence|reflexivity].
    + rewrite memb_srem, Nat.eqb_refl. reflexivity.
  - (* ACreate *)
    destruct (hd s) eqn:Ehd; [discriminate|]. inversion H; subst; clear H.
    destruct (inv_pre _ I Ehd) as (Hp & Hw & Hr).
    split; prj.
    + discriminate.
    + intros p. unfold pend_ok, log_of. prj. rewrite lk_seed, Hr.
      destruct (memb p (members s)); reflexivity.
    + intros _ p. unfold mem_ok, log_of. prj. rewrite lk_seed, Hr.
      destruct (memb p (members s)) eqn:E; reflexivity.
    + intros p. rewrite Hr. reflexivity.
    + unfold tok_ok. cbn. intros _. right; right. exact Hw.
  - (* ACancelH *)
    destruct (hd s) as [h|] eqn:Ehd; [|discriminate]. inversion H; subst; clear H.
    pose proof (inv_pend _ I) as P. pose proof (inv_tok _ I) as T.
    split; nrm; try discriminate; auto. apply (inv_alt _ I).
  - (* ACall *)
    destruct (hd s) as [h|] eqn:Ehd; [|discriminate].
    destruct (memb i (pulling s) || memb i (waiting s)); [discriminate|].
    inversion H; subst; clear H.
    pose proof (inv_pend _ I) as P. pose proof (inv_mem _ I) as M.
    split; nrm; try discriminate; auto.
    + apply (inv_alt _ I).
    + intros _. right; left. apply cons_neq_nil.
  - (* APull *)
    destruct (hd s) as [h|] eqn:Ehd; [|discriminate].
    destruct (memb i (pulling s)) eqn:Ei; [|discriminate].
    pose proof (inv_pend _ I) as P. pose proof (inv_mem _ I) as M. pose proof (inv_tok _ I) as T.
    destruct r as [[q t]|].
    + cbn [fst snd] in H. destruct (lk q (h_log h)) as [t0|] eqn:Elk; [|discriminate].
      destruct (ety_eqb t0 t) eqn:Ett; [|discriminate].
      assert (t0 = t) by (destruct t0, t; cbn in Ett; congruence). subst t0.
      inversion H; subst; clear H.
      split; nrm; try discriminate.
      * intros p. cbn [view]. rewrite lk_rm.
        destruct (Nat.eqb_spec p q); [exact Logic.I|]. apply P.
      * intros A p. specialize (M A). cbn [view]. rewrite lk_rm.
        destruct (Nat.eqb_spec p q) as [->|Hpq].
        -- specialize (M q). rewrite Elk in M. destruct t; cbn; congruence.
        -- apply M.
      * intros p. cbn [alt]. destruct (Nat.eqb_spec p q) as [->|]; [|apply (inv_alt _ I)].
        rewrite (inv_alt _ I). specialize (P q). rewrite Elk in P. destruct t; rewrite P; reflexivity.
      * destruct (rm q (h_log h)); [congruence|]. intros _. now left.
    + destruct (h_log h) eqn:El; [|discriminate]. inversion H; subst; clear H.
      split; nrm; try discriminate; auto; try apply (inv_alt _ I); try (rewrite El; congruence).
  - (* AWake *)
    destruct (hd s) as [h|] eqn:Ehd; [|discriminate].
    destruct (memb i (waiting s) && h_token h); [|discriminate]. inversion H; subst; clear H.
    pose proof (inv_pend _ I) as P. pose proof (inv_mem _ I) as M.
    split; nrm; try discriminate; auto.
    + apply (inv_alt _ I).
    + intros _. right; left. apply cons_neq_nil.
  - (* ACancelT *)
    destruct (memb i (waiting s)) eqn:Ei; [|discriminate]. inversion H; subst; clear H.
    pose proof (inv_pend _ I) as P. pose proof (inv_mem _ I) as M. pose proof (inv_tok _ I) as T.
    pose proof (inv_pre _ I) as Pre.
    split; nrm; auto.
    + intros E. destruct (Pre E) as (? & W & ?). rewrite W. auto.
    + apply (inv_alt _ I).
    + intros Hne. destruct (T Hne) as [?|[?|W]]; auto. right; right. rewrite W. reflexivity.
Qed.

Lemma run_inv l : forall s s', Inv s -> run s l = Some s' -> Inv s'.
Proof.
  induction l as [|a l IH]; intros s s' I H; cbn [run] in H.
  - now inversion H; subst.
  - destruct (step s a) as [s1|] eqn:E; [|discriminate]. eapply IH; [|exact H].
    eapply step_inv; eassumption.
Qed.

(* ---------- the three results the property file exports ---------- *)

Theorem replay_membership l s :
  run init l = Some s -> active s = true -> log_of s = [] ->
  forall p, memb p (replay (rev (returned s))) = memb p (members s).
Proof.
  intros R A L p. pose proof (run_inv _ _ _ Inv_init R) as I.
  rewrite replay_view. pose proof (inv_mem _ I A p) as M. unfold mem_ok in M.
  rewrite L in M. exact M.
Qed.

(* stronger: at any time, drained or not, the replay differs from the truth exactly on the pending peers *)
Theorem replay_membership_pending l s :
  run init l = Some s -> active s = true ->
  forall p, memb p (replay (rev (returned s))) =
            match lk p (log_of s) with
            | None => memb p (members s)
            | Some Join => false
            | Some Leave => true
            end.
Proof.
  intros R A p. pose proof (run_inv _ _ _ Inv_init R) as I.
  rewrite replay_view. pose proof (inv_mem _ I A p) as M. pose proof (inv_pend _ I p) as P.
  unfold mem_ok, pend_ok in *. destruct (lk p (log_of s)) as [[]|]; assumption.
Qed.

Theorem alternation l s :
  run init l = Some s -> forall p, altseq Join (types_of p (rev (returned s))) = true.
Proof.
  intros R p. apply alt_chrono. apply (inv_alt _ (run_inv _ _ _ Inv_init R)).
Qed.

(* no lost wake-up: if events are pending, and every call has either returned or is parked in the
   select (nobody is between the token and the lock), then a parked call implies the token is there *)
Theorem no_lost_token l s :
  run init l = Some s -> log_of s <> [] -> pulling s = [] -> waiting s <> [] -> token_of s = true.
Proof.
  intros R L P W. pose proof (inv_tok _ (run_inv _ _ _ Inv_init R) L) as [T|[T|T]]; congruence.
Qed.

(* and the token then lets the parked call make progress and return an event *)
Theorem parked_call_progress l s i :
  run init l = Some s -> log_of s <> [] -> pulling s = [] -> memb i (waiting s) = true ->
  exists e s1 s2, step s (AWake i) = Some s1 /\ step s1 (APull i (Some e)) = Some s2.
Proof.
  intros R L P W.
  assert (Wn : waiting s <> []) by (intros E; rewrite E in W; discriminate).
  pose proof (no_lost_token _ _ R L P Wn) as T.
  unfold log_of, token_of in *. destruct (hd s) as [h|] eqn:Ehd; [|congruence].
  destruct (h_log h) as [|[q t] lg] eqn:El; [congruence|].
  exists (q, t). cbn [step]. rewrite Ehd, W, T. cbn [andb].
  eexists. eexists. split; [reflexivity|]. prj. cbn [memb existsb fst snd].
  rewrite Nat.eqb_refl. cbn [orb]. rewrite El. cbn [lk]. rewrite Nat.eqb_refl.
  destruct t; cbn [ety_eqb]; reflexivity.
Qed.
