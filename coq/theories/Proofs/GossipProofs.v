(* Proofs about Model.Gossip: the gossip bounds of C17 over every history, the recipient rules of
   C06 and the threshold gates of C09. *)
From Coq Require Import List Bool ZArith Arith Lia.
Import ListNotations.
From PS Require Import Model.Router Model.Gossip Proofs.RouterProofs Proofs.McacheProofs.
Local Open Scope Z_scope.

Arguments memb : simpl never.
Arguments sadd : simpl never.
Arguments step : simpl never.
Arguments heartbeat : simpl never.

(* ------------------------------------------------------------------------------------------ *)
(* histories with their log: newest entry first *)
Record entry := { e_sc : list (peer * Z); e_pre : gstate; e_op : gop; e_out : list gout; e_post : gstate }.

Inductive reach (P : gparams) : gstate -> list entry -> Prop :=
| reach_init : reach P (ginit P) []
| reach_step g log sc o g' out :
    reach P g log -> gstep P sc g o = Some (g', out) ->
    reach P g' ({| e_sc := sc; e_pre := g; e_op := o; e_out := out; e_post := g' |} :: log).

(* [grun] (what the correspondence check replays) only visits reachable states *)
Lemma grun_reach P l : forall g log g' out,
  reach P g log -> grun P g l = Some (g', out) -> exists log', reach P g' log'.
Proof.
  induction l as [|[sc o] l IH]; intros g log g' out Hr Hrun; cbn in Hrun.
  - inversion Hrun; subst. eauto.
  - destruct (gstep P sc g o) as [[g1 o1]|] eqn:Hs; [|discriminate].
    destruct (grun P g1 l) as [[g2 o2]|] eqn:Hr2; [|discriminate].
    inversion Hrun; subst. eapply IH; [|exact Hr2]. econstructor; eassumption.
Qed.

(* ------------------------------------------------------------------------------------------ *)
(* frames: which fields an operation can touch *)

(* only the router core differs *)
Definition core_only (g g' : gstate) : Prop := exists c, g' = set_core g c.
Lemma core_only_refl g : core_only g g.
Proof. exists (core g). destruct g; reflexivity. Qed.
Lemma core_only_trans a b c : core_only a b -> core_only b c -> core_only a c.
Proof. intros [x ->] [y ->]. exists y. reflexivity. Qed.

Lemma fanout_for_publishing_frame P sc g t ch g' r :
  fanout_for_publishing P sc g t ch = Some (g', r) -> core_only g g'.
Proof.
  unfold fanout_for_publishing. intros H.
  destruct (aget_l t (fanout (core g))) as [|x xs].
  - destruct (pick_ok ch _ _); [|discriminate]. inversion H; subst. eexists; reflexivity.
  - destruct ch; [|discriminate]. inversion H; subst. eexists; reflexivity.
Qed.

Lemma recipients_frame P sc g m ch g' r : recipients P sc g m ch = Some (g', r) -> core_only g g'.
Proof.
  unfold recipients. intros H.
  destruct (aget (m_topic m) (tmap (core g))) as [tm|]; [|inversion H; subst; apply core_only_refl].
  destruct (gFlood P && _); [inversion H; subst; apply core_only_refl|].
  destruct (aget (m_topic m) (mesh (core g))) as [gm|].
  - destruct ch; [|discriminate]. inversion H; subst. apply core_only_refl.
  - destruct (fanout_for_publishing P sc g (m_topic m) ch) as [[g1 gm]|] eqn:Hf; [|discriminate].
    inversion H; subst. eapply fanout_for_publishing_frame; eassumption.
Qed.

(* what publish does to the gossip fields *)
Definition put_state (g : gstate) (m : msg) : gstate :=
  {| core := core g; mc := mc_put (mc g) (m_id m) (m_topic m); peerhave := peerhave g; iasked := iasked g;
     peerdontwant := peerdontwant g; unwanted := unwanted g;
     promises := filter (fun e => negb (Nat.eqb (m_id m) (fst (fst e)))) (promises g);
     seen := sadd (m_id m) (seen g); idw_peers := idw_peers g |}.

Lemma publish_frame P sc g m ch g' r : publish P sc g m ch = Some (g', r) -> core_only (put_state g m) g'.
Proof.
  unfold publish. fold (put_state g m). intros H.
  destruct (recipients P sc (put_state g m) m ch) as [[g2 r2]|] eqn:Hr; [|discriminate].
  inversion H; subst. eapply recipients_frame; eassumption.
Qed.

(* ------------------------------------------------------------------------------------------ *)
(* Invariant A: a promise is only ever outstanding for a message that has not arrived; whatever
   is in the cache has been seen. *)
Definition GI (g : gstate) : Prop :=
  (forall i p e, In ((i, p), e) (promises g) -> memb i (seen g) = false)
  /\ (forall i, memb i (mmsgs (mc g)) = true -> memb i (seen g) = true).

Lemma GI_core g c : GI g -> GI (set_core g c).
Proof. intros H. exact H. Qed.
Lemma GI_core_only g g' : core_only g g' -> GI g -> GI g'.
Proof. intros [c ->]. apply GI_core. Qed.

Lemma GI_put g m : GI g -> GI (put_state g m).
Proof.
  intros [Ha Hb]. split; cbn.
  - intros i p e Hin. apply filter_In in Hin. destruct Hin as [Hin Hne]. cbn in Hne.
    rewrite memb_sadd. rewrite (Ha _ _ _ Hin), orb_false_r.
    apply negb_true_iff in Hne. rewrite Nat.eqb_sym. exact Hne.
  - intros i Hi. rewrite memb_sadd in *. apply orb_true_iff in Hi. destruct Hi as [Hi|Hi].
    + rewrite Hi. reflexivity.
    + rewrite (Hb _ Hi). apply orb_true_r.
Qed.

Lemma GI_local g m : GI g -> GI (local_state g m).
Proof.
  intros [Ha Hb]. split; cbn.
  - intros i p e Hin. apply filter_In in Hin. destruct Hin as [Hin Hne]. cbn in Hne.
    rewrite memb_sadd. rewrite (Ha _ _ _ Hin), orb_false_r.
    apply negb_true_iff in Hne. rewrite Nat.eqb_sym. exact Hne.
  - intros i Hi. rewrite memb_sadd. rewrite (Hb _ Hi). apply orb_true_r.
Qed.

Lemma GI_publish P sc g m ch g' r : GI g -> publish P sc g m ch = Some (g', r) -> GI g'.
Proof. intros HG H. eapply GI_core_only; [eapply publish_frame; eassumption | apply GI_put; exact HG]. Qed.

Lemma GI_forward_all P sc msgs : forall g chs g' out, GI g -> forward_all P sc g msgs chs = Some (g', out) -> GI g'.
Proof.
  induction msgs as [|m r IH]; intros g chs g' out HG H; cbn in H.
  - inversion H; subst. exact HG.
  - destruct (memb (m_id m) (seen g)); [eapply IH; eassumption|].
    destruct (publish P sc g m _) as [[g1 rs]|] eqn:Hp; [|discriminate].
    destruct (forward_all P sc g1 r (tl chs)) as [[g2 o]|] eqn:Hf; [|discriminate].
    inversion H; subst. eapply IH; [|exact Hf]. eapply GI_publish; eassumption.
Qed.

(* the ids handleIHave considers asking for are unseen *)
Definition ihave_want (P : gparams) (g : gstate) (ihaves : list (topic * list mid)) : list mid :=
  fold_left (fun acc e =>
               match aget (fst e) (mesh (core g)) with
               | None => acc
               | Some _ => fold_left (fun a i => if memb i (seen g) then a else sadd i a) (firstn (gMaxIHaveLen P) (snd e)) acc
               end) ihaves [].

Lemma want_inner_unseen (sn : list mid) l : forall acc,
  (forall i, In i acc -> memb i sn = false) ->
  forall i, In i (fold_left (fun a i => if memb i sn then a else sadd i a) l acc) -> memb i sn = false.
Proof.
  induction l as [|x l IH]; intros acc Hacc i Hi; cbn in Hi; [apply Hacc; exact Hi|].
  eapply IH; [|exact Hi]. intros j Hj.
  destruct (memb x sn) eqn:Hx; [apply Hacc; exact Hj|].
  apply memb_In in Hj. rewrite memb_sadd in Hj. apply orb_true_iff in Hj. destruct Hj as [Hj|Hj].
  - apply Nat.eqb_eq in Hj. subst. exact Hx.
  - apply Hacc. apply memb_In. exact Hj.
Qed.

Lemma ihave_want_unseen P g ihaves : forall i, In i (ihave_want P g ihaves) -> memb i (seen g) = false.
Proof.
  unfold ihave_want.
  assert (G : forall acc, (forall i, In i acc -> memb i (seen g) = false) ->
              forall i, In i (fold_left (fun acc e =>
               match aget (fst e) (mesh (core g)) with
               | None => acc
               | Some _ => fold_left (fun a i => if memb i (seen g) then a else sadd i a) (firstn (gMaxIHaveLen P) (snd e)) acc
               end) ihaves acc) -> memb i (seen g) = false).
  { induction ihaves as [|e r IH]; intros acc Hacc j Hj; cbn in Hj; [apply Hacc; exact Hj|].
    eapply IH; [|exact Hj]. intros k Hk.
    match type of Hk with context [match ?x with _ => _ end] => destruct x end; [|apply Hacc; exact Hk].
    eapply want_inner_unseen; eassumption. }
  apply G. intros j [].
Qed.

Lemma cget_aset_same p n l : cget p (aset p n l) = n.
Proof. unfold cget. rewrite aget_aset_same. reflexivity. Qed.
Lemma cget_aset_other p q n l : q <> p -> cget q (aset p n l) = cget q l.
Proof. intros H. unfold cget. rewrite aget_aset_other by exact H. reflexivity. Qed.
Lemma cget_bump_same p l : cget p (bump p l) = S (cget p l).
Proof. unfold bump. apply cget_aset_same. Qed.
Lemma cget_bump_other p q l : q <> p -> cget q (bump p l) = cget q l.
Proof. unfold bump. apply cget_aset_other. Qed.

Lemma nodup_b_NoDup l : nodup_b l = true -> NoDup l.
Proof.
  induction l as [|x l IH]; cbn; intros H; [constructor|].
  apply andb_true_iff in H. destruct H as [H1 H2]. constructor; [|apply IH; exact H2].
  apply negb_true_iff in H1. apply memb_false_In. exact H1.
Qed.

(* full functional description of handleIHave *)
Definition bumped (g : gstate) (p : peer) : gstate :=
  {| core := core g; mc := mc g; peerhave := bump p (peerhave g); iasked := iasked g; peerdontwant := peerdontwant g;
     unwanted := unwanted g; promises := promises g; seen := seen g; idw_peers := idw_peers g |}.

Lemma handle_ihave_spec P sc g p ihaves asked promised g' a :
  handle_ihave P sc g p ihaves asked promised = Some (g', a) ->
  a = asked
  /\ (asked = [] -> g' = g \/ g' = bumped g p)
  /\ (asked <> [] ->
        (gGossipThr P <= score_of sc p)
        /\ (cget p (peerhave g') <= gMaxIHaveMsgs P)%nat
        /\ cget p (peerhave g') = S (cget p (peerhave g))
        /\ (forall q, q <> p -> cget q (peerhave g') = cget q (peerhave g))
        /\ NoDup asked
        /\ (forall i, In i asked -> In i (ihave_want P g ihaves))
        /\ cget p (iasked g') = (cget p (iasked g) + length asked)%nat
        /\ (cget p (iasked g') <= gMaxIHaveLen P)%nat
        /\ (forall q, q <> p -> cget q (iasked g') = cget q (iasked g))
        /\ mc g' = mc g /\ seen g' = seen g /\ core g' = core g /\ unwanted g' = unwanted g
        /\ peerdontwant g' = peerdontwant g /\ idw_peers g' = idw_peers g
        /\ (forall i q e, In ((i, q), e) (promises g') -> In ((i, q), e) (promises g) \/ (q = p /\ In i asked /\ e = now (core g) + gFollowup P))).
Proof.
  unfold handle_ihave. intros H.
  destruct (score_of sc p <? gGossipThr P) eqn:Hs.
  { destruct asked; [|discriminate]. inversion H; subst. split; [reflexivity|]. split; [left; reflexivity | congruence]. }
  fold (bumped g p) in H.
  destruct (Nat.ltb (gMaxIHaveMsgs P) (cget p (peerhave (bumped g p)))) eqn:Hm.
  { destruct asked; [|discriminate]. inversion H; subst. split; [reflexivity|]. split; [right; reflexivity | congruence]. }
  destruct (Nat.leb (gMaxIHaveLen P) (cget p (iasked (bumped g p)))) eqn:Hl.
  { destruct asked; [|discriminate]. inversion H; subst. split; [reflexivity|]. split; [right; reflexivity | congruence]. }
  change (fold_left _ ihaves []) with (ihave_want P g ihaves) in H.
  destruct (ihave_want P g ihaves) as [|w ws] eqn:Hw.
  { destruct asked; [|discriminate]. inversion H; subst. split; [reflexivity|]. split; [right; reflexivity | congruence]. }
  match type of H with (if ?c then _ else _) = _ => destruct c eqn:Hc end; [|discriminate].
  apply andb_true_iff in Hc. destruct Hc as [Hc Hpr].
  apply andb_true_iff in Hc. destruct Hc as [Hc Hlen].
  apply andb_true_iff in Hc. destruct Hc as [Hnd Hsub].
  apply Nat.eqb_eq in Hlen. apply Nat.leb_gt in Hl. apply Nat.ltb_ge in Hm. apply Z.ltb_ge in Hs.
  cbn [iasked peerhave bumped] in Hl, Hm, Hlen.
  assert (Hle : (length asked <= gMaxIHaveLen P - cget p (iasked g))%nat) by (rewrite Hlen; apply Nat.le_min_r).
  cbn [iasked bumped] in H. rewrite <- Hlen in H. clear Hlen.
  inversion H; subst g' a; clear H. split; [reflexivity|]. split.
  { intros ->. destruct promised; cbn in Hpr; discriminate. }
  intros Hne. cbn [peerhave iasked mc seen core unwanted peerdontwant idw_peers promises bumped].
  rewrite cget_aset_same. rewrite cget_bump_same in *.
  repeat split; try reflexivity.
  - exact Hs.
  - exact Hm.
  - intros q Hq. apply cget_bump_other. exact Hq.
  - apply nodup_b_NoDup. exact Hnd.
  - intros i Hi. eapply subset_In; eassumption.
  - lia.
  - intros q Hq. apply cget_aset_other. exact Hq.
  - intros i q e Hin. destruct promised as [pi|]; [|left; exact Hin].
    match type of Hin with context [if ?c then _ else _] => destruct c end; [left; exact Hin|].
    destruct Hin as [Hin|Hin]; [|left; exact Hin].
    inversion Hin; subst. right. split; [reflexivity|]. split; [|reflexivity].
    apply memb_In. exact Hpr.
Qed.

(* ------------------------------------------------------------------------------------------ *)
(* handleIWant *)
Definition set_mc (g : gstate) (c : mcache) : gstate :=
  {| core := core g; mc := c; peerhave := peerhave g; iasked := iasked g; peerdontwant := peerdontwant g;
     unwanted := unwanted g; promises := promises g; seen := seen g; idw_peers := idw_peers g |}.

Lemma is_unwanted_set_mc g c p i : is_unwanted (set_mc g c) p i = is_unwanted g p i.
Proof. reflexivity. Qed.

Lemma sadd_NoDup x l : NoDup l -> NoDup (sadd x l).
Proof.
  intros H. unfold sadd. destruct (memb x l) eqn:Hm; [exact H|].
  apply memb_false_In in Hm. clear -H Hm. induction l as [|y l IH]; cbn.
  - constructor; [intros []|constructor].
  - inversion H; subst. constructor.
    + intros Hin. apply in_app_or in Hin. destruct Hin as [Hin|[->|[]]]; [contradiction|].
      apply Hm. left. reflexivity.
    + apply IH; [assumption|]. intros Hx. apply Hm. right. exact Hx.
Qed.

Lemma In_sadd y x l : In y (sadd x l) <-> y = x \/ In y l.
Proof.
  rewrite <- !memb_In, memb_sadd. rewrite orb_true_iff, Nat.eqb_eq. reflexivity.
Qed.

Lemma iwant_loop P p ids : forall g served g' served',
  handle_iwant_ids P g p ids served = (g', served') ->
  (exists c, g' = set_mc g c /\ hist c = hist (mc g) /\ mmsgs c = mmsgs (mc g)
             /\ (forall i q, q <> p -> tx_get i q (peertx c) = tx_get i q (peertx (mc g)))
             /\ (forall i, (tx_get i p (peertx (mc g)) <= tx_get i p (peertx c))%nat)
             /\ (forall i, In i served' -> In i served \/
                   (In i ids /\ memb i (mmsgs (mc g)) = true /\ is_unwanted g p i = false
                    /\ (S (tx_get i p (peertx (mc g))) <= gRetrans P)%nat
                    /\ (S (tx_get i p (peertx (mc g))) <= tx_get i p (peertx c))%nat)))
  /\ (NoDup served -> NoDup served')
  /\ (forall i, In i served -> In i served').
Proof.
  induction ids as [|i r IH]; intros g served g' served' H; cbn [handle_iwant_ids] in H.
  - injection H as <- <-. split; [|split; auto].
    exists (mc g). split; [destruct g; reflexivity|]. repeat split; auto.
  - destruct (is_unwanted g p i) eqn:Hu.
    { destruct (IH _ _ _ _ H) as [[c (E & Hh & Hm & Ho & Hmono & Hs)] [Hnd Hin]].
      split; [|split; assumption]. exists c. repeat split; try assumption.
      intros j Hj. destruct (Hs j Hj) as [Hl|(A & B & C & D & F)]; [left; exact Hl|].
      right. repeat split; try assumption. right. exact A. }
    unfold mc_get_for_peer in H. destruct (memb i (mmsgs (mc g))) eqn:Hmm.
    2:{ destruct (IH _ _ _ _ H) as [[c (E & Hh & Hm & Ho & Hmono & Hs)] [Hnd Hin]].
      split; [|split; assumption]. exists c. repeat split; try assumption.
      intros j Hj. destruct (Hs j Hj) as [Hl|(A & B & C & D & F)]; [left; exact Hl|].
      right. repeat split; try assumption. right. exact A. }
    set (n := S (tx_get i p (peertx (mc g)))) in *.
    set (c1 := {| hist := hist (mc g); mmsgs := mmsgs (mc g); peertx := tx_set i p n (peertx (mc g)) |}) in *.
    fold (set_mc g c1) in H.
    assert (Hget : forall j, (tx_get j p (peertx (mc g)) <= tx_get j p (peertx c1))%nat).
    { intros j. cbn [peertx c1]. destruct (Nat.eq_dec j i) as [->|Hji].
      - rewrite tx_get_set_same. unfold n. lia.
      - rewrite tx_get_set_other by congruence. lia. }
    assert (Hoth : forall j q, q <> p -> tx_get j q (peertx c1) = tx_get j q (peertx (mc g))).
    { intros j q Hq. cbn [peertx c1]. apply tx_get_set_other. congruence. }
    destruct (Nat.ltb (gRetrans P) n) eqn:Hn.
    + destruct (IH _ _ _ _ H) as [[c (E & Hh & Hm & Ho & Hmono & Hs)] [Hnd Hin]].
      split; [|split; assumption]. exists c. cbn [mc set_mc] in *. repeat split; try assumption.
      * intros j q Hq. rewrite Ho by exact Hq. apply Hoth. exact Hq.
      * intros j. etransitivity; [apply Hget | apply Hmono].
      * intros j Hj. destruct (Hs j Hj) as [Hl|(A & B & C & D & F)]; [left; exact Hl|].
        right. split; [right; exact A|]. split; [exact B|]. split; [exact C|].
        specialize (Hget j). split; lia.
    + apply Nat.ltb_ge in Hn.
      destruct (IH _ _ _ _ H) as [[c (E & Hh & Hm & Ho & Hmono & Hs)] [Hnd Hin]].
      split; [|split].
      * exists c. cbn [mc set_mc] in *. repeat split; try assumption.
        -- intros j q Hq. rewrite Ho by exact Hq. apply Hoth. exact Hq.
        -- intros j. etransitivity; [apply Hget | apply Hmono].
        -- intros j Hj. destruct (Hs j Hj) as [Hl|(A & B & C & D & F)].
           ++ apply In_sadd in Hl. destruct Hl as [->|Hl]; [|left; exact Hl].
              right. split; [left; reflexivity|]. split; [exact Hmm|]. split; [exact Hu|].
              split; [exact Hn|]. specialize (Hmono i). cbn [peertx c1] in Hmono.
              rewrite tx_get_set_same in Hmono. exact Hmono.
           ++ right. split; [right; exact A|]. split; [exact B|]. split; [exact C|].
              specialize (Hget j). split; lia.
      * intros Hnds. apply Hnd. apply sadd_NoDup. exact Hnds.
      * intros j Hj. apply Hin. apply In_sadd. right. exact Hj.
Qed.

(* ------------------------------------------------------------------------------------------ *)
(* one lemma to walk through every operation except IWANT *)
Definition set_unw (g : gstate) (u : list (peer * list (mid * nat))) (w : list peer) : gstate :=
  {| core := core g; mc := mc g; peerhave := peerhave g; iasked := iasked g; peerdontwant := peerdontwant g;
     unwanted := u; promises := promises g; seen := seen g; idw_peers := w |}.

Definition is_ihave (o : gop) : bool := match o with GRecvIHave _ _ _ _ => true | _ => false end.
Definition is_hb (o : gop) : bool := match o with GHeartbeat _ _ _ => true | _ => false end.
Definition is_iwant (o : gop) : bool := match o with GRecvIWant _ _ => true | _ => false end.

Section Preservation.
  Variable P : gparams.
  Variable Q : gstate -> Prop.
  (* which operations the caller wants covered: IHAVE, heartbeat, disconnect of q, IDONTWANT from q *)
  Variables AI AH : Prop.
  Variables AD AW : peer -> Prop.
  Hypothesis Q_core : forall g c, Q g -> Q (set_core g c).
  Hypothesis Q_bump : forall g p, Q g -> Q (bumped g p).
  Hypothesis Q_unw : forall g p c w, AD p -> Q g -> Q (set_unw (set_core g c) (adel p (unwanted g)) w).
  Hypothesis Q_idw : forall g w, Q g -> Q (set_unw g (unwanted g) w).
  Hypothesis Q_put : forall g m, Q g -> memb (m_id m) (seen g) = false -> Q (put_state g m).
  Hypothesis Q_local : forall g m, Q g -> memb (m_id m) (seen g) = false -> Q (local_state g m).
  Hypothesis Q_ihave : AI -> forall sc g p ih a pr g' a', Q g -> handle_ihave P sc g p ih a pr = Some (g', a') -> Q g'.
  Hypothesis Q_idontwant : forall g p idws, AW p -> Q g -> Q (handle_idontwant P g p idws).
  Hypothesis Q_clear : AH -> forall g, Q g -> Q (clear_counters g).
  Hypothesis Q_broken : AH -> forall g, Q g -> Q (drop_broken g).
  Hypothesis Q_shift : AH -> forall g, Q g -> Q (shift_cache g).

  Lemma Q_core_only g g' : core_only g g' -> Q g -> Q g'.
  Proof. intros [c ->]. apply Q_core. Qed.

  Lemma Q_count_ctl sc g p : Q g -> Q (count_ctl P sc g p).
  Proof. intros H. unfold count_ctl. destruct (_ <? _); [exact H|]. apply (Q_bump g p H). Qed.

  Lemma Q_forward_all sc msgs : forall g chs g' out, Q g -> forward_all P sc g msgs chs = Some (g', out) -> Q g'.
  Proof.
    induction msgs as [|m r IH]; intros g chs g' out HQ H; cbn [forward_all] in H.
    - inversion H; subst. exact HQ.
    - destruct (memb (m_id m) (seen g)) eqn:Hs; [eapply IH; eassumption|].
      destruct (publish P sc g m _) as [[g1 rs]|] eqn:Hp; [|discriminate].
      destruct (forward_all P sc g1 r (tl chs)) as [[g2 o]|] eqn:Hf; [|discriminate].
      inversion H; subst. eapply IH; [|exact Hf].
      eapply Q_core_only; [eapply publish_frame; exact Hp|]. apply Q_put; assumption.
  Qed.

  Definition covered (o : gop) : Prop :=
    is_iwant o = false /\ (is_ihave o = true -> AI) /\ (is_hb o = true -> AH)
    /\ (forall q, o = GCore (ODisconnect q) -> AD q) /\ (forall q idws, o = GRecvIDontWant q idws -> AW q).

  Lemma Q_gstep0 sc g o g' out : covered o -> Q g -> gstep0 P sc g o = Some (g', out) -> Q g'.
  Proof.
    intros (Hni & Hai & Hah & Had & Haw) HQ H.
    destruct o as [ro|p i idw|m ch|m|p msgs chs|p ih a pr|p ids|p idws|obs fobs gobs].
    - destruct ro; cbn [gstep0] in H;
        try (match type of H with match ?x with _ => _ end = _ => destruct x as [[[c ctls] pen]|] eqn:Hst end;
             [|discriminate]; inversion H; subst; try (apply Q_core; exact HQ)).
      + (* ODisconnect *)
        change (Q (set_unw (set_core g c) (adel p (unwanted g)) (srem p (idw_peers g)))). apply Q_unw; [|exact HQ].
        apply Had. reflexivity.
      + discriminate.
    - cbn [gstep0] in H. inversion H; subst.
      change (Q (set_unw (set_core g (add_peer (core g) p i)) (unwanted (set_core g (add_peer (core g) p i)))
                         (if idw then sadd p (idw_peers g) else srem p (idw_peers g)))).
      apply Q_idw. apply Q_core. exact HQ.
    - cbn [gstep0] in H. destruct (memb (m_id m) (seen g)) eqn:Hs.
      + destruct ch; [|discriminate]. inversion H; subst. exact HQ.
      + destruct (publish P sc g m ch) as [[g1 rs]|] eqn:Hp; [|discriminate]. inversion H; subst.
        eapply Q_core_only; [eapply publish_frame; exact Hp|]. apply Q_put; assumption.
    - cbn [gstep0] in H. destruct (memb (m_id m) (seen g)) eqn:Hs; inversion H; subst; [exact HQ|].
      apply Q_local; assumption.
    - cbn [gstep0] in H.
      match type of H with match forward_all P sc g ?f chs with _ => _ end = _ =>
        destruct (forward_all P sc g f chs) as [[g1 o1]|] eqn:Hf end; [|discriminate].
      inversion H; subst. eapply Q_forward_all; eassumption.
    - cbn [gstep0] in H. destruct (handle_ihave P sc g p ih a pr) as [[g1 a1]|] eqn:Hh; [|discriminate].
      inversion H; subst. eapply Q_ihave; [apply Hai; reflexivity | |]; eassumption.
    - discriminate.
    - cbn [gstep0] in H. inversion H; subst. apply Q_idontwant; [eapply Haw; reflexivity | exact HQ].
    - cbn [gstep0] in H. specialize (Hah eq_refl).
      destruct (heartbeat (gCore P) sc (core (drop_broken (clear_counters g))) obs fobs) as [[c ctls]|] eqn:Hhb; [|discriminate].
      match type of H with (if ?b then _ else _) = _ => destruct b end; [|discriminate].
      inversion H; subst. apply Q_shift; [exact Hah|]. apply Q_core. apply Q_broken; [exact Hah|]. apply Q_clear; [exact Hah|]. exact HQ.
  Qed.

  Lemma Q_gstep sc g o g' out : covered o -> Q g -> gstep P sc g o = Some (g', out) -> Q g'.
  Proof.
    intros Hc HQ H. unfold gstep in H. destruct (sender_of o) as [p|].
    - destruct (accept_from P sc g p); [|inversion H; subst; exact HQ].
      eapply Q_gstep0; [exact Hc | | exact H]. destruct (ctl_without_ihave o); [apply Q_count_ctl|]; exact HQ.
    - eapply Q_gstep0; eassumption.
  Qed.
End Preservation.

(* the IWANT operation *)
Lemma gstep_iwant P sc g p ids g' out :
  gstep P sc g (GRecvIWant p ids) = Some (g', out) ->
  (g' = g /\ out = []) \/
  (exists g0 served, (g0 = g \/ g0 = bumped g p) /\ gGossipThr P <= score_of sc p
                     /\ handle_iwant_ids P g0 p ids [] = (g', served) /\ out = map (OMsg p) served).
Proof.
  unfold gstep. cbn [sender_of ctl_without_ihave]. destruct (accept_from P sc g p); [|intros H; inversion H; auto].
  cbn [gstep0]. unfold handle_iwant, count_ctl.
  destruct (score_of sc p <? gGossipThr P) eqn:Hs.
  - intros H. inversion H; subst. left. auto.
  - apply Z.ltb_ge in Hs. fold (bumped g p).
    destruct (handle_iwant_ids P (bumped g p) p ids []) as [g1 served] eqn:Hl.
    intros H. inversion H; subst. right. exists (bumped g p), served. auto.
Qed.

(* ------------------------------------------------------------------------------------------ *)
(* frames of the remaining handlers *)
Lemma handle_idontwant_frame P g p idws :
  let g' := handle_idontwant P g p idws in
  core g' = core g /\ mc g' = mc g /\ peerhave g' = peerhave g /\ iasked g' = iasked g
  /\ promises g' = promises g /\ seen g' = seen g /\ idw_peers g' = idw_peers g.
Proof.
  unfold handle_idontwant. destruct idws; [repeat split; reflexivity|].
  destruct (Nat.leb _ _); repeat split; reflexivity.
Qed.

Lemma mc_shift_sub c i :
  memb i (mmsgs (mc_shift c)) = true ->
  memb i (mmsgs c) = true /\ forall p, tx_get i p (peertx (mc_shift c)) = tx_get i p (peertx c).
Proof.
  unfold mc_shift. destruct (rev (hist c)) as [|last rest]; [auto|]. cbn [mmsgs peertx].
  rewrite memb_filter. intros H. apply andb_true_iff in H. destruct H as [H1 H2]. split; [exact H1|].
  intros p. apply tx_get_filter_other. intros n. cbn. exact H2.
Qed.

Lemma hb_frame P sc g obs fobs gobs g' out :
  gstep P sc g (GHeartbeat obs fobs gobs) = Some (g', out) ->
  exists c ctls,
    heartbeat (gCore P) sc (core g) obs fobs = Some (c, ctls)
    /\ g' = shift_cache (set_core (drop_broken (clear_counters g)) c)
    /\ out = map (fun p => OPenalty p (count_peer p (broken (clear_counters g))))
                 (filter (has_queue g) (dedup (broken (clear_counters g))))
             ++ map OCtl ctls
             ++ concat (map (fun e => map (fun pe => OIHave (fst pe) (fst e) (snd pe)) (snd e)) gobs)
    /\ forallb (fun e => gossip_ok P sc (set_core (drop_broken (clear_counters g)) c) (fst e) (snd e)
                                    (match aget (fst e) gobs with Some l => l | None => [] end))
                (map (fun e => (fst e, snd e)) (mesh c) ++ map (fun e => (fst e, snd e)) (fanout c)) = true
    /\ forallb (fun e => match aget (fst e) (mesh c), aget (fst e) (fanout c) with None, None => false | _, _ => true end) gobs = true
    /\ nodup_b (map fst gobs) = true.
Proof.
  unfold gstep. cbn [sender_of gstep0]. cbn [core drop_broken clear_counters].
  destruct (heartbeat (gCore P) sc (core g) obs fobs) as [[c ctls]|] eqn:Hhb; [|discriminate].
  match goal with |- (if ?b then _ else _) = _ -> _ => destruct b eqn:Hb end; [|discriminate].
  intros H. inversion H; subst. exists c, ctls. apply andb_true_iff in Hb. destruct Hb as [Hb Hb3].
  apply andb_true_iff in Hb. destruct Hb as [Hb1 Hb2].
  repeat split; try reflexivity; assumption.
Qed.

Lemma hb_fields P sc g obs fobs gobs g' out :
  gstep P sc g (GHeartbeat obs fobs gobs) = Some (g', out) ->
  peerhave g' = [] /\ iasked g' = [] /\ peerdontwant g' = []
  /\ mc g' = mc_shift (mc g) /\ seen g' = seen g
  /\ promises g' = filter (fun e => negb (snd e <? now (core g))) (promises g)
  /\ unwanted g' = unwanted (clear_counters g) /\ idw_peers g' = idw_peers g.
Proof.
  intros H. destruct (hb_frame _ _ _ _ _ _ _ _ H) as [c [ctls (_ & -> & _)]]. repeat split; reflexivity.
Qed.

(* IWANT: everything it does *)
Lemma gstep_iwant_full P sc g p ids g' out :
  gstep P sc g (GRecvIWant p ids) = Some (g', out) ->
  (g' = g /\ out = []) \/
  (exists g0 served c, (g0 = g \/ g0 = bumped g p) /\ gGossipThr P <= score_of sc p
      /\ g' = set_mc g0 c /\ out = map (OMsg p) served /\ NoDup served
      /\ hist c = hist (mc g) /\ mmsgs c = mmsgs (mc g)
      /\ (forall i q, q <> p -> tx_get i q (peertx c) = tx_get i q (peertx (mc g)))
      /\ (forall i, (tx_get i p (peertx (mc g)) <= tx_get i p (peertx c))%nat)
      /\ (forall i, In i served ->
            In i ids /\ memb i (mmsgs (mc g)) = true /\ is_unwanted g p i = false
            /\ (S (tx_get i p (peertx (mc g))) <= gRetrans P)%nat
            /\ (S (tx_get i p (peertx (mc g))) <= tx_get i p (peertx c))%nat)).
Proof.
  intros H. destruct (gstep_iwant _ _ _ _ _ _ _ H) as [Hl|[g0 [served (Hg0 & Hs & Hloop & Hout)]]]; [left; exact Hl|].
  right. destruct (iwant_loop _ _ _ _ _ _ _ Hloop) as [[c (E & Hh & Hm & Ho & Hmono & Hsv)] [Hnd _]].
  assert (Emc : mc g0 = mc g) by (destruct Hg0 as [->| ->]; reflexivity).
  assert (Eun : forall i, is_unwanted g0 p i = is_unwanted g p i) by (destruct Hg0 as [->| ->]; reflexivity).
  rewrite Emc in *.
  exists g0, served, c. repeat split; try assumption.
  - apply Hnd. constructor.
  - destruct (Hsv i H0) as [[]|(A & _)]. exact A.
  - destruct (Hsv i H0) as [[]|(_ & A & _)]. exact A.
  - destruct (Hsv i H0) as [[]|(_ & _ & A & _)]. rewrite <- Eun. exact A.
  - destruct (Hsv i H0) as [[]|(_ & _ & _ & A & _)]. exact A.
  - destruct (Hsv i H0) as [[]|(_ & _ & _ & _ & A)]. exact A.
Qed.

Lemma covered_all (AI AH : Prop) (AD AW : peer -> Prop) o :
  is_iwant o = false -> AI -> AH -> (forall q, AD q) -> (forall q, AW q) -> covered AI AH AD AW o.
Proof. intros. repeat split; auto. Qed.

Lemma iwant_inv o : is_iwant o = true -> exists p ids, o = GRecvIWant p ids.
Proof. destruct o; try discriminate. eauto. Qed.

(* ------------------------------------------------------------------------------------------ *)
(* Invariant A holds in every reachable state *)
Lemma GI_init P : GI (ginit P).
Proof. split; cbn; [intros i p e [] | intros i H; discriminate]. Qed.

Lemma GI_step P sc g o g' out : GI g -> gstep P sc g o = Some (g', out) -> GI g'.
Proof.
  intros HG H. destruct (is_iwant o) eqn:Hiw.
  - destruct (iwant_inv _ Hiw) as [p [ids ->]].
    destruct (gstep_iwant_full _ _ _ _ _ _ _ H) as [[-> _]|[g0 [sv [c (Hg0 & _ & -> & _ & _ & _ & Hm & _)]]]]; [exact HG|].
    destruct HG as [Ha Hb]. destruct Hg0 as [->| ->]; split; cbn; try exact Ha; intros i Hi; apply Hb; rewrite <- Hm; exact Hi.
  - eapply (Q_gstep P GI True True (fun _ => True) (fun _ => True)); try eassumption.
    + intros. assumption.
    + intros. assumption.
    + intros. assumption.
    + intros. assumption.
    + intros. apply GI_put. assumption.
    + intros. apply GI_local. assumption.
    + intros _ sc0 g0 p ih a pr g1 a1 HG0 Hh.
      destruct (handle_ihave_spec _ _ _ _ _ _ _ _ _ Hh) as [-> [He Hne]].
      destruct a as [|x xs].
      * destruct (He eq_refl) as [->| ->]; exact HG0.
      * destruct Hne as (_ & _ & _ & _ & _ & Hw & _ & _ & _ & Emc & Esn & _ & _ & _ & _ & Hpr); [discriminate|].
        destruct HG0 as [Ha Hb]. split; rewrite ?Emc, ?Esn; [|exact Hb].
        intros i q e Hin. destruct (Hpr _ _ _ Hin) as [Hold|(-> & Hia & _)]; [eapply Ha; exact Hold|].
        eapply ihave_want_unseen. apply Hw. exact Hia.
    + intros g0 p idws _ HG0. destruct (handle_idontwant_frame P g0 p idws) as (_ & Emc & _ & _ & Epr & Esn & _).
      destruct HG0 as [Ha Hb]. split; rewrite ?Emc, ?Esn, ?Epr; assumption.
    + intros _ g0 HG0. exact HG0.
    + intros _ g0 [Ha Hb]. split; [|exact Hb]. cbn. intros i p e Hin. apply filter_In in Hin. eapply Ha. apply Hin.
    + intros _ g0 [Ha Hb]. split; [exact Ha|]. cbn. intros i Hi. apply Hb. apply (mc_shift_sub _ _ Hi).
    + apply covered_all; auto.
Qed.

Theorem GI_reach P g log : reach P g log -> GI g.
Proof. induction 1; [apply GI_init | eapply GI_step; eassumption]. Qed.

Lemma reach_entries P g log : reach P g log ->
  forall en, In en log -> gstep P (e_sc en) (e_pre en) (e_op en) = Some (e_post en, e_out en)
                          /\ exists log', reach P (e_pre en) log'.
Proof.
  induction 1; intros en Hin; [destruct Hin|].
  destruct Hin as [<-|Hin]; [cbn; split; [assumption | eauto] | apply IHreach; exact Hin].
Qed.

(* ------------------------------------------------------------------------------------------ *)
(* C17: a peer is served the same message at most GossipRetransmission times, over any history *)
Definition is_msg_to (p : peer) (i : mid) (o : gout) : bool :=
  match o with OMsg q j => Nat.eqb q p && Nat.eqb j i | _ => false end.
Definition served_in (en : entry) (p : peer) (i : mid) : nat :=
  match e_op en with
  | GRecvIWant q _ => if Nat.eqb q p then length (filter (is_msg_to p i) (e_out en)) else 0%nat
  | _ => 0%nat
  end.
Fixpoint served_cnt (log : list entry) (p : peer) (i : mid) : nat :=
  match log with [] => 0%nat | en :: r => (served_in en p i + served_cnt r p i)%nat end.

Lemma count_served p i served :
  NoDup served -> length (filter (is_msg_to p i) (map (OMsg p) served)) = if memb i served then 1%nat else 0%nat.
Proof.
  induction served as [|x l IH]; intros Hnd; [reflexivity|].
  inversion Hnd; subst. cbn [map filter is_msg_to]. rewrite Nat.eqb_refl. cbn [andb].
  unfold memb in *. cbn [existsb]. rewrite (Nat.eqb_sym i x).
  destruct (Nat.eqb_spec x i) as [->|Hne]; cbn [length orb].
  - rewrite IH by assumption. fold (memb i l).
    destruct (memb i l) eqn:Hm; [apply memb_In in Hm; contradiction | reflexivity].
  - apply IH. assumption.
Qed.

Definition SI (P : gparams) (g : gstate) (log : list entry) : Prop :=
  forall p i, (served_cnt log p i <= gRetrans P)%nat
              /\ (memb i (mmsgs (mc g)) = true -> (served_cnt log p i <= tx_get i p (peertx (mc g)))%nat)
              /\ (memb i (seen g) = false -> served_cnt log p i = 0%nat).

Lemma SI_step P g log sc o g' out :
  GI g -> SI P g log -> gstep P sc g o = Some (g', out) ->
  SI P g' ({| e_sc := sc; e_pre := g; e_op := o; e_out := out; e_post := g' |} :: log).
Proof.
  intros HG HS H. destruct (is_iwant o) eqn:Hiw.
  - destruct (iwant_inv _ Hiw) as [p0 [ids ->]].
    destruct (gstep_iwant_full _ _ _ _ _ _ _ H) as [[-> ->]|[g0 [sv [c (Hg0 & _ & -> & -> & Hnd & _ & Hm & Hoth & Hmono & Hsv)]]]].
    + intros p i. cbn [served_cnt served_in e_op e_out]. destruct (Nat.eqb p0 p); cbn [filter length]; apply HS.
    + assert (Esn : seen (set_mc g0 c) = seen g) by (destruct Hg0 as [->| ->]; reflexivity).
      intros p i. cbn [served_cnt served_in e_op e_out]. rewrite Esn. cbn [mc set_mc]. rewrite Hm.
      destruct (HS p i) as (S1 & S2 & S3).
      destruct (Nat.eqb_spec p0 p) as [->|Hne].
      * rewrite count_served by exact Hnd. destruct (memb i sv) eqn:Hi.
        -- apply memb_In in Hi. destruct (Hsv i Hi) as (_ & Hmm & _ & Hr & Htx).
           specialize (S2 Hmm). split; [lia|]. split; [intros _; lia|].
           intros Hns. destruct HG as [_ Hb]. rewrite (Hb i Hmm) in Hns. discriminate.
        -- cbn [Nat.add]. split; [exact S1|]. split; [|exact S3].
           intros Hmm. specialize (S2 Hmm). specialize (Hmono i). lia.
      * cbn [Nat.add]. split; [exact S1|]. split; [|exact S3].
        intros Hmm. rewrite Hoth by congruence. apply S2. exact Hmm.
  - assert (Ecnt : forall p i, served_cnt ({| e_sc := sc; e_pre := g; e_op := o; e_out := out; e_post := g' |} :: log) p i = served_cnt log p i).
    { intros p i. cbn [served_cnt served_in e_op]. destruct o; try reflexivity. discriminate. }
    unfold SI. intros p i. rewrite Ecnt. revert p i. change (SI P g' log).
    eapply (Q_gstep P (fun g => SI P g log) True True (fun _ => True) (fun _ => True)); try eassumption.
    + intros. assumption.
    + intros. assumption.
    + intros. assumption.
    + intros. assumption.
    + intros g0 m HS0 Hun p i. destruct (HS0 p i) as (S1 & S2 & S3). cbn [mc put_state seen mc_put mmsgs peertx].
      split; [exact S1|]. split.
      * rewrite memb_sadd. intros Hmm. apply orb_true_iff in Hmm. destruct Hmm as [He|Hmm]; [|apply S2; exact Hmm].
        apply Nat.eqb_eq in He. subst. destruct (HS0 p (m_id m)) as (_ & _ & S3'). rewrite S3' by exact Hun. lia.
      * rewrite memb_sadd. intros Hns. apply orb_false_iff in Hns. apply S3. apply Hns.
    + intros g0 m HS0 _ p i. destruct (HS0 p i) as (S1 & S2 & S3). cbn [mc local_state seen].
      split; [exact S1|]. split; [exact S2|].
      rewrite memb_sadd. intros Hns. apply orb_false_iff in Hns. apply S3. apply Hns.
    + intros _ sc0 g0 p ih a pr g1 a1 HS0 Hh.
      destruct (handle_ihave_spec _ _ _ _ _ _ _ _ _ Hh) as [-> [He Hne]].
      destruct a as [|x xs].
      * destruct (He eq_refl) as [->| ->]; exact HS0.
      * destruct Hne as (_ & _ & _ & _ & _ & _ & _ & _ & _ & Emc & Esn & _); [discriminate|].
        intros q i. rewrite Emc, Esn. apply HS0.
    + intros g0 p idws _ HS0. destruct (handle_idontwant_frame P g0 p idws) as (_ & Emc & _ & _ & _ & Esn & _).
      intros q i. rewrite Emc, Esn. apply HS0.
    + intros _ g0 HS0. exact HS0.
    + intros _ g0 HS0. exact HS0.
    + intros _ g0 HS0 p i. destruct (HS0 p i) as (S1 & S2 & S3). cbn [mc shift_cache seen].
      split; [exact S1|]. split; [|exact S3].
      intros Hmm. destruct (mc_shift_sub _ _ Hmm) as [Hm Htx]. rewrite Htx. apply S2. exact Hm.
    + apply covered_all; auto.
Qed.

Lemma SI_reach P g log : reach P g log -> SI P g log.
Proof.
  induction 1.
  - intros p i. cbn [served_cnt]. repeat split; intros; lia.
  - apply SI_step; [eapply GI_reach; eassumption | assumption | assumption].
Qed.

Theorem served_at_most_retransmission P g log p i :
  reach P g log -> (served_cnt log p i <= gRetrans P)%nat.
Proof. intros H. apply (SI_reach P g log H p i). Qed.

(* what an IWANT is answered with: only cached messages, never one the peer declared unwanted,
   never to a peer below the gossip threshold or graylisted *)
Theorem iwant_answers P g log en p ids i :
  reach P g log -> In en log -> e_op en = GRecvIWant p ids -> In (OMsg p i) (e_out en) ->
  In i ids /\ memb i (mmsgs (mc (e_pre en))) = true /\ is_unwanted (e_pre en) p i = false
  /\ gGossipThr P <= score_of (e_sc en) p /\ accept_from P (e_sc en) (e_pre en) p = true.
Proof.
  intros Hr Hin Hop Hout. destruct (reach_entries _ _ _ Hr en Hin) as [Hs _]. rewrite Hop in Hs.
  assert (Hacc : accept_from P (e_sc en) (e_pre en) p = true).
  { unfold gstep in Hs. cbn [sender_of] in Hs. destruct (accept_from P (e_sc en) (e_pre en) p); [reflexivity|].
    inversion Hs as [[E1 E2]]. rewrite <- E2 in Hout. destruct Hout. }
  destruct (gstep_iwant_full _ _ _ _ _ _ _ Hs) as [[_ E]|[g0 [sv [c (_ & Hsc & _ & E & _ & _ & _ & _ & _ & Hsv)]]]].
  - rewrite E in Hout. destruct Hout.
  - rewrite E in Hout. apply in_map_iff in Hout. destruct Hout as [j [Hj Hjs]]. inversion Hj; subst j.
    destruct (Hsv i Hjs) as (A & B & C & _). auto.
Qed.

(* ------------------------------------------------------------------------------------------ *)
(* C17: per-heartbeat bounds on what the node requests and honours *)
Fixpoint since_hb (f : entry -> nat) (log : list entry) : nat :=
  match log with
  | [] => 0%nat
  | en :: r => if is_hb (e_op en) then 0%nat else (f en + since_hb f r)%nat
  end.
Definition iwant_ids (out : list gout) : nat :=
  fold_right (fun x acc => match x with OIWant _ l => (length l + acc)%nat | _ => acc end) 0%nat out.
Definition asked_in (p : peer) (en : entry) : nat :=
  match e_op en with GRecvIHave q _ _ _ => if Nat.eqb q p then iwant_ids (e_out en) else 0%nat | _ => 0%nat end.
Definition honoured_in (p : peer) (en : entry) : nat :=
  match e_op en with
  | GRecvIHave q _ _ _ => if Nat.eqb q p then match e_out en with [] => 0%nat | _ => 1%nat end else 0%nat
  | _ => 0%nat
  end.

Definition CI (P : gparams) (g : gstate) (log : list entry) : Prop :=
  forall p, since_hb (asked_in p) log = cget p (iasked g)
            /\ (cget p (iasked g) <= gMaxIHaveLen P)%nat
            /\ (since_hb (honoured_in p) log <= cget p (peerhave g))%nat
            /\ (since_hb (honoured_in p) log <= gMaxIHaveMsgs P)%nat.

Lemma gstep_ihave P sc g p ih a pr g' out :
  gstep P sc g (GRecvIHave p ih a pr) = Some (g', out) ->
  (g' = g /\ out = []) \/
  (accept_from P sc g p = true /\ handle_ihave P sc g p ih a pr = Some (g', a)
   /\ out = match a with [] => [] | _ => [OIWant p a] end).
Proof.
  unfold gstep. cbn [sender_of ctl_without_ihave gstep0].
  destruct (accept_from P sc g p); [|intros H; inversion H; auto].
  destruct (handle_ihave P sc g p ih a pr) as [[g1 a1]|] eqn:Hh; [|discriminate].
  intros H. inversion H; subst. right.
  destruct (handle_ihave_spec _ _ _ _ _ _ _ _ _ Hh) as [-> _]. auto.
Qed.

(* operations other than IHAVE and the heartbeat leave iasked alone and never lower peerhave *)
Lemma counters_other P sc g o g' out :
  is_ihave o = false -> is_hb o = false -> gstep P sc g o = Some (g', out) ->
  iasked g' = iasked g /\ forall q, (cget q (peerhave g) <= cget q (peerhave g'))%nat.
Proof.
  intros Hi Hh H. destruct (is_iwant o) eqn:Hiw.
  - destruct (iwant_inv _ Hiw) as [p0 [ids ->]].
    destruct (gstep_iwant_full _ _ _ _ _ _ _ H) as [[-> _]|[g0 [sv [c (Hg0 & _ & -> & _)]]]]; [split; [reflexivity | intros; lia]|].
    destruct Hg0 as [->| ->]; cbn [iasked peerhave set_mc bumped]; (split; [reflexivity|]); intros q; [lia|].
    destruct (Nat.eq_dec q p0) as [->|Hq]; [rewrite cget_bump_same; lia | rewrite cget_bump_other by exact Hq; lia].
  - eapply (Q_gstep P (fun g1 => iasked g1 = iasked g /\ forall q, (cget q (peerhave g) <= cget q (peerhave g1))%nat)
                    False False (fun _ => True) (fun _ => True)); try eassumption;
      try (let F := fresh in intro F; exfalso; exact F).
    + intros g0 c HQ. exact HQ.
    + intros g0 p [E M]. split; [exact E|]. intros q. cbn. specialize (M q).
      destruct (Nat.eq_dec q p) as [->|Hq]; [rewrite cget_bump_same; lia | rewrite cget_bump_other by exact Hq; lia].
    + intros g0 p c w _ HQ. exact HQ.
    + intros g0 w HQ. exact HQ.
    + intros g0 m HQ _. exact HQ.
    + intros g0 m HQ _. exact HQ.
    + intros g0 p idws _ [E M]. destruct (handle_idontwant_frame P g0 p idws) as (_ & _ & Eph & Eia & _).
      rewrite Eph, Eia. split; assumption.
    + repeat split; try assumption; try (intros; exact I); intros E; rewrite E in *; discriminate.
    + split; [|intros q; lia]. reflexivity.
Qed.

Lemma CI_step P g log sc o g' out :
  CI P g log -> gstep P sc g o = Some (g', out) ->
  CI P g' ({| e_sc := sc; e_pre := g; e_op := o; e_out := out; e_post := g' |} :: log).
Proof.
  intros HC H. destruct (is_hb o) eqn:Hhb.
  - destruct o; try discriminate. destruct (hb_fields _ _ _ _ _ _ _ _ H) as (E1 & E2 & _).
    intros p. cbn [since_hb e_op is_hb]. rewrite E1, E2. cbn. repeat split; lia.
  - destruct (is_ihave o) eqn:Hih.
    + destruct o as [| | | | |q ih a pr| | |]; try discriminate.
      intros p. cbn [since_hb e_op is_hb asked_in honoured_in e_out].
      destruct (HC p) as (C1 & C2 & C3 & C4).
      destruct (gstep_ihave _ _ _ _ _ _ _ _ _ H) as [[-> ->]|(_ & Hh & ->)].
      * destruct (Nat.eqb q p); cbn; auto.
      * destruct (handle_ihave_spec _ _ _ _ _ _ _ _ _ Hh) as [_ [He Hne]].
        destruct a as [|x xs].
        -- assert (E : iasked g' = iasked g /\ (cget p (peerhave g) <= cget p (peerhave g'))%nat).
           { destruct (He eq_refl) as [->| ->]; [split; [reflexivity | lia]|]. cbn. split; [reflexivity|].
             destruct (Nat.eq_dec p q) as [->|Hq]; [rewrite cget_bump_same; lia | rewrite cget_bump_other by exact Hq; lia]. }
           destruct E as [E1 E2]. rewrite E1. destruct (Nat.eqb q p); cbn; repeat split; try assumption; lia.
        -- destruct Hne as (_ & Hm & Hph & Hpho & _ & _ & Hia & Hial & Hiao & _); [discriminate|].
           destruct (Nat.eqb_spec q p) as [->|Hqp].
           ++ cbn [iwant_ids fold_right]. rewrite Hia, Hph. cbn [length] in *. repeat split; try lia.
           ++ rewrite Hiao, Hpho by congruence. cbn. auto.
    + destruct (counters_other _ _ _ _ _ _ Hih Hhb H) as [E M].
      intros p. cbn [since_hb e_op]. rewrite Hhb.
      assert (Ea : asked_in p {| e_sc := sc; e_pre := g; e_op := o; e_out := out; e_post := g' |} = 0%nat)
        by (unfold asked_in; cbn [e_op]; destruct o; try reflexivity; discriminate).
      assert (Eh : honoured_in p {| e_sc := sc; e_pre := g; e_op := o; e_out := out; e_post := g' |} = 0%nat)
        by (unfold honoured_in; cbn [e_op]; destruct o; try reflexivity; discriminate).
      rewrite Ea, Eh, E. cbn [Nat.add]. destruct (HC p) as (C1 & C2 & C3 & C4). specialize (M p).
      repeat split; try assumption. lia.
Qed.

Lemma CI_reach P g log : reach P g log -> CI P g log.
Proof.
  induction 1; [|apply CI_step; assumption].
  intros p. cbn. repeat split; lia.
Qed.

(* between two heartbeats the node asks one peer for at most MaxIHaveLength ids ... *)
Theorem asked_per_heartbeat_bounded P g log p :
  reach P g log -> (since_hb (asked_in p) log <= gMaxIHaveLen P)%nat.
Proof. intros H. destruct (CI_reach P g log H p) as (C1 & C2 & _). lia. Qed.
(* ... and answers at most MaxIHaveMessages of its IHAVEs *)
Theorem ihave_honoured_per_heartbeat_bounded P g log p :
  reach P g log -> (since_hb (honoured_in p) log <= gMaxIHaveMsgs P)%nat.
Proof. intros H. apply (CI_reach P g log H p). Qed.

Lemma want_inner_from (sn : list mid) i l : forall acc,
  In i (fold_left (fun a i => if memb i sn then a else sadd i a) l acc) -> In i acc \/ In i l.
Proof.
  induction l as [|y l IHl]; intros acc H0; cbn [fold_left] in H0; [left; exact H0|].
  destruct (IHl _ H0) as [H1|H1]; [|right; right; exact H1].
  destruct (memb y sn); [left; exact H1|].
  apply In_sadd in H1. destruct H1 as [->|H1]; [right; left; reflexivity | left; exact H1].
Qed.

Lemma firstn_In_sub {A} n (l : list A) x : In x (firstn n l) -> In x l.
Proof. revert l. induction n as [|n IH]; intros [|y l] H; cbn in *; try contradiction. destruct H; [left; assumption | right; apply IH; assumption]. Qed.

(* only unseen ids are requested, never from a peer below the gossip threshold or graylisted,
   never more than advertised *)
Theorem iwant_requests P g log en p ih a pr asked :
  reach P g log -> In en log -> e_op en = GRecvIHave p ih a pr -> In (OIWant p asked) (e_out en) ->
  asked = a /\ NoDup asked
  /\ (forall i, In i asked -> memb i (seen (e_pre en)) = false /\ exists t ids, In (t, ids) ih /\ In i ids)
  /\ gGossipThr P <= score_of (e_sc en) p /\ accept_from P (e_sc en) (e_pre en) p = true.
Proof.
  intros Hr Hin Hop Hout. destruct (reach_entries _ _ _ Hr en Hin) as [Hs _]. rewrite Hop in Hs.
  destruct (gstep_ihave _ _ _ _ _ _ _ _ _ Hs) as [[_ E]|(Hacc & Hh & E)]; rewrite E in Hout; [destruct Hout|].
  destruct a as [|x xs]; [destruct Hout|]. destruct Hout as [Ho|[]]. inversion Ho; subst asked.
  destruct (handle_ihave_spec _ _ _ _ _ _ _ _ _ Hh) as [_ [_ Hne]].
  destruct Hne as (Hsc & _ & _ & _ & Hnd & Hw & _); [discriminate|].
  split; [reflexivity|]. split; [exact Hnd|]. split; [|auto].
  intros i Hi. specialize (Hw i Hi). split; [eapply ihave_want_unseen; exact Hw|].
  clear -Hw. unfold ihave_want in Hw.
  assert (G : forall acc, In i (fold_left (fun acc e =>
               match aget (fst e) (mesh (core (e_pre en))) with
               | None => acc
               | Some _ => fold_left (fun a i => if memb i (seen (e_pre en)) then a else sadd i a) (firstn (gMaxIHaveLen P) (snd e)) acc
               end) ih acc) -> In i acc \/ exists t ids, In (t, ids) ih /\ In i ids).
  { clear Hw. induction ih as [|e r IH]; intros acc H; cbn [fold_left] in H; [left; exact H|].
    destruct (IH _ H) as [Hacc|[t [ids [H1 H2]]]]; [|right; exists t, ids; split; [right; exact H1 | exact H2]].
    match type of Hacc with context [match ?x with _ => _ end] => destruct x end; [|left; exact Hacc].
    destruct (want_inner_from _ _ _ _ Hacc) as [H1|H1]; [left; exact H1|].
    right. exists (fst e), (snd e). split; [left; destruct e; reflexivity|].
    eapply firstn_In_sub. exact H1. }
  destruct (G [] Hw) as [[]|HH]. exact HH.
Qed.

(* ------------------------------------------------------------------------------------------ *)
(* C17: IDONTWANT bookkeeping: per-heartbeat cap, at most MaxIDontWantLength ids, TTL *)
Definition uttl (g : gstate) (p : peer) (i : mid) : option nat :=
  match aget p (unwanted g) with Some l => aget i l | None => None end.
Lemma is_unwanted_uttl g p i : is_unwanted g p i = match uttl g p i with Some _ => true | None => false end.
Proof. unfold is_unwanted, uttl. destruct (aget p (unwanted g)); reflexivity. Qed.

Lemma aget_fold_aset (T : nat) ids : forall (old : list (mid * nat)) i,
  aget i (fold_left (fun acc j => aset j T acc) ids old) = if memb i ids then Some T else aget i old.
Proof.
  induction ids as [|j r IH]; intros old i; [reflexivity|].
  cbn [fold_left]. rewrite IH. unfold memb. cbn [existsb]. fold (memb i r).
  destruct (memb i r); [rewrite orb_true_r; reflexivity|]. rewrite orb_false_r.
  destruct (Nat.eqb_spec i j) as [->|Hne]; [apply aget_aset_same | apply aget_aset_other; exact Hne].
Qed.
Lemma ukeys_fold_aset (T : nat) ids : forall (old : list (mid * nat)), ukeys old -> ukeys (fold_left (fun acc j => aset j T acc) ids old).
Proof. induction ids as [|j r IH]; intros old H; [exact H|]. cbn [fold_left]. apply IH. apply ukeys_aset. exact H. Qed.

Lemma idontwant_spec P g p idws :
  let g' := handle_idontwant P g p idws in
  g' = g \/
  (idws <> [] /\ (cget p (peerdontwant g) < gMaxIDWMsgs P)%nat /\ peerdontwant g' = bump p (peerdontwant g)
   /\ forall q i, uttl g' q i = if Nat.eqb q p && memb i (firstn (gMaxIDWLen P) (concat idws)) then Some (gIDWTTL P) else uttl g q i).
Proof.
  unfold handle_idontwant. destruct idws as [|x xs]; [left; reflexivity|].
  destruct (Nat.leb (gMaxIDWMsgs P) (cget p (peerdontwant g))) eqn:Hl; [left; reflexivity|].
  apply Nat.leb_gt in Hl. right. split; [discriminate|]. split; [exact Hl|]. split; [reflexivity|].
  intros q i. unfold uttl. cbn [unwanted].
  set (ids := firstn (gMaxIDWLen P) (concat (x :: xs))).
  destruct ids as [|y ys] eqn:Hids.
  - unfold memb. cbn [existsb]. rewrite andb_false_r. reflexivity.
  - rewrite <- Hids. destruct (Nat.eqb_spec q p) as [->|Hq]; cbn [andb].
    + rewrite aget_aset_same, aget_fold_aset. destruct (memb i ids); [reflexivity|].
      destruct (aget p (unwanted g)); reflexivity.
    + rewrite aget_aset_other by exact Hq. reflexivity.
Qed.

(* the per-peer counter never exceeds MaxIDontWantMessages; it is the number of IDONTWANTs honoured
   since the last heartbeat, which resets it (hb_fields) *)
Definition DI (P : gparams) (g : gstate) : Prop := forall p, (cget p (peerdontwant g) <= gMaxIDWMsgs P)%nat.

Lemma DI_step P sc g o g' out : DI P g -> gstep P sc g o = Some (g', out) -> DI P g'.
Proof.
  intros HD H. destruct (is_iwant o) eqn:Hiw.
  - destruct (iwant_inv _ Hiw) as [p0 [ids ->]].
    destruct (gstep_iwant_full _ _ _ _ _ _ _ H) as [[-> _]|[g0 [sv [c (Hg0 & _ & -> & _)]]]]; [exact HD|].
    destruct Hg0 as [->| ->]; exact HD.
  - eapply (Q_gstep P (DI P) True True (fun _ => True) (fun _ => True)); try eassumption.
    + intros. assumption.
    + intros. assumption.
    + intros. assumption.
    + intros. assumption.
    + intros. assumption.
    + intros. assumption.
    + intros _ sc0 g0 p ih a pr g1 a1 HD0 Hh.
      destruct (handle_ihave_spec _ _ _ _ _ _ _ _ _ Hh) as [-> [He Hne]].
      destruct a as [|x xs].
      * destruct (He eq_refl) as [->| ->]; exact HD0.
      * destruct Hne as (_ & _ & _ & _ & _ & _ & _ & _ & _ & _ & _ & _ & _ & Epd & _); [discriminate|].
        intros q. rewrite Epd. apply HD0.
    + intros g0 p idws _ HD0. destruct (idontwant_spec P g0 p idws) as [->|(_ & Hlt & Epd & _)]; [exact HD0|].
      intros q. rewrite Epd. destruct (Nat.eq_dec q p) as [->|Hq]; [rewrite cget_bump_same; lia | rewrite cget_bump_other by exact Hq; apply HD0].
    + intros _ g0 HD0 q. cbn. lia.
    + intros _ g0 HD0. exact HD0.
    + intros _ g0 HD0. exact HD0.
    + apply covered_all; auto.
Qed.

Theorem idontwant_counter_bounded P g log : reach P g log -> DI P g.
Proof. induction 1; [intros p; cbn; lia | eapply DI_step; eassumption]. Qed.

(* key uniqueness of the unwanted maps (so that lookups commute with the heartbeat's sweep) *)
Definition UK (g : gstate) : Prop := ukeys (unwanted g) /\ forall p l, aget p (unwanted g) = Some l -> ukeys l.

Lemma aget_adel_other {V} p q (l : list (nat * V)) : p <> q -> aget p (adel q l) = aget p l.
Proof.
  intros Hne. unfold adel. induction l as [|[j v] l IH]; cbn; [reflexivity|].
  destruct (Nat.eqb_spec q j) as [->|Hqj]; cbn.
  - destruct (Nat.eqb_spec p j); [contradiction | exact IH].
  - destruct (Nat.eqb p j); [reflexivity | exact IH].
Qed.

Definition dec_ttl (l : list (mid * nat)) : list (mid * nat) :=
  filter (fun it => Nat.ltb 0 (snd it)) (map (fun it => (fst it, pred (snd it))) l).
Lemma unwanted_clear g :
  unwanted (clear_counters g)
  = filter (fun e => match snd e with [] => false | _ => true end) (map (fun e => (fst e, dec_ttl (snd e))) (unwanted g)).
Proof. reflexivity. Qed.

Lemma UK_clear g : UK g -> UK (clear_counters g).
Proof.
  intros [U1 U2]. unfold UK. rewrite unwanted_clear.
  assert (Um : ukeys (map (fun e => (fst e, dec_ttl (snd e))) (unwanted g))) by (unfold ukeys; rewrite keys_map_vals; exact U1).
  split; [apply ukeys_filter; exact Um|].
  intros p l Hl. rewrite aget_filter_uk in Hl by exact Um. rewrite aget_map_vals in Hl.
  destruct (aget p (unwanted g)) as [l0|] eqn:E; cbn [option_map] in Hl; [|discriminate].
  cbn [snd] in Hl. destruct (dec_ttl l0) eqn:Ef; [discriminate|]. inversion Hl; subst l. rewrite <- Ef.
  unfold dec_ttl. apply ukeys_filter. unfold ukeys. rewrite keys_map_vals. apply (U2 p l0 E).
Qed.

Lemma uttl_clear g p i : UK g ->
  uttl (clear_counters g) p i = match uttl g p i with Some n => if Nat.ltb 1 n then Some (pred n) else None | None => None end.
Proof.
  intros [U1 U2]. unfold uttl. rewrite unwanted_clear.
  assert (Um : ukeys (map (fun e => (fst e, dec_ttl (snd e))) (unwanted g))) by (unfold ukeys; rewrite keys_map_vals; exact U1).
  rewrite aget_filter_uk by exact Um. rewrite aget_map_vals.
  destruct (aget p (unwanted g)) as [l0|] eqn:E; cbn [option_map]; [|reflexivity].
  assert (A : aget i (dec_ttl l0) = match aget i l0 with Some n => if Nat.ltb 1 n then Some (pred n) else None | None => None end).
  { unfold dec_ttl. rewrite aget_filter_uk by (unfold ukeys; rewrite keys_map_vals; apply (U2 p l0 E)).
    rewrite aget_map_vals. destruct (aget i l0) as [n|]; cbn; [|reflexivity].
    destruct n as [|[|n]]; reflexivity. }
  cbn [snd]. destruct (dec_ttl l0) eqn:Ef; rewrite <- A; reflexivity.
Qed.

Lemma UK_idontwant P g p idws : UK g -> UK (handle_idontwant P g p idws).
Proof.
  intros [U1 U2]. unfold handle_idontwant. destruct idws as [|x xs]; [split; assumption|].
  destruct (Nat.leb _ _); [split; assumption|]. unfold UK. cbn [unwanted].
  destruct (firstn (gMaxIDWLen P) (concat (x :: xs))) as [|y ys] eqn:Hids; [split; assumption|]. rewrite <- Hids.
  split; [apply ukeys_aset; exact U1|].
  intros q l Hl. destruct (Nat.eq_dec q p) as [->|Hq].
  - rewrite aget_aset_same in Hl. inversion Hl; subst l. apply ukeys_fold_aset.
    destruct (aget p (unwanted g)) as [l0|] eqn:E; [apply (U2 p l0 E) | constructor].
  - rewrite aget_aset_other in Hl by exact Hq. apply (U2 q l Hl).
Qed.

Lemma UK_step P sc g o g' out : UK g -> gstep P sc g o = Some (g', out) -> UK g'.
Proof.
  intros HU H. destruct (is_iwant o) eqn:Hiw.
  - destruct (iwant_inv _ Hiw) as [p0 [ids ->]].
    destruct (gstep_iwant_full _ _ _ _ _ _ _ H) as [[-> _]|[g0 [sv [c (Hg0 & _ & -> & _)]]]]; [exact HU|].
    destruct Hg0 as [->| ->]; exact HU.
  - eapply (Q_gstep P UK True True (fun _ => True) (fun _ => True)); try eassumption.
    + intros. assumption.
    + intros. assumption.
    + intros g0 p c w _ [U1 U2]. unfold UK. cbn [unwanted set_unw]. split; [apply ukeys_filter; exact U1|].
      intros q l Hl. unfold adel in Hl. rewrite aget_filter_uk in Hl by exact U1.
      destruct (aget q (unwanted g0)) as [l0|] eqn:E; [|discriminate].
      destruct (negb _); [|discriminate]. inversion Hl; subst. apply (U2 q l E).
    + intros. assumption.
    + intros. assumption.
    + intros. assumption.
    + intros _ sc0 g0 p ih a pr g1 a1 HU0 Hh.
      destruct (handle_ihave_spec _ _ _ _ _ _ _ _ _ Hh) as [-> [He Hne]].
      destruct a as [|x xs].
      * destruct (He eq_refl) as [->| ->]; exact HU0.
      * destruct Hne as (_ & _ & _ & _ & _ & _ & _ & _ & _ & _ & _ & _ & Eun & _); [discriminate|].
        unfold UK. rewrite Eun. exact HU0.
    + intros g0 p idws _ HU0. apply UK_idontwant. exact HU0.
    + intros _ g0 HU0. apply UK_clear. exact HU0.
    + intros _ g0 HU0. exact HU0.
    + intros _ g0 HU0. exact HU0.
    + apply covered_all; auto.
Qed.

Lemma UK_reach P g log : reach P g log -> UK g.
Proof. induction 1; [split; [constructor | intros p l H; discriminate] | eapply UK_step; eassumption]. Qed.

(* operations that do not touch peer p's unwanted set *)
Definition quiet_for (p : peer) (o : gop) : bool :=
  match o with
  | GRecvIDontWant q _ => negb (Nat.eqb q p)
  | GCore (ODisconnect q) => negb (Nat.eqb q p)
  | _ => true
  end.

Lemma uttl_frame P sc g o g' out p i :
  quiet_for p o = true -> is_hb o = false -> gstep P sc g o = Some (g', out) -> uttl g' p i = uttl g p i.
Proof.
  intros Hq Hh H. destruct (is_iwant o) eqn:Hiw.
  - destruct (iwant_inv _ Hiw) as [p0 [ids ->]].
    destruct (gstep_iwant_full _ _ _ _ _ _ _ H) as [[-> _]|[g0 [sv [c (Hg0 & _ & -> & _)]]]]; [reflexivity|].
    destruct Hg0 as [->| ->]; reflexivity.
  - eapply (Q_gstep P (fun g1 => uttl g1 p i = uttl g p i) True False (fun q => q <> p) (fun q => q <> p)); try eassumption;
      try (let F := fresh in intro F; exfalso; exact F).
    + intros g0 c HQ. exact HQ.
    + intros g0 q HQ. exact HQ.
    + intros g0 q c w Hne HQ. rewrite <- HQ. unfold uttl. cbn [unwanted set_unw]. rewrite aget_adel_other by congruence. reflexivity.
    + intros g0 w HQ. exact HQ.
    + intros g0 m HQ _. exact HQ.
    + intros g0 m HQ _. exact HQ.
    + intros _ sc0 g0 q ih a pr g1 a1 HQ Hh0.
      destruct (handle_ihave_spec _ _ _ _ _ _ _ _ _ Hh0) as [-> [He Hne]].
      destruct a as [|x xs].
      * destruct (He eq_refl) as [->| ->]; exact HQ.
      * destruct Hne as (_ & _ & _ & _ & _ & _ & _ & _ & _ & _ & _ & _ & Eun & _); [discriminate|].
        rewrite <- HQ. unfold uttl. rewrite Eun. reflexivity.
    + intros g0 q idws Hne HQ. destruct (idontwant_spec P g0 q idws) as [->|(_ & _ & _ & Hu)]; [exact HQ|].
      rewrite Hu. destruct (Nat.eqb_spec p q); [congruence | exact HQ].
    + repeat split; try assumption; try (intros; exact I).
      * intros E. rewrite E in Hh. discriminate.
      * intros q E. subst o. cbn in Hq. apply negb_true_iff, Nat.eqb_neq in Hq. exact Hq.
      * intros q idws E. subst o. cbn in Hq. apply negb_true_iff, Nat.eqb_neq in Hq. exact Hq.
    + reflexivity.
Qed.

Definition hbs (l : list (list (peer * Z) * gop)) : nat := length (filter (fun e => is_hb (snd e)) l).

Lemma uttl_none_stays P p i l : forall g g' out,
  UK g -> uttl g p i = None -> forallb (fun e => quiet_for p (snd e)) l = true ->
  grun P g l = Some (g', out) -> uttl g' p i = None.
Proof.
  induction l as [|[sc o] l IH]; intros g g' out HU Hn Hq Hr; cbn [grun] in Hr.
  - inversion Hr; subst. exact Hn.
  - cbn [forallb snd] in Hq. apply andb_true_iff in Hq. destruct Hq as [Hq1 Hq2].
    destruct (gstep P sc g o) as [[g1 o1]|] eqn:Hs; [|discriminate].
    destruct (grun P g1 l) as [[g2 o2]|] eqn:Hr2; [|discriminate]. inversion Hr; subst g' out.
    eapply IH; [eapply UK_step; eassumption | | exact Hq2 | exact Hr2].
    destruct (is_hb o) eqn:Hh.
    + destruct o; try discriminate. destruct (hb_fields _ _ _ _ _ _ _ _ Hs) as (_ & _ & _ & _ & _ & _ & Eu & _).
      unfold uttl. rewrite Eu. fold (uttl (clear_counters g) p i). rewrite uttl_clear by exact HU. rewrite Hn. reflexivity.
    + rewrite (uttl_frame _ _ _ _ _ _ p i Hq1 Hh Hs). exact Hn.
Qed.

(* An IDONTWANT entry with n heartbeats to live is honoured for exactly n more heartbeats, whatever
   else happens meanwhile (as long as the peer neither renews it nor disconnects). *)
Theorem idontwant_ttl P p i l : forall g g' out n,
  UK g -> uttl g p i = Some n -> (1 <= n)%nat -> forallb (fun e => quiet_for p (snd e)) l = true ->
  grun P g l = Some (g', out) ->
  uttl g' p i = if Nat.ltb (hbs l) n then Some (n - hbs l)%nat else None.
Proof.
  induction l as [|[sc o] l IH]; intros g g' out n HU Hn Hpos Hq Hr; cbn [grun] in Hr.
  - inversion Hr; subst. unfold hbs. cbn [filter length]. rewrite Nat.sub_0_r. destruct n; [lia|]. exact Hn.
  - cbn [forallb snd] in Hq. apply andb_true_iff in Hq. destruct Hq as [Hq1 Hq2].
    destruct (gstep P sc g o) as [[g1 o1]|] eqn:Hs; [|discriminate].
    destruct (grun P g1 l) as [[g2 o2]|] eqn:Hr2; [|discriminate]. inversion Hr; subst g' out.
    assert (HU1 : UK g1) by (eapply UK_step; eassumption).
    unfold hbs. cbn [filter snd]. fold (hbs l).
    destruct (is_hb o) eqn:Hh.
    + cbn [length]. fold (hbs l).
      destruct o; try discriminate. destruct (hb_fields _ _ _ _ _ _ _ _ Hs) as (_ & _ & _ & _ & _ & _ & Eu & _).
      assert (E1 : uttl g1 p i = if Nat.ltb 1 n then Some (pred n) else None).
      { unfold uttl. rewrite Eu. fold (uttl (clear_counters g) p i). rewrite uttl_clear by exact HU. rewrite Hn. reflexivity. }
      destruct (Nat.ltb_spec 1 n) as [H1|H1].
      * rewrite (IH _ _ _ (pred n) HU1 E1 ltac:(lia) Hq2 Hr2).
        replace (Nat.ltb (S (hbs l)) n) with (Nat.ltb (hbs l) (pred n)).
        -- replace (n - S (hbs l))%nat with (pred n - hbs l)%nat by lia. reflexivity.
        -- destruct (Nat.ltb_spec (hbs l) (pred n)), (Nat.ltb_spec (S (hbs l)) n); try reflexivity; lia.
      * rewrite (uttl_none_stays _ _ _ _ _ _ _ HU1 E1 Hq2 Hr2).
        destruct (Nat.ltb_spec (S (hbs l)) n); [lia | reflexivity].
    + apply (IH g1 g2 o2 n HU1); try assumption.
      rewrite (uttl_frame _ _ _ _ _ _ p i Hq1 Hh Hs). exact Hn.
Qed.

(* ------------------------------------------------------------------------------------------ *)
(* C17: IDONTWANT is only sent for large messages, to v1.2+ mesh peers, never to the sender *)
Theorem idontwant_sent_spec P g from msgs q t ids :
  In (q, t, ids) (idontwant_targets P g from msgs) ->
  q <> from /\ memb q (idw_peers g) = true /\ In q (aget_l t (mesh (core g))) /\ has_queue g q = true
  /\ ids <> []
  /\ forall i, In i ids -> exists m, In m msgs /\ m_id m = i /\ m_topic m = t /\ (gIDWThr P <= m_size m)%nat.
Proof.
  unfold idontwant_targets. intros H. apply in_concat in H. destruct H as [l [Hl Hin]].
  apply in_map_iff in Hl. destruct Hl as [t0 [<- _]].
  destruct (map m_id (filter (fun m => Nat.eqb t0 (m_topic m) && Nat.leb (gIDWThr P) (m_size m)) msgs)) as [|y ys] eqn:Hids; [destruct Hin|].
  apply in_map_iff in Hin. destruct Hin as [q0 [E Hq]]. inversion E; subst q0 t0 ids. clear E.
  apply filter_In in Hq. destruct Hq as [Hqm Hc].
  apply andb_true_iff in Hc. destruct Hc as [Hc Hhq]. apply andb_true_iff in Hc. destruct Hc as [Hne Hidw].
  apply negb_true_iff, Nat.eqb_neq in Hne.
  repeat split; try assumption; [discriminate|].
  intros i Hi. rewrite <- Hids in Hi. apply in_map_iff in Hi. destruct Hi as [m [<- Hm]].
  apply filter_In in Hm. destruct Hm as [Hm Hc]. apply andb_true_iff in Hc. destruct Hc as [Ht Hsz].
  apply Nat.eqb_eq in Ht. apply Nat.leb_le in Hsz. exists m. auto.
Qed.

(* ------------------------------------------------------------------------------------------ *)
(* C17 / C09: who is sent IHAVE and what it may contain *)
Theorem gossip_ok_spec P sc g t excl obs q ids :
  gossip_ok P sc g t excl obs = true -> In (q, ids) obs ->
  In q (aget_l t (tmap (core g))) /\ ~ In q excl /\ ~ In q (direct (core g)) /\ speaks_mesh (core g) q = true
  /\ gGossipThr P <= score_of sc q
  /\ (length ids <= gMaxIHaveLen P)%nat
  /\ forall i, In i ids -> In i (mc_gossip_ids (mc g) (gHistGossip P) t).
Proof.
  unfold gossip_ok. intros H Hin.
  destruct (mc_gossip_ids (mc g) (gHistGossip P) t) as [|y ys] eqn:Hids; [destruct obs; [destruct Hin | discriminate]|].
  apply andb_true_iff in H. destruct H as [H Hall]. apply andb_true_iff in H. destruct H as [H _].
  apply andb_true_iff in H. destruct H as [_ Hsub].
  rewrite forallb_forall in Hall. specialize (Hall _ Hin). cbn [snd] in Hall.
  apply andb_true_iff in Hall. destruct Hall as [Hall Hlen]. apply andb_true_iff in Hall. destruct Hall as [_ Hs].
  assert (Hq : In q (map fst obs)) by (apply in_map_iff; exists (q, ids); auto).
  apply (RouterProofs.subset_In _ _ _ Hsub) in Hq. apply filter_In in Hq. destruct Hq as [Hqt Hc].
  apply andb_true_iff in Hc. destruct Hc as [Hc Hscore]. apply andb_true_iff in Hc. destruct Hc as [Hc Hsm].
  apply andb_true_iff in Hc. destruct Hc as [Hex Hdir].
  apply negb_true_iff in Hex, Hdir. apply Z.leb_le in Hscore. apply Nat.eqb_eq in Hlen.
  repeat split; try assumption.
  - apply memb_false_In. exact Hex.
  - apply memb_false_In. exact Hdir.
  - etransitivity; [apply Nat.eq_le_incl; exact Hlen | apply Nat.le_min_r].
  - intros i Hi. eapply RouterProofs.subset_In; eassumption.
Qed.

Lemma aget_Some_In {V} k (v : V) l : aget k l = Some v -> In (k, v) l.
Proof.
  induction l as [|[j w] l IH]; cbn; [discriminate|].
  destruct (Nat.eqb_spec k j) as [->|Hne]; intros H; [inversion H; left; reflexivity | right; apply IH; exact H].
Qed.
Lemma In_aget_nodup {V} k (v : V) l : nodup_b (map fst l) = true -> In (k, v) l -> aget k l = Some v.
Proof.
  induction l as [|[j w] l IH]; cbn [map fst nodup_b aget]; intros Hnd Hin; [destruct Hin|].
  apply andb_true_iff in Hnd. destruct Hnd as [Hj Hnd]. apply negb_true_iff in Hj.
  destruct Hin as [E|Hin].
  - inversion E; subst. rewrite Nat.eqb_refl. reflexivity.
  - destruct (Nat.eqb_spec k j) as [->|Hne]; [|apply IH; assumption].
    exfalso. apply memb_false_In in Hj. apply Hj. apply in_map_iff. exists (j, v). auto.
Qed.

Theorem ihave_emission P sc g obs fobs gobs g' out q t ids :
  gstep P sc g (GHeartbeat obs fobs gobs) = Some (g', out) -> In (OIHave q t ids) out ->
  exists c excl,
    core g' = c
    /\ (aget t (mesh c) = Some excl \/ (aget t (mesh c) = None /\ aget t (fanout c) = Some excl))
    /\ In q (aget_l t (tmap c)) /\ ~ In q excl /\ ~ In q (direct c) /\ speaks_mesh c q = true
    /\ gGossipThr P <= score_of sc q
    /\ (length ids <= gMaxIHaveLen P)%nat
    /\ forall i, In i ids -> In i (mc_gossip_ids (mc g) (gHistGossip P) t).
Proof.
  intros H Hin. destruct (hb_frame _ _ _ _ _ _ _ _ H) as [c [ctls (_ & -> & -> & Hok & Htop & Hnd)]].
  apply in_app_or in Hin. destruct Hin as [Hin|Hin].
  { apply in_map_iff in Hin. destruct Hin as [x [E _]]. discriminate. }
  apply in_app_or in Hin. destruct Hin as [Hin|Hin].
  { apply in_map_iff in Hin. destruct Hin as [x [E _]]. discriminate. }
  apply in_concat in Hin. destruct Hin as [l [Hl Hin]].
  apply in_map_iff in Hl. destruct Hl as [[t0 pes] [<- He]]. cbn [fst snd] in Hin.
  apply in_map_iff in Hin. destruct Hin as [[q0 ids0] [E Hpe]]. cbn [fst snd] in E. inversion E; subst q0 t0 ids0. clear E.
  assert (Hg : aget t gobs = Some pes) by (apply In_aget_nodup; assumption).
  rewrite forallb_forall in Htop. specialize (Htop _ He). cbn [fst] in Htop.
  rewrite forallb_forall in Hok.
  set (g2 := set_core (drop_broken (clear_counters g)) c) in *.
  assert (Hspec : forall excl, In (t, excl) (map (fun e => (fst e, snd e)) (mesh c) ++ map (fun e => (fst e, snd e)) (fanout c)) ->
            In q (aget_l t (tmap c)) /\ ~ In q excl /\ ~ In q (direct c) /\ speaks_mesh c q = true
            /\ gGossipThr P <= score_of sc q /\ (length ids <= gMaxIHaveLen P)%nat
            /\ forall i, In i ids -> In i (mc_gossip_ids (mc g) (gHistGossip P) t)).
  { intros excl Hex. specialize (Hok _ Hex). cbn [fst snd] in Hok. rewrite Hg in Hok.
    apply (gossip_ok_spec P sc g2 t excl pes q ids Hok Hpe). }
  exists c. destruct (aget t (mesh c)) as [excl|] eqn:Em.
  - exists excl. split; [reflexivity|]. split; [left; reflexivity|]. apply Hspec.
    apply in_or_app. left. apply in_map_iff. exists (t, excl). split; [reflexivity|]. apply aget_Some_In. exact Em.
  - destruct (aget t (fanout c)) as [excl|] eqn:Ef; [|discriminate].
    exists excl. split; [reflexivity|]. split; [right; split; reflexivity|]. apply Hspec.
    apply in_or_app. right. apply in_map_iff. exists (t, excl). split; [reflexivity|]. apply aget_Some_In. exact Ef.
Qed.

(* ------------------------------------------------------------------------------------------ *)
(* C17: promise penalties *)
Lemma dedup_In x l : In x (dedup l) -> In x l.
Proof.
  induction l as [|y l IH]; cbn; [auto|]. intros [->|H]; [left; reflexivity|].
  apply filter_In in H. right. apply IH. apply H.
Qed.
Lemma count_peer_broken p (f : (mid * peer) * Z -> bool) l :
  count_peer p (map (fun e => snd (fst e)) (filter f l))
  = length (filter (fun e => f e && Nat.eqb p (snd (fst e))) l).
Proof.
  unfold count_peer. induction l as [|e l IH]; [reflexivity|]. cbn [filter].
  destruct (f e); cbn [map filter andb]; [|exact IH].
  destruct (Nat.eqb p (snd (fst e))); cbn [length]; rewrite IH; reflexivity.
Qed.

Lemma In_length_pos {A} (x : A) l : In x l -> (0 < length l)%nat.
Proof. destruct l; [intros [] | cbn; lia]. Qed.

(* every outstanding promise was created by an IWANT this node really sent to that peer for that id,
   and expires follow-up time after the request *)
Definition PI (P : gparams) (g : gstate) (log : list entry) : Prop :=
  forall i p e, In ((i, p), e) (promises g) ->
    exists en ih a pr, In en log /\ e_op en = GRecvIHave p ih a pr /\ In (OIWant p a) (e_out en) /\ In i a
                       /\ e = now (core (e_pre en)) + gFollowup P.

Lemma promises_shrink P sc g o g' out :
  is_ihave o = false -> gstep P sc g o = Some (g', out) -> incl (promises g') (promises g).
Proof.
  intros Hi H. destruct (is_iwant o) eqn:Hiw.
  - destruct (iwant_inv _ Hiw) as [p0 [ids ->]].
    destruct (gstep_iwant_full _ _ _ _ _ _ _ H) as [[-> _]|[g0 [sv [c (Hg0 & _ & -> & _)]]]]; [apply incl_refl|].
    destruct Hg0 as [->| ->]; apply incl_refl.
  - eapply (Q_gstep P (fun g1 => incl (promises g1) (promises g)) False True (fun _ => True) (fun _ => True)); try eassumption;
      try (let F := fresh in intro F; exfalso; exact F).
    + intros g0 c HQ. exact HQ.
    + intros g0 p HQ. exact HQ.
    + intros g0 p c w _ HQ. exact HQ.
    + intros g0 w HQ. exact HQ.
    + intros g0 m HQ _ x Hx. cbn in Hx. apply filter_In in Hx. apply HQ. apply Hx.
    + intros g0 m HQ _ x Hx. cbn in Hx. apply filter_In in Hx. apply HQ. apply Hx.
    + intros g0 p idws _ HQ. destruct (handle_idontwant_frame P g0 p idws) as (_ & _ & _ & _ & Epr & _). rewrite Epr. exact HQ.
    + intros _ g0 HQ. exact HQ.
    + intros _ g0 HQ x Hx. cbn in Hx. apply filter_In in Hx. apply HQ. apply Hx.
    + intros _ g0 HQ. exact HQ.
    + repeat split; try assumption; try (intros; exact I). intros E. rewrite E in Hi. discriminate.
    + apply incl_refl.
Qed.

Lemma PI_reach P g log : reach P g log -> PI P g log.
Proof.
  induction 1 as [|g log sc o g' out Hr IH Hs]; [intros i p e []|].
  intros i p e Hin. destruct (is_ihave o) eqn:Hih.
  - destruct o as [| | | | |q ih a pr| | |]; try discriminate.
    destruct (gstep_ihave _ _ _ _ _ _ _ _ _ Hs) as [[-> ->]|(_ & Hh & ->)].
    + destruct (IH _ _ _ Hin) as [en [ih0 [a0 [pr0 (A & B)]]]]. exists en, ih0, a0, pr0. split; [right; exact A | exact B].
    + destruct (handle_ihave_spec _ _ _ _ _ _ _ _ _ Hh) as [_ [He Hne]].
      destruct a as [|x xs].
      * assert (Epr : promises g' = promises g) by (destruct (He eq_refl) as [->| ->]; reflexivity).
        rewrite Epr in Hin. destruct (IH _ _ _ Hin) as [en [ih0 [a0 [pr0 (A & B)]]]]. exists en, ih0, a0, pr0. split; [right; exact A | exact B].
      * destruct Hne as (_ & _ & _ & _ & _ & _ & _ & _ & _ & _ & _ & _ & _ & _ & _ & Hpr); [discriminate|].
        destruct (Hpr _ _ _ Hin) as [Hold|(-> & Hia & ->)].
        -- destruct (IH _ _ _ Hold) as [en [ih0 [a0 [pr0 (A & B)]]]]. exists en, ih0, a0, pr0. split; [right; exact A | exact B].
        -- eexists _, ih, (x :: xs), pr. split; [left; reflexivity|]. cbn [e_op e_out e_pre]. repeat split; auto. left. reflexivity.
  - apply (promises_shrink _ _ _ _ _ _ Hih Hs) in Hin.
    destruct (IH _ _ _ Hin) as [en [ih0 [a0 [pr0 (A & B)]]]]. exists en, ih0, a0, pr0. split; [right; exact A | exact B].
Qed.

(* A peer is penalised at a heartbeat only for promises that are past their follow-up deadline while
   the promised message has still not arrived from anyone, and the penalty counts exactly those. *)
Theorem penalty_only_if_never_arrived P g log sc obs fobs gobs g' out p n :
  reach P g log -> gstep P sc g (GHeartbeat obs fobs gobs) = Some (g', out) -> In (OPenalty p n) out ->
  n = length (filter (fun e => (snd e <? now (core g)) && Nat.eqb p (snd (fst e))) (promises g))
  /\ (0 < n)%nat
  /\ forall i e, In ((i, p), e) (promises g) ->
       memb i (seen g) = false
       /\ exists en ih a pr, In en log /\ e_op en = GRecvIHave p ih a pr /\ In (OIWant p a) (e_out en) /\ In i a
                             /\ e = now (core (e_pre en)) + gFollowup P.
Proof.
  intros Hr H Hin. destruct (hb_frame _ _ _ _ _ _ _ _ H) as [c [ctls (_ & _ & -> & _)]].
  apply in_app_or in Hin. destruct Hin as [Hin|Hin].
  2:{ apply in_app_or in Hin. destruct Hin as [Hin|Hin].
      - apply in_map_iff in Hin. destruct Hin as [x [E _]]. discriminate.
      - apply in_concat in Hin. destruct Hin as [l [Hl Hin]]. apply in_map_iff in Hl. destruct Hl as [e0 [<- _]].
        apply in_map_iff in Hin. destruct Hin as [x [E _]]. discriminate. }
  apply in_map_iff in Hin. destruct Hin as [q [E Hq]]. inversion E; subst q n. clear E.
  apply filter_In in Hq. destruct Hq as [Hq _]. apply dedup_In in Hq.
  change (broken (clear_counters g)) with (broken g) in *. unfold broken in *.
  rewrite count_peer_broken. split; [reflexivity|]. split.
  - apply in_map_iff in Hq. destruct Hq as [e0 [Ep He0]]. apply filter_In in He0. destruct He0 as [He0 Hex].
    assert (Hin2 : In e0 (filter (fun e => (snd e <? now (core g)) && Nat.eqb p (snd (fst e))) (promises g))).
    { apply filter_In. split; [exact He0|]. cbn beta. apply andb_true_intro. split; [exact Hex|]. apply Nat.eqb_eq. symmetry. exact Ep. }
    eapply In_length_pos. exact Hin2.
  - intros i e Hp. split.
    + destruct (GI_reach _ _ _ Hr) as [Ha _]. eapply Ha. exact Hp.
    + apply (PI_reach _ _ _ Hr _ _ _ Hp).
Qed.

(* ------------------------------------------------------------------------------------------ *)
(* C17: the cache windows along router histories: a message the node publishes or forwards stays
   retrievable for exactly HistoryLength heartbeats and is advertised for the first HistoryGossip *)
Definition G2 (P : gparams) (g : gstate) : Prop := forall i, memb i (seen g) = false -> Gone (gHistLen P) (mc g) i.

Lemma Gone_same HL c c' i : hist c' = hist c -> mmsgs c' = mmsgs c -> Gone HL c i -> Gone HL c' i.
Proof. unfold Gone, slot. intros -> ->. auto. Qed.
Lemma At_same HL c c' i t k : hist c' = hist c -> mmsgs c' = mmsgs c -> At HL c i t k -> At HL c' i t k.
Proof. unfold At, slot. intros -> ->. auto. Qed.

Lemma G2_step P sc g o g' out : G2 P g -> gstep P sc g o = Some (g', out) -> G2 P g'.
Proof.
  intros HG H. destruct (is_iwant o) eqn:Hiw.
  - destruct (iwant_inv _ Hiw) as [p0 [ids ->]].
    destruct (gstep_iwant_full _ _ _ _ _ _ _ H) as [[-> _]|[g0 [sv [c (Hg0 & _ & -> & _ & _ & Hh & Hm & _)]]]]; [exact HG|].
    intros i Hi. cbn [mc set_mc]. eapply Gone_same; [exact Hh | exact Hm|]. apply HG.
    destruct Hg0 as [->| ->]; exact Hi.
  - eapply (Q_gstep P (G2 P) True True (fun _ => True) (fun _ => True)); try eassumption.
    + intros. assumption.
    + intros. assumption.
    + intros. assumption.
    + intros. assumption.
    + intros g0 m HG0 _ i Hi. cbn [seen put_state mc] in *. rewrite memb_sadd in Hi. apply orb_false_iff in Hi.
      destruct Hi as [Hne Hi]. apply Nat.eqb_neq in Hne. apply Gone_put; [exact Hne | apply HG0; exact Hi].
    + intros g0 m HG0 _ i Hi. cbn [seen local_state mc] in *. rewrite memb_sadd in Hi. apply orb_false_iff in Hi. apply HG0. apply Hi.
    + intros _ sc0 g0 p ih a pr g1 a1 HG0 Hh.
      destruct (handle_ihave_spec _ _ _ _ _ _ _ _ _ Hh) as [-> [He Hne]].
      destruct a as [|x xs].
      * destruct (He eq_refl) as [->| ->]; exact HG0.
      * destruct Hne as (_ & _ & _ & _ & _ & _ & _ & _ & _ & Emc & Esn & _); [discriminate|].
        intros i. rewrite Emc, Esn. apply HG0.
    + intros g0 p idws _ HG0. destruct (handle_idontwant_frame P g0 p idws) as (_ & Emc & _ & _ & _ & Esn & _).
      intros i. rewrite Emc, Esn. apply HG0.
    + intros _ g0 HG0. exact HG0.
    + intros _ g0 HG0. exact HG0.
    + intros _ g0 HG0 i Hi. cbn [mc shift_cache]. apply Gone_shift. apply HG0. exact Hi.
    + apply covered_all; auto.
Qed.

Lemma G2_reach P g log : reach P g log -> G2 P g.
Proof. induction 1; [intros i _; apply Gone_init | eapply G2_step; eassumption]. Qed.

(* between heartbeats a cached, seen message keeps its slot *)
Lemma At_frame P sc g o g' out i t k :
  is_hb o = false -> gstep P sc g o = Some (g', out) ->
  At (gHistLen P) (mc g) i t k /\ memb i (seen g) = true ->
  At (gHistLen P) (mc g') i t k /\ memb i (seen g') = true.
Proof.
  intros Hh H HA. destruct (is_iwant o) eqn:Hiw.
  - destruct (iwant_inv _ Hiw) as [p0 [ids ->]].
    destruct (gstep_iwant_full _ _ _ _ _ _ _ H) as [[-> _]|[g0 [sv [c (Hg0 & _ & -> & _ & _ & Hhi & Hm & _)]]]]; [exact HA|].
    destruct HA as [HA Hs]. split; [eapply At_same; [exact Hhi | exact Hm | exact HA]|].
    destruct Hg0 as [->| ->]; exact Hs.
  - eapply (Q_gstep P (fun g1 => At (gHistLen P) (mc g1) i t k /\ memb i (seen g1) = true) True False (fun _ => True) (fun _ => True));
      try eassumption; try (let F := fresh in intro F; exfalso; exact F).
    + intros g0 c HQ. exact HQ.
    + intros g0 p HQ. exact HQ.
    + intros g0 p c w _ HQ. exact HQ.
    + intros g0 w HQ. exact HQ.
    + intros g0 m [HA0 Hs0] Hun. cbn [mc put_state seen]. split.
      * apply At_put; [|exact HA0]. intros E. subst. rewrite Hs0 in Hun. discriminate.
      * rewrite memb_sadd, Hs0. apply orb_true_r.
    + intros g0 m [HA0 Hs0] _. cbn [mc local_state seen]. split; [exact HA0|]. rewrite memb_sadd, Hs0. apply orb_true_r.
    + intros _ sc0 g0 p ih a pr g1 a1 HQ Hh0.
      destruct (handle_ihave_spec _ _ _ _ _ _ _ _ _ Hh0) as [-> [He Hne]].
      destruct a as [|x xs].
      * destruct (He eq_refl) as [->| ->]; exact HQ.
      * destruct Hne as (_ & _ & _ & _ & _ & _ & _ & _ & _ & Emc & Esn & _); [discriminate|]. rewrite Emc, Esn. exact HQ.
    + intros g0 p idws _ HQ. destruct (handle_idontwant_frame P g0 p idws) as (_ & Emc & _ & _ & _ & Esn & _). rewrite Emc, Esn. exact HQ.
    + repeat split; try assumption; try (intros; exact I). intros E. rewrite E in Hh. discriminate.
Qed.

(* once gone (and seen, so never put again) it stays gone *)
Lemma Gone_frame P sc g o g' out i :
  gstep P sc g o = Some (g', out) ->
  Gone (gHistLen P) (mc g) i /\ memb i (seen g) = true ->
  Gone (gHistLen P) (mc g') i /\ memb i (seen g') = true.
Proof.
  intros H HA. destruct (is_iwant o) eqn:Hiw.
  - destruct (iwant_inv _ Hiw) as [p0 [ids ->]].
    destruct (gstep_iwant_full _ _ _ _ _ _ _ H) as [[-> _]|[g0 [sv [c (Hg0 & _ & -> & _ & _ & Hhi & Hm & _)]]]]; [exact HA|].
    destruct HA as [HA Hs]. split; [eapply Gone_same; [exact Hhi | exact Hm | exact HA]|].
    destruct Hg0 as [->| ->]; exact Hs.
  - eapply (Q_gstep P (fun g1 => Gone (gHistLen P) (mc g1) i /\ memb i (seen g1) = true) True True (fun _ => True) (fun _ => True));
      try eassumption.
    + intros g0 c HQ. exact HQ.
    + intros g0 p HQ. exact HQ.
    + intros g0 p c w _ HQ. exact HQ.
    + intros g0 w HQ. exact HQ.
    + intros g0 m [HA0 Hs0] Hun. cbn [mc put_state seen]. split.
      * apply Gone_put; [|exact HA0]. intros E. subst. rewrite Hs0 in Hun. discriminate.
      * rewrite memb_sadd, Hs0. apply orb_true_r.
    + intros g0 m [HA0 Hs0] _. cbn [mc local_state seen]. split; [exact HA0|]. rewrite memb_sadd, Hs0. apply orb_true_r.
    + intros _ sc0 g0 p ih a pr g1 a1 HQ Hh0.
      destruct (handle_ihave_spec _ _ _ _ _ _ _ _ _ Hh0) as [-> [He Hne]].
      destruct a as [|x xs].
      * destruct (He eq_refl) as [->| ->]; exact HQ.
      * destruct Hne as (_ & _ & _ & _ & _ & _ & _ & _ & _ & Emc & Esn & _); [discriminate|]. rewrite Emc, Esn. exact HQ.
    + intros g0 p idws _ HQ. destruct (handle_idontwant_frame P g0 p idws) as (_ & Emc & _ & _ & _ & Esn & _). rewrite Emc, Esn. exact HQ.
    + intros _ g0 HQ. exact HQ.
    + intros _ g0 HQ. exact HQ.
    + intros _ g0 [HA0 Hs0]. split; [|exact Hs0]. cbn [mc shift_cache]. apply Gone_shift. exact HA0.
    + apply covered_all; auto.
Qed.

Lemma Gone_run P i l : forall g g' out,
  Gone (gHistLen P) (mc g) i /\ memb i (seen g) = true -> grun P g l = Some (g', out) ->
  Gone (gHistLen P) (mc g') i /\ memb i (seen g') = true.
Proof.
  induction l as [|[sc o] l IH]; intros g g' out HA Hr; cbn [grun] in Hr.
  - inversion Hr; subst. exact HA.
  - destruct (gstep P sc g o) as [[g1 o1]|] eqn:Hs; [|discriminate].
    destruct (grun P g1 l) as [[g2 o2]|] eqn:Hr2; [|discriminate]. inversion Hr; subst g' out.
    eapply IH; [|exact Hr2]. eapply Gone_frame; eassumption.
Qed.

Lemma window_grun P i t l : forall g g' out k,
  At (gHistLen P) (mc g) i t k /\ memb i (seen g) = true -> grun P g l = Some (g', out) ->
  (k + hbs l < gHistLen P -> At (gHistLen P) (mc g') i t (k + hbs l))%nat
  /\ (gHistLen P <= k + hbs l -> Gone (gHistLen P) (mc g') i)%nat.
Proof.
  induction l as [|[sc o] l IH]; intros g g' out k HA Hr; cbn [grun] in Hr.
  - inversion Hr; subst. unfold hbs. cbn [filter length]. rewrite Nat.add_0_r. split; [intros _; apply HA|].
    intros Hge. destruct HA as [(_ & Hk & _) _]. lia.
  - destruct (gstep P sc g o) as [[g1 o1]|] eqn:Hs; [|discriminate].
    destruct (grun P g1 l) as [[g2 o2]|] eqn:Hr2; [|discriminate]. inversion Hr; subst g' out.
    unfold hbs. cbn [filter snd]. fold (hbs l). destruct (is_hb o) eqn:Hh.
    + cbn [length]. fold (hbs l). destruct o; try discriminate.
      destruct (hb_fields _ _ _ _ _ _ _ _ Hs) as (_ & _ & _ & Emc & Esn & _).
      destruct HA as [HA Hsn]. assert (HAl := HA). destruct HAl as (_ & Hk & _).
      destruct (Nat.eq_dec (S k) (gHistLen P)) as [He|Hn].
      * assert (HG : Gone (gHistLen P) (mc g1) i /\ memb i (seen g1) = true).
        { rewrite Emc, Esn. split; [eapply At_shift_old; eassumption | exact Hsn]. }
        split; [intros; lia|]. intros _. apply (Gone_run P i l _ _ _ HG Hr2).
      * assert (HA' : At (gHistLen P) (mc g1) i t (S k) /\ memb i (seen g1) = true).
        { rewrite Emc, Esn. split; [apply At_shift_young; [lia | exact HA] | exact Hsn]. }
        destruct (IH _ _ _ _ HA' Hr2) as [I1 I2].
        replace (k + S (hbs l))%nat with (S k + hbs l)%nat by lia. split; assumption.
    + eapply IH; [|exact Hr2]. eapply At_frame; eassumption.
Qed.

Lemma publish_establishes P sc g m ch g' r :
  (0 < gHistLen P)%nat -> G2 P g -> memb (m_id m) (seen g) = false -> publish P sc g m ch = Some (g', r) ->
  At (gHistLen P) (mc g') (m_id m) (m_topic m) 0 /\ memb (m_id m) (seen g') = true.
Proof.
  intros Hpos HG Hun Hp. destruct (publish_frame _ _ _ _ _ _ _ Hp) as [c ->]. cbn [mc set_core put_state seen]. split.
  - apply put_fresh; [exact Hpos | apply HG; exact Hun].
  - rewrite memb_sadd, Nat.eqb_refl. reflexivity.
Qed.

Theorem published_message_window P g0 log sc0 m ch g out0 l g' out p :
  (0 < gHistLen P)%nat -> (gHistGossip P <= gHistLen P)%nat ->
  reach P g0 log -> memb (m_id m) (seen g0) = false ->
  gstep P sc0 g0 (GPublish m ch) = Some (g, out0) ->
  grun P g l = Some (g', out) ->
  (retrievable (mc g') (m_id m) p = true <-> hbs l < gHistLen P)%nat
  /\ (In (m_id m) (mc_gossip_ids (mc g') (gHistGossip P) (m_topic m)) <-> hbs l < gHistGossip P)%nat.
Proof.
  intros Hpos Hle Hr Hun Hs Hrun.
  assert (HA : At (gHistLen P) (mc g) (m_id m) (m_topic m) 0 /\ memb (m_id m) (seen g) = true).
  { unfold gstep in Hs. cbn [sender_of gstep0] in Hs. rewrite Hun in Hs.
    destruct (publish P sc0 g0 m ch) as [[g1 rs]|] eqn:Hp; [|discriminate]. inversion Hs; subst g1 out0.
    eapply publish_establishes; try eassumption. eapply G2_reach; eassumption. }
  destruct (window_grun P _ _ l _ _ _ 0%nat HA Hrun) as [W1 W2]. cbn [Nat.add] in W1, W2.
  rewrite retrievable_memb.
  destruct (Nat.lt_ge_cases (hbs l) (gHistLen P)) as [Hlt|Hge].
  - specialize (W1 Hlt). split.
    + destruct W1 as (_ & _ & _ & _ & Hm). rewrite Hm. split; intros; [exact Hlt | reflexivity].
    + apply (At_gossip _ _ _ _ _ _ W1).
  - specialize (W2 Hge). split.
    + destruct W2 as (_ & _ & Hm). rewrite Hm. split; intros; [discriminate | lia].
    + split; [intros H; exfalso; eapply Gone_gossip; eassumption | intros; lia].
Qed.

(* ------------------------------------------------------------------------------------------ *)
(* C06: who gets a copy *)
Definition excluded (m : msg) (q : peer) : bool :=
  (match m_from m with Some x => Nat.eqb q x | None => false end)
  || (match m_author m with Some x => Nat.eqb q x | None => false end).
Definition own_flood (P : gparams) (m : msg) : bool :=
  gFlood P && (match m_from m with None => true | Some _ => false end).
(* the eager-push overlay used for this message: the mesh when joined, otherwise the fanout AFTER the call *)
Definition overlay (g g' : gstate) (t : topic) : list peer :=
  match aget t (mesh (core g)) with Some gm => gm | None => aget_l t (fanout (core g')) end.

Lemma In_fold_sadd l : forall acc x, In x (fold_left (fun a p => sadd p a) l acc) <-> In x acc \/ In x l.
Proof.
  induction l as [|y l IH]; intros acc x; cbn [fold_left]; [cbn [In]; tauto|].
  rewrite IH, In_sadd. cbn [In]. split; intros [H|H]; auto; destruct H; auto.
Qed.

Lemma fanout_for_publishing_spec P sc g t ch g' gm :
  fanout_for_publishing P sc g t ch = Some (g', gm) ->
  aget_l t (fanout (core g')) = gm
  /\ aget t (lastpub (core g')) = Some (now (core g))
  /\ mesh (core g') = mesh (core g) /\ tmap (core g') = tmap (core g) /\ direct (core g') = direct (core g) /\ peers (core g') = peers (core g)
  /\ ( (* an existing fanout is used as it is: its members are kept *)
       (aget_l t (fanout (core g)) <> [] /\ gm = aget_l t (fanout (core g)))
       \/ (* a new one: up to D distinct eligible peers *)
       (aget_l t (fanout (core g)) = [] /\ gm = ch /\ NoDup gm /\ (length gm <= pD (gCore P) \/ pD (gCore P) = 0)%nat
        /\ forall q, In q gm -> In q (aget_l t (tmap (core g))) /\ speaks_mesh (core g) q = true
                                /\ ~ In q (direct (core g)) /\ pPublishThr (gCore P) <= score_of sc q)).
Proof.
  unfold fanout_for_publishing. intros H.
  destruct (aget_l t (fanout (core g))) as [|x xs] eqn:Ecur.
  - destruct (pick_ok ch _ _) eqn:Hpk; [|discriminate]. inversion H; subst g' gm. clear H.
    cbn [core set_core fanout lastpub set_fanout mesh tmap direct peers].
    split.
    { destruct ch as [|c0 cs]; [exact Ecur|]. unfold aget_l. rewrite aget_aset_same. reflexivity. }
    split; [apply aget_aset_same|]. repeat split; try reflexivity.
    right. split; [reflexivity|]. split; [reflexivity|].
    unfold pick_ok in Hpk. apply andb_true_iff in Hpk. destruct Hpk as [Hpk Hlen]. apply andb_true_iff in Hpk. destruct Hpk as [Hnd Hsub].
    split; [apply nodup_b_NoDup; exact Hnd|]. split.
    + apply Nat.eqb_eq in Hlen. unfold take_count in Hlen. destruct (pD (gCore P)) as [|d]; [right; reflexivity|].
      left. rewrite Hlen. apply Nat.le_min_l.
    + intros q Hq. apply (RouterProofs.subset_In _ _ _ Hsub) in Hq.
      destruct (gs_peers_In_full _ _ _ _ Hq) as (A & B & C). cbn beta in C.
      apply andb_true_iff in C. destruct C as [C1 C2]. apply negb_true_iff in C1. apply Z.leb_le in C2.
      repeat split; try assumption. apply memb_false_In. exact C1.
  - destruct ch; [|discriminate]. inversion H; subst g' gm. clear H.
    cbn [core set_core fanout lastpub set_fanout mesh tmap direct peers].
    split; [exact Ecur|]. split; [apply aget_aset_same|]. repeat split; try reflexivity.
    left. split; [discriminate | reflexivity].
Qed.

Theorem recipients_spec P sc g m ch g' r :
  recipients P sc g m ch = Some (g', r) ->
  let s := core g in let t := m_topic m in let tm := aget_l t (tmap s) in
  (* never: the source, the author, somebody not known to be in the topic *)
  (forall q, In q r -> excluded m q = false /\ (In q tm \/ In q (overlay g g' t)))
  /\ (aget t (tmap s) = None -> r = [])
  /\ (* flood publishing of an own message: exactly the topic peers at or above the publish threshold (and direct ones) *)
     (own_flood P m = true ->
        forall q, In q r <-> In q tm /\ excluded m q = false /\ (In q (direct s) \/ pPublishThr (gCore P) <= score_of sc q))
  /\ (* otherwise: always direct peers, floodsub peers above the threshold, the overlay minus IDONTWANT senders *)
     (own_flood P m = false -> aget t (tmap s) <> None ->
        forall q, excluded m q = false ->
          (In q (direct s) /\ In q tm -> In q r)
          /\ (In q tm /\ speaks_mesh s q = false /\ pPublishThr (gCore P) <= score_of sc q -> In q r)
          /\ (In q (overlay g g' t) /\ is_unwanted g q (m_id m) = false -> In q r)
          /\ (In q r -> (In q (direct s) /\ In q tm)
                        \/ (In q tm /\ speaks_mesh s q = false /\ pPublishThr (gCore P) <= score_of sc q)
                        \/ (In q (overlay g g' t) /\ is_unwanted g q (m_id m) = false))).
Proof.
  intros H. cbv zeta. unfold recipients in H. cbv zeta in H.
  set (s := core g) in *. set (t := m_topic m) in *.
  assert (Etl : aget_l t (tmap s) = match aget t (tmap s) with Some v => v | None => [] end) by reflexivity.
  rewrite Etl. clear Etl. destruct (aget t (tmap s)) as [tm0|] eqn:Etm.
  2:{ inversion H; subst. repeat split; try (intros q []); try reflexivity; try (intros; contradiction);
      try (intros [[] _]); try congruence. }
  change (gFlood P && match m_from m with Some _ => false | None => true end) with (own_flood P m) in H.
  change (fun p => (match m_from m with Some q => Nat.eqb p q | None => false end)
                   || (match m_author m with Some q => Nat.eqb p q | None => false end)) with (excluded m) in H.
  destruct (own_flood P m) eqn:Hfl.
  - inversion H; subst g' r. clear H.
    assert (Hiff : forall q, In q (filter (fun p => negb (excluded m p) && (memb p (direct s) || (pPublishThr (gCore P) <=? score_of sc p))) tm0)
                     <-> In q tm0 /\ excluded m q = false /\ (In q (direct s) \/ pPublishThr (gCore P) <= score_of sc q)).
    { intros q. rewrite filter_In, andb_true_iff, negb_true_iff, orb_true_iff, memb_In, Z.leb_le. tauto. }
    split; [|split; [|split]].
    + intros q Hq. apply Hiff in Hq. destruct Hq as (A & B & _). auto.
    + discriminate.
    + intros _ q. apply Hiff.
    + discriminate.
  - set (dir := filter (fun p => memb p tm0) (direct s)) in *.
    set (fl := filter (fun p => negb (speaks_mesh s p) && (pPublishThr (gCore P) <=? score_of sc p)) tm0) in *.
    assert (Hov : exists gm, (match aget t (mesh s) with
                              | Some gm0 => match ch with [] => Some (g, gm0) | _ => None end
                              | None => fanout_for_publishing P sc g t ch end) = Some (g', gm)
                             /\ overlay g g' t = gm
                             /\ r = filter (fun p => negb (excluded m p))
                                      (fold_left (fun acc p => sadd p acc) (fl ++ filter (fun p => negb (is_unwanted g p (m_id m))) gm) dir)).
    { destruct (aget t (mesh s)) as [gm0|] eqn:Em.
      - destruct ch; [|discriminate]. inversion H; subst. exists gm0. unfold overlay. fold s. rewrite Em. auto.
      - destruct (fanout_for_publishing P sc g t ch) as [[g1 gm]|] eqn:Hf; [|discriminate]. inversion H; subst.
        exists gm. split; [reflexivity|]. split; [|reflexivity]. unfold overlay. fold s. rewrite Em.
        apply (fanout_for_publishing_spec _ _ _ _ _ _ _ Hf). }
    destruct Hov as [gm (_ & Eov & Er)]. rewrite Eov. clear H.
    assert (Hiff : forall q, In q r <-> excluded m q = false /\
                     ((In q (direct s) /\ In q tm0)
                      \/ (In q tm0 /\ speaks_mesh s q = false /\ pPublishThr (gCore P) <= score_of sc q)
                      \/ (In q gm /\ is_unwanted g q (m_id m) = false))).
    { intros q. rewrite Er, filter_In, negb_true_iff, In_fold_sadd, in_app_iff. unfold dir, fl.
      rewrite !filter_In, andb_true_iff, !negb_true_iff, memb_In, Z.leb_le. tauto. }
    split; [|split; [|split]].
    + intros q Hq. apply Hiff in Hq. destruct Hq as [A [B|[B|B]]]; split; try exact A; tauto.
    + discriminate.
    + discriminate.
    + intros _ _ q Hex. repeat split; intros Hq.
      * apply Hiff. tauto.
      * apply Hiff. tauto.
      * apply Hiff. tauto.
      * apply Hiff in Hq. tauto.
Qed.

(* the copies actually queued are the recipients that have an outbound queue *)
Theorem publish_sends P sc g m ch g' r :
  publish P sc g m ch = Some (g', r) ->
  exists g1 r0, recipients P sc (put_state g m) m ch = Some (g1, r0) /\ g' = g1 /\ r = filter (has_queue g1) r0.
Proof.
  unfold publish. fold (put_state g m). intros H.
  destruct (recipients P sc (put_state g m) m ch) as [[g1 r0]|] eqn:Hr; [|discriminate].
  inversion H; subst. eauto.
Qed.

(* a local-only publication reaches nobody *)
Theorem local_publication_sends_nothing P sc g m g' out q i :
  gstep P sc g (GPublishLocal m) = Some (g', out) -> ~ In (OMsg q i) out.
Proof.
  unfold gstep. cbn [sender_of gstep0]. intros H Hin.
  destruct (memb (m_id m) (seen g)); inversion H; subst; apply in_map_iff in Hin; destruct Hin as [x [E _]]; discriminate.
Qed.

(* fanout maintenance at the heartbeat: members that are still in the topic and at or above the
   publish threshold are kept, everybody in the result meets the threshold *)
Theorem hb_fanout_spec P sc s t added s' :
  hb_fanout P sc s t added = Some s' ->
  (forall p, In p (aget_l t (fanout s)) -> In p (aget_l t (tmap s)) -> pPublishThr P <= score_of sc p -> In p (aget_l t (fanout s')))
  /\ (forall p, In p (aget_l t (fanout s')) -> pPublishThr P <= score_of sc p /\ In p (aget_l t (tmap s))).
Proof.
  unfold hb_fanout. intros H. destruct (aget t (fanout s)) as [f0|] eqn:Ef; [|discriminate].
  rewrite (aget_l_of _ _ _ Ef).
  match type of H with (if ?c then _ else _) = _ => destruct c eqn:Hc end; [|discriminate].
  inversion H; subst s'. clear H. cbn [fanout set_fanout tmap]. rewrite aget_l_aset_same. split.
  - intros p Hp Ht Hs. apply in_or_app. left. apply filter_In. split; [exact Hp|].
    apply andb_true_iff. split; [apply memb_In; exact Ht|]. apply negb_true_iff. apply Z.ltb_ge. exact Hs.
  - intros p Hp. apply in_app_or in Hp. destruct Hp as [Hp|Hp].
    + apply filter_In in Hp. destruct Hp as [_ Hc2]. apply andb_true_iff in Hc2. destruct Hc2 as [A B].
      apply negb_true_iff, Z.ltb_ge in B. apply memb_In in A. auto.
    + revert Hc. match goal with |- (if ?b then _ else _) = _ -> _ => destruct b end; intros Hc; [|destruct added; [destruct Hp | discriminate]].
      destruct (gs_peers_In_full _ _ _ _ (pick_ok_sub _ _ _ _ Hc Hp)) as (A & _ & C). cbn beta in C.
      apply andb_true_iff in C. destruct C as [_ C]. apply Z.leb_le in C. auto.
Qed.

(* ------------------------------------------------------------------------------------------ *)
(* C09: threshold gates *)
Theorem graylisted_ignored P sc g o p :
  sender_of o = Some p -> accept_from P sc g p = false -> gstep P sc g o = Some (g, []).
Proof. intros Hs Ha. unfold gstep. rewrite Hs, Ha. reflexivity. Qed.

Theorem graylist_rule P sc g p :
  accept_from P sc g p = false <-> (~ In p (direct (core g)) /\ score_of sc p < gGraylistThr P).
Proof.
  unfold accept_from. rewrite orb_false_iff, negb_false_iff, Z.ltb_lt, memb_false_In. tauto.
Qed.

Theorem direct_always_accepted P sc g p : In p (direct (core g)) -> accept_from P sc g p = true.
Proof. intros H. unfold accept_from. apply memb_In in H. rewrite H. reflexivity. Qed.

Theorem below_gossip_threshold_ihave_ignored P sc g p ih a pr g' a' :
  score_of sc p < gGossipThr P -> handle_ihave P sc g p ih a pr = Some (g', a') -> g' = g /\ a' = [].
Proof.
  intros Hs. apply Z.ltb_lt in Hs. unfold handle_ihave. rewrite Hs. destruct a; [|discriminate].
  intros H. inversion H; auto.
Qed.

Theorem below_gossip_threshold_iwant_unanswered P sc g p ids :
  score_of sc p < gGossipThr P -> handle_iwant P sc g p ids = (g, []).
Proof. intros Hs. apply Z.ltb_lt in Hs. unfold handle_iwant. rewrite Hs. reflexivity. Qed.

(* a GRAFT from a peer with a negative score is refused: PRUNE, backoff, mesh unchanged *)
Theorem negative_score_graft_refused P sc s p t gm :
  aget t (mesh s) = Some gm -> memb p gm = false -> memb p (direct s) = false -> score_of sc p < 0 ->
  exists s' pen, handle_graft1 P sc s p t = (s', true, pen) /\ mesh s' = mesh s.
Proof.
  intros Hm Hg Hd Hs. apply Z.ltb_lt in Hs. unfold handle_graft1. rewrite Hm, Hg, Hd.
  destruct (backoff_of s t p) as [e|].
  - destruct (now s <? e); [eexists _, _; split; reflexivity|]. rewrite Hs. eexists _, _; split; reflexivity.
  - rewrite Hs. eexists _, _; split; reflexivity.
Qed.

(* Join only grafts peers with a non-negative score *)
Theorem join_never_grafts_negative P sc s t ch s' c p :
  join P sc s t ch = Some (s', c) -> aget t (mesh s) = None -> In p (aget_l t (mesh s')) -> 0 <= score_of sc p.
Proof.
  unfold join. intros H Hm. rewrite Hm in H.
  destruct (aget t (fanout s)) as [fan|].
  - match type of H with (if ?c then _ else _) = _ => destruct c eqn:Hc end; [|discriminate].
    inversion H; subst s' c. clear H. rewrite mesh_fold_log_graft. cbn [mesh set_fanout set_mesh].
    unfold aget_l. rewrite aget_aset_same. intros Hp. apply in_app_or in Hp. destruct Hp as [Hp|Hp].
    + apply filter_In in Hp. destruct Hp as [_ Hk]. apply negb_true_iff, orb_false_iff in Hk. destruct Hk as [Hk _].
      apply Z.ltb_ge in Hk. exact Hk.
    + destruct (Nat.ltb _ (pD P)); [|destruct Hp].
      assert (F := picked_sat _ _ _ _ _ _ Hc Hp). cbn beta in F.
      apply andb_true_iff in F. destruct F as [_ F]. apply andb_true_iff in F. destruct F as [_ F]. apply Z.leb_le in F. exact F.
  - destruct (pick_ok ch _ (pD P)) eqn:Hc; [|discriminate].
    inversion H; subst s' c. clear H. rewrite mesh_fold_log_graft. cbn [mesh set_mesh].
    unfold aget_l. rewrite aget_aset_same. intros Hp.
    assert (F := picked_sat _ _ _ _ _ _ Hc Hp). cbn beta in F.
    apply andb_true_iff in F. destruct F as [_ F]. apply Z.leb_le in F. exact F.
Qed.

(* at the heartbeat every mesh member with a negative score is pruned, without peer exchange *)
Theorem hb_prunes_negative_without_px P sc s t evs s' gr pr npx g0 p :
  hb_topic P sc s t evs = Some (s', gr, pr, npx) -> aget t (mesh s) = Some g0 -> In p g0 -> score_of sc p < 0 ->
  In p npx /\ In p pr /\ ~ In p (aget_l t (mesh s')).
Proof.
  intros H Hm Hp Hs. destruct (hb_topic_phases _ _ _ _ _ _ _ _ _ H) as (g1 & gr2 & pr3 & gr4 & gr5 & s1 & s2 & s3 & s4 & X).
  cbn zeta in X. destruct X as (Eg & En & _ & _ & _ & _ & _ & _ & _ & _ & _ & _ & _ & _ & Epr).
  rewrite Hm in Eg. inversion Eg; subst g1.
  assert (Hn : In p npx) by (rewrite En; apply filter_In; split; [exact Hp | apply Z.ltb_lt; exact Hs]).
  split; [exact Hn|]. split; [rewrite Epr; apply in_or_app; left; exact Hn|].
  intros Hin. apply (hb_no_negative _ _ _ _ _ _ _ _ _ H) in Hin. lia.
Qed.

(* the gossip model's fanout selection is the router model's [fanout_pub] on the core state *)
Lemma fanout_for_publishing_core P sc g t chosen :
  fanout_for_publishing P sc g t chosen
  = match fanout_pub (gCore P) sc (core g) t chosen with Some (s', l) => Some (set_core g s', l) | None => None end.
Proof.
  unfold fanout_for_publishing, fanout_pub. destruct (aget_l t (fanout (core g))).
  - destruct (pick_ok chosen _ (pD (gCore P))); reflexivity.
  - destruct chosen; reflexivity.
Qed.
