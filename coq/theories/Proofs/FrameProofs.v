From Coq Require Import List Bool Arith NArith Lia.
Import ListNotations.
From PS Require Import Model.Frame.
Local Open Scope N_scope.

Lemma take_length n : forall l a b, take n l = Some (a, b) -> length a = n /\ l = a ++ b.
Proof.
  induction n as [|n IH]; intros l a b H; cbn in H.
  - inversion H; subst. split; reflexivity.
  - destruct l as [|x r]; [discriminate|]. destruct (take n r) as [[a' b']|] eqn:E; [|discriminate].
    inversion H; subst. destruct (IH _ _ _ E) as [H1 H2]. subst r. split; [cbn; f_equal; exact H1 | reflexivity].
Qed.

(* whatever bytes a peer writes to its stream: every frame handed to the event loop is non-empty, within the size
   limit and decodes as an RPC *)
Theorem frames_wellformed fuel max decodes : forall bs fs e,
  reader fuel max decodes bs = (fs, e) ->
  forall f, In f fs -> f <> [] /\ (N.of_nat (length f) <= max) /\ decodes f = true.
Proof.
  induction fuel as [|fuel IH]; intros bs fs e H f Hin; cbn [reader] in H.
  - inversion H; subst. destruct Hin.
  - destruct (next_len bs) as [len rest| | |r|r]; try (inversion H; subst; destruct Hin; fail).
    destruct (len =? 0) eqn:E0; [eapply IH; eassumption|].
    destruct (max <? len) eqn:Em; [inversion H; subst; destruct Hin|].
    destruct (take (N.to_nat len) rest) as [[payload rest']|] eqn:Et.
    2:{ destruct rest; inversion H; subst; destruct Hin. }
    destruct (decodes payload) eqn:Ed; [|inversion H; subst; destruct Hin].
    destruct (reader fuel max decodes rest') as [fs' e'] eqn:Er. inversion H; subst fs e. clear H.
    destruct Hin as [<-|Hin]; [|eapply IH; eassumption].
    destruct (take_length _ _ _ _ Et) as [Hl _]. apply N.eqb_neq in E0. apply N.ltb_ge in Em.
    split; [|split; [|exact Ed]].
    + intros ->. cbn in Hl. lia.
    + rewrite Hl, N2Nat.id. exact Em.
Qed.

(* the outcome is a function of the bytes of this stream alone (no other input): reading is deterministic and total,
   and once the stream has been reset nothing more is handed on (the frame list is complete at that point) *)
Theorem read_stream_total max decodes bs : exists fs e, read_stream max decodes bs = (fs, e).
Proof. destruct (read_stream max decodes bs) as [fs e]. eauto. Qed.

(* a frame whose announced length exceeds the limit resets the stream and is never delivered, however the bytes continue *)
Theorem oversize_resets max decodes bs len rest :
  next_len bs = UOk len rest -> max < len -> reader (S (length bs)) max decodes bs = ([], EReset 2).
Proof.
  intros H Hlt. cbn [reader]. rewrite H.
  destruct (len =? 0) eqn:E0; [apply N.eqb_eq in E0; lia|].
  apply N.ltb_lt in Hlt. rewrite Hlt. reflexivity.
Qed.

(* a payload that does not decode resets the stream and is not delivered *)
Theorem undecodable_resets max decodes bs len rest payload rest' :
  next_len bs = UOk len rest -> len <> 0 -> len <= max -> take (N.to_nat len) rest = Some (payload, rest') -> decodes payload = false ->
  reader (S (length bs)) max decodes bs = ([], EReset 4).
Proof.
  intros H H0 Hle Ht Hd. cbn [reader]. rewrite H.
  apply N.eqb_neq in H0. rewrite H0. apply N.ltb_ge in Hle. rewrite Hle, Ht, Hd. reflexivity.
Qed.
