From Coq Require Import List Bool ZArith QArith Lia.
Import ListNotations.
From PS Require Import Model.Router Model.Gate.

(* the gater never refuses a peer outright *)
Theorem gater_never_none P g st coin : gater_accept P g st coin <> AcceptNone.
Proof. unfold gater_accept. repeat match goal with |- context [if ?b then _ else _] => destruct b end; discriminate. Qed.

(* whatever the gater says, control traffic is processed; it can only suppress payload *)
Theorem gater_only_suppresses_payload P g st coin :
  p_control (dispatch (gater_accept P g st coin)) = true /\ p_subs (dispatch (gater_accept P g st coin)) = true.
Proof.
  assert (H := gater_never_none P g st coin). destruct (gater_accept P g st coin); [contradiction | split; reflexivity | split; reflexivity].
Qed.

(* quiet, un-throttled or ratio-below-threshold gater: everything is accepted, whatever the per-source statistics *)
Theorem gater_quiet_accepts_all P g st coin : gQuiet g = true -> gater_accept P g st coin = AcceptAll.
Proof. intros H. unfold gater_accept. rewrite H. reflexivity. Qed.

(* RPCs of direct peers are always accepted in full; a non-direct peer below the graylist threshold has everything but
   its subscription announcements ignored; in between, control traffic is always processed *)
Theorem direct_accept_all score gl gate : router_accept true score gl gate = AcceptAll.
Proof. reflexivity. Qed.
Theorem graylisted_none score gl gate : (score < gl)%Z -> router_accept false score gl gate = AcceptNone.
Proof. intros H. unfold router_accept. apply Z.ltb_lt in H. rewrite H. reflexivity. Qed.
Theorem not_graylisted_control_processed score gl P g st coin :
  (gl <= score)%Z -> p_control (dispatch (router_accept false score gl (Some (gater_accept P g st coin)))) = true.
Proof.
  intros H. unfold router_accept. apply Z.ltb_ge in H. rewrite H. apply gater_only_suppresses_payload.
Qed.

(* a peer-exchange record is followed only if the pruning peer is at or above the accept-PX threshold and the record,
   when present, is valid for the advertised id *)
Theorem px_only_if score thr conn r : px_followed score thr conn r = true -> (thr <= score)%Z /\ r <> PxInvalid /\ conn = false.
Proof.
  unfold px_followed. intros H. apply andb_true_iff in H. destruct H as [H Hr]. apply andb_true_iff in H. destruct H as [Hs Hc].
  apply negb_true_iff in Hs, Hc. apply Z.ltb_ge in Hs. split; [exact Hs|]. split; [destruct r; try discriminate; intros E; discriminate | exact Hc].
Qed.

(* a peer with a negative score is never admitted by a GRAFT, and no PRUNE that answers its GRAFT carries peer exchange *)
Lemma neg_fate d o g : let f := graft_fate_of d true o g in f <> GfAccept /\ f <> GfFull /\ (fate_prunes f = true -> fate_blocks_px f = true).
Proof. unfold graft_fate_of. destruct (gi_joined g), (gi_in_mesh g), d, (gi_backoff g); cbn; repeat split; try discriminate; auto. Qed.
Theorem negative_graft_refused doPX spx cands d o gs :
  let '(pr, adm, px) := graft_reply doPX spx cands d true o gs in
  forallb negb adm = true /\ (existsb (fun b => b) pr = true -> px = false).
Proof.
  unfold graft_reply. split.
  - induction gs as [|g gs IH]; [reflexivity|]. cbn [map forallb]. rewrite IH, andb_true_r.
    destruct (neg_fate d o g) as (Ha & _). destruct (graft_fate_of d true o g); try reflexivity. contradiction.
  - intros H. assert (E : existsb fate_blocks_px (map (graft_fate_of d true o) gs) = true).
    { induction gs as [|g gs IH]; [discriminate|]. cbn [map existsb] in *. apply orb_true_iff in H. destruct H as [H|H].
      - destruct (neg_fate d o g) as (_ & _ & Hb). rewrite (Hb H). reflexivity.
      - rewrite (IH H). apply orb_true_r. }
    rewrite E. cbn. apply andb_false_r.
Qed.
Theorem negative_hb_prune_no_px doPX spx cands : hb_prune_px doPX spx cands true = false.
Proof. unfold hb_prune_px. cbn. apply andb_false_r. Qed.
(* without the option, or to a v1.0 peer, no PRUNE ever carries peer exchange *)
Theorem no_px_without_option spx cands d n o gs : snd (graft_reply false spx cands d n o gs) = false.
Proof. reflexivity. Qed.
