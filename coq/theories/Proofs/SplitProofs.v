From Coq Require Import List Bool NArith Arith Lia.
Import ListNotations.
From PS Require Import Model.Wire Model.Split Model.SplitContent.
Local Open Scope N_scope.

(* ---------------- content of the accumulator ---------------- *)

Definition acc_flat (a : acc) (k : kind) : list atom := flat (rev (fst a)) k ++ content (snd a) k.

Lemma flat_app l1 l2 k : flat (l1 ++ l2) k = flat l1 k ++ flat l2 k.
Proof. unfold flat. now rewrite map_app, concat_app. Qed.

Lemma forallb_nil_concat {A B} (f : A -> list B) l :
  forallb (fun x => nil_b (f x)) l = true -> concat (map f l) = [].
Proof.
  induction l as [|x l IH]; cbn; [reflexivity|]. intros H. apply andb_prop in H as [H1 H2].
  destruct (f x); [|discriminate]. cbn. auto.
Qed.

Lemma empty_content r k : is_empty r = true -> content r k = [].
Proof.
  destruct r as [subs pub ctl part tst]. unfold is_empty; cbn [r_subs r_pub r_ctl r_partial r_test].
  rewrite !andb_true_iff. intros ((((H1 & H2) & H3) & H4) & H5).
  destruct subs; [|discriminate]. destruct pub; [|discriminate]. destruct part; [discriminate|].
  destruct tst; [discriminate|].
  destruct ctl as [c|]; [|destruct k; reflexivity].
  destruct c as [ih iw gr pr idw ex]. unfold ctl_is_empty in H3; cbn [c_ihave c_iwant c_graft c_prune c_idw c_ext] in H3.
  rewrite !andb_true_iff in H3. destruct H3 as (((((A & B) & C) & D) & E) & F).
  destruct gr; [|discriminate]. destruct pr; [|discriminate]. destruct ex; [discriminate|].
  destruct k; cbn; try reflexivity.
  - now rewrite (forallb_nil_concat iw_ids iw B).
  - clear - A. induction ih as [|h ih IH]; cbn in *; [reflexivity|]. apply andb_prop in A as [A1 A2].
    unfold ih_atoms at 1. destruct (ih_ids h); [|discriminate]. cbn. auto.
  - now rewrite (forallb_nil_concat iw_ids idw E).
Qed.

Lemma emit_flat out r k : flat (rev (emit out r)) k = flat (rev out) k ++ content r k.
Proof.
  unfold emit. destruct (is_empty r) eqn:E.
  - now rewrite (empty_content _ _ E), app_nil_r.
  - cbn [rev]. rewrite flat_app. unfold flat at 2. cbn. now rewrite app_nil_r.
Qed.

Lemma step_flat limit a cur' fresh k d :
  content cur' k = content (snd a) k ++ d -> content fresh k = d ->
  acc_flat (step limit a cur' fresh) k = acc_flat a k ++ d.
Proof.
  intros H1 H2. unfold step, acc_flat. destruct (limit <? size cur'); cbn [fst snd].
  - rewrite emit_flat, H2. reflexivity.
  - rewrite H1. now rewrite app_assoc.
Qed.

(* ---------------- per-kind effect of the record updates ---------------- *)

Definition is_ctl_kind (k : kind) : bool :=
  match k with KGraft | KPrune | KIwant | KIhave | KIdw | KExt => true | _ => false end.

Lemma content_ctl r k : is_ctl_kind k = true -> content r k = ctl_content (ctl_of r) k.
Proof. unfold ctl_of. destruct r as [? ? [c|] ? ?]; destruct k; cbn; intros; try discriminate; reflexivity. Qed.

Lemma content_upd_ctl r f k :
  content (upd_ctl r f) k = if is_ctl_kind k then ctl_content (f (ctl_of r)) k else content r k.
Proof. destruct k; reflexivity. Qed.

Lemma content_fresh_ctl f k :
  content (fresh_ctl f) k = if is_ctl_kind k then ctl_content (f ctl_empty) k else [].
Proof. destruct k; reflexivity. Qed.

Definition only (k0 k : kind) (d : list atom) : list atom :=
  match k0, k with
  | KSub, KSub | KPub, KPub | KGraft, KGraft | KPrune, KPrune | KIwant, KIwant | KIhave, KIhave
  | KIdw, KIdw | KExt, KExt | KPartial, KPartial | KTest, KTest => d
  | _, _ => []
  end.

Lemma concat_iw_app_last l i : concat (map iw_ids (app_last_iw l i)) = concat (map iw_ids l) ++ [i].
Proof.
  induction l as [|w l IH]; [reflexivity|]. destruct l as [|w' l'].
  - cbn. now rewrite !app_nil_r.
  - change (app_last_iw (w :: w' :: l') i) with (w :: app_last_iw (w' :: l') i).
    cbn [map concat]. rewrite IH. cbn [map concat]. now rewrite app_assoc.
Qed.

Definition last_ptr (l : list ihave) : option (option nat) :=
  match rev l with [] => None | h :: _ => Some (ih_ptr h) end.

Lemma concat_ih_app_last l i p :
  last_ptr l = Some p ->
  concat (map ih_atoms (app_last_ih l i)) = concat (map ih_atoms l) ++ [AIhave p i]
  /\ last_ptr (app_last_ih l i) = Some p.
Proof.
  induction l as [|h l IH]; [discriminate|]. destruct l as [|h' l'].
  - cbn. intros H; inversion H; subst. unfold ih_atoms; cbn. rewrite map_app, !app_nil_r. auto.
  - intros H. change (app_last_ih (h :: h' :: l') i) with (h :: app_last_ih (h' :: l') i).
    assert (H' : last_ptr (h' :: l') = Some p).
    { unfold last_ptr in *. cbn [rev] in *. destruct (rev l' ++ [h']) eqn:E; [destruct (rev l'); discriminate|].
      cbn in H. exact H. }
    destruct (IH H') as [I1 I2]. split.
    + cbn [map concat]. rewrite I1. cbn [map concat]. now rewrite app_assoc.
    + unfold last_ptr in *. cbn [rev]. destruct (rev (app_last_ih (h' :: l') i)) eqn:E; [discriminate|]. exact I2.
Qed.

(* ---------------- stage lemmas (content) ---------------- *)

Lemma st_subs_flat limit subs : forall a k,
  acc_flat (st_subs limit a subs) k = acc_flat a k ++ only KSub k (map ASub subs).
Proof.
  unfold st_subs. induction subs as [|s subs IH]; intros a k; cbn [fold_left].
  - destruct k; cbn; now rewrite app_nil_r.
  - rewrite IH. rewrite (step_flat _ _ _ _ _ (only KSub k [ASub s])).
    + rewrite <- app_assoc. f_equal. destruct k; reflexivity.
    + destruct k; cbn; try (now rewrite app_nil_r). now rewrite map_app.
    + destruct k; reflexivity.
Qed.

(* shape of nextRPC between the stages *)
Definition no_single (r : rpc) : Prop := r_ctl r = None /\ r_partial r = None /\ r_test r = false.

Lemma step_shape (P : rpc -> Prop) limit a cur' fresh :
  P cur' -> P fresh -> P (snd (step limit a cur' fresh)).
Proof. intros H1 H2. unfold step. destruct (limit <? size cur'); assumption. Qed.

Lemma st_subs_shape limit subs : forall a, no_single (snd a) -> no_single (snd (st_subs limit a subs)).
Proof.
  unfold st_subs. induction subs as [|s subs IH]; intros a H; cbn [fold_left]; [exact H|].
  apply IH. apply step_shape; [|repeat split]. destruct H as (A & B & C). repeat split; assumption.
Qed.

Lemma st_partial_flat limit p a k :
  r_partial (snd a) = None ->
  acc_flat (st_partial limit a p) k = acc_flat a k ++ only KPartial k (match p with Some x => [APartial x] | None => [] end).
Proof.
  intros Hn. destruct p as [x|]; cbn [st_partial].
  - apply step_flat; destruct k; cbn; rewrite ?Hn, ?app_nil_r; reflexivity.
  - destruct k; cbn; now rewrite app_nil_r.
Qed.

Lemma st_partial_shape limit p a :
  r_ctl (snd a) = None /\ r_test (snd a) = false ->
  r_ctl (snd (st_partial limit a p)) = None /\ r_test (snd (st_partial limit a p)) = false.
Proof.
  intros [A B]. destruct p as [x|]; cbn [st_partial]; [|auto].
  apply (step_shape (fun r => r_ctl r = None /\ r_test r = false)); cbn; auto.
Qed.

Lemma st_test_flat limit t a k :
  r_test (snd a) = false ->
  acc_flat (st_test limit a t) k = acc_flat a k ++ only KTest k (if t then [ATest] else []).
Proof.
  intros Hn. destruct t; cbn [st_test].
  - apply step_flat; destruct k; cbn; rewrite ?Hn, ?app_nil_r; reflexivity.
  - destruct k; cbn; now rewrite app_nil_r.
Qed.

Lemma st_test_shape limit t a : r_ctl (snd a) = None -> r_ctl (snd (st_test limit a t)) = None.
Proof. intros A. destruct t; cbn [st_test]; [|auto]. apply (step_shape (fun r => r_ctl r = None)); cbn; auto. Qed.

Lemma st_shell_flat limit a k : r_ctl (snd a) = None -> acc_flat (st_shell limit a) k = acc_flat a k.
Proof.
  intros Hn. unfold st_shell. rewrite Hn.
  rewrite (step_flat _ _ _ _ _ []); [now rewrite app_nil_r| |destruct k; reflexivity].
  destruct k; cbn; rewrite ?Hn, ?app_nil_r; reflexivity.
Qed.

Lemma st_shell_shape limit a : r_ctl (snd a) = None -> r_ctl (snd (st_shell limit a)) = Some ctl_empty.
Proof. intros Hn. unfold st_shell. rewrite Hn. apply (step_shape (fun r => r_ctl r = Some ctl_empty)); reflexivity. Qed.

Lemma st_ext_flat limit e a k :
  c_ext (ctl_of (snd a)) = None ->
  acc_flat (st_ext limit a e) k = acc_flat a k ++ only KExt k (match e with Some x => [AExt x] | None => [] end).
Proof.
  intros Hn. destruct e as [x|]; cbn [st_ext].
  - apply step_flat.
    + rewrite content_upd_ctl. destruct k; cbn [is_ctl_kind only]; rewrite ?app_nil_r; try reflexivity;
        try (rewrite (content_ctl (snd a)) by reflexivity; cbn; rewrite ?app_nil_r; reflexivity).
      rewrite (content_ctl (snd a)) by reflexivity. cbn. now rewrite Hn.
    + rewrite content_fresh_ctl. destruct k; reflexivity.
  - destruct k; cbn; now rewrite app_nil_r.
Qed.

(* generic: a stage that appends elements of one control kind *)
Lemma ctl_list_stage limit K (A : Type) (inj : A -> atom)
      (addf : control -> A -> control) (one : A -> control -> control) (l : list A) :
  is_ctl_kind K = true ->
  (forall c x k, ctl_content (addf c x) k = ctl_content c k ++ only K k [inj x]) ->
  (forall x k, ctl_content (one x ctl_empty) k = only K k [inj x]) ->
  forall a k,
  acc_flat (fold_left (fun a x => step limit a (upd_ctl (snd a) (fun c => addf c x)) (fresh_ctl (one x))) l a) k
  = acc_flat a k ++ only K k (map inj l).
Proof.
  intros HK Hadd Hone. induction l as [|x l IH]; intros a k; cbn [fold_left].
  - destruct K, k; cbn; now rewrite app_nil_r.
  - rewrite IH. rewrite (step_flat _ _ _ _ _ (only K k [inj x])).
    + rewrite <- app_assoc. f_equal. destruct K, k; reflexivity.
    + rewrite content_upd_ctl. destruct (is_ctl_kind k) eqn:E.
      * rewrite Hadd, (content_ctl (snd a)) by exact E. reflexivity.
      * destruct K, k; cbn in *; try discriminate; now rewrite app_nil_r.
    + rewrite content_fresh_ctl. destruct (is_ctl_kind k) eqn:E.
      * apply Hone.
      * destruct K, k; cbn in *; try discriminate; reflexivity.
Qed.

Lemma st_graft_flat limit l a k :
  acc_flat (st_graft limit a l) k = acc_flat a k ++ only KGraft k (map AGraft l).
Proof.
  unfold st_graft.
  apply (ctl_list_stage limit KGraft graft AGraft (fun c g => c_set_graft c (c_graft c ++ [g])) (fun g c => c_set_graft c [g])).
  - reflexivity.
  - intros c x k'. destruct k'; cbn; rewrite ?app_nil_r; try reflexivity. now rewrite map_app.
  - intros x k'. destruct k'; reflexivity.
Qed.

Lemma st_prune_flat limit l a k :
  acc_flat (st_prune limit a l) k = acc_flat a k ++ only KPrune k (map APrune l).
Proof.
  unfold st_prune.
  apply (ctl_list_stage limit KPrune prune APrune (fun c g => c_set_prune c (c_prune c ++ [g])) (fun g c => c_set_prune c [g])).
  - reflexivity.
  - intros c x k'. destruct k'; cbn; rewrite ?app_nil_r; try reflexivity. now rewrite map_app.
  - intros x k'. destruct k'; reflexivity.
Qed.

Lemma iw_ids_stage_flat limit ids a k :
  acc_flat (iw_ids_stage limit a ids) k = acc_flat a k ++ only KIwant k (map AIwant ids).
Proof.
  unfold iw_ids_stage.
  apply (ctl_list_stage limit KIwant mid AIwant (fun c i => c_set_iwant c (app_last_iw (c_iwant c) i))
                        (fun i c => c_set_iwant c [{| iw_ids := [i] |}])).
  - reflexivity.
  - intros c x k'. destruct k'; cbn; rewrite ?app_nil_r; try reflexivity.
    now rewrite concat_iw_app_last, map_app.
  - intros x k'. destruct k'; reflexivity.
Qed.

Lemma idw_ids_stage_flat limit ids a k :
  acc_flat (idw_ids_stage limit a ids) k = acc_flat a k ++ only KIdw k (map AIdw ids).
Proof.
  unfold idw_ids_stage.
  apply (ctl_list_stage limit KIdw mid AIdw (fun c i => c_set_idw c (app_last_iw (c_idw c) i))
                        (fun i c => c_set_idw c [{| iw_ids := [i] |}])).
  - reflexivity.
  - intros c x k'. destruct k'; cbn; rewrite ?app_nil_r; try reflexivity.
    now rewrite concat_iw_app_last, map_app.
  - intros x k'. destruct k'; reflexivity.
Qed.

Lemma hdr_step_flat limit a cur' fresh k :
  content cur' k = content (snd a) k -> content fresh k = [] ->
  acc_flat (step limit a cur' fresh) k = acc_flat a k.
Proof. intros H1 H2. rewrite (step_flat _ _ _ _ _ []); [now rewrite app_nil_r|now rewrite app_nil_r|exact H2]. Qed.

Lemma st_iwant_flat limit l : forall a k,
  acc_flat (st_iwant limit a l) k = acc_flat a k ++ only KIwant k (map AIwant (concat (map iw_ids l))).
Proof.
  unfold st_iwant. induction l as [|w l IH]; intros a k; cbn [fold_left].
  - destruct k; cbn; now rewrite app_nil_r.
  - rewrite IH, iw_ids_stage_flat. cbn [map concat]. rewrite map_app.
    assert (E : acc_flat (match c_iwant (ctl_of (snd a)) with
              | [] => step limit a (upd_ctl (snd a) (fun c => c_set_iwant c [{| iw_ids := [] |}]))
                                   (fresh_ctl (fun c => c_set_iwant c [{| iw_ids := [] |}]))
              | _ => a end) k = acc_flat a k).
    { destruct (c_iwant (ctl_of (snd a))) eqn:Ec; [|reflexivity].
      apply hdr_step_flat.
      - rewrite content_upd_ctl. destruct (is_ctl_kind k) eqn:Ek; [|reflexivity].
        rewrite (content_ctl (snd a)) by exact Ek. destruct k; cbn; try reflexivity. now rewrite Ec.
      - rewrite content_fresh_ctl. destruct k; reflexivity. }
    rewrite E, <- app_assoc. f_equal. destruct k; cbn; rewrite ?app_nil_r; reflexivity.
Qed.

Lemma st_idw_flat limit l : forall a k,
  acc_flat (st_idw limit a l) k = acc_flat a k ++ only KIdw k (map AIdw (concat (map iw_ids l))).
Proof.
  unfold st_idw. induction l as [|w l IH]; intros a k; cbn [fold_left].
  - destruct k; cbn; now rewrite app_nil_r.
  - rewrite IH, idw_ids_stage_flat. cbn [map concat]. rewrite map_app.
    assert (E : acc_flat (match c_idw (ctl_of (snd a)) with
              | [] => step limit a (upd_ctl (snd a) (fun c => c_set_idw c [{| iw_ids := [] |}]))
                                   (fresh_ctl (fun c => c_set_idw c [{| iw_ids := [] |}]))
              | _ => a end) k = acc_flat a k).
    { destruct (c_idw (ctl_of (snd a))) eqn:Ec; [|reflexivity].
      apply hdr_step_flat.
      - rewrite content_upd_ctl. destruct (is_ctl_kind k) eqn:Ek; [|reflexivity].
        rewrite (content_ctl (snd a)) by exact Ek. destruct k; cbn; try reflexivity. now rewrite Ec.
      - rewrite content_fresh_ctl. destruct k; reflexivity. }
    rewrite E, <- app_assoc. f_equal. destruct k; cbn; rewrite ?app_nil_r; reflexivity.
Qed.

(* IHAVE: the ids go to the last IHAVE of nextRPC, whose topic pointer is the current one *)
Lemma ih_ids_stage_flat limit p tlen ids : forall a k,
  last_ptr (c_ihave (ctl_of (snd a))) = Some p ->
  acc_flat (ih_ids_stage limit a p tlen ids) k = acc_flat a k ++ only KIhave k (map (AIhave p) ids)
  /\ last_ptr (c_ihave (ctl_of (snd (ih_ids_stage limit a p tlen ids)))) = Some p.
Proof.
  unfold ih_ids_stage. induction ids as [|i ids IH]; intros a k HL; cbn [fold_left].
  - split; [destruct k; cbn; now rewrite app_nil_r|exact HL].
  - set (a1 := step limit a _ _).
    assert (HL1 : last_ptr (c_ihave (ctl_of (snd a1))) = Some p).
    { subst a1. apply (step_shape (fun r => last_ptr (c_ihave (ctl_of r)) = Some p)); [|reflexivity].
      unfold upd_ctl, ctl_of at 1. cbn [r_ctl set_ctl c_ihave c_set_ihave].
      apply (concat_ih_app_last _ i p HL). }
    destruct (IH a1 k HL1) as [I1 I2]. split; [|exact I2].
    rewrite I1. subst a1. rewrite (step_flat _ _ _ _ _ (only KIhave k [AIhave p i])).
    + rewrite <- app_assoc. f_equal. destruct k; reflexivity.
    + rewrite content_upd_ctl. destruct (is_ctl_kind k) eqn:Ek.
      * rewrite (content_ctl (snd a)) by exact Ek. destruct k; cbn; rewrite ?app_nil_r; try reflexivity.
        apply (concat_ih_app_last _ i p HL).
      * destruct k; cbn in *; try discriminate; now rewrite app_nil_r.
    + rewrite content_fresh_ctl. destruct k; reflexivity.
Qed.

Lemma last_ptr_snoc l h : last_ptr (l ++ [h]) = Some (ih_ptr h).
Proof. unfold last_ptr. now rewrite rev_app_distr. Qed.

Lemma ptr_eqb_eq a b : ptr_eqb a b = true -> a = b.
Proof.
  destruct a, b; cbn; try discriminate; auto. intros H. apply Nat.eqb_eq in H. now subst.
Qed.

Lemma st_ihave_flat limit l : forall a k,
  acc_flat (st_ihave limit a l) k = acc_flat a k ++ only KIhave k (concat (map ih_atoms l)).
Proof.
  unfold st_ihave. induction l as [|h l IH]; intros a k; cbn [fold_left].
  - destruct k; cbn; now rewrite app_nil_r.
  - rewrite IH. cbn [map concat].
    set (hdr := {| ih_ptr := ih_ptr h; ih_tlen := ih_tlen h; ih_ids := [] |}).
    set (need := match rev (c_ihave (ctl_of (snd a))) with [] => true
                 | lasth :: _ => negb (ptr_eqb (ih_ptr lasth) (ih_ptr h)) end).
    set (a1 := if need then step limit a (upd_ctl (snd a) (fun c => c_set_ihave c (c_ihave c ++ [hdr])))
                                 (fresh_ctl (fun c => c_set_ihave c [hdr])) else a).
    assert (H1 : acc_flat a1 k = acc_flat a k /\ last_ptr (c_ihave (ctl_of (snd a1))) = Some (ih_ptr h)).
    { subst a1. destruct need eqn:En.
      - split.
        + apply hdr_step_flat.
          * rewrite content_upd_ctl. destruct (is_ctl_kind k) eqn:Ek; [|reflexivity].
            rewrite (content_ctl (snd a)) by exact Ek. destruct k; cbn; try reflexivity.
            rewrite map_app, concat_app. cbn. now rewrite app_nil_r.
          * rewrite content_fresh_ctl. destruct k; reflexivity.
        + apply (step_shape (fun r => last_ptr (c_ihave (ctl_of r)) = Some (ih_ptr h))); [|reflexivity].
          unfold upd_ctl, ctl_of at 1. cbn [r_ctl set_ctl c_ihave c_set_ihave]. rewrite last_ptr_snoc. reflexivity.
      - split; [reflexivity|]. subst need. unfold last_ptr.
        destruct (rev (c_ihave (ctl_of (snd a)))) as [|lasth r]; [discriminate|].
        apply negb_false_iff in En. now rewrite (ptr_eqb_eq _ _ En). }
    destruct H1 as [F1 L1].
    destruct (ih_ids_stage_flat limit (ih_ptr h) (ih_tlen h) (ih_ids h) a1 k L1) as [F2 _].
    rewrite F2, F1, <- app_assoc. f_equal. destruct k; cbn; rewrite ?app_nil_r; reflexivity.
Qed.

(* ---------------- stage 1 and the whole function (content) ---------------- *)

Lemma pack_pub_flat limit ms : forall cur cursz out k,
  flat (rev (pack_pub limit ms cur cursz out)) k
  = flat (rev out) k ++ only KPub k (map APub (cur ++ ms)).
Proof.
  induction ms as [|m ms IH]; intros cur cursz out k; cbn [pack_pub].
  - rewrite app_nil_r. destruct cur as [|c0 cur'].
    + destruct k; cbn; now rewrite app_nil_r.
    + rewrite emit_flat. destruct k; reflexivity.
  - destruct (limit <? cursz + emb (msize m)).
    + rewrite IH, emit_flat, <- app_assoc.
      destruct k; cbn; rewrite ?app_nil_r; try reflexivity. rewrite map_app. reflexivity.
    + rewrite IH, <- app_assoc. reflexivity.
Qed.

Lemma st_control_flat limit oc a k :
  r_ctl (snd a) = None ->
  acc_flat (st_control limit a oc) k
  = acc_flat a k ++ (if is_ctl_kind k then match oc with Some c => ctl_content c k | None => [] end else []).
Proof.
  intros Hn. destruct oc as [c|]; cbn [st_control].
  2:{ destruct k; cbn; now rewrite app_nil_r. }
  rewrite st_idw_flat, st_ihave_flat, st_iwant_flat, st_prune_flat, st_graft_flat.
  rewrite st_ext_flat.
  2:{ pose proof (st_shell_shape limit a Hn) as S. unfold ctl_of. now rewrite S. }
  rewrite st_shell_flat by exact Hn.
  rewrite <- !app_assoc. f_equal.
  destruct k; cbn; rewrite ?app_nil_r; reflexivity.
Qed.

Theorem split_content limit r k : flat (split limit r) k = content r k.
Proof.
  unfold split.
  set (rest := {| r_subs := r_subs r; r_pub := []; r_ctl := r_ctl r; r_partial := r_partial r; r_test := r_test r |}).
  pose proof (pack_pub_flat limit (r_pub r) [] 0 [] k) as P. cbn [app rev] in P.
  destruct (size rest <? limit).
  - rewrite emit_flat, P. destruct r as [subs pub ctl part tst]; destruct k; cbn; rewrite ?app_nil_r; reflexivity.
  - set (a0 := (pack_pub limit (r_pub r) [] 0 [], rpc_empty)).
    assert (S1 : no_single (snd (st_subs limit a0 (r_subs r)))) by (apply st_subs_shape; repeat split).
    destruct S1 as (C1 & P1 & T1).
    assert (S2 := st_partial_shape limit (r_partial r) _ (conj C1 T1)). destruct S2 as [C2 T2].
    assert (C3 := st_test_shape limit (r_test r) _ C2).
    rewrite emit_flat. fold (acc_flat (st_control limit (st_test limit (st_partial limit (st_subs limit a0 (r_subs r)) (r_partial r)) (r_test r)) (r_ctl r)) k).
    rewrite st_control_flat by exact C3.
    rewrite st_test_flat by exact T2.
    rewrite st_partial_flat by exact P1.
    rewrite st_subs_flat.
    unfold acc_flat, a0. cbn [fst snd]. rewrite P.
    destruct r as [subs pub ctl part tst]; cbn [r_subs r_pub r_ctl r_partial r_test].
    destruct k; cbn; rewrite ?app_nil_r; try reflexivity;
      try (destruct ctl; reflexivity); try (destruct part; reflexivity); try (destruct tst; reflexivity).
Qed.

(* ---------------- no empty fragment, every fragment fits or is a single element ---------------- *)

Definition fits (limit : N) (r : rpc) : Prop := size r <= limit \/ (atoms r <= 1)%nat.
Definition good (limit : N) (r : rpc) : Prop := is_empty r = false /\ fits limit r.

Lemma emit_good limit out r : Forall (good limit) out -> fits limit r -> Forall (good limit) (emit out r).
Proof. intros H F. unfold emit. destruct (is_empty r) eqn:E; [exact H|]. constructor; [split; auto|exact H]. Qed.

Lemma step_good limit a cur' fresh :
  Forall (good limit) (fst a) -> fits limit (snd a) -> (atoms fresh <= 1)%nat ->
  Forall (good limit) (fst (step limit a cur' fresh)) /\ fits limit (snd (step limit a cur' fresh)).
Proof.
  intros H F Hf. unfold step. destruct (N.ltb_spec limit (size cur')); cbn [fst snd].
  - split; [apply emit_good; assumption|right; exact Hf].
  - split; [exact H|left; exact H0].
Qed.

Definition acc_good limit (a : acc) : Prop := Forall (good limit) (fst a) /\ fits limit (snd a).

Lemma fold_step_good limit (A : Type) (mk : acc -> A -> rpc) (fr : A -> rpc) l :
  (forall x, (atoms (fr x) <= 1)%nat) ->
  forall a, acc_good limit a -> acc_good limit (fold_left (fun a x => step limit a (mk a x) (fr x)) l a).
Proof.
  intros Hf. induction l as [|x l IH]; intros a G; cbn [fold_left]; [exact G|].
  apply IH. destruct G. apply step_good; auto.
Qed.

Lemma st_subs_good limit l a : acc_good limit a -> acc_good limit (st_subs limit a l).
Proof. unfold st_subs. apply (fold_step_good limit subopt (fun a s => set_subs (snd a) (r_subs (snd a) ++ [s])) (fun s => set_subs rpc_empty [s])). intros x. cbn. lia. Qed.
Lemma st_partial_good limit p a : acc_good limit a -> acc_good limit (st_partial limit a p).
Proof. intros [G1 G2]. destruct p; cbn [st_partial]; [|split; auto]. apply step_good; auto. Qed.
Lemma st_test_good limit t a : acc_good limit a -> acc_good limit (st_test limit a t).
Proof. intros [G1 G2]. destruct t; cbn [st_test]; [|split; auto]. apply step_good; auto. Qed.
Lemma st_shell_good limit a : acc_good limit a -> acc_good limit (st_shell limit a).
Proof. intros [G1 G2]. unfold st_shell. destruct (r_ctl (snd a)); [split; auto|]. apply step_good; auto. Qed.
Lemma st_ext_good limit e a : acc_good limit a -> acc_good limit (st_ext limit a e).
Proof. intros [G1 G2]. destruct e; cbn [st_ext]; [|split; auto]. apply step_good; auto. Qed.
Lemma st_graft_good limit l a : acc_good limit a -> acc_good limit (st_graft limit a l).
Proof. unfold st_graft. apply (fold_step_good limit graft (fun a g => upd_ctl (snd a) (fun c => c_set_graft c (c_graft c ++ [g]))) (fun g => fresh_ctl (fun c => c_set_graft c [g]))). intros x. cbn. lia. Qed.
Lemma st_prune_good limit l a : acc_good limit a -> acc_good limit (st_prune limit a l).
Proof. unfold st_prune. apply (fold_step_good limit prune (fun a g => upd_ctl (snd a) (fun c => c_set_prune c (c_prune c ++ [g]))) (fun g => fresh_ctl (fun c => c_set_prune c [g]))). intros x. cbn. lia. Qed.
Lemma iw_ids_good limit l a : acc_good limit a -> acc_good limit (iw_ids_stage limit a l).
Proof. unfold iw_ids_stage. apply (fold_step_good limit mid (fun a i => upd_ctl (snd a) (fun c => c_set_iwant c (app_last_iw (c_iwant c) i))) (fun i => fresh_ctl (fun c => c_set_iwant c [{| iw_ids := [i] |}]))). intros x. cbn. lia. Qed.
Lemma idw_ids_good limit l a : acc_good limit a -> acc_good limit (idw_ids_stage limit a l).
Proof. unfold idw_ids_stage. apply (fold_step_good limit mid (fun a i => upd_ctl (snd a) (fun c => c_set_idw c (app_last_iw (c_idw c) i))) (fun i => fresh_ctl (fun c => c_set_idw c [{| iw_ids := [i] |}]))). intros x. cbn. lia. Qed.
Lemma ih_ids_good limit p tl l a : acc_good limit a -> acc_good limit (ih_ids_stage limit a p tl l).
Proof. unfold ih_ids_stage. apply (fold_step_good limit mid (fun a i => upd_ctl (snd a) (fun c => c_set_ihave c (app_last_ih (c_ihave c) i))) (fun i => fresh_ctl (fun c => c_set_ihave c [{| ih_ptr := p; ih_tlen := tl; ih_ids := [i] |}]))). intros x. cbn. lia. Qed.

Lemma st_iwant_good limit l : forall a, acc_good limit a -> acc_good limit (st_iwant limit a l).
Proof.
  unfold st_iwant. induction l as [|w l IH]; intros a G; cbn [fold_left]; [exact G|].
  apply IH. apply iw_ids_good. destruct (c_iwant (ctl_of (snd a))); [|exact G].
  destruct G. apply step_good; auto.
Qed.
Lemma st_idw_good limit l : forall a, acc_good limit a -> acc_good limit (st_idw limit a l).
Proof.
  unfold st_idw. induction l as [|w l IH]; intros a G; cbn [fold_left]; [exact G|].
  apply IH. apply idw_ids_good. destruct (c_idw (ctl_of (snd a))); [|exact G].
  destruct G. apply step_good; auto.
Qed.
Lemma st_ihave_good limit l : forall a, acc_good limit a -> acc_good limit (st_ihave limit a l).
Proof.
  unfold st_ihave. induction l as [|h l IH]; intros a G; cbn [fold_left]; [exact G|].
  apply IH. apply ih_ids_good.
  destruct (match rev (c_ihave (ctl_of (snd a))) with [] => true | lasth :: _ => negb (ptr_eqb (ih_ptr lasth) (ih_ptr h)) end); [|exact G].
  destruct G. apply step_good; auto.
Qed.
Lemma st_control_good limit oc a : acc_good limit a -> acc_good limit (st_control limit a oc).
Proof.
  intros G. destruct oc as [c|]; cbn [st_control]; [|exact G].
  apply st_idw_good, st_ihave_good, st_iwant_good, st_prune_good, st_graft_good, st_ext_good, st_shell_good, G.
Qed.

Lemma sumN_app {A} (f : A -> N) l1 l2 : sumN f (l1 ++ l2) = sumN f l1 + sumN f l2.
Proof. unfold sumN. induction l1 as [|x l1 IH]; cbn; [reflexivity|]. rewrite IH. lia. Qed.

Lemma size_pub_rpc ms : size (pub_rpc ms) = sumN (fun m => emb (msize m)) ms.
Proof. unfold size, pub_rpc. cbn [r_subs r_pub r_ctl r_partial r_test]. unfold sumN at 1. cbn [fold_right]. lia. Qed.
Lemma atoms_pub_rpc ms : atoms (pub_rpc ms) = length ms.
Proof. unfold atoms. cbn. now rewrite app_nil_r, map_length. Qed.

Lemma pack_pub_good limit ms : forall cur cursz out,
  Forall (good limit) out -> cursz = sumN (fun m => emb (msize m)) cur ->
  (cursz <= limit \/ (length cur <= 1)%nat) ->
  Forall (good limit) (pack_pub limit ms cur cursz out).
Proof.
  induction ms as [|m ms IH]; intros cur cursz out G E F; cbn [pack_pub].
  - destruct cur as [|c0 cur']; [exact G|]. apply emit_good; [exact G|].
    unfold fits. rewrite size_pub_rpc, atoms_pub_rpc, <- E. exact F.
  - destruct (N.ltb_spec limit (cursz + emb (msize m))).
    + apply IH.
      * apply emit_good; [exact G|]. unfold fits. rewrite size_pub_rpc, atoms_pub_rpc, <- E. exact F.
      * cbn. lia.
      * right. cbn. lia.
    + apply IH; [exact G| |left; lia]. rewrite sumN_app. cbn. lia.
Qed.

Theorem split_good limit r : Forall (good limit) (split limit r).
Proof.
  unfold split.
  assert (P : Forall (good limit) (pack_pub limit (r_pub r) [] 0 [])).
  { apply pack_pub_good; [constructor|reflexivity|left; lia]. }
  set (rest := {| r_subs := r_subs r; r_pub := []; r_ctl := r_ctl r; r_partial := r_partial r; r_test := r_test r |}).
  destruct (N.ltb_spec (size rest) limit).
  - apply Forall_rev. apply emit_good; [exact P|]. left. lia.
  - apply Forall_rev.
    assert (G : acc_good limit (st_control limit (st_test limit (st_partial limit (st_subs limit
                  (pack_pub limit (r_pub r) [] 0 [], rpc_empty) (r_subs r)) (r_partial r)) (r_test r)) (r_ctl r))).
    { apply st_control_good, st_test_good, st_partial_good, st_subs_good. split; [exact P|]. right. cbn. lia. }
    destruct G as [G1 G2]. apply emit_good; assumption.
Qed.

Theorem split_no_empty limit r f : In f (split limit r) -> is_empty f = false.
Proof. intros H. pose proof (split_good limit r) as G. rewrite Forall_forall in G. apply (G f H). Qed.

Theorem split_fits limit r f : In f (split limit r) -> size f <= limit \/ (atoms f <= 1)%nat.
Proof. intros H. pose proof (split_good limit r) as G. rewrite Forall_forall in G. apply (G f H). Qed.

(* ---------------- sendRPC ---------------- *)

Theorem send_never_queues_oversize max r f : In f (fst (send_rpc max r)) -> size f <= max.
Proof.
  unfold send_rpc. destruct (N.ltb_spec (size r) max); cbn [fst].
  - intros [<-|[]]. lia.
  - destruct (partition (fun f0 => size f0 <=? max) (split max r)) as [qd dr] eqn:E. cbn [fst].
    intros Hin. pose proof (elements_in_partition _ _ E) as EP.
    assert (F : forall x, In x qd -> (size x <=? max) = true).
    { clear - E. revert qd dr E. induction (split max r) as [|y l IH]; intros qd dr E; cbn in E.
      - inversion E; subst. intros x [].
      - destruct (partition (fun f0 => size f0 <=? max) l) as [q1 d1] eqn:E1.
        destruct (size y <=? max) eqn:Ey; inversion E; subst.
        + intros x [<-|Hx]; [exact Ey|]. eapply IH; eauto.
        + eapply IH; eauto. }
    apply N.leb_le. apply F. exact Hin.
Qed.

Theorem send_drops_only_single_oversize max r f :
  In f (snd (send_rpc max r)) -> max < size f /\ (atoms f <= 1)%nat /\ is_empty f = false.
Proof.
  unfold send_rpc. destruct (N.ltb_spec (size r) max); cbn [snd]; [intros []|].
  destruct (partition (fun f0 => size f0 <=? max) (split max r)) as [qd dr] eqn:E. cbn [snd].
  intros Hin.
  assert (F : forall x, In x dr -> (size x <=? max) = false /\ In x (split max r)).
  { clear - E. revert qd dr E. induction (split max r) as [|y l IH]; intros qd dr E; cbn in E.
    - inversion E; subst. intros x [].
    - destruct (partition (fun f0 => size f0 <=? max) l) as [q1 d1] eqn:E1.
      destruct (size y <=? max) eqn:Ey; inversion E; subst.
      + intros x Hx. destruct (IH _ _ eq_refl x Hx). split; [assumption|now right].
      + intros x [<-|Hx]; [split; [exact Ey|now left]|]. destruct (IH _ _ eq_refl x Hx). split; [assumption|now right]. }
  destruct (F f Hin) as [F1 F2]. apply N.leb_gt in F1.
  split; [exact F1|]. split; [|eapply split_no_empty; eauto].
  destruct (split_fits _ _ _ F2); [lia|assumption].
Qed.

Theorem send_direct_when_small max r : size r < max -> send_rpc max r = ([r], []).
Proof. intros H. unfold send_rpc. destruct (N.ltb_spec (size r) max); [reflexivity|lia]. Qed.

Theorem send_content max r k x :
  In x (content r k) -> size r >= max ->
  exists f, (In f (fst (send_rpc max r)) \/ In f (snd (send_rpc max r))) /\ In x (content f k).
Proof.
  intros Hx Hs. unfold send_rpc. destruct (N.ltb_spec (size r) max); [lia|].
  rewrite <- (split_content max r k) in Hx. unfold flat in Hx. apply in_concat in Hx as (l & Hl & Hx).
  apply in_map_iff in Hl as (f & <- & Hf).
  destruct (partition (fun f0 => size f0 <=? max) (split max r)) as [qd dr] eqn:E.
  exists f. split; [|exact Hx]. cbn [fst snd]. apply (elements_in_partition _ _ E). exact Hf.
Qed.
