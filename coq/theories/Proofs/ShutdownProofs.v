From Coq Require Import List String Bool Arith.
Import ListNotations.
From PS Require Import Model.Shutdown.

(* if every send site is guarded, every call made or in progress after shutdown returns, whatever the buffers hold *)
Theorem guarded_calls_return l : all_guarded l = true -> forall free, fst (call_after_shutdown l free) = Returned.
Proof.
  induction l as [|s l IH]; intros H free; [reflexivity|].
  cbn in H. apply andb_true_iff in H. destruct H as [Hs Hl].
  cbn [call_after_shutdown]. unfold send_after_shutdown. rewrite Hs. apply IH. exact Hl.
Qed.

(* and in any sub-list of the inventory *)
Theorem guarded_sublist l l' : all_guarded l = true -> incl l' l -> forall free, fst (call_after_shutdown l' free) = Returned.
Proof.
  intros H Hin. apply guarded_calls_return. unfold all_guarded in *. rewrite forallb_forall in *. intros x Hx. apply H. apply Hin. exact Hx.
Qed.

(* one bare send is enough to hang a caller: the second use of an unguarded, capacity-1 channel after shutdown *)
Theorem unguarded_send_can_block s :
  s_guarded s = false -> fst (call_after_shutdown [s; s] 1) = BlockedForever.
Proof. intros H. cbn. unfold send_after_shutdown. rewrite H. destruct (s_buffered s); reflexivity. Qed.

(* the event loop never blocks on an answer: for every request in a safe inventory, whatever the caller does that it
   is able to do, the loop's send returns *)
Theorem loop_reply_returns l r caller_left :
  all_replies_safe l = true -> In r l -> (caller_left = true -> caller_may_leave r = true) -> reply_send r caller_left = Returned.
Proof.
  intros H Hin Hc. unfold all_replies_safe in H. rewrite forallb_forall in H. specialize (H r Hin). unfold reply_safe in H.
  unfold reply_send. destruct (r_buffered r); [reflexivity|]. cbn in H.
  destruct caller_left; [|reflexivity]. specialize (Hc eq_refl). unfold caller_may_leave in Hc. rewrite H in Hc. discriminate.
Qed.
(* and an unbuffered reply channel whose maker may leave is enough to hang the loop for good *)
Theorem unsafe_reply_blocks_loop r : reply_safe r = false -> caller_may_leave r = true /\ reply_send r true = BlockedForever.
Proof.
  unfold reply_safe, caller_may_leave, reply_send. intros H. apply orb_false_iff in H. destruct H as [Hb Hp]. rewrite Hb, Hp. split; reflexivity.
Qed.
