From Coq Require Import List Bool Arith PeanoNat Lia.
Import ListNotations.
From PS Require Import Model.RpcQueue.

(* ---------------- the sequential specification ---------------- *)

Lemma s_pop_item qq q' x :
  s_pop qq = (q', RItem x) ->
  s_closed qq = false /\ s_cap q' = s_cap qq /\ s_closed q' = false /\
  ((s_prio qq = x :: s_prio q' /\ s_norm q' = s_norm qq) \/
   (s_prio qq = [] /\ s_prio q' = [] /\ s_norm qq = x :: s_norm q')).
Proof.
  unfold s_pop. destruct (s_closed qq) eqn:C; [discriminate|].
  destruct (s_prio qq) as [|y p] eqn:P.
  - destruct (s_norm qq) as [|y n] eqn:N; [discriminate|]. intros H; inversion H; subst; cbn. auto 10.
  - intros H; inversion H; subst; cbn. auto 10.
Qed.

Lemma s_pop_noitem qq q' r :
  s_pop qq = (q', r) -> (forall x, r <> RItem x) ->
  q' = qq /\ (s_closed qq = true \/ (s_closed qq = false /\ s_prio qq = [] /\ s_norm qq = [])).
Proof.
  unfold s_pop. destruct (s_closed qq) eqn:C.
  - intros H _; inversion H; auto.
  - destruct (s_prio qq) as [|y p] eqn:P.
    + destruct (s_norm qq) as [|y n] eqn:N.
      * intros H _; inversion H; auto.
      * intros H Hn; inversion H; subst. exfalso. eapply Hn; reflexivity.
    + intros H Hn; inversion H; subst. exfalso. eapply Hn; reflexivity.
Qed.

Lemma s_push_ok qq x u q' :
  s_push qq x u = (q', ROk) ->
  s_closed qq = false /\ s_len qq <> s_cap qq /\ s_cap q' = s_cap qq /\ s_closed q' = false /\
  s_prio q' = (if u then s_prio qq ++ [x] else s_prio qq) /\
  s_norm q' = (if u then s_norm qq else s_norm qq ++ [x]).
Proof.
  unfold s_push. destruct (s_closed qq) eqn:C; [discriminate|].
  destruct (Nat.eqb_spec (s_len qq) (s_cap qq)); [discriminate|].
  destruct u; intros H; inversion H; subst; cbn; auto 10.
Qed.

Lemma s_push_full qq x u q' :
  s_push qq x u = (q', RFull) -> q' = qq /\ s_closed qq = false /\ s_len qq = s_cap qq.
Proof.
  unfold s_push. destruct (s_closed qq) eqn:C; [discriminate|].
  destruct (Nat.eqb_spec (s_len qq) (s_cap qq)); [|destruct u; discriminate].
  intros H; inversion H; subst; auto.
Qed.

Lemma s_push_cases qq x u q' r :
  s_push qq x u = (q', r) -> r = RPanic \/ r = RFull \/ r = ROk.
Proof.
  unfold s_push. destruct (s_closed qq); [intros H; inversion H; auto|].
  destruct (Nat.eqb (s_len qq) (s_cap qq)); [intros H; inversion H; auto|].
  destruct u; intros H; inversion H; auto.
Qed.

(* spec-level facts the property names *)
Theorem spec_push_full_iff qq x u :
  s_closed qq = false -> (snd (s_push qq x u) = RFull <-> s_len qq = s_cap qq).
Proof.
  intros C. unfold s_push. rewrite C. destruct (Nat.eqb_spec (s_len qq) (s_cap qq)); cbn.
  - tauto.
  - destruct u; cbn; split; intros; congruence.
Qed.

Theorem spec_pop_urgent_first qq q' x :
  s_pop qq = (q', RItem x) ->
  match s_prio qq with y :: _ => x = y | [] => exists n, s_norm qq = x :: n end.
Proof.
  intros H. destruct (s_pop_item _ _ _ H) as (_ & _ & _ & [[P _]|(P & _ & N)]); rewrite P; eauto.
Qed.

Theorem spec_push_on_closed qq x u : s_closed qq = true -> s_push qq x u = (qq, RPanic).
Proof. intros C. unfold s_push. now rewrite C. Qed.

Theorem spec_pop_on_closed qq : s_closed qq = true -> s_pop qq = (qq, RClosed).
Proof. intros C. unfold s_pop. now rewrite C. Qed.

(* ---------------- list helpers ---------------- *)

Lemma srem_length i l : memb i l = true -> S (length (srem i l)) = length l.
Proof.
  induction l as [|j l IH]; cbn [memb existsb srem]; [discriminate|].
  destruct (Nat.eqb i j); cbn [orb length]; [reflexivity|]. intros H. now rewrite (IH H).
Qed.

Lemma urem_length i l u : ufind i l = Some u -> S (length (urem i l)) = length l.
Proof.
  induction l as [|v l IH]; cbn [ufind urem]; [discriminate|].
  destruct (Nat.eqb i (u_id v)); cbn [length]; [reflexivity|]. intros H. now rewrite (IH H).
Qed.

Lemma umemb_ufind i l : umemb i l = true -> exists u, ufind i l = Some u.
Proof.
  induction l as [|v l IH]; cbn [umemb existsb ufind]; [discriminate|].
  destruct (Nat.eqb i (u_id v)); cbn [orb]; eauto.
Qed.

Lemma memb_app i a b : memb i (a ++ b) = memb i a || memb i b.
Proof. unfold memb. apply existsb_app. Qed.

Lemma memb_srem_other i j l : i <> j -> memb i (srem j l) = memb i l.
Proof.
  intros Hij. induction l as [|k l IH]; cbn [srem memb existsb]; [reflexivity|].
  destruct (Nat.eqb_spec j k) as [->|Hjk].
  - destruct (Nat.eqb_spec i k); [congruence|reflexivity].
  - cbn [memb existsb]. fold (memb i (srem j l)). fold (memb i l). now rewrite IH.
Qed.

Lemma memb_srem_sub i j l : memb i (srem j l) = true -> memb i l = true.
Proof.
  induction l as [|k l IH]; cbn [srem memb existsb]; [discriminate|].
  destruct (Nat.eqb j k).
  - intros H. fold (memb i l). fold (memb i l) in H. rewrite H. apply orb_true_r.
  - cbn [memb existsb]. fold (memb i (srem j l)). fold (memb i l).
    destruct (Nat.eqb i k); cbn [orb]; auto.
Qed.

(* ---------------- invariant 1: queue discipline (bounded, per-class FIFO, holder) ---------------- *)

Record QInv (s : st) : Prop := {
  qi_bound : len s <= s_cap (q s);
  qi_fifoU : pushedU s = poppedU s ++ s_prio (q s);
  qi_fifoN : pushedN s = poppedN s ++ s_norm (q s);
  qi_hold  : forall i, holder s = Some i -> len s = 0 /\ s_closed (q s) = false
}.

Lemma QInv_init cap : QInv (init cap).
Proof. split; cbn; try reflexivity; [lia|discriminate]. Qed.

Ltac inv_some := match goal with H : Some _ = Some _ |- _ => inversion H; subst; clear H end.

Lemma pop_loop_cases s i w afl pw s' :
  pop_loop s i w afl pw = Some s' ->
  (exists q' x, s_pop (q s) = (q', RItem x) /\ q s' = q' /\ holder s' = None /\
        results s' = (i, RItem x) :: results s /\ sig_ok_u w (space_wait s) = true /\
        pushedU s' = pushedU s /\ pushedN s' = pushedN s /\
        poppedU s' = (if match s_prio (q s) with [] => false | _ => true end then poppedU s ++ [x] else poppedU s) /\
        poppedN s' = (if match s_prio (q s) with [] => false | _ => true end then poppedN s else poppedN s ++ [x]) /\
        data_wait s' = data_wait s /\ p_woken s' = pw /\ cancelled s' = cancelled s /\
        space_wait s' = (match w with Some j => urem j (space_wait s) | None => space_wait s end) /\
        u_woken s' = (match w with Some j => match ufind j (space_wait s) with Some u => [u] | None => [] end | None => [] end) ++ u_woken s)
  \/ (w = None /\ q s' = q s /\ (s_closed (q s) = true \/ (s_closed (q s) = false /\ s_prio (q s) = [] /\ s_norm (q s) = [])) /\
      pushedU s' = pushedU s /\ pushedN s' = pushedN s /\ poppedU s' = poppedU s /\ poppedN s' = poppedN s /\
      data_wait s' = data_wait s /\ p_woken s' = pw /\ cancelled s' = cancelled s /\
      space_wait s' = space_wait s /\ u_woken s' = u_woken s /\
      ((memb i (cancelled s) = true /\ holder s' = None /\ results s' = (i, RCancelled) :: results s)
       \/ (memb i (cancelled s) = false /\ holder s' = Some i /\ results s' = results s /\ af s' = afl))).
Proof.
  unfold pop_loop. destruct (s_pop (q s)) as [q' r] eqn:E.
  destruct r as [x| | | | | |].
  - destruct (sig_ok_u w (space_wait s)) eqn:Sg; [|discriminate]. intros H; inv_some. left.
    exists q', x. cbn. repeat split; auto.
  - destruct w; [discriminate|]. destruct (s_pop_noitem _ _ _ E) as [-> C]; [discriminate|].
    destruct (memb i (cancelled s)) eqn:M; intros H; inv_some; right; cbn; repeat split; auto.
  - destruct w; [discriminate|]. destruct (s_pop_noitem _ _ _ E) as [-> C]; [discriminate|].
    destruct (memb i (cancelled s)) eqn:M; intros H; inv_some; right; cbn; repeat split; auto.
  - destruct w; [discriminate|]. destruct (s_pop_noitem _ _ _ E) as [-> C]; [discriminate|].
    destruct (memb i (cancelled s)) eqn:M; intros H; inv_some; right; cbn; repeat split; auto.
  - destruct w; [discriminate|]. destruct (s_pop_noitem _ _ _ E) as [-> C]; [discriminate|].
    destruct (memb i (cancelled s)) eqn:M; intros H; inv_some; right; cbn; repeat split; auto.
  - destruct w; [discriminate|]. destruct (s_pop_noitem _ _ _ E) as [-> C]; [discriminate|].
    destruct (memb i (cancelled s)) eqn:M; intros H; inv_some; right; cbn; repeat split; auto.
  - destruct w; [discriminate|]. destruct (s_pop_noitem _ _ _ E) as [-> C]; [discriminate|].
    destruct (memb i (cancelled s)) eqn:M; intros H; inv_some; right; cbn; repeat split; auto.
Qed.

Lemma push_loop_cases s u block w uw s' :
  push_loop s u block w uw = Some s' ->
  (exists q', s_push (q s) (u_item u) (u_urgent u) = (q', ROk) /\ q s' = q' /\ holder s' = None /\
      sig_ok_p w (data_wait s) = true /\
      results s' = (u_id u, ROk) :: results s /\
      pushedU s' = (if u_urgent u then pushedU s ++ [u_item u] else pushedU s) /\
      pushedN s' = (if u_urgent u then pushedN s else pushedN s ++ [u_item u]) /\
      poppedU s' = poppedU s /\ poppedN s' = poppedN s /\
      data_wait s' = (match w with Some j => srem j (data_wait s) | None => data_wait s end) /\
      p_woken s' = (match w with Some j => j :: p_woken s | None => p_woken s end) /\
      space_wait s' = space_wait s /\ u_woken s' = uw /\ cancelled s' = cancelled s /\ af s' = af s)
  \/ (w = None /\ q s' = q s /\ holder s' = None /\ s_closed (q s) = false /\ s_len (q s) = s_cap (q s) /\
      pushedU s' = pushedU s /\ pushedN s' = pushedN s /\ poppedU s' = poppedU s /\ poppedN s' = poppedN s /\
      data_wait s' = data_wait s /\ p_woken s' = p_woken s /\ u_woken s' = uw /\ cancelled s' = cancelled s /\ af s' = af s /\
      ((block = true /\ space_wait s' = space_wait s ++ [u] /\ results s' = results s)
       \/ (block = false /\ space_wait s' = space_wait s /\ results s' = (u_id u, RFull) :: results s))).
Proof.
  unfold push_loop. destruct (s_push (q s) (u_item u) (u_urgent u)) as [q' r] eqn:E.
  destruct (s_push_cases _ _ _ _ _ E) as [->|[->| ->]]; [discriminate| |].
  - destruct w; [discriminate|]. destruct (s_push_full _ _ _ _ E) as (-> & C & L).
    destruct block; intros H; inv_some; right; cbn; repeat split; auto.
  - destruct (sig_ok_p w (data_wait s)) eqn:Sg; [|discriminate]. intros H; inv_some. left.
    exists q'. cbn. repeat split; auto.
Qed.

Lemma len_after_pop qq q' x : s_pop qq = (q', RItem x) -> S (s_len q') = s_len qq.
Proof.
  intros H. destruct (s_pop_item _ _ _ H) as (_ & _ & _ & [[P N]|(P & P' & N)]); unfold s_len.
  - rewrite P, N. cbn. lia.
  - rewrite P, P', N. cbn. lia.
Qed.

Lemma len_after_push qq x u q' : s_push qq x u = (q', ROk) -> s_len q' = S (s_len qq).
Proof.
  intros H. destruct (s_push_ok _ _ _ _ H) as (_ & _ & _ & _ & P & N). unfold s_len. rewrite P, N.
  destruct u; rewrite app_length; cbn; lia.
Qed.

Lemma step_QInv afl s a s' : QInv s -> step afl s a = Some s' -> QInv s'.
Proof.
  intros [B FU FN Hd] H. unfold len in *.
  destruct a as [i w|i|i w|i|i|i x urgent block w|i w|]; cbn [step] in H.
  - (* PopBegin *)
    destruct (free s && negb (memb i (used s))) eqn:G; [|discriminate].
    apply andb_prop in G as [Fr _]. unfold free in Fr. destruct (holder s) eqn:Eh; [discriminate|].
    cbn [mark_used q af p_woken u_woken] in H.
    destruct (s_closed (q s)) eqn:C.
    + destruct w; [discriminate|]. inv_some. split; cbn; auto. discriminate.
    + apply pop_loop_cases in H. cbn [mark_used q space_wait results pushedU pushedN poppedU poppedN data_wait cancelled u_woken] in H.
      destruct H as [(q' & x & E & Eq & Eh' & _ & _ & PU & PN & QU & QN & _)|(_ & Eq & Cs & PU & PN & QU & QN & _ & _ & _ & _ & _ & Hr)].
      * pose proof (len_after_pop _ _ _ E) as L.
        destruct (s_pop_item _ _ _ E) as (_ & Cap & _ & [[P N]|(P & P' & N)]).
        -- split; unfold len; rewrite ?Eq, ?Eh', ?PU, ?PN, ?QU, ?QN, ?Cap; try discriminate.
           ++ lia.
           ++ rewrite P. rewrite FU, P, <- app_assoc. reflexivity.
           ++ rewrite P. rewrite FN, N. reflexivity.
        -- split; unfold len; rewrite ?Eq, ?Eh', ?PU, ?PN, ?QU, ?QN, ?Cap; try discriminate.
           ++ lia.
           ++ rewrite P. rewrite FU, P, P'. reflexivity.
           ++ rewrite P. rewrite FN, N, <- app_assoc. reflexivity.
      * split; unfold len; rewrite ?Eq, ?PU, ?PN, ?QU, ?QN; auto.
        destruct Hr as [(_ & Eh' & _)|(_ & Eh' & _)]; rewrite Eh'; [discriminate|].
        intros j _. destruct Cs as [Cs|(Cs & P & N)]; [congruence|]. unfold s_len. rewrite P, N. auto.
  - (* PopWait *)
    destruct (holder s) as [j|] eqn:Eh; [|discriminate]. destruct (Nat.eqb i j); [|discriminate].
    inv_some. split; cbn; auto. discriminate.
  - (* PopRelock *)
    destruct (free s && memb i (p_woken s)) eqn:G; [|discriminate].
    destruct (s_closed (q s)) eqn:C.
    + destruct w; [discriminate|]. inv_some. split; cbn; auto. discriminate.
    + apply pop_loop_cases in H.
      destruct H as [(q' & x & E & Eq & Eh' & _ & _ & PU & PN & QU & QN & _)|(_ & Eq & Cs & PU & PN & QU & QN & _ & _ & _ & _ & _ & Hr)].
      * pose proof (len_after_pop _ _ _ E) as L.
        destruct (s_pop_item _ _ _ E) as (_ & Cap & _ & [[P N]|(P & P' & N)]).
        -- split; unfold len; rewrite ?Eq, ?Eh', ?PU, ?PN, ?QU, ?QN, ?Cap; try discriminate.
           ++ lia.
           ++ rewrite P. rewrite FU, P, <- app_assoc. reflexivity.
           ++ rewrite P. rewrite FN, N. reflexivity.
        -- split; unfold len; rewrite ?Eq, ?Eh', ?PU, ?PN, ?QU, ?QN, ?Cap; try discriminate.
           ++ lia.
           ++ rewrite P. rewrite FU, P, P'. reflexivity.
           ++ rewrite P. rewrite FN, N, <- app_assoc. reflexivity.
      * split; unfold len; rewrite ?Eq, ?PU, ?PN, ?QU, ?QN; auto.
        destruct Hr as [(_ & Eh' & _)|(_ & Eh' & _)]; rewrite Eh'; [discriminate|].
        intros j _. destruct Cs as [Cs|(Cs & P & N)]; [congruence|]. unfold s_len. rewrite P, N. auto.
  - (* Cancel *)
    destruct (memb i (cancelled s)); [discriminate|]. inv_some. split; cbn; auto.
  - (* AFRun *)
    destruct (aget i (af s)) as [[]|]; try discriminate.
    destruct (negb afl || free s); [|discriminate]. inv_some. split; cbn; auto.
  - (* PushBegin *)
    destruct (free s && negb (memb i (used s))) eqn:G; [|discriminate].
    cbn [mark_used q af p_woken u_woken] in H.
    destruct (s_closed (q s)) eqn:C.
    + destruct w; [discriminate|]. inv_some. split; cbn; auto. discriminate.
    + apply push_loop_cases in H. cbn [mark_used q data_wait results pushedU pushedN poppedU poppedN u_item u_urgent u_id space_wait p_woken cancelled af] in H.
      destruct H as [(q' & E & Eq & Eh' & _ & _ & PU & PN & QU & QN & _)|(_ & Eq & Eh' & _ & _ & PU & PN & QU & QN & _)].
      * pose proof (len_after_push _ _ _ _ E) as L.
        destruct (s_push_ok _ _ _ _ E) as (_ & Ne & Cap & _ & P & N).
        split; unfold len; rewrite ?Eq, ?Eh', ?PU, ?PN, ?QU, ?QN, ?Cap; try discriminate.
        -- lia.
        -- rewrite P. destruct urgent; rewrite FU, ?app_assoc; reflexivity.
        -- rewrite N. destruct urgent; rewrite FN, ?app_assoc; reflexivity.
      * split; unfold len; rewrite ?Eq, ?Eh', ?PU, ?PN, ?QU, ?QN; auto. discriminate.
  - (* PushRelock *)
    destruct (free s) eqn:Fr; [|discriminate].
    destruct (ufind i (u_woken s)) as [u|] eqn:Eu; [|discriminate].
    destruct (s_closed (q s)) eqn:C.
    + destruct w; [discriminate|]. inv_some. split; cbn; auto. discriminate.
    + apply push_loop_cases in H.
      destruct H as [(q' & E & Eq & Eh' & _ & _ & PU & PN & QU & QN & _)|(_ & Eq & Eh' & _ & _ & PU & PN & QU & QN & _)].
      * pose proof (len_after_push _ _ _ _ E) as L.
        destruct (s_push_ok _ _ _ _ E) as (_ & Ne & Cap & _ & P & N).
        split; unfold len; rewrite ?Eq, ?Eh', ?PU, ?PN, ?QU, ?QN, ?Cap; try discriminate.
        -- lia.
        -- rewrite P. destruct (u_urgent u); rewrite FU, ?app_assoc; reflexivity.
        -- rewrite N. destruct (u_urgent u); rewrite FN, ?app_assoc; reflexivity.
      * split; unfold len; rewrite ?Eq, ?Eh', ?PU, ?PN, ?QU, ?QN; auto. discriminate.
  - (* Close *)
    destruct (free s); [|discriminate]. inv_some. split; cbn; auto. discriminate.
Qed.

Lemma run_QInv afl l : forall s s', QInv s -> run afl s l = Some s' -> QInv s'.
Proof.
  induction l as [|a l IH]; intros s s' I H; cbn [run] in H.
  - now inv_some.
  - destruct (step afl s a) as [s1|] eqn:E; [|discriminate]. eapply IH; [|exact H]. eapply step_QInv; eassumption.
Qed.

(* ---------------- invariant 2: no lost Signal (blocked push / pop resumes) ---------------- *)

Record SInv (s : st) : Prop := {
  si_space : s_closed (q s) = false -> space_wait s <> [] -> s_cap (q s) <= len s + length (u_woken s);
  si_data  : s_closed (q s) = false -> data_wait s <> [] -> len s <= length (p_woken s);
  si_closed : s_closed (q s) = true -> space_wait s = [] /\ data_wait s = []
}.

Lemma SInv_init cap : SInv (init cap).
Proof. split; cbn; try congruence. Qed.

Lemma sig_ok_u_none ws : sig_ok_u None ws = true -> ws = [].
Proof. destruct ws; cbn; congruence. Qed.
Lemma sig_ok_p_none ws : sig_ok_p None ws = true -> ws = [].
Proof. destruct ws; cbn; congruence. Qed.

Lemma pop_loop_SInv s i w afl pw s' :
  QInv s -> SInv s -> s_closed (q s) = false ->
  (pw = p_woken s \/ S (length pw) = length (p_woken s)) ->
  pop_loop s i w afl pw = Some s' -> SInv s'.
Proof.
  intros [B _ _ _] [Sp Dt Cl] C Hpw H. unfold len in *.
  apply pop_loop_cases in H.
  destruct H as [(q' & x & E & Eq & Eh' & _ & Sg & _ & _ & _ & _ & DW & PW & _ & SW & UW)
                |(_ & Eq & Cs & _ & _ & _ & _ & DW & PW & _ & SW & UW & Hr)].
  - pose proof (len_after_pop _ _ _ E) as L.
    destruct (s_pop_item _ _ _ E) as (_ & Cap & C' & _).
    split; unfold len; rewrite ?Eq, ?DW, ?PW, ?SW, ?UW, ?Cap; try congruence.
    + intros _ Hne. destruct w as [j|].
      * cbn in Sg. destruct (umemb_ufind _ _ Sg) as [u Eu]. rewrite Eu. cbn [app length].
        assert (space_wait s <> []) by (intros E0; rewrite E0 in Eu; discriminate).
        specialize (Sp C H). lia.
      * apply sig_ok_u_none in Sg. congruence.
    + intros _ Hne. specialize (Dt C Hne). destruct Hpw as [->|Hpw]; lia.
  - split; unfold len; rewrite ?Eq, ?DW, ?PW, ?SW, ?UW; auto.
    intros _ Hne. destruct Cs as [Cs|(_ & P & N)]; [congruence|]. unfold s_len. rewrite P, N. cbn. lia.
Qed.

Lemma push_loop_SInv s u block w uw s' :
  QInv s -> SInv s -> s_closed (q s) = false ->
  (uw = u_woken s \/ S (length uw) = length (u_woken s)) ->
  push_loop s u block w uw = Some s' -> SInv s'.
Proof.
  intros [B _ _ _] [Sp Dt Cl] C Huw H. unfold len in *.
  apply push_loop_cases in H.
  destruct H as [(q' & E & Eq & Eh' & Sg & _ & _ & _ & _ & _ & DW & PW & SW & UW & _)
                |(_ & Eq & Eh' & _ & Lf & _ & _ & _ & _ & DW & PW & UW & _ & _ & Hr)].
  - pose proof (len_after_push _ _ _ _ E) as L.
    destruct (s_push_ok _ _ _ _ E) as (_ & Ne & Cap & C' & _).
    split; unfold len; rewrite ?Eq, ?DW, ?PW, ?SW, ?UW, ?Cap; try congruence.
    + intros _ Hne. specialize (Sp C Hne). destruct Huw as [->|Huw]; lia.
    + intros _ Hne. destruct w as [j|].
      * cbn [length]. assert (data_wait s <> []) by (cbn in Sg; intros E0; rewrite E0 in Sg; discriminate).
        specialize (Dt C H). lia.
      * apply sig_ok_p_none in Sg. congruence.
  - split; unfold len; rewrite ?Eq, ?DW, ?PW, ?UW; auto.
    + intros _ _. lia.
    + destruct Hr as [(_ & SW & _)|(_ & SW & _)]; rewrite SW; intros C1; destruct (Cl C1) as [-> ->]; [congruence|auto].
Qed.

Lemma step_SInv afl s a s' : QInv s -> SInv s -> step afl s a = Some s' -> SInv s'.
Proof.
  intros QI SI H. pose proof SI as [Sp Dt Cl]. pose proof QI as [B _ _ Hd]. unfold len in *.
  destruct a as [i w|i|i w|i|i|i x urgent block w|i w|]; cbn [step] in H.
  - destruct (free s && negb (memb i (used s))); [|discriminate].
    cbn [mark_used q af p_woken u_woken] in H.
    destruct (s_closed (q s)) eqn:C.
    + destruct w; [discriminate|]. inv_some. split; cbn; auto; try (intros; congruence).
    + eapply (pop_loop_SInv (mark_used s i)); try eassumption; cbn; auto.
      * destruct QI; split; cbn; auto.
      * split; cbn; auto; intros; congruence.
  - destruct (holder s) as [j|] eqn:Eh; [|discriminate]. destruct (Nat.eqb i j); [|discriminate].
    destruct (Hd j eq_refl) as [L0 C0]. inv_some. split; unfold len; cbn; auto.
    + intros _ _. unfold len in L0. lia.
    + congruence.
  - destruct (free s && memb i (p_woken s)) eqn:G; [|discriminate]. apply andb_prop in G as [_ Mi].
    destruct (s_closed (q s)) eqn:C.
    + destruct w; [discriminate|]. inv_some. split; cbn; auto; try (intros; congruence).
    + eapply pop_loop_SInv; try eassumption. right. apply srem_length. exact Mi.
  - destruct (memb i (cancelled s)); [discriminate|]. inv_some. split; cbn; auto; try (intros; congruence).
  - destruct (aget i (af s)) as [[]|]; try discriminate.
    destruct (negb afl || free s); [|discriminate]. inv_some. split; unfold len; cbn; auto.
    + congruence.
    + intros C1. destruct (Cl C1) as [-> _]. auto.
  - destruct (free s && negb (memb i (used s))); [|discriminate].
    cbn [mark_used q af p_woken u_woken] in H.
    destruct (s_closed (q s)) eqn:C.
    + destruct w; [discriminate|]. inv_some. split; cbn; auto; try (intros; congruence).
    + eapply (push_loop_SInv (mark_used s i)); try eassumption; cbn; auto.
      * destruct QI; split; cbn; auto.
      * split; cbn; auto; intros; congruence.
  - destruct (free s); [|discriminate].
    destruct (ufind i (u_woken s)) as [u|] eqn:Eu; [|discriminate].
    destruct (s_closed (q s)) eqn:C.
    + destruct w; [discriminate|]. inv_some. split; cbn; auto; try (intros; congruence).
    + eapply push_loop_SInv; try eassumption. right. eapply urem_length. exact Eu.
  - destruct (free s); [|discriminate]. inv_some. split; cbn; auto; congruence.
Qed.

Lemma run_QS afl l : forall s s', QInv s -> SInv s -> run afl s l = Some s' -> QInv s' /\ SInv s'.
Proof.
  induction l as [|a l IH]; intros s s' I J H; cbn [run] in H.
  - inv_some. auto.
  - destruct (step afl s a) as [s1|] eqn:E; [|discriminate]. eapply IH; [| |exact H].
    + eapply step_QInv; eassumption.
    + eapply step_SInv; eassumption.
Qed.

(* ---------------- invariant 3: cancellation is never lost when the AfterFunc takes the mutex ---------------- *)

Definition af_live (s : st) (j : tid) : Prop :=
  aget j (af s) = Some (if memb j (cancelled s) then AFPending else AFArmed).
Definition af_wok (s : st) (j : tid) : Prop :=
  match aget j (af s) with
  | Some AFArmed => memb j (cancelled s) = false
  | Some AFPending | Some AFRan => memb j (cancelled s) = true
  | None => False
  end.

Record AInv (s : st) : Prop := {
  ai_used : forall j, memb j (data_wait s) = true \/ memb j (p_woken s) = true \/ holder s = Some j ->
                      memb j (used s) = true;
  ai_live : forall j, memb j (data_wait s) = true \/ holder s = Some j -> af_live s j;
  ai_wok  : forall j, memb j (p_woken s) = true -> af_wok s j
}.

Lemma AInv_init cap : AInv (init cap).
Proof. split; cbn; intros j H; repeat destruct H as [H|H]; discriminate. Qed.

Lemma live_wok s j : af_live s j -> af_wok s j.
Proof. unfold af_live, af_wok. intros ->. destruct (memb j (cancelled s)) eqn:E; reflexivity. Qed.

Lemma aget_cons_other i j a l : j <> i -> aget j ((i, a) :: l) = aget j l.
Proof. intros H. cbn [aget]. destruct (Nat.eqb_spec j i); [contradiction|reflexivity]. Qed.
Lemma aget_cons_same i a l : aget i ((i, a) :: l) = Some a.
Proof. cbn [aget]. now rewrite Nat.eqb_refl. Qed.

Lemma memb_cons_eq j k l : memb j (k :: l) = Nat.eqb j k || memb j l.
Proof. reflexivity. Qed.

Lemma memb_cons_iff j k l : memb j (k :: l) = true <-> j = k \/ memb j l = true.
Proof.
  cbn [memb existsb]. fold (memb j l). destruct (Nat.eqb_spec j k); cbn [orb]; split; auto.
  intros [?|?]; [contradiction|auto].
Qed.

Local Arguments memb : simpl never.
Local Arguments af_live : simpl never.
Local Arguments af_wok : simpl never.

Lemma pop_loop_frame s i w afl pw s' :
  pop_loop s i w afl pw = Some s' -> af s' = afl /\ used s' = used s.
Proof.
  unfold pop_loop. destruct (s_pop (q s)) as [q' r].
  destruct r; try (destruct (sig_ok_u w (space_wait s)); [|discriminate]; intros H; inv_some; cbn; auto);
    destruct w; try discriminate; destruct (memb i (cancelled s)); intros H; inv_some; cbn; auto.
Qed.

Lemma push_loop_frame s u block w uw s' :
  push_loop s u block w uw = Some s' -> af s' = af s /\ used s' = used s.
Proof.
  unfold push_loop. destruct (s_push (q s) (u_item u) (u_urgent u)) as [q' r].
  destruct r; try discriminate.
  - destruct (sig_ok_p w (data_wait s)); [|discriminate]. intros H; inv_some; cbn; auto.
  - destruct w; [discriminate|]. destruct block; intros H; inv_some; cbn; auto.
Qed.

Lemma pop_loop_AInv s i w afl pw s' :
  AInv s ->
  (forall j, j <> i -> aget j afl = aget j (af s)) ->
  aget i afl = Some (if memb i (cancelled s) then AFPending else AFArmed) \/ memb i (cancelled s) = true ->
  memb i (used s) = true ->
  memb i (data_wait s) = false -> memb i pw = false -> holder s = None ->
  (forall j, memb j pw = true -> memb j (p_woken s) = true) ->
  pop_loop s i w afl pw = Some s' -> AInv s'.
Proof.
  intros [U L W] Hoth Hi Ui Nd Np Hn Hsub H.
  destruct (pop_loop_frame _ _ _ _ _ _ H) as [Eaf Eus].
  assert (NE : forall j, memb j (data_wait s) = true \/ memb j pw = true -> j <> i).
  { intros j [Hj|Hj] ->; congruence. }
  apply pop_loop_cases in H.
  destruct H as [(q' & x & E & Eq & Eh' & Er & Sg & _ & _ & _ & _ & DW & PW & Cn & SW & UW)
                |(_ & Eq & Cs & _ & _ & _ & _ & DW & PW & Cn & SW & UW & Hr)].
  - split; rewrite ?DW, ?PW, ?Eh', ?Eus.
    + intros j [Hj|[Hj|Hj]]; [apply U; auto|apply U; auto|discriminate].
    + intros j [Hj|Hj]; [|discriminate]. unfold af_live. rewrite Eaf, Cn, Hoth; [apply L; auto|apply NE; auto].
    + intros j Hj. unfold af_wok. rewrite Eaf, Cn, Hoth; [apply W; auto|apply NE; auto].
  - destruct Hr as [(Mc & Eh' & _)|(Mc & Eh' & _ & _)].
    + split; rewrite ?DW, ?PW, ?Eh', ?Eus.
      * intros j [Hj|[Hj|Hj]]; [apply U; auto|apply U; auto|discriminate].
      * intros j [Hj|Hj]; [|discriminate]. unfold af_live. rewrite Eaf, Cn, Hoth; [apply L; auto|apply NE; auto].
      * intros j Hj. unfold af_wok. rewrite Eaf, Cn, Hoth; [apply W; auto|apply NE; auto].
    + split; rewrite ?DW, ?PW, ?Eh', ?Eus.
      * intros j [Hj|[Hj|Hj]]; [apply U; auto|apply U; auto|]. injection Hj as <-. exact Ui.
      * intros j [Hj|Hj].
        -- unfold af_live. rewrite Eaf, Cn, Hoth; [apply L; auto|apply NE; auto].
        -- injection Hj as <-. unfold af_live. rewrite Eaf, Cn.
           destruct Hi as [Hi|Hi]; [exact Hi|congruence].
      * intros j Hj. unfold af_wok. rewrite Eaf, Cn, Hoth; [apply W; auto|apply NE; auto].
Qed.

Lemma push_loop_AInv s u block w uw s' :
  AInv s -> holder s = None ->
  (forall j, memb j (used s) = true -> memb j (used s) = true) ->
  push_loop s u block w uw = Some s' -> AInv s'.
Proof.
  intros [U L W] Hn _ H.
  destruct (push_loop_frame _ _ _ _ _ _ H) as [Eaf Eus].
  apply push_loop_cases in H.
  destruct H as [(q' & E & Eq & Eh' & Sg & _ & _ & _ & _ & _ & DW & PW & SW & UW & Cn & _)
                |(_ & Eq & Eh' & _ & Lf & _ & _ & _ & _ & DW & PW & UW & Cn & _ & Hr)].
  - destruct w as [k|].
    + cbn in Sg.
      split; rewrite ?DW, ?PW, ?Eh', ?Eus.
      * intros j [Hj|[Hj|Hj]]; [apply U; left; eapply memb_srem_sub; eauto| |discriminate].
        apply memb_cons_iff in Hj as [->|Hj]; apply U; auto.
      * intros j [Hj|Hj]; [|discriminate]. unfold af_live. rewrite Eaf, Cn. apply L. left. eapply memb_srem_sub; eauto.
      * intros j Hj. unfold af_wok. rewrite Eaf, Cn. apply memb_cons_iff in Hj as [->|Hj].
        -- apply live_wok. apply L. auto.
        -- apply W. auto.
    + split; rewrite ?DW, ?PW, ?Eh', ?Eus.
      * intros j [Hj|[Hj|Hj]]; [apply U; auto|apply U; auto|discriminate].
      * intros j [Hj|Hj]; [|discriminate]. unfold af_live. rewrite Eaf, Cn. apply L; auto.
      * intros j Hj. unfold af_wok. rewrite Eaf, Cn. apply W; auto.
  - split; rewrite ?DW, ?PW, ?Eh', ?Eus.
    + intros j [Hj|[Hj|Hj]]; [apply U; auto|apply U; auto|discriminate].
    + intros j [Hj|Hj]; [|discriminate]. unfold af_live. rewrite Eaf, Cn. apply L; auto.
    + intros j Hj. unfold af_wok. rewrite Eaf, Cn. apply W; auto.
Qed.

Lemma memb_srem_self_sub i l j : memb j (srem i l) = true -> memb j l = true.
Proof. apply memb_srem_sub. Qed.

Lemma step_AInv s a s' : AInv s -> step true s a = Some s' -> AInv s'.
Proof.
  intros AI H. pose proof AI as [U L W].
  destruct a as [i w|i|i w|i|i|i x urgent block w|i w|]; cbn [step] in H.
  - (* PopBegin *)
    destruct (free s && negb (memb i (used s))) eqn:G; [|discriminate].
    apply andb_prop in G as [Fr Nu]. apply negb_true_iff in Nu.
    unfold free in Fr. destruct (holder s) eqn:Eh; [discriminate|].
    assert (Fresh : forall j, memb j (data_wait s) = true \/ memb j (p_woken s) = true -> j <> i).
    { intros j Hj ->. rewrite U in Nu; [discriminate|]. tauto. }
    cbn [mark_used q af p_woken u_woken cancelled] in H.
    destruct (s_closed (q s)) eqn:C.
    + destruct w; [discriminate|]. inv_some. split; cbn.
      * intros j Hj. apply memb_cons_iff. right. apply U. exact Hj.
      * intros j [Hj|Hj]; [|discriminate]. apply L; auto.
      * intros j Hj. apply W; auto.
    + eapply (pop_loop_AInv (mark_used s i)) in H; [exact H| | | | | | | | ]; cbn.
      * split; cbn.
        -- intros j Hj. rewrite ?Eh in Hj. apply memb_cons_iff. right. apply U. exact Hj.
        -- intros j Hj. rewrite ?Eh in Hj. exact (L j Hj).
        -- intros j Hj. exact (W j Hj).
      * intros j Hj. apply aget_cons_other. exact Hj.
      * left. apply aget_cons_same.
      * apply memb_cons_iff. auto.
      * destruct (memb i (data_wait s)) eqn:M; [|reflexivity]. exfalso. eapply Fresh; eauto.
      * destruct (memb i (p_woken s)) eqn:M; [|reflexivity]. exfalso. eapply Fresh; eauto.
      * exact Eh.
      * auto.
  - (* PopWait *)
    destruct (holder s) as [j|] eqn:Eh; [|discriminate]. destruct (Nat.eqb_spec i j) as [->|]; [|discriminate].
    inv_some. split; cbn.
    + intros k [Hk|[Hk|Hk]]; [|apply U; auto|discriminate].
      rewrite memb_app in Hk. apply orb_prop in Hk as [Hk|Hk]; [apply U; auto|].
      apply memb_cons_iff in Hk as [->|Hk]; [apply U; auto|discriminate].
    + intros k [Hk|Hk]; [|discriminate]. unfold af_live; cbn.
      rewrite memb_app in Hk. apply orb_prop in Hk as [Hk|Hk]; [apply L; auto|].
      apply memb_cons_iff in Hk as [->|Hk]; [apply L; auto|discriminate].
    + intros k Hk. apply W. exact Hk.
  - (* PopRelock *)
    destruct (free s && memb i (p_woken s)) eqn:G; [|discriminate]. apply andb_prop in G as [Fr Mi].
    unfold free in Fr. destruct (holder s) eqn:Eh; [discriminate|].
    destruct (s_closed (q s)) eqn:C.
    + destruct w; [discriminate|]. inv_some. split; cbn.
      * intros j [Hj|[Hj|Hj]]; [apply U; auto|apply U; right; left; eapply memb_srem_sub; eauto|discriminate].
      * intros j [Hj|Hj]; [|discriminate]. apply L; auto.
      * intros j Hj. apply W. eapply memb_srem_sub; eauto.
    + (* i may in principle still be parked elsewhere only if ids were duplicated; handle generally *)
      destruct (memb i (data_wait s)) eqn:Md.
      * (* then af_live and af_wok coincide for i; treat via a direct case analysis *)
        pose proof (L i (or_introl Md)) as Li.
        apply pop_loop_cases in H as Hc. destruct (pop_loop_frame _ _ _ _ _ _ H) as [Eaf Eus].
        destruct Hc as [(q' & x & E & Eq & Eh' & Er & Sg & _ & _ & _ & _ & DW & PW & Cn & SW & UW)
                       |(_ & Eq & Cs & _ & _ & _ & _ & DW & PW & Cn & SW & UW & Hr)].
        -- split; rewrite ?DW, ?PW, ?Eh', ?Eus.
           ++ intros j [Hj|[Hj|Hj]]; [apply U; auto|apply U; right; left; eapply memb_srem_sub; eauto|discriminate].
           ++ intros j [Hj|Hj]; [|discriminate]. unfold af_live. rewrite Eaf, Cn. apply L; auto.
           ++ intros j Hj. unfold af_wok. rewrite Eaf, Cn. apply W. eapply memb_srem_sub; eauto.
        -- destruct Hr as [(Mc & Eh' & _)|(Mc & Eh' & _ & _)].
           ++ split; rewrite ?DW, ?PW, ?Eh', ?Eus.
              ** intros j [Hj|[Hj|Hj]]; [apply U; auto|apply U; right; left; eapply memb_srem_sub; eauto|discriminate].
              ** intros j [Hj|Hj]; [|discriminate]. unfold af_live. rewrite Eaf, Cn. apply L; auto.
              ** intros j Hj. unfold af_wok. rewrite Eaf, Cn. apply W. eapply memb_srem_sub; eauto.
           ++ split; rewrite ?DW, ?PW, ?Eh', ?Eus.
              ** intros j [Hj|[Hj|Hj]]; [apply U; auto|apply U; right; left; eapply memb_srem_sub; eauto|].
                 injection Hj as <-. apply U; auto.
              ** intros j [Hj|Hj]; unfold af_live; rewrite Eaf, Cn; [apply L; auto|].
                 injection Hj as <-. exact Li.
              ** intros j Hj. unfold af_wok. rewrite Eaf, Cn. apply W. eapply memb_srem_sub; eauto.
      * destruct (memb i (srem i (p_woken s))) eqn:Mp.
        -- (* duplicate id in p_woken: same direct analysis, using af_wok for i *)
           pose proof (W i Mi) as Wi.
           apply pop_loop_cases in H as Hc. destruct (pop_loop_frame _ _ _ _ _ _ H) as [Eaf Eus].
           destruct Hc as [(q' & x & E & Eq & Eh' & Er & Sg & _ & _ & _ & _ & DW & PW & Cn & SW & UW)
                          |(_ & Eq & Cs & _ & _ & _ & _ & DW & PW & Cn & SW & UW & Hr)].
           ++ split; rewrite ?DW, ?PW, ?Eh', ?Eus.
              ** intros j [Hj|[Hj|Hj]]; [apply U; auto|apply U; right; left; eapply memb_srem_sub; eauto|discriminate].
              ** intros j [Hj|Hj]; [|discriminate]. unfold af_live. rewrite Eaf, Cn. apply L; auto.
              ** intros j Hj. unfold af_wok. rewrite Eaf, Cn. apply W. eapply memb_srem_sub; eauto.
           ++ destruct Hr as [(Mc & Eh' & _)|(Mc & Eh' & _ & _)].
              ** split; rewrite ?DW, ?PW, ?Eh', ?Eus.
                 --- intros j [Hj|[Hj|Hj]]; [apply U; auto|apply U; right; left; eapply memb_srem_sub; eauto|discriminate].
                 --- intros j [Hj|Hj]; [|discriminate]. unfold af_live. rewrite Eaf, Cn. apply L; auto.
                 --- intros j Hj. unfold af_wok. rewrite Eaf, Cn. apply W. eapply memb_srem_sub; eauto.
              ** split; rewrite ?DW, ?PW, ?Eh', ?Eus.
                 --- intros j [Hj|[Hj|Hj]]; [apply U; auto|apply U; right; left; eapply memb_srem_sub; eauto|].
                     injection Hj as <-. apply U; auto.
                 --- intros j [Hj|Hj]; unfold af_live; rewrite Eaf, Cn; [apply L; auto|].
                     injection Hj as <-. unfold af_wok in Wi. rewrite Mc in *.
                     destruct (aget i (af s)) as [[]|]; try congruence; try contradiction.
                 --- intros j Hj. unfold af_wok. rewrite Eaf, Cn. apply W. eapply memb_srem_sub; eauto.
        -- assert (Hi : aget i (af s) = Some (if memb i (cancelled s) then AFPending else AFArmed)
                        \/ memb i (cancelled s) = true).
           { pose proof (W i Mi) as Wi. unfold af_wok in Wi.
             destruct (aget i (af s)) as [[]|] eqn:Ea; try contradiction;
               [left; now rewrite Wi|right; exact Wi|right; exact Wi]. }
           assert (Ui : memb i (used s) = true) by (apply U; auto).
           assert (Hsub : forall j, memb j (srem i (p_woken s)) = true -> memb j (p_woken s) = true)
             by (intros j Hj; eapply memb_srem_sub; eauto).
           exact (pop_loop_AInv s i w (af s) (srem i (p_woken s)) s' AI (fun j _ => eq_refl) Hi Ui Md Mp Eh Hsub H).
  - (* Cancel *)
    destruct (memb i (cancelled s)) eqn:Mc; [discriminate|]. inv_some.
    assert (Hc : forall j, memb j (i :: cancelled s) = if Nat.eqb j i then true else memb j (cancelled s)).
    { intros j. rewrite memb_cons_eq. destruct (Nat.eqb j i); reflexivity. }
    split; cbn.
    + exact U.
    + intros j Hj. specialize (L j Hj). unfold af_live in *. cbn [af cancelled]. rewrite Hc.
      destruct (Nat.eqb_spec j i) as [->|Hne].
      * rewrite Mc in L. rewrite L. apply aget_cons_same.
      * destruct (aget i (af s)) as [[]|]; try exact L. rewrite aget_cons_other; auto.
    + intros j Hj. specialize (W j Hj). unfold af_wok in *. cbn [af cancelled]. rewrite Hc.
      destruct (Nat.eqb_spec j i) as [->|Hne].
      * destruct (aget i (af s)) as [[]|] eqn:Ea; try congruence; try contradiction.
        rewrite aget_cons_same. reflexivity.
      * destruct (aget i (af s)) as [[]|]; try exact W. rewrite aget_cons_other; auto.
  - (* AFRun, with the mutex *)
    destruct (aget i (af s)) as [[]|] eqn:Ea; try discriminate.
    cbn [negb orb] in H. destruct (free s) eqn:Fr; [|discriminate].
    unfold free in Fr. destruct (holder s) eqn:Eh; [discriminate|]. inv_some.
    split; cbn.
    + intros j [Hj|[Hj|Hj]]; [discriminate| |discriminate].
      rewrite memb_app in Hj. apply orb_prop in Hj as [Hj|Hj]; apply U; auto.
    + intros j [Hj|Hj]; discriminate.
    + intros j Hj. rewrite memb_app in Hj. unfold af_wok; cbn [af cancelled].
      assert (Wj : af_wok s j) by (apply orb_prop in Hj as [Hj|Hj]; [apply live_wok, L; auto|apply W; auto]).
      destruct (Nat.eqb_spec j i) as [->|Hne].
      * rewrite aget_cons_same. unfold af_wok in Wj. now rewrite Ea in Wj.
      * rewrite aget_cons_other; auto.
  - (* PushBegin *)
    destruct (free s && negb (memb i (used s))) eqn:G; [|discriminate].
    apply andb_prop in G as [Fr Nu]. unfold free in Fr. destruct (holder s) eqn:Eh; [discriminate|].
    cbn [mark_used q af p_woken u_woken] in H.
    destruct (s_closed (q s)) eqn:C.
    + destruct w; [discriminate|]. inv_some. split; cbn.
      * intros j Hj. apply memb_cons_iff. right. apply U. exact Hj.
      * intros j [Hj|Hj]; [|discriminate]. apply L; auto.
      * intros j Hj. apply W; auto.
    + eapply (push_loop_AInv (mark_used s i)) in H; [exact H| | |]; cbn; auto.
      split; cbn.
      * intros j Hj. rewrite ?Eh in Hj. apply memb_cons_iff. right. apply U. exact Hj.
      * intros j Hj. rewrite ?Eh in Hj. exact (L j Hj).
      * intros j Hj. exact (W j Hj).
  - (* PushRelock *)
    destruct (free s) eqn:Fr; [|discriminate]. unfold free in Fr. destruct (holder s) eqn:Eh; [discriminate|].
    destruct (ufind i (u_woken s)) as [u|]; [|discriminate].
    destruct (s_closed (q s)) eqn:C.
    + destruct w; [discriminate|]. inv_some. split; cbn.
      * intros j Hj. apply U. exact Hj.
      * intros j [Hj|Hj]; [|discriminate]. apply L; auto.
      * intros j Hj. apply W; auto.
    + eapply push_loop_AInv in H; [exact H|exact AI|exact Eh|auto].
  - (* Close *)
    destruct (free s) eqn:Fr; [|discriminate]. unfold free in Fr. destruct (holder s) eqn:Eh; [discriminate|].
    inv_some. split; cbn.
    + intros j [Hj|[Hj|Hj]]; [discriminate| |discriminate].
      rewrite memb_app in Hj. apply orb_prop in Hj as [Hj|Hj]; apply U; auto.
    + intros j [Hj|Hj]; discriminate.
    + intros j Hj. rewrite memb_app in Hj.
      apply orb_prop in Hj as [Hj|Hj]; [apply live_wok, L; auto|apply W; auto].
Qed.

Lemma run_AInv l : forall s s', AInv s -> run true s l = Some s' -> AInv s'.
Proof.
  induction l as [|a l IH]; intros s s' I H; cbn [run] in H.
  - now inv_some.
  - destruct (step true s a) as [s1|] eqn:E; [|discriminate]. eapply IH; [|exact H]. eapply step_AInv; eassumption.
Qed.

(* ---------------- results exported to Props/C15.v ---------------- *)

Theorem reach_inv afl cap l s :
  run afl (init cap) l = Some s -> QInv s /\ SInv s.
Proof. intros R. eapply run_QS; [apply QInv_init|apply SInv_init|exact R]. Qed.

Theorem bounded afl cap l s : run afl (init cap) l = Some s -> len s <= s_cap (q s).
Proof. intros R. apply (qi_bound _ (proj1 (reach_inv _ _ _ _ R))). Qed.

Theorem fifo_no_loss_no_dup afl cap l s :
  run afl (init cap) l = Some s ->
  pushedU s = poppedU s ++ s_prio (q s) /\ pushedN s = poppedN s ++ s_norm (q s).
Proof. intros R. destruct (proj1 (reach_inv _ _ _ _ R)); auto. Qed.

Theorem blocked_push_only_when_full afl cap l s :
  run afl (init cap) l = Some s -> s_closed (q s) = false ->
  space_wait s <> [] -> u_woken s = [] -> len s = s_cap (q s).
Proof.
  intros R C W U. destruct (reach_inv _ _ _ _ R) as [[B _ _ _] [Sp _ _]].
  specialize (Sp C W). rewrite U in Sp. cbn in Sp. lia.
Qed.

Theorem blocked_pop_only_when_empty afl cap l s :
  run afl (init cap) l = Some s -> s_closed (q s) = false ->
  data_wait s <> [] -> p_woken s = [] -> len s = 0.
Proof.
  intros R C W U. destruct (reach_inv _ _ _ _ R) as [_ [_ Dt _]].
  specialize (Dt C W). rewrite U in Dt. cbn in Dt. lia.
Qed.

Theorem nobody_parked_after_close afl cap l s :
  run afl (init cap) l = Some s -> s_closed (q s) = true -> space_wait s = [] /\ data_wait s = [].
Proof. intros R C. destruct (reach_inv _ _ _ _ R) as [_ [_ _ Cl]]. auto. Qed.

Theorem no_lost_cancel cap l s i :
  run true (init cap) l = Some s ->
  memb i (data_wait s) = true -> memb i (cancelled s) = true -> aget i (af s) = Some AFPending.
Proof.
  intros R D C. pose proof (run_AInv _ _ _ (AInv_init cap) R) as [_ L _].
  specialize (L i (or_introl D)). unfold af_live in L. now rewrite C in L.
Qed.

Theorem no_lost_cancel_holder cap l s i :
  run true (init cap) l = Some s ->
  holder s = Some i -> memb i (cancelled s) = true -> aget i (af s) = Some AFPending.
Proof.
  intros R D C. pose proof (run_AInv _ _ _ (AInv_init cap) R) as [_ L _].
  specialize (L i (or_intror D)). unfold af_live in L. now rewrite C in L.
Qed.

Theorem cancel_progress cap l s i :
  run true (init cap) l = Some s -> holder s = None ->
  memb i (data_wait s) = true -> memb i (cancelled s) = true ->
  exists s1, step true s (AFRun i) = Some s1 /\ memb i (p_woken s1) = true /\ data_wait s1 = [].
Proof.
  intros R Hn D C. pose proof (no_lost_cancel _ _ _ _ R D C) as A.
  cbn [step]. rewrite A. unfold free. rewrite Hn. cbn [negb orb].
  eexists; split; [reflexivity|]. cbn. rewrite memb_app, D. auto.
Qed.

Theorem relock_cancelled_returns afl s i w s' :
  memb i (cancelled s) = true -> step afl s (PopRelock i w) = Some s' ->
  exists r, results s' = (i, r) :: results s.
Proof.
  intros C H. cbn [step] in H.
  destruct (free s && memb i (p_woken s)); [|discriminate].
  destruct (s_closed (q s)).
  - destruct w; [discriminate|]. inv_some. cbn. eauto.
  - apply pop_loop_cases in H.
    destruct H as [(q' & x & _ & _ & _ & Er & _)|(_ & _ & _ & _ & _ & _ & _ & _ & _ & _ & _ & _ & Hr)]; [eauto|].
    destruct Hr as [(_ & _ & Er)|(Mc & _)]; [eauto|congruence].
Qed.

(* the capacity never changes *)
Theorem cap_const afl s a s' : step afl s a = Some s' -> s_cap (q s') = s_cap (q s).
Proof.
  intros H. destruct a as [i w|i|i w|i|i|i x urgent block w|i w|]; cbn [step] in H.
  - destruct (free s && negb (memb i (used s))); [|discriminate]. cbn [mark_used q] in H.
    destruct (s_closed (q s)).
    + destruct w; [discriminate|]. inv_some. reflexivity.
    + apply pop_loop_cases in H. cbn [mark_used q] in H.
      destruct H as [(q' & x & E & Eq & _)|(_ & Eq & _)]; rewrite Eq; [|reflexivity].
      now destruct (s_pop_item _ _ _ E) as (_ & Cap & _).
  - destruct (holder s) as [j|]; [|discriminate]. destruct (Nat.eqb i j); [|discriminate]. inv_some. reflexivity.
  - destruct (free s && memb i (p_woken s)); [|discriminate]. destruct (s_closed (q s)).
    + destruct w; [discriminate|]. inv_some. reflexivity.
    + apply pop_loop_cases in H.
      destruct H as [(q' & x & E & Eq & _)|(_ & Eq & _)]; rewrite Eq; [|reflexivity].
      now destruct (s_pop_item _ _ _ E) as (_ & Cap & _).
  - destruct (memb i (cancelled s)); [discriminate|]. inv_some. reflexivity.
  - destruct (aget i (af s)) as [[]|]; try discriminate.
    destruct (negb afl || free s); [|discriminate]. inv_some. reflexivity.
  - destruct (free s && negb (memb i (used s))); [|discriminate]. cbn [mark_used q] in H.
    destruct (s_closed (q s)).
    + destruct w; [discriminate|]. inv_some. reflexivity.
    + apply push_loop_cases in H. cbn [mark_used q] in H.
      destruct H as [(q' & E & Eq & _)|(_ & Eq & _)]; rewrite Eq; [|reflexivity].
      now destruct (s_push_ok _ _ _ _ E) as (_ & _ & Cap & _).
  - destruct (free s); [|discriminate]. destruct (ufind i (u_woken s)); [|discriminate].
    destruct (s_closed (q s)).
    + destruct w; [discriminate|]. inv_some. reflexivity.
    + apply push_loop_cases in H.
      destruct H as [(q' & E & Eq & _)|(_ & Eq & _)]; rewrite Eq; [|reflexivity].
      now destruct (s_push_ok _ _ _ _ E) as (_ & _ & Cap & _).
  - destruct (free s); [|discriminate]. inv_some. reflexivity.
Qed.

(* linearizability: every step applies at most one operation of the sequential specification to
   the queue, at a single point, and the result it records is that operation's result *)
Theorem step_refines_spec afl s a s' :
  step afl s a = Some s' ->
  (q s' = q s /\ (results s' = results s \/ exists i r, results s' = (i, r) :: results s /\
                   (r = RCancelled \/ r = RClosed /\ s_closed (q s) = true \/ r = RPanic /\ s_closed (q s) = true
                    \/ r = RFull /\ exists x u, s_push (q s) x u = (q s, RFull))))
  \/ (exists i x, s_pop (q s) = (q s', RItem x) /\ results s' = (i, RItem x) :: results s)
  \/ (exists i x u, s_push (q s) x u = (q s', ROk) /\ results s' = (i, ROk) :: results s)
  \/ (q s' = s_close (q s) /\ results s' = results s).
Proof.
  intros H. destruct a as [i w|i|i w|i|i|i x urgent block w|i w|]; cbn [step] in H.
  - destruct (free s && negb (memb i (used s))); [|discriminate]. cbn [mark_used q af p_woken u_woken] in H.
    destruct (s_closed (q s)) eqn:C.
    + destruct w; [discriminate|]. inv_some. left. cbn. split; [reflexivity|]. right. eauto 10.
    + apply pop_loop_cases in H. cbn [mark_used q results] in H.
      destruct H as [(q' & x & E & Eq & _ & Er & _)|(_ & Eq & _ & _ & _ & _ & _ & _ & _ & _ & _ & _ & Hr)].
      * right; left. exists i, x. rewrite Eq. auto.
      * left. split; [exact Eq|]. destruct Hr as [(_ & _ & Er)|(_ & _ & Er & _)]; [right; eauto 10|left; exact Er].
  - destruct (holder s) as [j|]; [|discriminate]. destruct (Nat.eqb i j); [|discriminate]. inv_some. left. cbn. auto.
  - destruct (free s && memb i (p_woken s)); [|discriminate]. destruct (s_closed (q s)) eqn:C.
    + destruct w; [discriminate|]. inv_some. left. cbn. split; [reflexivity|]. right. eauto 10.
    + apply pop_loop_cases in H.
      destruct H as [(q' & x & E & Eq & _ & Er & _)|(_ & Eq & _ & _ & _ & _ & _ & _ & _ & _ & _ & _ & Hr)].
      * right; left. exists i, x. rewrite Eq. auto.
      * left. split; [exact Eq|]. destruct Hr as [(_ & _ & Er)|(_ & _ & Er & _)]; [right; eauto 10|left; exact Er].
  - destruct (memb i (cancelled s)); [discriminate|]. inv_some. left. cbn. auto.
  - destruct (aget i (af s)) as [[]|]; try discriminate.
    destruct (negb afl || free s); [|discriminate]. inv_some. left. cbn. auto.
  - destruct (free s && negb (memb i (used s))); [|discriminate]. cbn [mark_used q af p_woken u_woken] in H.
    destruct (s_closed (q s)) eqn:C.
    + destruct w; [discriminate|]. inv_some. left. cbn. split; [reflexivity|]. right. eauto 10.
    + apply push_loop_cases in H. cbn [mark_used q results u_item u_urgent u_id] in H.
      destruct H as [(q' & E & Eq & _ & _ & Er & _)|(_ & Eq & _ & C' & Lf & _ & _ & _ & _ & _ & _ & _ & _ & _ & Hr)].
      * right; right; left. exists i, x, urgent. rewrite Eq. auto.
      * left. split; [exact Eq|]. destruct Hr as [(_ & _ & Er)|(_ & _ & Er)]; [left; exact Er|].
        right. exists i, RFull. split; [exact Er|]. right; right; right. split; [reflexivity|].
        exists x, urgent. unfold s_push. rewrite C', Lf, Nat.eqb_refl. reflexivity.
  - destruct (free s); [|discriminate]. destruct (ufind i (u_woken s)) as [u|]; [|discriminate].
    destruct (s_closed (q s)) eqn:C.
    + destruct w; [discriminate|]. inv_some. left. cbn. split; [reflexivity|]. right. eauto 10.
    + apply push_loop_cases in H.
      destruct H as [(q' & E & Eq & _ & _ & Er & _)|(_ & Eq & _ & C' & Lf & _ & _ & _ & _ & _ & _ & _ & _ & _ & Hr)].
      * right; right; left. exists (u_id u), (u_item u), (u_urgent u). rewrite Eq. auto.
      * left. split; [exact Eq|]. destruct Hr as [(_ & _ & Er)|(Hb & _)]; [left; exact Er|discriminate].
  - destruct (free s); [|discriminate]. inv_some. right; right; right. cbn. auto.
Qed.

(* without the mutex around the AfterFunc's Broadcast a cancellation can be lost for good *)
Definition lost_cancel_schedule : list action := [PopBegin 1 None; Cancel 1; AFRun 1; PopWait 1].
Theorem lost_cancel_without_lock :
  exists s, run false (init 1) lost_cancel_schedule = Some s
            /\ memb 1 (data_wait s) = true /\ memb 1 (cancelled s) = true
            /\ aget 1 (af s) = Some AFRan /\ p_woken s = [] /\ holder s = None.
Proof. eexists. vm_compute. repeat split. Qed.
Theorem lost_cancel_schedule_impossible_with_lock : run true (init 1) lost_cancel_schedule = None.
Proof. vm_compute. reflexivity. Qed.
