(* C13: reclamation after a full disconnect plus the retention periods. *)
From Coq Require Import List Bool Arith Lia.
Import ListNotations.
From PS Require Import Model.Lifecycle Proofs.LifecycleDep.

Fixpoint lrun_guarded (v : pv) (l : list lev) : bool :=
  match l with [] => true | e :: l' => guarded v e && lrun_guarded (lstep v e) l' end.

Lemma dep_run l : forall v, depb v = true -> lrun_guarded v l = true -> depb (lrun v l) = true.
Proof.
  induction l as [|e l IH]; intros v Hd Hg; [exact Hd|].
  cbn in Hg. apply andb_true_iff in Hg. destruct Hg as [H1 H2].
  unfold lrun. cbn [fold_left]. apply IH; [apply dep_step; assumption | exact H2].
Qed.

(* the peer goes away for good: its inbound stream closes and the outbound side is declared dead with the
   connection gone; then the timers run *)
Definition goodbye : list lev := [LInDown; LDead false].
Fixpoint ticks (n : nat) : list lev := match n with O => [] | S k => LHeartbeat :: LRefresh :: ticks k end.

(* after the goodbye nothing but timers is left, given the invariants *)
Lemma goodbye_spec v :
  depb v = true ->
  let w := lrun v goodbye in
  v_queue w = false /\ v_out w = false /\ v_in w = false /\ v_topics w = false /\ v_mesh w = false /\ v_fanout w = false
  /\ v_bufs w = false /\ v_prot w = false /\ v_ext_peer w = false /\ v_ext_sent w = false /\ v_gater w = false.
Proof.
  destruct v as [q o i t m f b p ep es g sc bo c pr bl].
  destruct q, o, i, t, m, f, b, p, ep, es, g, bl; vm_compute; intros; try discriminate; repeat split; reflexivity.
Qed.

Definition bounded (v : pv) : Prop :=
  (match v_score v with Some k => k <= RETAIN | None => True end)
  /\ (match v_backoff v with Some k => k <= RETAIN | None => True end)
  /\ (match v_promises v with Some k => k <= RETAIN | None => True end).

Lemma le_dec_opt (o : option nat) : (match o with Some k => k <= RETAIN | None => True end) -> match dec o with Some k => k <= RETAIN | None => True end.
Proof. destruct o as [[|k]|]; cbn; auto. unfold RETAIN. lia. Qed.
Ltac bnd := match goal with
            | |- match (if ?x then _ else _) with _ => _ end => destruct x; bnd
            | |- match dec _ with _ => _ end => apply le_dec_opt; assumption
            | |- match Some RETAIN with _ => _ end => unfold RETAIN; cbn; lia
            | |- match Some 0 with _ => _ end => cbn; unfold RETAIN; lia
            | |- match None with _ => _ end => exact I
            | |- _ <= RETAIN => unfold RETAIN; lia
            | _ => assumption
            end.
Lemma bounded_step v e : bounded v -> bounded (lstep v e).
Proof.
  intros (A & B & C). destruct v as [q o i t m f b p ep es g sc bo c pr bl]. unfold bounded in *. cbn [v_score v_backoff v_promises] in *.
  destruct e as [| |r| | | | | |a| | | | | | | | | | |api]; try destruct r; try destruct a; try destruct api;
    destruct q, o, i, m, bl;
    cbn [lstep out_down v_queue v_out v_in v_topics v_mesh v_fanout v_bufs v_prot v_ext_peer v_ext_sent v_gater v_score v_backoff v_counters v_promises v_blacklisted negb andb orb];
    (split; [bnd | split; bnd]).
Qed.
Lemma bounded_run l : forall v, bounded v -> bounded (lrun v l).
Proof. induction l as [|e l IH]; intros v H; [exact H|]. unfold lrun. cbn [fold_left]. apply IH. apply bounded_step. exact H. Qed.

(* timers alone on a peer that is gone *)
Lemma ticks_spec n0 : forall v,
  v_queue v = false -> v_out v = false -> v_in v = false -> v_topics v = false -> v_mesh v = false -> v_fanout v = false ->
  v_bufs v = false -> v_prot v = false -> v_ext_peer v = false -> v_ext_sent v = false -> v_gater v = false ->
  bounded v -> RETAIN < n0 -> reclaimed (lrun v (ticks n0)) = true.
Proof.
  assert (G : forall n v k,
    v_queue v = false -> v_out v = false -> v_in v = false -> v_topics v = false -> v_mesh v = false -> v_fanout v = false ->
    v_bufs v = false -> v_prot v = false -> v_ext_peer v = false -> v_ext_sent v = false -> v_gater v = false ->
    (match v_score v with Some j => j <= k | None => True end) ->
    (match v_backoff v with Some j => j <= k | None => True end) ->
    (match v_promises v with Some j => j <= k | None => True end) ->
    k < n -> reclaimed (lrun v (ticks n)) = true).
  { induction n as [|n IH]; intros v k Hq Ho Hi Ht Hm Hf Hb Hp Hep Hes Hg Hs Hbo Hpr Hk; [exfalso; lia|].
    cbn [ticks]. unfold lrun. cbn [fold_left]. fold (lrun (lstep (lstep v LHeartbeat) LRefresh) (ticks n)).
    destruct v as [q o i t m f b p ep es g sc bo c pr bl]. cbn in Hq, Ho, Hi, Ht, Hm, Hf, Hb, Hp, Hep, Hes, Hg, Hs, Hbo, Hpr. subst.
    cbn [lstep v_queue v_out v_in v_topics v_mesh v_fanout v_bufs v_prot v_ext_peer v_ext_sent v_gater v_score v_backoff v_counters v_promises v_blacklisted].
    destruct n as [|n].
    - (* last tick: k = 0 *)
      assert (k = 0) by lia. subst k. cbn.
      destruct sc as [[|j]|]; try lia; destruct bo as [[|j]|]; try lia; destruct pr as [[|j]|]; try lia; reflexivity.
    - apply (IH _ (pred k)); cbn; try reflexivity.
      + destruct sc as [[|j]|]; cbn; try exact I; lia.
      + destruct bo as [[|j]|]; cbn; try exact I; lia.
      + destruct pr as [[|j]|]; cbn; try exact I; lia.
      + lia. }
  intros v Hq Ho Hi Ht Hm Hf Hb Hp Hep Hes Hg (B1 & B2 & B3) Hn.
  apply (G n0 v RETAIN); assumption.
Qed.

(* C13: whatever the peer did while connected (any guarded history of events from the empty state), once its
   streams and connection are gone and the retention periods have passed, nothing attributable to it is left *)
Theorem reclaimed_after_disconnect l n :
  lrun_guarded pv0 l = true -> RETAIN < n ->
  reclaimed (lrun (lrun (lrun pv0 l) goodbye) (ticks n)) = true.
Proof.
  intros Hg Hn.
  assert (Hd : depb (lrun pv0 l) = true) by (apply dep_run; [reflexivity | exact Hg]).
  destruct (goodbye_spec _ Hd) as (A1 & A2 & A3 & A4 & A5 & A6 & A7 & A8 & A9 & A10 & A11).
  apply ticks_spec; try assumption.
  apply bounded_run. apply bounded_run. unfold bounded, pv0. cbn. auto.
Qed.

(* without the guard the statement is false: a GRAFT arriving on an inbound stream that outlives the outbound
   side puts the peer into a mesh (and protects its connection) with nothing left to take it out again *)
Theorem reclaim_refuted_graft_without_outbound :
  exists l n, RETAIN < n /\ reclaimed (lrun (lrun (lrun pv0 l) goodbye) (ticks n)) = false.
Proof. exists [LNotify; LOutUp; LInUp; LDead false; LGraft true], 5. split; [unfold RETAIN; lia | vm_compute; reflexivity]. Qed.

(* ---- C16: blacklisting ---- *)
(* BlacklistPeer at ANY point of the lifecycle: at that moment the queue is closed and dropped and the peer is in no
   topic list, mesh or fanout; pending buffers and protections are gone with them *)
Theorem blacklist_api_clears v :
  let w := lstep v (LBlacklist true) in
  v_blacklisted w = true
  /\ (depb v = true ->
      v_queue w = false /\ v_out w = false /\ v_topics w = (v_topics v && negb (v_queue v)) /\ v_mesh w = false /\ v_fanout w = false
      /\ v_bufs w = false /\ v_prot w = false).
Proof.
  destruct v as [q o i t m f b p ep es g sc bo c pr bl]. split; [reflexivity|].
  destruct q, o, i, t, m, f, b, p, ep, es, g; vm_compute; intros; try discriminate; repeat split; reflexivity.
Qed.

(* events that cannot take a peer off the blacklist: all of them *)
Lemma blacklisted_stays v e : v_blacklisted v = true -> v_blacklisted (lstep v e) = true.
Proof.
  destruct v as [q o i t m f b p ep es g sc bo c pr bl]. cbn [v_blacklisted]. intros ->.
  destruct e as [| |r| | | | | |a| | | | | | | | | | |api]; try destruct r; try destruct a; try destruct api;
    destruct q, o, i, m; reflexivity.
Qed.

(* from the moment a peer is blacklisted (by either route) and has no established outbound stream, no outbound
   stream to it is ever established again: queues are not created for it and a stream that completes later is refused *)
Theorem blacklisted_no_outbound l : forall v,
  v_blacklisted v = true -> v_out v = false -> v_out (lrun v l) = false /\ v_blacklisted (lrun v l) = true.
Proof.
  induction l as [|e l IH]; intros v Hb Ho; [split; assumption|].
  unfold lrun. cbn [fold_left]. apply IH; [apply blacklisted_stays; exact Hb|].
  destruct v as [q o i t m f b p ep es g sc bo c pr bl]. cbn [v_blacklisted v_out] in *. subst.
  destruct e as [| |r| | | | | |a| | | | | | | | | | |api]; try destruct r; try destruct a; try destruct api;
    destruct q, i, m; reflexivity.
Qed.
