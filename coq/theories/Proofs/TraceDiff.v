(* C19: the trace a transition owes its tracer ([diff_events]) replays, from any view that agrees with the state before
   the transition, to a view that agrees with the state after it - for ARBITRARY pairs of views - and its JOIN / LEAVE
   events alternate.  Lifted to every history of the router model in [trace_faithful]. *)
From Coq Require Import List Bool Arith Lia ZArith.
Import ListNotations.
From PS Require Import Model.Router Model.Trace Proofs.RouterProofs Proofs.TraceProofs.

Definition has_peer (v : tview) (q : peer) : bool := memb q (tv_peers v).

(* pointwise agreement of two views: same joined topics, same meshes, same peers, as sets *)
Definition vagree (v w : tview) : Prop :=
  (forall u, joined v u = joined w u) /\ (forall u q, in_mesh v u q = in_mesh w u q) /\ (forall q, has_peer v q = has_peer w q).
Lemma vagree_refl v : vagree v v.
Proof. repeat split. Qed.

Lemma memb_cons x y l : memb x (y :: l) = Nat.eqb x y || memb x l.
Proof. reflexivity. Qed.

Lemma replay_app v l1 l2 : replay v (l1 ++ l2) = replay (replay v l1) l2.
Proof. unfold replay. apply fold_left_app. Qed.
Lemma replay_cons v e l : replay v (e :: l) = replay (replay1 v e) l.
Proof. reflexivity. Qed.

(* ---- single events on the three observables ---- *)
Lemma in_mesh_leave v t u q : in_mesh (replay1 v (TLeave t)) u q = negb (Nat.eqb u t) && in_mesh v u q.
Proof.
  unfold in_mesh, replay1. cbn [tv_mesh].
  destruct (Nat.eqb_spec u t) as [->|Hne]; [rewrite aget_adel_same; reflexivity | rewrite aget_adel_other' by exact Hne; reflexivity].
Qed.
Lemma joined_remove v p u : joined (replay1 v (TRemovePeer p)) u = joined v u.
Proof. unfold joined, replay1. cbn [tv_mesh]. rewrite aget_map_vals. apply om_some. Qed.
Lemma joined_prune v p t u : joined (replay1 v (TPrune p t)) u = joined v u.
Proof.
  unfold joined, replay1. cbn [tv_mesh]. destruct (aget t (tv_mesh v)) as [m|] eqn:E; [|reflexivity].
  destruct (Nat.eq_dec u t) as [->|Hne]; [rewrite aget_aset_same, E; reflexivity | rewrite aget_aset_other by exact Hne; reflexivity].
Qed.
Lemma joined_graft v p t u : joined (replay1 v (TGraft p t)) u = joined v u.
Proof.
  unfold joined, replay1. cbn [tv_mesh]. destruct (aget t (tv_mesh v)) as [m|] eqn:E; [|reflexivity].
  destruct (Nat.eq_dec u t) as [->|Hne]; [rewrite aget_aset_same, E; reflexivity | rewrite aget_aset_other by exact Hne; reflexivity].
Qed.
Lemma in_mesh_join v t u q : in_mesh (replay1 v (TJoin t)) u q = in_mesh v u q.
Proof.
  unfold in_mesh, replay1. cbn [tv_mesh]. destruct (aget t (tv_mesh v)) as [m|] eqn:E; [reflexivity|].
  destruct (Nat.eq_dec u t) as [->|Hne]; [rewrite aget_aset_same, E; reflexivity | rewrite aget_aset_other by exact Hne; reflexivity].
Qed.

(* ---- phases ---- *)
Lemma phase_leaves L : forall v,
  (forall u, joined (replay v (map TLeave L)) u = joined v u && negb (memb u L))
  /\ (forall u q, in_mesh (replay v (map TLeave L)) u q = in_mesh v u q && negb (memb u L))
  /\ tv_peers (replay v (map TLeave L)) = tv_peers v.
Proof.
  induction L as [|t L IH]; intros v; cbn [map].
  - repeat split; intros; cbn; rewrite andb_true_r; reflexivity.
  - rewrite replay_cons. destruct (IH (replay1 v (TLeave t))) as (J & M & Pp). repeat split.
    + intros u. rewrite J, replay_leave. rewrite memb_cons.
      destruct (Nat.eqb u t), (joined v u), (memb u L); reflexivity.
    + intros u q. rewrite M, in_mesh_leave. rewrite memb_cons.
      destruct (Nat.eqb u t), (in_mesh v u q), (memb u L); reflexivity.
    + rewrite Pp. reflexivity.
Qed.

Lemma phase_removes G : forall v,
  (forall u, joined (replay v (map TRemovePeer G)) u = joined v u)
  /\ (forall u q, in_mesh (replay v (map TRemovePeer G)) u q = in_mesh v u q && negb (memb q G))
  /\ (forall q, has_peer (replay v (map TRemovePeer G)) q = has_peer v q && negb (memb q G)).
Proof.
  induction G as [|p G IH]; intros v; cbn [map].
  - repeat split; intros; cbn; rewrite ?andb_true_r; reflexivity.
  - rewrite replay_cons. destruct (IH (replay1 v (TRemovePeer p))) as (J & M & Pp). repeat split.
    + intros u. rewrite J. apply joined_remove.
    + intros u q. rewrite M. destruct (replay_remove_peer v p q u) as [E _]. rewrite E.
      rewrite memb_cons. rewrite (Nat.eqb_sym q p).
      destruct (in_mesh v u q), (Nat.eqb p q), (memb q G); reflexivity.
    + intros q. rewrite Pp. unfold has_peer. destruct (replay_remove_peer v p q 0) as [_ E]. rewrite E.
      rewrite memb_cons. rewrite (Nat.eqb_sym q p).
      destruct (memb q (tv_peers v)), (Nat.eqb p q), (memb q G); reflexivity.
Qed.

Definition is_prune (e : tev) : bool := match e with TPrune _ _ => true | _ => false end.
Definition is_graft (e : tev) : bool := match e with TGraft _ _ => true | _ => false end.
Definition pruned (l : list tev) (u : topic) (q : peer) : bool :=
  existsb (fun e => match e with TPrune p t => Nat.eqb t u && Nat.eqb p q | _ => false end) l.
Definition grafted (l : list tev) (u : topic) (q : peer) : bool :=
  existsb (fun e => match e with TGraft p t => Nat.eqb t u && Nat.eqb p q | _ => false end) l.

Lemma phase_prunes l : forallb is_prune l = true -> forall v,
  (forall u, joined (replay v l) u = joined v u)
  /\ (forall u q, in_mesh (replay v l) u q = in_mesh v u q && negb (pruned l u q))
  /\ tv_peers (replay v l) = tv_peers v.
Proof.
  induction l as [|e l IH]; intros Hl v.
  - repeat split; intros; cbn; rewrite ?andb_true_r; reflexivity.
  - cbn [forallb] in Hl. apply andb_prop in Hl as [He Hl]. destruct e; try discriminate He.
    rewrite replay_cons. destruct (IH Hl (replay1 v (TPrune p t))) as (J & M & Pp). repeat split.
    + intros u. rewrite J. apply joined_prune.
    + intros u q. rewrite M, replay_prune. unfold pruned. cbn [existsb]. rewrite (Nat.eqb_sym t u).
      destruct (in_mesh v u q), (Nat.eqb u t), (Nat.eqb p q), (existsb _ l); reflexivity.
    + rewrite Pp. reflexivity.
Qed.

Lemma phase_joins J : forall v,
  (forall u, joined (replay v (map TJoin J)) u = joined v u || memb u J)
  /\ (forall u q, in_mesh (replay v (map TJoin J)) u q = in_mesh v u q)
  /\ tv_peers (replay v (map TJoin J)) = tv_peers v.
Proof.
  induction J as [|t J IH]; intros v; cbn [map].
  - repeat split; intros; cbn; rewrite ?orb_false_r; reflexivity.
  - rewrite replay_cons. destruct (IH (replay1 v (TJoin t))) as (Jn & M & Pp). repeat split.
    + intros u. rewrite Jn, replay_join. rewrite memb_cons.
      destruct (Nat.eqb u t), (joined v u), (memb u J); reflexivity.
    + intros u q. rewrite M. apply in_mesh_join.
    + rewrite Pp. reflexivity.
Qed.

Lemma phase_adds C : forall v,
  tv_mesh (replay v (map TAddPeer C)) = tv_mesh v
  /\ (forall q, has_peer (replay v (map TAddPeer C)) q = has_peer v q || memb q C).
Proof.
  induction C as [|p C IH]; intros v; cbn [map].
  - split; intros; cbn; rewrite ?orb_false_r; reflexivity.
  - rewrite replay_cons. destruct (IH (replay1 v (TAddPeer p))) as (M & Pp). split.
    + rewrite M. reflexivity.
    + intros q. rewrite Pp. unfold has_peer. destruct (replay_add_peer v p q) as [E _]. rewrite E.
      rewrite memb_cons.
      destruct (Nat.eqb q p), (memb q (tv_peers v)), (memb q C); reflexivity.
Qed.

Lemma phase_grafts l : forallb is_graft l = true -> forall v,
  (forall u, joined (replay v l) u = joined v u)
  /\ (forall u q, in_mesh (replay v l) u q = in_mesh v u q || (joined v u && grafted l u q))
  /\ tv_peers (replay v l) = tv_peers v.
Proof.
  induction l as [|e l IH]; intros Hl v.
  - repeat split; intros; cbn; rewrite ?andb_false_r, ?orb_false_r; reflexivity.
  - cbn [forallb] in Hl. apply andb_prop in Hl as [He Hl]. destruct e; try discriminate He.
    rewrite replay_cons. destruct (IH Hl (replay1 v (TGraft p t))) as (J & M & Pp). repeat split.
    + intros u. rewrite J. apply joined_graft.
    + intros u q. rewrite M, replay_graft, joined_graft. unfold grafted. cbn [existsb]. rewrite (Nat.eqb_sym t u), (Nat.eqb_sym p q).
      destruct (Nat.eqb_spec u t) as [->|Hne].
      * destruct (joined v t), (Nat.eqb q p), (in_mesh v t q), (existsb _ l); reflexivity.
      * destruct (joined v t), (joined v u), (Nat.eqb q p), (in_mesh v u q), (existsb _ l); reflexivity.
    + rewrite Pp. reflexivity.
Qed.

(* ---- what is in each phase's list ---- *)
Lemma memb_dedupn x l : memb x (dedupn l) = memb x l.
Proof.
  induction l as [|y l IH]; [reflexivity|]. cbn [dedupn]. rewrite !memb_cons.
  rewrite memb_filter, IH. destruct (Nat.eqb_spec x y) as [->|Hne]; [reflexivity|].
  destruct (Nat.eqb_spec y x); [congruence|]. cbn. rewrite andb_true_r. reflexivity.
Qed.
Lemma nodup_filter (f : nat -> bool) l : nodup_b l = true -> nodup_b (filter f l) = true.
Proof.
  induction l as [|y l IH]; [reflexivity|]. cbn [nodup_b filter]. intros H. apply andb_prop in H as [H1 H2].
  destruct (f y); [|exact (IH H2)]. cbn [nodup_b]. rewrite memb_filter, (IH H2).
  apply negb_true_iff in H1. rewrite H1. reflexivity.
Qed.
Lemma nodup_dedupn l : nodup_b (dedupn l) = true.
Proof.
  induction l as [|y l IH]; [reflexivity|]. cbn [dedupn nodup_b]. rewrite memb_filter, Nat.eqb_refl. cbn.
  rewrite andb_false_r. cbn. apply nodup_filter, IH.
Qed.
Lemma memb_keys {V} k (l : list (nat * V)) : memb k (map fst l) = match aget k l with Some _ => true | None => false end.
Proof.
  induction l as [|[j v] l IH]; [reflexivity|]. cbn [map fst aget]. rewrite memb_cons.
  destruct (Nat.eqb k j); [reflexivity | exact IH].
Qed.
Lemma in_mesh_at v u q : in_mesh v u q = memb q (mesh_at v u).
Proof. unfold in_mesh, mesh_at. destruct (aget u (tv_mesh v)); reflexivity. Qed.
Lemma in_mesh_joined v u q : in_mesh v u q = true -> joined v u = true.
Proof. unfold in_mesh, joined. destruct (aget u (tv_mesh v)); [reflexivity | discriminate]. Qed.

Lemma memb_left a b u : memb u (ev_left a b) = joined a u && negb (joined b u).
Proof. unfold ev_left. rewrite memb_dedupn, memb_filter, memb_keys. reflexivity. Qed.
Lemma memb_joins a b u : memb u (ev_joins a b) = joined b u && negb (joined a u).
Proof. unfold ev_joins. rewrite memb_dedupn, memb_filter, memb_keys. reflexivity. Qed.
Lemma memb_gone a b q : memb q (ev_gone a b) = has_peer a q && negb (has_peer b q).
Proof. unfold ev_gone. rewrite memb_filter. reflexivity. Qed.
Lemma memb_came a b q : memb q (ev_came a b) = has_peer b q && negb (has_peer a q).
Proof. unfold ev_came. rewrite memb_filter. reflexivity. Qed.

Lemma existsb_concat {X} (f : X -> bool) ll : existsb f (concat ll) = existsb (existsb f) ll.
Proof. induction ll as [|l ll IH]; [reflexivity|]. cbn [concat existsb]. rewrite existsb_app, IH. reflexivity. Qed.
Lemma existsb_map {X Y} (f : Y -> bool) (g : X -> Y) l : existsb f (map g l) = existsb (fun x => f (g x)) l.
Proof. induction l as [|x l IH]; [reflexivity|]. cbn [map existsb]. rewrite IH. reflexivity. Qed.
Lemma existsb_pick (h : nat -> bool) u K :
  existsb (fun t => Nat.eqb t u && h t) K = memb u K && h u.
Proof.
  induction K as [|t K IH]; [reflexivity|]. rewrite memb_cons. cbn [existsb]. rewrite IH.
  rewrite (Nat.eqb_sym u t). destruct (Nat.eqb_spec t u) as [->|]; [|reflexivity].
  cbn. destruct (h u), (memb u K); reflexivity.
Qed.
Lemma existsb_ext' {X} (f g : X -> bool) l : (forall x, f x = g x) -> existsb f l = existsb g l.
Proof. intros H. induction l as [|x l IH]; [reflexivity|]. cbn. rewrite H, IH. reflexivity. Qed.

Lemma pruned_spec a b u q :
  pruned (ev_prunes a b) u q = joined a u && joined b u && in_mesh a u q && negb (in_mesh b u q) && negb (memb q (ev_gone a b)).
Proof.
  unfold pruned, ev_prunes. rewrite existsb_concat, existsb_map.
  rewrite (existsb_ext' _ (fun t => Nat.eqb t u && (has_topic b t && memb q (filter (fun p => negb (memb p (mesh_at b t)) && negb (memb p (ev_gone a b))) (mesh_at a t))))).
  - rewrite existsb_pick, memb_keys, memb_filter, !in_mesh_at. unfold joined, has_topic.
    destruct (aget u (tv_mesh a)), (aget u (tv_mesh b)), (memb q (mesh_at a u)), (memb q (mesh_at b u)), (memb q (ev_gone a b)); reflexivity.
  - intros t. destruct (has_topic b t); cbn [existsb andb]; [|rewrite andb_false_r; reflexivity].
    rewrite existsb_map. cbn.
    destruct (Nat.eqb t u) eqn:E; cbn [andb].
    + unfold memb. apply existsb_ext'. intros x. cbn. apply Nat.eqb_sym.
    + clear. induction (filter _ _) as [|x l IH]; [reflexivity | cbn; exact IH].
Qed.

Lemma grafted_spec a b u q :
  grafted (ev_grafts a b) u q = joined b u && in_mesh b u q && (negb (in_mesh a u q) || memb q (ev_gone a b)).
Proof.
  unfold grafted, ev_grafts. rewrite existsb_concat, existsb_map.
  rewrite (existsb_ext' _ (fun t => Nat.eqb t u && memb q (filter (fun p => negb (memb p (mesh_at a t)) || memb p (ev_gone a b)) (mesh_at b t)))).
  - rewrite existsb_pick, memb_keys, memb_filter, !in_mesh_at. unfold joined. rewrite andb_assoc. reflexivity.
  - intros t. rewrite existsb_map. cbn.
    destruct (Nat.eqb t u) eqn:E; cbn [andb].
    + unfold memb. apply existsb_ext'. intros x. cbn. apply Nat.eqb_sym.
    + clear. induction (filter _ _) as [|x l IH]; [reflexivity | cbn; exact IH].
Qed.

Lemma prunes_are_prunes a b : forallb is_prune (ev_prunes a b) = true.
Proof.
  unfold ev_prunes. apply forallb_forall. intros e He. apply in_concat in He as (l & Hl & He).
  apply in_map_iff in Hl as (t & <- & _). destruct (has_topic b t); [|destruct He].
  apply in_map_iff in He as (p & <- & _). reflexivity.
Qed.
Lemma grafts_are_grafts a b : forallb is_graft (ev_grafts a b) = true.
Proof.
  unfold ev_grafts. apply forallb_forall. intros e He. apply in_concat in He as (l & Hl & He).
  apply in_map_iff in Hl as (t & <- & _). apply in_map_iff in He as (p & <- & _). reflexivity.
Qed.

(* ---- the owed trace replays to the new state ---- *)
Theorem replay_diff a b v : vagree v a -> vagree (replay v (diff_events a b)) b.
Proof.
  intros (Ja & Ma & Pa). unfold diff_events. rewrite !replay_app.
  set (v1 := replay v (map TLeave (ev_left a b))).
  set (v2 := replay v1 (map TRemovePeer (ev_gone a b))).
  set (v3 := replay v2 (ev_prunes a b)).
  set (v4 := replay v3 (map TJoin (ev_joins a b))).
  set (v5 := replay v4 (map TAddPeer (ev_came a b))).
  destruct (phase_leaves (ev_left a b) v) as (J1 & M1 & P1). fold v1 in J1, M1, P1.
  destruct (phase_removes (ev_gone a b) v1) as (J2 & M2 & P2). fold v2 in J2, M2, P2.
  destruct (phase_prunes _ (prunes_are_prunes a b) v2) as (J3 & M3 & P3). fold v3 in J3, M3, P3.
  destruct (phase_joins (ev_joins a b) v3) as (J4 & M4 & P4). fold v4 in J4, M4, P4.
  destruct (phase_adds (ev_came a b) v4) as (M5 & P5). fold v5 in M5, P5.
  destruct (phase_grafts _ (grafts_are_grafts a b) v5) as (J6 & M6 & P6).
  assert (J5 : forall u, joined v5 u = joined v4 u) by (intros u; unfold joined; rewrite M5; reflexivity).
  assert (M5' : forall u q, in_mesh v5 u q = in_mesh v4 u q) by (intros u q; unfold in_mesh; rewrite M5; reflexivity).
  assert (HJ : forall u, joined v5 u = joined b u).
  { intros u. rewrite J5, J4, J3, J2, J1, Ja, memb_left, memb_joins. destruct (joined a u), (joined b u); reflexivity. }
  repeat split.
  - intros u. rewrite J6. apply HJ.
  - intros u q. rewrite M6, HJ, M5', M4, M3, M2, M1, Ma, grafted_spec, pruned_spec, memb_left.
    pose proof (in_mesh_joined a u q) as Ha. pose proof (in_mesh_joined b u q) as Hb.
    destruct (in_mesh a u q), (in_mesh b u q), (joined a u), (joined b u), (memb q (ev_gone a b));
      try reflexivity; try (specialize (Ha eq_refl); discriminate Ha); try (specialize (Hb eq_refl); discriminate Hb).
  - intros q.
    assert (HP6 : has_peer (replay v5 (ev_grafts a b)) q = has_peer v5 q) by (unfold has_peer; rewrite P6; reflexivity).
    assert (HP4 : has_peer v4 q = has_peer v2 q) by (unfold has_peer; rewrite P4, P3; reflexivity).
    assert (HP1 : has_peer v1 q = has_peer v q) by (unfold has_peer; rewrite P1; reflexivity).
    rewrite HP6, P5, HP4, P2, HP1, Pa, memb_gone, memb_came.
    destruct (has_peer a q), (has_peer b q); reflexivity.
Qed.

(* ---- JOIN / LEAVE alternate in the owed trace ---- *)
Lemma alt_ok_app l1 : forall j l2, alt_ok j (l1 ++ l2) = alt_ok j l1 && alt_ok (joined_after j l1) l2.
Proof.
  induction l1 as [|e l1 IH]; intros j l2; [reflexivity|].
  destruct e; cbn [app alt_ok joined_after]; rewrite ?IH, ?andb_assoc; reflexivity.
Qed.
Lemma joined_after_app l1 : forall j l2, joined_after j (l1 ++ l2) = joined_after (joined_after j l1) l2.
Proof. induction l1 as [|e l1 IH]; intros j l2; [reflexivity|]. destruct e; cbn [app joined_after]; apply IH. Qed.

Definition no_jl (e : tev) : bool := match e with TJoin _ | TLeave _ => false | _ => true end.
Lemma alt_ok_neutral l : forallb no_jl l = true -> forall j, alt_ok j l = true /\ joined_after j l = j.
Proof.
  induction l as [|e l IH]; intros H j; [split; reflexivity|].
  cbn [forallb] in H. apply andb_prop in H as [He H]. destruct e; try discriminate He; cbn [alt_ok joined_after]; apply IH, H.
Qed.
Lemma alt_ok_leaves L : forall j, nodup_b L = true -> (forall u, memb u L = true -> memb u j = true) ->
  alt_ok j (map TLeave L) = true /\ (forall u, memb u (joined_after j (map TLeave L)) = memb u j && negb (memb u L)).
Proof.
  induction L as [|t L IH]; intros j Hn Hs; cbn [map alt_ok joined_after].
  - split; [reflexivity | intros; cbn; rewrite andb_true_r; reflexivity].
  - cbn [nodup_b] in Hn. apply andb_prop in Hn as [Ht Hn]. apply negb_true_iff in Ht.
    assert (Hs' : forall u, memb u L = true -> memb u (srem t j) = true).
    { intros u Hu. rewrite memb_srem'. rewrite Hs.
      - destruct (Nat.eqb_spec t u) as [->|]; [congruence | reflexivity].
      - rewrite memb_cons. rewrite Hu. apply orb_true_r. }
    destruct (IH (srem t j) Hn Hs') as (A & B). split.
    + rewrite (Hs t); [exact A|]. rewrite memb_cons, Nat.eqb_refl. reflexivity.
    + intros u. rewrite B, memb_srem'. rewrite memb_cons. rewrite (Nat.eqb_sym u t).
      destruct (Nat.eqb t u), (memb u j), (memb u L); reflexivity.
Qed.
Lemma alt_ok_joins J : forall j, nodup_b J = true -> (forall u, memb u J = true -> memb u j = false) ->
  alt_ok j (map TJoin J) = true /\ (forall u, memb u (joined_after j (map TJoin J)) = memb u j || memb u J).
Proof.
  induction J as [|t J IH]; intros j Hn Hs; cbn [map alt_ok joined_after].
  - split; [reflexivity | intros; cbn; rewrite orb_false_r; reflexivity].
  - cbn [nodup_b] in Hn. apply andb_prop in Hn as [Ht Hn]. apply negb_true_iff in Ht.
    assert (Hs' : forall u, memb u J = true -> memb u (sadd t j) = false).
    { intros u Hu. rewrite memb_sadd'. rewrite Hs.
      - destruct (Nat.eqb_spec u t) as [->|]; [congruence | reflexivity].
      - rewrite memb_cons. rewrite Hu. apply orb_true_r. }
    destruct (IH (sadd t j) Hn Hs') as (A & B). split.
    + rewrite (Hs t); [exact A|]. rewrite memb_cons, Nat.eqb_refl. reflexivity.
    + intros u. rewrite B, memb_sadd'. rewrite memb_cons.
      destruct (Nat.eqb u t), (memb u j), (memb u J); reflexivity.
Qed.

Lemma no_jl_map_remove G : forallb no_jl (map TRemovePeer G) = true.
Proof. induction G; [reflexivity | exact IHG]. Qed.
Lemma no_jl_map_add G : forallb no_jl (map TAddPeer G) = true.
Proof. induction G; [reflexivity | exact IHG]. Qed.
Lemma no_jl_of_prunes l : forallb is_prune l = true -> forallb no_jl l = true.
Proof. induction l as [|e l IH]; [reflexivity|]. cbn. intros H. apply andb_prop in H as [He H]. destruct e; try discriminate He. exact (IH H). Qed.
Lemma no_jl_of_grafts l : forallb is_graft l = true -> forallb no_jl l = true.
Proof. induction l as [|e l IH]; [reflexivity|]. cbn. intros H. apply andb_prop in H as [He H]. destruct e; try discriminate He. exact (IH H). Qed.

Theorem alt_ok_diff a b j : (forall u, memb u j = joined a u) ->
  alt_ok j (diff_events a b) = true /\ (forall u, memb u (joined_after j (diff_events a b)) = joined b u).
Proof.
  intros Hj. unfold diff_events.
  destruct (alt_ok_leaves (ev_left a b) j) as (A1 & B1).
  { unfold ev_left. apply nodup_dedupn. }
  { intros u Hu. rewrite memb_left in Hu. rewrite Hj. destruct (joined a u); [reflexivity | discriminate]. }
  set (j1 := joined_after j (map TLeave (ev_left a b))) in *.
  destruct (alt_ok_neutral _ (no_jl_map_remove (ev_gone a b)) j1) as (A2 & B2).
  destruct (alt_ok_neutral _ (no_jl_of_prunes _ (prunes_are_prunes a b)) j1) as (A3 & B3).
  destruct (alt_ok_joins (ev_joins a b) j1) as (A4 & B4).
  { unfold ev_joins. apply nodup_dedupn. }
  { intros u Hu. rewrite memb_joins in Hu. rewrite B1, Hj. destruct (joined a u); [|reflexivity]. rewrite andb_false_r in Hu. discriminate. }
  set (j4 := joined_after j1 (map TJoin (ev_joins a b))) in *.
  destruct (alt_ok_neutral _ (no_jl_map_add (ev_came a b)) j4) as (A5 & B5).
  destruct (alt_ok_neutral _ (no_jl_of_grafts _ (grafts_are_grafts a b)) j4) as (A6 & B6).
  split.
  - rewrite alt_ok_app. fold j1. rewrite A1. cbn [andb].
    rewrite alt_ok_app, A2, B2. cbn [andb]. rewrite alt_ok_app, A3, B3. cbn [andb].
    rewrite alt_ok_app. fold j4. rewrite A4. cbn [andb]. rewrite alt_ok_app, A5, B5. exact A6.
  - intros u. rewrite joined_after_app. fold j1. rewrite joined_after_app, B2, joined_after_app, B3, joined_after_app. fold j4.
    rewrite joined_after_app, B5, B6. unfold j4. rewrite B4, B1, Hj, memb_left, memb_joins.
    destruct (joined a u), (joined b u); reflexivity.
Qed.

(* ---- every history of the router model ---- *)
Fixpoint run_trace (P : params) (s : rstate) (l : list (list (peer * Z) * rop)) : option (rstate * list tev) :=
  match l with
  | [] => Some (s, [])
  | (sc, o) :: l' =>
      match step P sc s o with
      | Some (s1, _, _) =>
          match run_trace P s1 l' with
          | Some (s2, tr) => Some (s2, diff_events (view_of s) (view_of s1) ++ tr)
          | None => None
          end
      | None => None
      end
  end.

Theorem trace_faithful_from P l : forall s v j s' tr,
  vagree v (view_of s) -> (forall u, memb u j = joined (view_of s) u) ->
  run_trace P s l = Some (s', tr) ->
  vagree (replay v tr) (view_of s') /\ alt_ok j tr = true.
Proof.
  induction l as [|[sc o] l IH]; intros s v j s' tr Hv Hj H; cbn [run_trace] in H.
  - injection H as <- <-. split; [exact Hv | reflexivity].
  - destruct (step P sc s o) as [[[s1 c] pen]|] eqn:Es; [|discriminate].
    destruct (run_trace P s1 l) as [[s2 tr2]|] eqn:Er; [|discriminate]. injection H as <- <-.
    destruct (alt_ok_diff (view_of s) (view_of s1) j Hj) as (A & B).
    destruct (IH s1 (replay v (diff_events (view_of s) (view_of s1))) (joined_after j (diff_events (view_of s) (view_of s1))) s2 tr2
                 (replay_diff _ _ _ Hv) B Er) as (V & A2).
    split; [rewrite replay_app; exact V | rewrite alt_ok_app, A, A2; reflexivity].
Qed.

Theorem trace_faithful P l s tr :
  run_trace P init l = Some (s, tr) -> vagree (replay tview0 tr) (view_of s) /\ alt_ok [] tr = true.
Proof. apply trace_faithful_from; [apply vagree_refl | reflexivity]. Qed.
