(* the parameters in force after a step of the score model are a function of the operation alone (any arithmetic) *)
From Coq Require Import List Bool ZArith Arith.
Import ListNotations.
From PS Require Import Model.Router Model.Score.
Section G.
Variable A : arith.
Lemma prm_with_peer (s : sstate A) p f : prm A (with_peer A s p f) = prm A s.
Proof. unfold with_peer. destruct (aget p (pst A s)); reflexivity. Qed.
Lemma prm_mark_invalid s p t : prm A (mark_invalid A s p t) = prm A s.
Proof. apply prm_with_peer. Qed.
Lemma prm_mark_first s p t : prm A (mark_first A s p t) = prm A s.
Proof. unfold mark_first. destruct (tp_of A s t); [apply prm_with_peer | reflexivity]. Qed.
Lemma prm_mark_duplicate s p t v : prm A (mark_duplicate A s p t v) = prm A s.
Proof. unfold mark_duplicate. destruct (tp_of A s t); [apply prm_with_peer | reflexivity]. Qed.
Lemma prm_get_rec s i : prm A (fst (get_rec A s i)) = prm A s.
Proof. unfold get_rec. destruct (aget i (recs A s)); reflexivity. Qed.
Lemma prm_fold {X} (g : sstate A -> X -> sstate A) l : (forall st x, prm A (g st x) = prm A st) -> forall s, prm A (fold_left g l s) = prm A s.
Proof. intros Hg. induction l as [|x l IH]; intros s; [reflexivity|]. cbn. rewrite IH. apply Hg. Qed.
Lemma prm_after_step s o s' : sstep A s o = Some s' -> prm A s' = prm_after A (prm A s) o.
Proof.
  intros H. destruct o; cbn [sstep prm_after] in H |- *.
  - destruct (aget p (pst A s)); injection H as <-; reflexivity.
  - destruct (aget p (pst A s)); [|injection H as <-; reflexivity].
    match type of H with (if ?b then _ else _) = _ => destruct b end; injection H as <-; reflexivity.
  - injection H as <-. apply prm_with_peer.
  - destruct (tp_of A s t); injection H as <-; [apply prm_with_peer | reflexivity].
  - injection H as <-. apply prm_get_rec.
  - pose proof (prm_get_rec (mark_first A s from t) i) as E. destruct (get_rec A (mark_first A s from t) i) as [s2 r]. cbn [fst] in E.
    destruct (dstat r); injection H as <-; try (rewrite E; apply prm_mark_first).
    rewrite prm_fold; [cbn; rewrite E; apply prm_mark_first|]. intros st q. destruct (Nat.eqb q from); [reflexivity | apply prm_mark_duplicate].
  - pose proof (prm_get_rec s i) as E. destruct (get_rec A s i) as [s2 rc]. cbn [fst] in E.
    destruct r; try (injection H as <-; first [apply prm_mark_invalid | reflexivity]).
    all: destruct (dstat rc); injection H as <-; try exact E.
    rewrite prm_fold; [rewrite prm_mark_invalid; exact E | intros; apply prm_mark_invalid].
  - pose proof (prm_get_rec s i) as E. destruct (get_rec A s i) as [s2 rc]. cbn [fst] in E.
    destruct (memb from (dpeers rc)); [injection H as <-; exact E|].
    destruct (dstat rc); injection H as <-; try exact E.
    + rewrite prm_mark_duplicate. exact E.
    + rewrite prm_mark_invalid. exact E.
  - injection H as <-. apply prm_with_peer.
  - injection H as <-. reflexivity.
  - injection H as <-. reflexivity.
  - destruct (aget t (spTopics A (prm A s))); [|injection H as <-; reflexivity].
    match type of H with (if ?b then _ else _) = _ => destruct b end; injection H as <-; reflexivity.
  - injection H as <-. apply prm_with_peer.
  - destruct (d <? 0)%Z; [discriminate|]. injection H as <-. reflexivity.
Qed.
End G.
