From Coq Require Import List Bool NArith Arith Lia.
Import ListNotations.
From PS Require Import Model.SeqnoVal.
Local Open Scope N_scope.

Definition top (a : author) (acc : list (author * N)) : N :=
  match acc_of a acc with [] => 0 | n :: _ => n end.

Definition Inv (s : st) : Prop :=
  forall a, nonce_of a (store s) = top a (accepted s)
            /\ strictly_decreasing (acc_of a (accepted s)) = true.

Lemma Inv_init : Inv init.
Proof. intros a. split; reflexivity. Qed.

Lemma acc_of_cons a b q l :
  acc_of a ((b, q) :: l) = if Nat.eqb a b then q :: acc_of a l else acc_of a l.
Proof. unfold acc_of. cbn [filter fst]. destruct (Nat.eqb a b); reflexivity. Qed.

Lemma nonce_cons a b q l :
  nonce_of a ((b, q) :: l) = if Nat.eqb a b then q else nonce_of a l.
Proof. unfold nonce_of. cbn [sget]. destruct (Nat.eqb a b); reflexivity. Qed.

Lemma step_inv s x s' : Inv s -> step s x = Some s' -> Inv s'.
Proof.
  intros I H. destruct x as [i a seq|i|i]; cbn [step] in H.
  - destruct (find_thr i (threads s)); [discriminate|]. inversion H; subst. exact I.
  - destruct (find_thr i (threads s)) as [t|]; [|discriminate].
    destruct (t_phase t); [|discriminate].
    destruct (decode (t_seq t)) as [q|]; [|inversion H; subst; exact I].
    destruct (q <=? nonce_of (t_author t) (store s)); inversion H; subst; exact I.
  - destruct (find_thr i (threads s)) as [t|]; [|discriminate].
    destruct (t_phase t); [discriminate|].
    destruct (decode (t_seq t)) as [q|]; [|discriminate].
    destruct (N.leb_spec q (nonce_of (t_author t) (store s))) as [Hle|Hlt];
      inversion H; subst; clear H; [exact I|].
    intros a. cbn [store accepted]. unfold top. rewrite nonce_cons, acc_of_cons.
    destruct (I a) as [I1 I2]. destruct (Nat.eqb_spec a (t_author t)) as [->|Hne].
    + split; [reflexivity|]. cbn [strictly_decreasing].
      destruct (acc_of (t_author t) (accepted s)) as [|y r] eqn:E; [reflexivity|].
      rewrite I2, andb_true_r. unfold top in I1. rewrite E in I1. apply N.ltb_lt. lia.
    + split; [exact I1|exact I2].
Qed.

Lemma run_inv l : forall s s', Inv s -> run s l = Some s' -> Inv s'.
Proof.
  induction l as [|x l IH]; intros s s' I H; cbn [run] in H.
  - now inversion H; subst.
  - destruct (step s x) as [s1|] eqn:E; [|discriminate]. eapply IH; [|exact H]. eapply step_inv; eassumption.
Qed.

Theorem accepted_strictly_increasing l s :
  run init l = Some s -> forall a, strictly_decreasing (acc_of a (accepted s)) = true.
Proof. intros R a. apply (run_inv _ _ _ Inv_init R a). Qed.

Theorem nonce_is_highest_accepted l s :
  run init l = Some s -> forall a, nonce_of a (store s) = top a (accepted s).
Proof. intros R a. apply (run_inv _ _ _ Inv_init R a). Qed.

Theorem nonce_monotone s x s' :
  step s x = Some s' -> forall a, nonce_of a (store s) <= nonce_of a (store s').
Proof.
  intros H a. destruct x as [i b seq|i|i]; cbn [step] in H.
  - destruct (find_thr i (threads s)); [discriminate|]. inversion H; subst. cbn. lia.
  - destruct (find_thr i (threads s)) as [t|]; [|discriminate].
    destruct (t_phase t); [|discriminate].
    destruct (decode (t_seq t)) as [q|]; [|inversion H; subst; cbn; lia].
    destruct (q <=? nonce_of (t_author t) (store s)); inversion H; subst; cbn; lia.
  - destruct (find_thr i (threads s)) as [t|]; [|discriminate].
    destruct (t_phase t); [discriminate|].
    destruct (decode (t_seq t)) as [q|]; [|discriminate].
    destruct (N.leb_spec q (nonce_of (t_author t) (store s))) as [Hle|Hlt];
      inversion H; subst; clear H; cbn [store]; [lia|].
    rewrite nonce_cons. destruct (Nat.eqb_spec a (t_author t)) as [->|]; lia.
Qed.

(* a validation is accepted only in its exclusive phase and only with a sequence number strictly
   above the stored nonce at that very moment; everything else is Ignore and changes nothing *)
Theorem accept_only_above_nonce s x s' i :
  step s x = Some s' -> In (i, Accept) (results s') -> ~ In (i, Accept) (results s) ->
  x = AP2 i /\ exists t q, find_thr i (threads s) = Some t /\ decode (t_seq t) = Some q
                           /\ nonce_of (t_author t) (store s) < q
                           /\ store s' = (t_author t, q) :: store s
                           /\ accepted s' = (t_author t, q) :: accepted s.
Proof.
  intros H Hin Hnin. destruct x as [j b seq|j|j]; cbn [step] in H.
  - destruct (find_thr j (threads s)); [discriminate|]. inversion H; subst. contradiction.
  - destruct (find_thr j (threads s)) as [t|]; [|discriminate].
    destruct (t_phase t); [|discriminate].
    destruct (decode (t_seq t)) as [q|].
    + destruct (q <=? nonce_of (t_author t) (store s)); inversion H; subst; cbn [results] in Hin.
      * destruct Hin as [E|?]; [discriminate|contradiction].
      * contradiction.
    + inversion H; subst; cbn [results] in Hin. destruct Hin as [E|?]; [discriminate|contradiction].
  - destruct (find_thr j (threads s)) as [t|] eqn:Ef; [|discriminate].
    destruct (t_phase t); [discriminate|].
    destruct (decode (t_seq t)) as [q|] eqn:Ed; [|discriminate].
    destruct (N.leb_spec q (nonce_of (t_author t) (store s))) as [Hle|Hlt];
      inversion H; subst; clear H; cbn [results store accepted] in *.
    + destruct Hin as [E|?]; [discriminate|contradiction].
    + destruct Hin as [E|?]; [|contradiction]. inversion E; subst. split; [reflexivity|].
      exists t, q. repeat split; auto.
Qed.

Theorem replay_ignored_unchanged s i t q :
  find_thr i (threads s) = Some t -> decode (t_seq t) = Some q ->
  q <= nonce_of (t_author t) (store s) ->
  forall x s', (x = AP1 i \/ x = AP2 i) -> step s x = Some s' ->
    In (i, Ignore) (results s') /\ store s' = store s /\ accepted s' = accepted s.
Proof.
  intros Ef Ed Hle x s' [->| ->] H; cbn [step] in H; rewrite Ef in H.
  - destruct (t_phase t); [|discriminate]. rewrite Ed in H.
    destruct (N.leb_spec q (nonce_of (t_author t) (store s))); [|lia].
    inversion H; subst; cbn. auto.
  - destruct (t_phase t); [discriminate|]. rewrite Ed in H.
    destruct (N.leb_spec q (nonce_of (t_author t) (store s))); [|lia].
    inversion H; subst; cbn. auto.
Qed.

Theorem malformed_ignored s i t s' :
  find_thr i (threads s) = Some t -> decode (t_seq t) = None -> step s (AP1 i) = Some s' ->
  In (i, Ignore) (results s') /\ store s' = store s /\ accepted s' = accepted s.
Proof.
  intros Ef Ed H. cbn [step] in H. rewrite Ef in H. destruct (t_phase t); [|discriminate].
  rewrite Ed in H. inversion H; subst; cbn; auto.
Qed.


(* zero (an absent or all-zero sequence number) is never accepted: every accepted number is above a stored value, and
   those are at least 0 *)
Definition PosAcc (s : st) : Prop := forall a q, In (a, q) (accepted s) -> 0 < q.
Lemma step_posacc s x s' : PosAcc s -> step s x = Some s' -> PosAcc s'.
Proof.
  intros P H. destruct x as [i b seq|i|i]; cbn [step] in H.
  - destruct (find_thr i (threads s)); [discriminate|]. inversion H; subst. exact P.
  - destruct (find_thr i (threads s)) as [t|]; [|discriminate].
    destruct (t_phase t); [|discriminate].
    destruct (decode (t_seq t)) as [q|]; [|inversion H; subst; exact P].
    destruct (q <=? nonce_of (t_author t) (store s)); inversion H; subst; exact P.
  - destruct (find_thr i (threads s)) as [t|]; [|discriminate].
    destruct (t_phase t); [discriminate|].
    destruct (decode (t_seq t)) as [q|]; [|discriminate].
    destruct (N.leb_spec q (nonce_of (t_author t) (store s))) as [Hle|Hlt];
      inversion H; subst; clear H; [exact P|].
    intros a q' [E|Hin]; [inversion E; subst; lia|exact (P a q' Hin)].
Qed.
Theorem zero_never_accepted l : forall s s', PosAcc s -> run s l = Some s' -> PosAcc s'.
Proof.
  induction l as [|x l IH]; cbn [run]; intros s s' P H.
  - inversion H; subst; exact P.
  - destruct (step s x) as [s1|] eqn:E; [|discriminate]. eapply IH; [|exact H]. eapply step_posacc; eassumption.
Qed.
