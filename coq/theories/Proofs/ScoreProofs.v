(* Proofs about Model.Score instantiated with exact rational arithmetic. *)
From Coq Require Import List Bool ZArith Arith QArith Qround Lia Lra.
Import ListNotations.
From PS Require Import Model.Router Model.Score Proofs.RouterProofs.

Definition Qltb (x y : Q) : bool := negb (Qle_bool y x).
Lemma Qltb_lt x y : Qltb x y = true <-> x < y.
Proof.
  unfold Qltb. rewrite negb_true_iff. split.
  - intros H. apply Qnot_le_lt. intros Hle. apply Qle_bool_iff in Hle. congruence.
  - intros H. destruct (Qle_bool y x) eqn:E; [|reflexivity]. apply Qle_bool_iff in E. exfalso. apply (Qlt_not_le _ _ H E).
Qed.
Lemma Qltb_ge x y : Qltb x y = false <-> y <= x.
Proof.
  unfold Qltb. rewrite negb_false_iff. apply Qle_bool_iff.
Qed.

Definition QA : arith :=
  {| F := Q; f0 := 0; f1 := 1; fadd := Qplus; fsub := Qminus; fmul := Qmult; fltb := Qltb; fofZ := inject_Z |}.
From Coq Require Import Lqa.

Notation tparamsQ := (tparams QA).
Notation sparamsQ := (sparams QA).
Notation tstatsQ := (tstats QA).
Notation pstatsQ := (pstats QA).
Notation sstateQ := (sstate QA).

(* what validate() guarantees of a topic parameter set whose components are specified (for a component
   with weight zero validate() leaves cap and decay unconstrained: see DESIGN.md) *)
Record tp_ok (tp : tparamsQ) : Prop := {
  ok_fc : 0 <= tpFMDCap QA tp; ok_mc : 0 <= tpMMDCap QA tp;
  ok_fd : 0 <= tpFMDDecay QA tp <= 1; ok_md : 0 <= tpMMDDecay QA tp <= 1;
  ok_pd : 0 <= tpMFPDecay QA tp <= 1; ok_id : 0 <= tpIMDDecay QA tp <= 1;
  ok_tw : 0 <= tpTopicWeight QA tp;
  ok_timw : 0 <= tpTIMWeight QA tp; ok_timc : 0 <= tpTIMCap QA tp; ok_fw : 0 <= tpFMDWeight QA tp;
  ok_mw : tpMMDWeight QA tp <= 0; ok_pw : tpMFPWeight QA tp <= 0; ok_iw : tpIMDWeight QA tp <= 0
}.
Record sp_ok (P : sparamsQ) : Prop := {
  ok_topics : forall t tp, aget t (spTopics QA P) = Some tp -> tp_ok tp;
  ok_bd : 0 <= spBPDecay QA P <= 1; ok_dz : 0 <= spDecayToZero QA P;
  ok_ipw : spIPWeight QA P <= 0; ok_bw : spBPWeight QA P <= 0; ok_bt : 0 <= spBPThreshold QA P
}.

Definition ts_ok (P : sparamsQ) (t : topic) (ts : tstatsQ) : Prop :=
  0 <= fmd QA ts /\ 0 <= mmd QA ts /\ 0 <= imd QA ts /\ 0 <= mfp QA ts
  /\ forall tp, aget t (spTopics QA P) = Some tp -> fmd QA ts <= tpFMDCap QA tp /\ mmd QA ts <= tpMMDCap QA tp.
Definition ps_ok (P : sparamsQ) (ps : pstatsQ) : Prop :=
  0 <= bp QA ps
  /\ Forall (fun te => ts_ok P (fst te) (snd te) /\ aget (fst te) (spTopics QA P) <> None) (topics QA ps).
Definition SInv (s : sstateQ) : Prop :=
  sp_ok (prm QA s) /\ Forall (fun e => ps_ok (prm QA s) (snd e)) (pst QA s).

Ltac qa := cbn [fadd fsub fmul fltb f0 f1 fofZ QA F] in *.

(* ---- association lists ---- *)
Lemma In_aset {V} k (v : V) l x : In x (aset k v l) -> x = (k, v) \/ In x l.
Proof.
  induction l as [|[j w] l IH]; cbn; [intros [H|[]]; auto|].
  destruct (Nat.eqb_spec k j) as [->|Hne]; cbn.
  - intros [H|H]; [left; congruence | right; right; exact H].
  - intros [H|H]; [right; left; exact H|]. destruct (IH H); [left; assumption | right; right; assumption].
Qed.
Lemma Forall_aset {V} (Qp : nat * V -> Prop) k v l : Forall Qp l -> Qp (k, v) -> Forall Qp (aset k v l).
Proof.
  intros Hl Hv. apply Forall_forall. intros x Hx. destruct (In_aset _ _ _ _ Hx) as [->|Hin]; [exact Hv|].
  rewrite Forall_forall in Hl. apply Hl. exact Hin.
Qed.
Lemma aget_In {V} k (v : V) l : aget k l = Some v -> In (k, v) l.
Proof.
  induction l as [|[j w] l IH]; cbn; [discriminate|].
  destruct (Nat.eqb_spec k j) as [->|Hne]; intros H; [inversion H; left; reflexivity | right; apply IH; exact H].
Qed.
Lemma Forall_adel {V} (Qp : nat * V -> Prop) k l : Forall Qp l -> Forall Qp (adel k l).
Proof. intros H. unfold adel. apply Forall_forall. intros x Hx. apply filter_In in Hx. rewrite Forall_forall in H. apply H. apply Hx. Qed.

(* ---- cap / decay ---- *)
Lemma cap_at_spec (x c : Q) : 0 <= c -> 0 <= x -> 0 <= cap_at QA x c /\ cap_at QA x c <= c.
Proof.
  intros Hc Hx. unfold cap_at. qa. destruct (Qltb c x) eqn:E.
  - split; [exact Hc | apply Qle_refl].
  - apply Qltb_ge in E. split; assumption.
Qed.
Lemma cap_at_le (x c : Q) : cap_at QA x c <= x.
Proof. unfold cap_at. qa. destruct (Qltb c x) eqn:E; [apply Qltb_lt in E; lra | lra]. Qed.
Lemma decay0_spec (x d z : Q) : 0 <= x -> 0 <= d <= 1 -> 0 <= decay0 QA x d z /\ decay0 QA x d z <= x.
Proof.
  intros Hx [Hd1 Hd2]. unfold decay0. qa. destruct (Qltb (x * d) z); [split; lra|]. split; nra.
Qed.

Lemma tstats0_ok P t : (forall tp, aget t (spTopics QA P) = Some tp -> tp_ok tp) -> ts_ok P t (tstats0 QA).
Proof.
  intros H. unfold ts_ok, tstats0. cbn [fmd mmd imd mfp]. qa. repeat split; try lra.
  - destruct (H _ H0). assumption.
  - destruct (H _ H0). assumption.
Qed.

(* updating one topic's counters of one peer *)
Lemma upd_topic_ok P ps t (f : tstatsQ -> tstatsQ) :
  sp_ok P -> ps_ok P ps -> (forall ts, ts_ok P t ts -> ts_ok P t (f ts)) -> ps_ok P (upd_topic QA ps t f P).
Proof.
  intros HP [Hb Ht] Hf. unfold upd_topic.
  destruct (aget t (topics QA ps)) as [ts|] eqn:E.
  - split; [exact Hb|]. cbn [topics]. apply Forall_aset; [exact Ht|]. cbn [fst snd].
    rewrite Forall_forall in Ht. destruct (Ht _ (aget_In _ _ _ E)) as [A B]. split; [apply Hf; exact A | exact B].
  - destruct (aget t (spTopics QA P)) as [tp|] eqn:Et; [|split; assumption].
    split; [exact Hb|]. cbn [topics]. apply Forall_aset; [exact Ht|]. cbn [fst snd]. split; [|congruence].
    apply Hf. apply tstats0_ok. intros tp' E'. rewrite Et in E'. inversion E'; subst. apply (ok_topics _ HP t tp' Et).
Qed.

Lemma with_peer_ok (s : sstateQ) p (f : pstatsQ -> pstatsQ) :
  SInv s -> (forall ps, ps_ok (prm QA s) ps -> ps_ok (prm QA s) (f ps)) -> SInv (with_peer QA s p f).
Proof.
  intros [HP Hl] Hf. unfold with_peer. destruct (aget p (pst QA s)) as [ps|] eqn:E; [|split; assumption].
  split; [exact HP|]. cbn [pst set_pst prm]. apply Forall_aset; [exact Hl|]. cbn [snd].
  apply Hf. rewrite Forall_forall in Hl. apply (Hl _ (aget_In _ _ _ E)).
Qed.

Lemma mark_invalid_ok s p t : SInv s -> SInv (mark_invalid QA s p t).
Proof.
  intros HI. unfold mark_invalid. apply with_peer_ok; [exact HI|]. intros ps Hps.
  apply upd_topic_ok; [apply HI | exact Hps|]. intros ts (A & B & C & D & E). unfold ts_ok, set_ts. cbn [fmd mmd imd mfp]. qa.
  split; [assumption|]. split; [assumption|]. split; [lra|]. split; [assumption|]. exact E.
Qed.

Lemma mark_first_ok s p t : SInv s -> SInv (mark_first QA s p t).
Proof.
  intros HI. unfold mark_first, tp_of. destruct (aget t (spTopics QA (prm QA s))) as [tp|] eqn:Et; [|exact HI].
  apply with_peer_ok; [exact HI|]. intros ps Hps. apply upd_topic_ok; [apply HI | exact Hps|].
  intros ts (A & B & C & D & E). destruct HI as [HP _]. destruct (ok_topics _ HP t tp Et).
  unfold ts_ok, set_ts. cbn [fmd mmd imd mfp]. qa.
  destruct (cap_at_spec (fmd QA ts + 1) (tpFMDCap QA tp)) as [F1 F2]; [assumption | lra|].
  assert (M : 0 <= (if inMesh QA ts then cap_at QA (mmd QA ts + 1) (tpMMDCap QA tp) else mmd QA ts)
              /\ (if inMesh QA ts then cap_at QA (mmd QA ts + 1) (tpMMDCap QA tp) else mmd QA ts) <= tpMMDCap QA tp).
  { destruct (inMesh QA ts); [apply cap_at_spec; [assumption | lra] | split; [assumption | apply (E _ Et)]]. }
  split; [exact F1|]. split; [apply M|]. split; [assumption|]. split; [assumption|].
  intros tp' E'. rewrite Et in E'. inversion E'; subst tp'. split; [exact F2 | apply M].
Qed.

Lemma mark_duplicate_ok s p t v : SInv s -> SInv (mark_duplicate QA s p t v).
Proof.
  intros HI. unfold mark_duplicate, tp_of. destruct (aget t (spTopics QA (prm QA s))) as [tp|] eqn:Et; [|exact HI].
  apply with_peer_ok; [exact HI|]. intros ps Hps. apply upd_topic_ok; [apply HI | exact Hps|].
  intros ts Hts. destruct (negb (inMesh QA ts)); [exact Hts|].
  match goal with |- ts_ok _ _ (if ?c then _ else _) => destruct c end; [exact Hts|].
  destruct Hts as (A & B & C & D & E). destruct HI as [HP _]. destruct (ok_topics _ HP t tp Et).
  unfold ts_ok, set_ts. cbn [fmd mmd imd mfp]. qa.
  destruct (cap_at_spec (mmd QA ts + 1) (tpMMDCap QA tp)) as [F1 F2]; [assumption | lra|].
  split; [assumption|]. split; [exact F1|]. split; [assumption|]. split; [assumption|].
  intros tp' E'. rewrite Et in E'. inversion E'; subst tp'. split; [apply (E _ Et) | exact F2].
Qed.

Lemma fold_inv {X} (g : sstateQ -> X -> sstateQ) l :
  (forall s x, SInv s -> SInv (g s x)) -> forall s, SInv s -> SInv (fold_left g l s).
Proof. intros Hg. induction l as [|x l IH]; intros s Hs; [exact Hs|]. cbn. apply IH. apply Hg. exact Hs. Qed.

Lemma get_rec_inv s i : SInv s -> SInv (fst (get_rec QA s i)).
Proof. intros H. unfold get_rec. destruct (aget i (recs QA s)); exact H. Qed.
Lemma put_rec_inv s i r : SInv s -> SInv (put_rec QA s i r).
Proof. intros H. exact H. Qed.

Lemma sticky_nonneg tp ts b : 0 <= mfp QA ts -> 0 <= sticky QA tp ts b.
Proof.
  intros H. unfold sticky. qa. match goal with |- 0 <= (if ?c then _ else _) => destruct c end; [|exact H].
  set (d := tpMMDThreshold QA tp - mmd QA ts). nra.
Qed.

(* what the operations of a history must satisfy: new topic parameters are valid, penalties are non-negative counts *)
Definition op_ok (o : sop QA) : Prop :=
  match o with
  | SSetTopic _ _ tp => tp_ok tp
  | SPenalty _ _ n => (0 <= n)%Z
  | _ => True
  end.

Lemma ts_ok_frame P t (ts ts' : tstatsQ) :
  fmd QA ts' = fmd QA ts -> mmd QA ts' = mmd QA ts -> imd QA ts' = imd QA ts -> mfp QA ts' = mfp QA ts ->
  ts_ok P t ts -> ts_ok P t ts'.
Proof. unfold ts_ok. intros -> -> -> ->. auto. Qed.

Lemma SInv_step s o s' : SInv s -> op_ok o -> sstep QA s o = Some s' -> SInv s'.
Proof.
  intros HI Hop H. destruct o as [p|p app|p t|p t|i|i from t|i from t r|i from t|p n| | |t tp|p l|d]; cbn [sstep] in H.
  - (* AddPeer *)
    destruct HI as [HP Hl]. destruct (aget p (pst QA s)) as [ps|] eqn:E; inversion H; subst s'; clear H.
    + split; [exact HP|]. cbn [pst set_pst prm]. apply Forall_aset; [exact Hl|]. cbn [snd].
      rewrite Forall_forall in Hl. destruct (Hl _ (aget_In _ _ _ E)) as [A B]. split; assumption.
    + split; [exact HP|]. cbn [pst set_pst prm]. apply Forall_aset; [exact Hl|]. cbn [snd]. split; [cbn [bp]; qa; lra | constructor].
  - (* RemovePeer *)
    destruct HI as [HP Hl]. destruct (aget p (pst QA s)) as [ps|] eqn:E; [|inversion H; subst; split; assumption].
    destruct (fltb QA (f0 QA) (score_of_stats QA s app ps)); inversion H; subst s'; clear H.
    + split; [exact HP|]. cbn [pst set_pst prm]. apply Forall_adel. exact Hl.
    + split; [exact HP|]. cbn [pst set_pst prm]. apply Forall_aset; [exact Hl|]. cbn [snd].
      rewrite Forall_forall in Hl. destruct (Hl _ (aget_In _ _ _ E)) as [A B]. split; [exact A|]. cbn [topics].
      apply Forall_forall. intros te Hte. apply in_map_iff in Hte. destruct Hte as [[t0 ts] [<- Hin]]. cbn [fst snd].
      rewrite Forall_forall in B. destruct (B _ Hin) as [(A1 & A2 & A3 & A4 & A5) Hsc]. cbn [fst snd] in *.
      split; [|exact Hsc]. unfold ts_ok, set_ts. cbn [fmd mmd imd mfp]. qa.
      split; [lra|]. split; [assumption|]. split; [assumption|]. split.
      * destruct (aget t0 (spTopics QA (prm QA s))) as [tp|]; [apply sticky_nonneg; assumption | assumption].
      * intros tp Et. destruct (A5 _ Et). split; [|assumption]. apply (ok_fc _ (ok_topics _ HP _ _ Et)).
  - (* Graft *)
    inversion H; subst s'. apply with_peer_ok; [exact HI|]. intros ps Hps. apply upd_topic_ok; [apply HI | exact Hps|].
    intros ts. apply ts_ok_frame; reflexivity.
  - (* Prune *)
    unfold tp_of in H. destruct (aget t (spTopics QA (prm QA s))) as [tp|] eqn:Et; inversion H; subst s'; [|exact HI].
    apply with_peer_ok; [exact HI|]. intros ps Hps. apply upd_topic_ok; [apply HI | exact Hps|].
    intros ts (A & B & C & D & E). unfold ts_ok, set_ts. cbn [fmd mmd imd mfp].
    split; [assumption|]. split; [assumption|]. split; [assumption|]. split; [apply sticky_nonneg; assumption | exact E].
  - (* Validate *)
    inversion H; subst s'. apply get_rec_inv. exact HI.
  - (* Deliver *)
    assert (H1 : SInv (mark_first QA s from t)) by (apply mark_first_ok; exact HI).
    assert (H2 := get_rec_inv _ i H1). destruct (get_rec QA (mark_first QA s from t) i) as [s2 r]. cbn [fst] in H2.
    destruct (dstat r); inversion H; subst s'; try exact H2.
    apply fold_inv; [|apply put_rec_inv; exact H2]. intros st q Hst. destruct (Nat.eqb q from); [exact Hst | apply mark_duplicate_ok; exact Hst].
  - (* Reject *)
    destruct r.
    + inversion H; subst s'. apply mark_invalid_ok. exact HI.
    + inversion H; subst s'. exact HI.
    + inversion H; subst s'. exact HI.
    + assert (H2 := get_rec_inv _ i HI). destruct (get_rec QA s i) as [s2 rc]. cbn [fst] in H2.
      destruct (dstat rc); inversion H; subst s'; exact H2.
    + assert (H2 := get_rec_inv _ i HI). destruct (get_rec QA s i) as [s2 rc]. cbn [fst] in H2.
      destruct (dstat rc); inversion H; subst s'; exact H2.
    + assert (H2 := get_rec_inv _ i HI). destruct (get_rec QA s i) as [s2 rc]. cbn [fst] in H2.
      destruct (dstat rc); inversion H; subst s'; try exact H2.
      apply fold_inv; [intros st q Hst; apply mark_invalid_ok; exact Hst|]. apply mark_invalid_ok. apply put_rec_inv. exact H2.
  - (* Duplicate *)
    assert (H2 := get_rec_inv _ i HI). destruct (get_rec QA s i) as [s2 rc]. cbn [fst] in H2.
    destruct (memb from (dpeers rc)); [inversion H; subst; exact H2|].
    destruct (dstat rc); inversion H; subst s'; try exact H2.
    + apply mark_duplicate_ok. apply put_rec_inv. exact H2.
    + apply mark_invalid_ok. exact H2.
  - (* Penalty *)
    inversion H; subst s'. apply with_peer_ok; [exact HI|]. intros ps [A B]. split; [|exact B]. cbn [bp]. qa.
    cbn in Hop. assert (Hn : inject_Z 0 <= inject_Z n) by (rewrite <- Zle_Qle; exact Hop). change (inject_Z 0) with 0 in Hn. lra.
  - (* Refresh *)
    inversion H; subst s'. clear H. destruct HI as [HP Hl]. split; [exact HP|]. cbn [pst set_pst prm].
    apply Forall_forall. intros e He. apply in_map_iff in He. destruct He as [[p ps] [<- Hin]].
    apply filter_In in Hin. destruct Hin as [Hin _]. rewrite Forall_forall in Hl. specialize (Hl _ Hin). cbn [snd fst] in *.
    destruct (connected QA ps); cbn [negb]; [|exact Hl]. cbn [snd]. destruct Hl as [A B]. split.
    + cbn [bp]. apply decay0_spec; [exact A | apply (ok_bd _ HP)].
    + cbn [topics]. apply Forall_forall. intros te Hte. apply in_map_iff in Hte. destruct Hte as [[t0 ts] [<- Hin2]]. cbn [fst snd].
      rewrite Forall_forall in B. destruct (B _ Hin2) as [(A1 & A2 & A3 & A4 & A5) Hsc]. cbn [fst snd] in *.
      destruct (aget t0 (spTopics QA (prm QA s))) as [tp|] eqn:Et; cbn [fst snd]; [|exfalso; apply Hsc; reflexivity].
      split; [|rewrite Et; discriminate].
      destruct (ok_topics _ HP _ _ Et). destruct (A5 _ eq_refl) as [C1 C2].
      unfold ts_ok, set_ts. cbn [fmd mmd imd mfp].
      destruct (decay0_spec (fmd QA ts) (tpFMDDecay QA tp) (spDecayToZero QA (prm QA s)) A1 ok_fd0).
      destruct (decay0_spec (mmd QA ts) (tpMMDDecay QA tp) (spDecayToZero QA (prm QA s)) A2 ok_md0).
      destruct (decay0_spec (imd QA ts) (tpIMDDecay QA tp) (spDecayToZero QA (prm QA s)) A3 ok_id0).
      destruct (decay0_spec (mfp QA ts) (tpMFPDecay QA tp) (spDecayToZero QA (prm QA s)) A4 ok_pd0).
      split; [assumption|]. split; [assumption|]. split; [assumption|]. split; [assumption|].
      intros tp' E'. rewrite Et in E'. inversion E'; subst tp'. split; lra.
  - (* Gc *)
    inversion H; subst s'. exact HI.
  - (* SetTopic *)
    cbn in Hop. destruct HI as [HP Hl].
    set (P' := {| spTopics := aset t tp (spTopics QA (prm QA s)); spTopicScoreCap := spTopicScoreCap QA (prm QA s);
                  spAppWeight := spAppWeight QA (prm QA s); spIPWeight := spIPWeight QA (prm QA s); spIPThreshold := spIPThreshold QA (prm QA s);
                  spBPWeight := spBPWeight QA (prm QA s); spBPThreshold := spBPThreshold QA (prm QA s); spBPDecay := spBPDecay QA (prm QA s);
                  spDecayToZero := spDecayToZero QA (prm QA s); spRetain := spRetain QA (prm QA s); spSeenTTL := spSeenTTL QA (prm QA s) |}) in *.
    assert (HP' : sp_ok P').
    { destruct HP. constructor; try assumption. intros t0 tp0. cbn [spTopics P'].
      destruct (Nat.eq_dec t0 t) as [->|Hne]; [rewrite aget_aset_same; intros E; inversion E; subst; exact Hop|].
      rewrite aget_aset_other by exact Hne. apply ok_topics0. }
    (* counters of other topics are untouched; those of t are below the new caps either because the caps did not shrink or because they were re-capped *)
    assert (Hother : forall t0 ts, t0 <> t -> ts_ok (prm QA s) t0 ts -> ts_ok P' t0 ts).
    { intros t0 ts Hne (A1 & A2 & A3 & A4 & A5). repeat split; try assumption;
        cbn [spTopics P'] in H0; rewrite aget_aset_other in H0 by exact Hne; apply (A5 _ H0). }
    assert (Hsc : forall t0, aget t0 (spTopics QA (prm QA s)) <> None -> aget t0 (spTopics QA P') <> None).
    { intros t0 Hn. cbn [spTopics P']. destruct (Nat.eq_dec t0 t) as [->|Hne]; [rewrite aget_aset_same; discriminate|].
      rewrite aget_aset_other by exact Hne. exact Hn. }
    destruct (aget t (spTopics QA (prm QA s))) as [old|] eqn:Eo.
    2:{ inversion H; subst s'. split; [exact HP'|]. cbn [pst prm]. apply Forall_forall. intros [p ps] Hin.
        rewrite Forall_forall in Hl. destruct (Hl _ Hin) as [A B]. cbn [snd] in *. split; [exact A|].
        apply Forall_forall. intros [t0 ts] Hin2. rewrite Forall_forall in B. destruct (B _ Hin2) as [C D]. cbn [fst snd] in *.
        split; [|apply Hsc; exact D]. apply Hother; [|exact C]. intros ->. apply D. exact Eo. }
    destruct (fltb QA (tpFMDCap QA tp) (tpFMDCap QA old) || fltb QA (tpMMDCap QA tp) (tpMMDCap QA old)) eqn:Erecap;
      inversion H; subst s'; clear H; (split; [exact HP'|]); cbn [pst set_pst prm].
    + apply Forall_forall. intros e He. apply in_map_iff in He. destruct He as [[p ps] [<- Hin]]. cbn [snd fst].
      rewrite Forall_forall in Hl. destruct (Hl _ Hin) as [A B]. cbn [snd] in *. split; [exact A|]. cbn [topics].
      apply Forall_forall. intros te Hte. apply in_map_iff in Hte. destruct Hte as [[t0 ts] [<- Hin2]]. cbn [fst snd].
      rewrite Forall_forall in B. destruct (B _ Hin2) as [C D]. cbn [fst snd] in *.
      destruct (Nat.eqb_spec t0 t) as [->|Hne]; cbn [fst snd]; [|split; [apply Hother; assumption | apply Hsc; exact D]].
      split; [|apply Hsc; exact D]. destruct C as (A1 & A2 & A3 & A4 & A5).
      destruct (cap_at_spec (fmd QA ts) (tpFMDCap QA tp) (ok_fc _ Hop) A1). destruct (cap_at_spec (mmd QA ts) (tpMMDCap QA tp) (ok_mc _ Hop) A2).
      unfold ts_ok, set_ts. cbn [fmd mmd imd mfp].
      split; [assumption|]. split; [assumption|]. split; [assumption|]. split; [assumption|].
      intros tp' E'. cbn [spTopics P'] in E'. rewrite aget_aset_same in E'. inversion E'; subst tp'. split; assumption.
    + apply orb_false_iff in Erecap. destruct Erecap as [E1 E2]. qa. apply Qltb_ge in E1, E2.
      apply Forall_forall. intros [p ps] Hin. rewrite Forall_forall in Hl. destruct (Hl _ Hin) as [A B]. cbn [snd] in *. split; [exact A|].
      apply Forall_forall. intros [t0 ts] Hin2. rewrite Forall_forall in B. destruct (B _ Hin2) as [C D]. cbn [fst snd] in *.
      split; [|apply Hsc; exact D]. destruct (Nat.eq_dec t0 t) as [->|Hne]; [|apply Hother; assumption].
      destruct C as (A1 & A2 & A3 & A4 & A5). destruct (A5 _ Eo).
      split; [assumption|]. split; [assumption|]. split; [assumption|]. split; [assumption|].
      intros tp' E'. cbn [spTopics P'] in E'. rewrite aget_aset_same in E'. inversion E'; subst tp'. split; lra.
  - (* SetIPs *)
    inversion H; subst s'. apply with_peer_ok; [exact HI|]. intros ps Hps. exact Hps.
  - (* Advance *)
    destruct (d <? 0)%Z; inversion H; subst s'. exact HI.
Qed.

Fixpoint ops_ok (l : list (sop QA)) : Prop := match l with [] => True | o :: l' => op_ok o /\ ops_ok l' end.

Theorem SInv_run l : forall s s', SInv s -> ops_ok l -> srun QA s l = Some s' -> SInv s'.
Proof.
  induction l as [|o l IH]; intros s s' HI Hops H; cbn in H; [inversion H; subst; exact HI|].
  destruct Hops as [Ho Hl]. destruct (sstep QA s o) as [s1|] eqn:E; [|discriminate].
  eapply IH; [eapply SInv_step; eassumption | exact Hl | exact H].
Qed.

Lemma SInv_init P : sp_ok P -> SInv (sinit QA P).
Proof. intros H. split; [exact H | constructor]. Qed.

(* ---- the counters of every reachable state ---- *)
Theorem counters_bounded P l s p ps t ts :
  sp_ok P -> ops_ok l -> srun QA (sinit QA P) l = Some s ->
  In (p, ps) (pst QA s) -> In (t, ts) (topics QA ps) ->
  0 <= bp QA ps /\ 0 <= fmd QA ts /\ 0 <= mmd QA ts /\ 0 <= imd QA ts /\ 0 <= mfp QA ts
  /\ exists tp, aget t (spTopics QA (prm QA s)) = Some tp /\ fmd QA ts <= tpFMDCap QA tp /\ mmd QA ts <= tpMMDCap QA tp.
Proof.
  intros HP Hops Hrun Hp Ht. destruct (SInv_run l _ _ (SInv_init P HP) Hops Hrun) as [_ Hl].
  rewrite Forall_forall in Hl. destruct (Hl _ Hp) as [A B]. cbn [snd] in *.
  rewrite Forall_forall in B. destruct (B _ Ht) as [(A1 & A2 & A3 & A4 & A5) Hsc]. cbn [fst snd] in *.
  repeat (split; [assumption|]).
  destruct (aget t (spTopics QA (prm QA s))) as [tp|] eqn:E; [|congruence]. exists tp. split; [reflexivity | apply A5; reflexivity].
Qed.

(* ---- the penalty components only ever lower the score ---- *)
Theorem p3_nonpositive (tp : tparamsQ) (ts : tstatsQ) : tp_ok tp ->
  let d := tpMMDThreshold QA tp - mmd QA ts in (d * d) * tpMMDWeight QA tp <= 0.
Proof. intros H d. destruct H. nra. Qed.
Theorem p3b_nonpositive (tp : tparamsQ) (ts : tstatsQ) : tp_ok tp -> 0 <= mfp QA ts -> mfp QA ts * tpMFPWeight QA tp <= 0.
Proof. intros H Hm. destruct H. nra. Qed.
Theorem p4_nonpositive (tp : tparamsQ) (ts : tstatsQ) : tp_ok tp -> (imd QA ts * imd QA ts) * tpIMDWeight QA tp <= 0.
Proof. intros H. destruct H. nra. Qed.
Theorem p7_nonpositive (P : sparamsQ) (b : Q) : sp_ok P -> p7 QA P b <= 0.
Proof.
  intros H. destruct H. unfold p7. qa. destruct (Qltb (spBPThreshold QA P) b); [|lra].
  set (e := b - spBPThreshold QA P). nra.
Qed.
Lemma ip_factor_nonneg (s : sstateQ) ps : 0 <= ip_factor QA s ps.
Proof.
  unfold ip_factor. qa.
  assert (G : forall l acc, 0 <= acc -> 0 <= fold_left (fun acc ip =>
               let n := peers_in_ip QA s ip in
               if Nat.ltb (spIPThreshold QA (prm QA s)) n
               then let sp := inject_Z (Z.of_nat (n - spIPThreshold QA (prm QA s))) in acc + sp * sp
               else acc) l acc).
  { induction l as [|ip l IH]; intros acc Ha; cbn [fold_left]; [exact Ha|]. apply IH.
    destruct (Nat.ltb _ _); [|exact Ha]. cbn zeta.
    set (sp := inject_Z _). nra. }
  apply G. lra.
Qed.
Theorem p6_nonpositive (s : sstateQ) ps : sp_ok (prm QA s) -> ip_factor QA s ps * spIPWeight QA (prm QA s) <= 0.
Proof. intros H. destruct H. assert (A := ip_factor_nonneg s ps). nra. Qed.

(* the topic score with every penalty counter at zero dominates the topic score: penalties only lower it *)
Definition no_penalties (ts : tstatsQ) : tstatsQ :=
  set_ts QA ts (inMesh QA ts) (graftTime QA ts) (meshTime QA ts) (fmd QA ts) (mmd QA ts) false 0 0.
Theorem topic_penalties_only_lower (tp : tparamsQ) (ts : tstatsQ) :
  tp_ok tp -> 0 <= mfp QA ts -> topic_score QA tp ts <= topic_score QA tp (no_penalties ts).
Proof.
  intros H Hm. assert (P3 := p3_nonpositive tp ts H). assert (P3b := p3b_nonpositive tp ts H Hm). assert (P4 := p4_nonpositive tp ts H).
  unfold topic_score, no_penalties, set_ts. cbn [inMesh meshTime fmd mmd mmdActive mfp imd]. qa. cbn zeta in P3.
  cbn [andb]. destruct (mmdActive QA ts && Qltb (mmd QA ts) (tpMMDThreshold QA tp)); lra.
Qed.

(* P1: quantised (whole quanta only) and capped *)
Theorem p1_quantised_and_capped (tp : tparamsQ) (mt : Z) :
  tp_ok tp -> (0 < tpTIMQuantum QA tp)%Z -> (0 <= mt)%Z ->
  let p1 := cap_at QA (inject_Z (Z.quot mt (tpTIMQuantum QA tp))) (tpTIMCap QA tp) in
  0 <= p1 /\ p1 <= tpTIMCap QA tp /\ p1 <= inject_Z (Z.quot mt (tpTIMQuantum QA tp))
  /\ (inject_Z (Z.quot mt (tpTIMQuantum QA tp)) * inject_Z (tpTIMQuantum QA tp) <= inject_Z mt).
Proof.
  intros H Hq Hm p1. destruct H.
  assert (Hz : (0 <= Z.quot mt (tpTIMQuantum QA tp))%Z) by (apply Z.quot_pos; lia).
  assert (Hz' : 0 <= inject_Z (Z.quot mt (tpTIMQuantum QA tp))) by (change 0 with (inject_Z 0); rewrite <- Zle_Qle; exact Hz).
  destruct (cap_at_spec (inject_Z (Z.quot mt (tpTIMQuantum QA tp))) (tpTIMCap QA tp) ok_timc0 Hz') as [A B].
  split; [exact A|]. split; [exact B|]. split; [apply cap_at_le|].
  rewrite <- inject_Z_mult, <- Zle_Qle. rewrite Z.mul_comm. apply Z.mul_quot_le; lia.
Qed.

(* decay with decay-to-zero never raises a counter, and snaps to exactly zero below the threshold *)
Theorem decay_to_zero (x d z : Q) : 0 <= x -> 0 <= d <= 1 ->
  0 <= decay0 QA x d z <= x /\ (x * d < z -> decay0 QA x d z == 0) /\ (z <= x * d -> decay0 QA x d z == x * d).
Proof.
  intros Hx Hd. split; [apply decay0_spec; assumption|]. unfold decay0. qa. split; intros H.
  - apply Qltb_lt in H. rewrite H. reflexivity.
  - apply Qltb_ge in H. rewrite H. reflexivity.
Qed.

(* a duplicate only counts inside the delivery window (or before validation finished), only for mesh members *)
Theorem duplicate_outside_window_ignored (s : sstateQ) p t v tp :
  aget t (spTopics QA (prm QA s)) = Some tp -> (tpMMDWindow QA tp < snow QA s - v)%Z ->
  forall ps, aget p (pst QA s) = Some ps -> forall ts, aget t (topics QA ps) = Some ts ->
  exists ps', aget p (pst QA (mark_duplicate QA s p t (Some v))) = Some ps' /\ aget t (topics QA ps') = Some ts.
Proof.
  intros Et Hw ps Ep ts Ets. unfold mark_duplicate, tp_of. rewrite Et. unfold with_peer. rewrite Ep. cbn [pst set_pst].
  rewrite aget_aset_same. eexists. split; [reflexivity|]. unfold upd_topic. rewrite Ets. cbn [topics]. rewrite aget_aset_same.
  destruct (negb (inMesh QA ts)); [reflexivity|]. apply Z.ltb_lt in Hw. rewrite Hw. reflexivity.
Qed.

(* retention: on disconnect an entry with a positive score is dropped, any other is kept (disconnected, expiring
   after the retention period, first-delivery counters reset, out of every mesh); a reconnect keeps what was retained *)
Theorem retention_rule (s : sstateQ) p app ps s' :
  aget p (pst QA s) = Some ps -> sstep QA s (SRemovePeer QA p app) = Some s' ->
  (0 < score_of_stats QA s app ps -> aget p (pst QA s') = None \/ exists ps', aget p (pst QA s') = Some ps' /\ In (p, ps') (adel p (pst QA s)))
  /\ (score_of_stats QA s app ps <= 0 ->
        exists ps', aget p (pst QA s') = Some ps' /\ connected QA ps' = false /\ expire QA ps' = (snow QA s + spRetain QA (prm QA s))%Z
                    /\ bp QA ps' = bp QA ps
                    /\ forall t ts', In (t, ts') (topics QA ps') -> fmd QA ts' == 0 /\ inMesh QA ts' = false).
Proof.
  intros Ep H. cbn [sstep] in H. rewrite Ep in H. qa.
  destruct (Qltb 0 (score_of_stats QA s app ps)) eqn:E; inversion H; subst s'; clear H; cbn [pst set_pst].
  - apply Qltb_lt in E. split; [|intros Hle; lra]. intros _.
    destruct (aget p (adel p (pst QA s))) as [ps'|] eqn:E2; [|left; reflexivity].
    right. exists ps'. split; [reflexivity | apply aget_In; exact E2].
  - apply Qltb_ge in E. split; [intros Hlt; lra|]. intros _. rewrite aget_aset_same. eexists. split; [reflexivity|].
    cbn [connected expire bp topics]. repeat split.
    + apply in_map_iff in H. destruct H as [[t0 ts] [Heq _]]. inversion Heq; subst. cbn [fmd set_ts]. reflexivity.
    + apply in_map_iff in H. destruct H as [[t0 ts] [Heq _]]. inversion Heq; subst. reflexivity.
Qed.

Theorem reconnect_keeps_retained (s : sstateQ) p ps s' :
  aget p (pst QA s) = Some ps -> sstep QA s (SAddPeer QA p) = Some s' ->
  exists ps', aget p (pst QA s') = Some ps' /\ connected QA ps' = true /\ topics QA ps' = topics QA ps /\ bp QA ps' = bp QA ps.
Proof.
  intros Ep H. cbn [sstep] in H. rewrite Ep in H. inversion H; subst s'. cbn [pst set_pst]. rewrite aget_aset_same.
  eexists. split; [reflexivity|]. auto.
Qed.

(* retained entries are neither decayed nor dropped before their expiry, and dropped after it *)
Theorem refresh_retained (s : sstateQ) p ps s' :
  In (p, ps) (pst QA s) -> connected QA ps = false -> sstep QA s (SRefresh QA) = Some s' ->
  ((expire QA ps < snow QA s)%Z -> ~ In (p, ps) (pst QA s'))
  /\ ((snow QA s <= expire QA ps)%Z -> In (p, ps) (pst QA s')).
Proof.
  intros Hin Hc H. cbn [sstep] in H. inversion H; subst s'. clear H. cbn [pst set_pst]. split.
  { intros Hlt Hin'. apply in_map_iff in Hin'. destruct Hin' as [[p0 ps0] [Heq Hk]]. cbn [snd fst] in Heq.
    apply filter_In in Hk. destruct Hk as [_ Hk]. cbn [snd] in Hk.
    destruct (connected QA ps0) eqn:Ec; cbn [negb] in Heq.
    - inversion Heq; subst. cbn [connected] in Hc. discriminate.
    - cbn [orb] in Hk. apply negb_true_iff, Z.ltb_ge in Hk. inversion Heq; subst. lia. }
  intros Hle. apply in_map_iff. exists (p, ps). cbn [snd fst]. rewrite Hc. cbn [negb]. split; [reflexivity|].
  apply filter_In. split; [exact Hin|]. cbn [snd]. rewrite Hc. cbn [orb]. apply negb_true_iff. apply Z.ltb_ge. exact Hle.
Qed.
