(* Laws of the trace replay (C19): what each event does to the reconstructed view, and that a trace whose
   JOIN / LEAVE events alternate reconstructs exactly the set of joined topics. *)
From Coq Require Import List Bool Arith Lia.
Import ListNotations.
From PS Require Import Model.Router Model.Trace Proofs.RouterProofs.

Lemma memb_sadd' x y l : memb x (sadd y l) = Nat.eqb x y || memb x l.
Proof.
  unfold sadd. destruct (memb y l) eqn:Hy.
  - destruct (Nat.eqb_spec x y) as [->|]; [rewrite Hy; reflexivity | reflexivity].
  - unfold memb. rewrite existsb_app. cbn. rewrite orb_false_r. apply orb_comm.
Qed.
Lemma memb_srem' x y l : memb x (srem y l) = negb (Nat.eqb y x) && memb x l.
Proof.
  unfold srem, memb. induction l as [|z l IH]; cbn; [rewrite andb_false_r; reflexivity|].
  destruct (Nat.eqb_spec y z) as [->|Hne]; cbn.
  - rewrite IH. destruct (Nat.eqb_spec x z) as [->|]; [rewrite Nat.eqb_refl; reflexivity|]. cbn. reflexivity.
  - rewrite IH. destruct (Nat.eqb_spec x z) as [->|]; cbn; [|reflexivity].
    destruct (Nat.eqb_spec y z); [contradiction|]. reflexivity.
Qed.

Definition in_mesh (v : tview) (t : topic) (p : peer) : bool :=
  match aget t (tv_mesh v) with Some m => memb p m | None => false end.
Definition joined (v : tview) (t : topic) : bool := match aget t (tv_mesh v) with Some _ => true | None => false end.

Lemma aget_adel_same {V} k (l : list (nat * V)) : aget k (adel k l) = None.
Proof.
  unfold adel. induction l as [|[j v] l IH]; cbn; [reflexivity|].
  destruct (Nat.eqb_spec k j) as [->|Hne]; cbn; [exact IH|].
  destruct (Nat.eqb_spec k j); [contradiction | exact IH].
Qed.
Lemma aget_adel_other' {V} k j (l : list (nat * V)) : k <> j -> aget k (adel j l) = aget k l.
Proof.
  intros Hne. unfold adel. induction l as [|[i v] l IH]; cbn; [reflexivity|].
  destruct (Nat.eqb_spec j i) as [->|Hji]; cbn.
  - destruct (Nat.eqb_spec k i); [contradiction | exact IH].
  - destruct (Nat.eqb k i); [reflexivity | exact IH].
Qed.

(* GRAFT adds exactly that peer to that topic's mesh (when joined), PRUNE removes exactly it *)
Theorem replay_graft v p t q u :
  in_mesh (replay1 v (TGraft p t)) u q = (joined v t && Nat.eqb u t && Nat.eqb q p) || in_mesh v u q.
Proof.
  unfold in_mesh, joined, replay1. cbn [tv_mesh]. destruct (aget t (tv_mesh v)) as [m|] eqn:E; cbn [andb orb]; [|reflexivity].
  destruct (Nat.eqb_spec u t) as [->|Hne].
  - rewrite aget_aset_same, E, memb_sadd'. cbn. reflexivity.
  - rewrite aget_aset_other by exact Hne. reflexivity.
Qed.
Theorem replay_prune v p t q u :
  in_mesh (replay1 v (TPrune p t)) u q = in_mesh v u q && negb (Nat.eqb u t && Nat.eqb p q).
Proof.
  unfold in_mesh, replay1. cbn [tv_mesh]. destruct (aget t (tv_mesh v)) as [m|] eqn:E.
  - destruct (Nat.eqb_spec u t) as [->|Hne].
    + rewrite aget_aset_same, E, memb_srem'. cbn. apply andb_comm.
    + rewrite aget_aset_other by exact Hne. cbn. rewrite andb_true_r. reflexivity.
  - destruct (Nat.eqb_spec u t) as [->|Hne]; [rewrite E; reflexivity|]. cbn. rewrite andb_true_r. reflexivity.
Qed.
Lemma om_srem (o : option (list nat)) p q :
  match option_map (srem p) o with Some m => memb q m | None => false end
  = match o with Some m => memb q m | None => false end && negb (Nat.eqb p q).
Proof. destruct o as [m|]; cbn [option_map]; [|reflexivity]. rewrite memb_srem'. apply andb_comm. Qed.
Lemma om_some {X Y} (f : X -> Y) (o : option X) :
  match option_map f o with Some _ => true | None => false end = match o with Some _ => true | None => false end.
Proof. destruct o; reflexivity. Qed.
(* REMOVE_PEER removes the peer from the peer set and from every mesh, and nothing else *)
Theorem replay_remove_peer v p q u :
  in_mesh (replay1 v (TRemovePeer p)) u q = in_mesh v u q && negb (Nat.eqb p q)
  /\ memb q (tv_peers (replay1 v (TRemovePeer p))) = negb (Nat.eqb p q) && memb q (tv_peers v).
Proof.
  unfold in_mesh, replay1. cbn [tv_mesh tv_peers]. split; [|apply memb_srem'].
  rewrite aget_map_vals. apply om_srem.
Qed.
Theorem replay_add_peer v p q :
  memb q (tv_peers (replay1 v (TAddPeer p))) = Nat.eqb q p || memb q (tv_peers v)
  /\ tv_mesh (replay1 v (TAddPeer p)) = tv_mesh v.
Proof. split; [apply memb_sadd' | reflexivity]. Qed.
(* JOIN / LEAVE *)
Theorem replay_join v t u : joined (replay1 v (TJoin t)) u = Nat.eqb u t || joined v u.
Proof.
  unfold joined, replay1. cbn [tv_mesh]. destruct (aget t (tv_mesh v)) as [m|] eqn:E.
  - destruct (Nat.eqb_spec u t) as [->|]; [rewrite E; reflexivity | reflexivity].
  - destruct (Nat.eqb_spec u t) as [->|Hne]; [rewrite aget_aset_same; reflexivity | rewrite aget_aset_other by exact Hne; reflexivity].
Qed.
Theorem replay_leave v t u : joined (replay1 v (TLeave t)) u = negb (Nat.eqb u t) && joined v u.
Proof.
  unfold joined, replay1. cbn [tv_mesh].
  destruct (Nat.eqb_spec u t) as [->|Hne]; [rewrite aget_adel_same; reflexivity | rewrite aget_adel_other' by exact Hne; reflexivity].
Qed.
(* other events leave the view alone *)
Theorem replay_other v e : match e with TDeliver _ | TPublish _ | TSend _ | TDrop _ => replay1 v e = v | _ => True end.
Proof. destruct e; exact I || reflexivity. Qed.

(* the joined set reconstructed from a trace is the set of topics with an unmatched JOIN *)
Fixpoint joined_after (j : list topic) (l : list tev) : list topic :=
  match l with
  | [] => j
  | TJoin t :: l' => joined_after (sadd t j) l'
  | TLeave t :: l' => joined_after (srem t j) l'
  | _ :: l' => joined_after j l'
  end.
Theorem replay_joined l : forall v j,
  (forall u, joined v u = memb u j) -> forall u, joined (replay v l) u = memb u (joined_after j l).
Proof.
  induction l as [|e l IH]; intros v j H u; [apply H|].
  unfold replay. cbn [fold_left]. fold (replay (replay1 v e) l).
  destruct e; cbn [joined_after]; apply IH; intros w.
  - unfold joined. cbn. apply H.
  - unfold joined. cbn [replay1 tv_mesh]. rewrite aget_map_vals. rewrite <- (H w). unfold joined. apply om_some.
  - rewrite replay_join, memb_sadd', H. reflexivity.
  - rewrite replay_leave, memb_srem', H. rewrite Nat.eqb_sym. reflexivity.
  - specialize (H w). unfold joined in *. cbn [replay1 tv_mesh]. destruct (aget t (tv_mesh v)) as [m|] eqn:E; [|exact H].
    destruct (Nat.eq_dec w t) as [->|Hne]; [rewrite aget_aset_same, <- H, E; reflexivity | rewrite aget_aset_other by exact Hne; exact H].
  - specialize (H w). unfold joined in *. cbn [replay1 tv_mesh]. destruct (aget t (tv_mesh v)) as [m|] eqn:E; [|exact H].
    destruct (Nat.eq_dec w t) as [->|Hne]; [rewrite aget_aset_same, <- H, E; reflexivity | rewrite aget_aset_other by exact Hne; exact H].
  - apply H.
  - apply H.
  - apply H.
  - apply H.
Qed.
