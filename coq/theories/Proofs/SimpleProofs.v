(* C06 for FloodSubRouter.Publish and RandomSubRouter.Publish. *)
From Coq Require Import List Bool Arith Lia.
Import ListNotations.
From PS Require Import Model.Router Model.Trace Model.SimpleRouters Proofs.RouterProofs.

(* floodsub: exactly the topic peers with an outbound queue, minus the source and the author *)
Theorem fs_recipients_spec s m q :
  In q (fs_recipients s m) <-> In q (aget_l (sm_topic m) (sr_tmap s)) /\ sexcl m q = false /\ has_q s q = true.
Proof.
  unfold fs_recipients. rewrite filter_In, andb_true_iff, negb_true_iff. tauto.
Qed.

Lemma nodup_b_NoDup' l : nodup_b l = true -> NoDup l.
Proof.
  induction l as [|x l IH]; cbn; intros H; [constructor|].
  apply andb_true_iff in H. destruct H as [H1 H2]. constructor; [|apply IH; exact H2].
  apply negb_true_iff in H1. intros Hin. apply memb_In in Hin. congruence.
Qed.

(* randomsub: never the source, the author or a non-member; always every floodsub-only topic peer; all
   randomsub topic peers when there are at most RandomSubD of them, otherwise exactly
   min(max(RandomSubD, ceil(sqrt(size))), #eligible) distinct ones *)
Theorem rs_no_topic s size m chosen r :
  aget (sm_topic m) (sr_tmap s) = None -> rs_recipients s size m chosen = Some r -> r = [].
Proof. unfold rs_recipients. intros ->. destruct chosen; [|discriminate]. intros H. inversion H. reflexivity. Qed.

Theorem rs_recipients_spec s size m chosen r tm :
  aget (sm_topic m) (sr_tmap s) = Some tm ->
  rs_recipients s size m chosen = Some r ->
  let rsp := filter (fun p => negb (is_fs s p)) (filter (fun p => negb (sexcl m p)) tm) in
  (forall q, In q r -> In q tm /\ sexcl m q = false /\ has_q s q = true)
  /\ (forall q, In q tm -> sexcl m q = false -> has_q s q = true -> is_fs s q = true -> In q r)
  /\ (length rsp <= RandomSubD -> forall q, In q rsp -> has_q s q = true -> In q r)
  /\ (RandomSubD < length rsp ->
        NoDup chosen /\ length chosen = Nat.min (Nat.max RandomSubD (csqrt size)) (length rsp)
        /\ (forall q, In q chosen -> In q rsp)
        /\ (forall q, In q r -> is_fs s q = false -> In q chosen)).
Proof.
  unfold rs_recipients. intros Etm H. cbv zeta. rewrite Etm in H.
  set (cand := filter (fun p => negb (sexcl m p)) tm) in *.
  set (fl := filter (is_fs s) cand) in *. set (rsp := filter (fun p => negb (is_fs s p)) cand) in *.
  assert (Hcand : forall q, In q cand <-> In q tm /\ sexcl m q = false) by (intros q; unfold cand; rewrite filter_In, negb_true_iff; tauto).
  assert (Hfl : forall q, In q fl <-> In q cand /\ is_fs s q = true) by (intros q; unfold fl; rewrite filter_In; tauto).
  assert (Hrs : forall q, In q rsp <-> In q cand /\ is_fs s q = false) by (intros q; unfold rsp; rewrite filter_In, negb_true_iff; tauto).
  destruct (Nat.ltb RandomSubD (length rsp)) eqn:Hlt.
  - apply Nat.ltb_lt in Hlt.
    destruct (nodup_b chosen && subset chosen rsp && Nat.eqb (length chosen) (rs_target size (length rsp))) eqn:Hc; [|discriminate].
    inversion H; subst r. clear H.
    apply andb_true_iff in Hc. destruct Hc as [Hc Hlen]. apply andb_true_iff in Hc. destruct Hc as [Hnd Hsub].
    apply Nat.eqb_eq in Hlen.
    assert (Hch : forall q, In q chosen -> In q rsp) by (intros q Hq; eapply subset_In; eassumption).
    split; [|split; [|split]].
    + intros q Hq. apply filter_In in Hq. destruct Hq as [Hq Hhq]. apply in_app_or in Hq. destruct Hq as [Hq|Hq].
      * apply Hfl in Hq. destruct Hq as [Hq _]. apply Hcand in Hq. tauto.
      * apply Hch, Hrs in Hq. destruct Hq as [Hq _]. apply Hcand in Hq. tauto.
    + intros q Hq Hex Hhq Hfs. apply filter_In. split; [|exact Hhq]. apply in_or_app. left. apply Hfl. split; [apply Hcand; tauto | exact Hfs].
    + intros Hle. lia.
    + intros _. split; [apply nodup_b_NoDup'; exact Hnd|]. split; [exact Hlen|]. split; [exact Hch|].
      intros q Hq Hnfs. apply filter_In in Hq. destruct Hq as [Hq _]. apply in_app_or in Hq. destruct Hq as [Hq|Hq]; [|exact Hq].
      apply Hfl in Hq. destruct Hq as [_ Hq]. congruence.
  - apply Nat.ltb_ge in Hlt. destruct chosen; [|discriminate]. inversion H; subst r. clear H.
    split; [|split; [|split]].
    + intros q Hq. apply filter_In in Hq. destruct Hq as [Hq Hhq]. apply in_app_or in Hq. destruct Hq as [Hq|Hq].
      * apply Hfl in Hq. destruct Hq as [Hq _]. apply Hcand in Hq. tauto.
      * apply Hrs in Hq. destruct Hq as [Hq _]. apply Hcand in Hq. tauto.
    + intros q Hq Hex Hhq Hfs. apply filter_In. split; [|exact Hhq]. apply in_or_app. left. apply Hfl. split; [apply Hcand; tauto | exact Hfs].
    + intros _ q Hq Hhq. apply filter_In. split; [|exact Hhq]. apply in_or_app. right. exact Hq.
    + intros Hgt. lia.
Qed.

(* a local-only publication goes to nobody under either router, and is traced as published (and delivered once) only *)
Theorem local_only_sends_nothing rand size s m s' rc tr :
  srstep rand size s (RLocalOnly m) = Some (s', rc, tr) ->
  rc = [] /\ (forall q, ~ In (TSend q) tr) /\ sr_peers s' = sr_peers s /\ sr_tmap s' = sr_tmap s /\ sr_joined s' = sr_joined s.
Proof.
  cbn [srstep]. destruct (memb (sm_id m) (sr_seen s)); intros H; inversion H; subst; cbn.
  - split; [reflexivity|]. split; [|auto]. intros q Hq. destruct Hq as [Hq|Hq]; [discriminate Hq|exact Hq].
  - split; [reflexivity|]. split; [|auto]. intros q Hq. destruct Hq as [Hq|[Hq|Hq]]; [discriminate Hq|discriminate Hq|exact Hq].
Qed.
