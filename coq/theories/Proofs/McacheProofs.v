(* Proofs about the message cache alone (mcache.go): for EVERY sequence of put / get-for-peer / shift
   operations, a message stays retrievable for exactly HistoryLength shifts and is advertised for
   exactly the first HistoryGossip of them (C17, first sentence). *)
From Coq Require Import List Bool Arith PeanoNat Lia.
Import ListNotations.
From PS Require Import Model.Router Model.Gossip.

Lemma memb_In x l : memb x l = true <-> In x l.
Proof.
  unfold memb. rewrite existsb_exists. split.
  - intros [y [Hy He]]. apply Nat.eqb_eq in He. subst. exact Hy.
  - intros H. exists x. split; [exact H | apply Nat.eqb_refl].
Qed.
Lemma memb_false_In x l : memb x l = false <-> ~ In x l.
Proof. rewrite <- memb_In. destruct (memb x l); split; intros; congruence. Qed.

Lemma memb_app x a b : memb x (a ++ b) = memb x a || memb x b.
Proof. unfold memb. apply existsb_app. Qed.

Lemma memb_sadd x y l : memb x (sadd y l) = Nat.eqb x y || memb x l.
Proof.
  unfold sadd. destruct (memb y l) eqn:Hy.
  - destruct (Nat.eqb_spec x y) as [->|]; [rewrite Hy; reflexivity | reflexivity].
  - rewrite memb_app. cbn. rewrite orb_false_r. apply orb_comm.
Qed.

Lemma memb_filter (f : nat -> bool) x l : memb x (filter f l) = memb x l && f x.
Proof.
  unfold memb. induction l as [|y l IH]; [reflexivity|].
  cbn [filter existsb]. destruct (f y) eqn:Hf; cbn [existsb]; rewrite IH;
    destruct (Nat.eqb_spec x y) as [->|]; cbn; rewrite ?Hf, ?andb_false_r; reflexivity.
Qed.

Arguments memb : simpl never.
Arguments sadd : simpl never.

(* ---- operations on the cache ---- *)
Inductive mop := MPut (i : mid) (t : topic) | MGet (i : mid) (p : peer) | MShift.
Definition mstep (c : mcache) (o : mop) : mcache :=
  match o with
  | MPut i t => mc_put c i t
  | MGet i p => snd (mc_get_for_peer c i p)
  | MShift => mc_shift c
  end.
Definition mrun (c : mcache) (l : list mop) : mcache := fold_left mstep l c.
Definition is_shift (o : mop) : bool := match o with MShift => true | _ => false end.
Definition shifts (l : list mop) : nat := length (filter is_shift l).
Definition puts_id (i : mid) (o : mop) : bool := match o with MPut j _ => Nat.eqb i j | _ => false end.

Definition slot (c : mcache) (k : nat) : list (mid * topic) := nth k (hist c) [].

(* the id sits in window slot k (and nowhere else) and is retrievable *)
Definition At (HL : nat) (c : mcache) (i : mid) (t : topic) (k : nat) : Prop :=
  length (hist c) = HL /\ k < HL /\ In (i, t) (slot c k)
  /\ (forall j t', In (i, t') (slot c j) -> j = k /\ t' = t)
  /\ memb i (mmsgs c) = true.
(* the id is nowhere in the cache *)
Definition Gone (HL : nat) (c : mcache) (i : mid) : Prop :=
  length (hist c) = HL /\ (forall j t', ~ In (i, t') (slot c j)) /\ memb i (mmsgs c) = false.

Lemma Gone_init HL i : Gone HL (mc_init HL) i.
Proof.
  unfold Gone, mc_init, slot; cbn. split; [apply repeat_length|]. split; [|reflexivity].
  intros j t' H. destruct (Nat.lt_ge_cases j HL) as [Hlt|Hge].
  - rewrite nth_repeat in H. destruct H.
  - rewrite nth_overflow in H by (rewrite repeat_length; exact Hge). destruct H.
Qed.

Lemma hist_last (c : mcache) : hist c <> [] -> exists h last, hist c = h ++ [last].
Proof. intros H. destruct (exists_last H) as [h [l Hl]]. eauto. Qed.

Lemma shift_spec c h last : hist c = h ++ [last] ->
  hist (mc_shift c) = [] :: h
  /\ mmsgs (mc_shift c) = filter (fun i => negb (memb i (map fst last))) (mmsgs c).
Proof.
  intros Hh. unfold mc_shift. rewrite Hh, rev_app_distr. cbn. rewrite rev_involutive. split; reflexivity.
Qed.

Lemma shift_empty c : hist c = [] -> mc_shift c = c.
Proof. intros H. unfold mc_shift. rewrite H. reflexivity. Qed.

Lemma in_map_fst (i : mid) (l : list (mid * topic)) : In i (map fst l) <-> exists t, In (i, t) l.
Proof.
  rewrite in_map_iff. split.
  - intros [[a b] [He Hi]]. cbn in He. subst. eauto.
  - intros [t Ht]. exists (i, t). split; [reflexivity | exact Ht].
Qed.

(* ---- one step ---- *)
Lemma At_put HL c i t k j u : i <> j -> At HL c i t k -> At HL (mc_put c j u) i t k.
Proof.
  intros Hne (Hl & Hk & Hin & Huniq & Hm).
  unfold At, mc_put, slot in *. cbn.
  destruct (hist c) as [|h0 r] eqn:Hh; [cbn in Hl; lia|].
  repeat split.
  - cbn in *. exact Hl.
  - exact Hk.
  - destruct k; cbn in *; [apply in_or_app; left; exact Hin | exact Hin].
  - destruct j0; cbn in *.
    + apply in_app_or in H. destruct H as [H|[H|[]]]; [apply (Huniq 0 t' H) | congruence].
    + apply (Huniq (S j0) t' H).
  - destruct j0; cbn in *.
    + apply in_app_or in H. destruct H as [H|[H|[]]]; [apply (Huniq 0 t' H) | congruence].
    + apply (Huniq (S j0) t' H).
  - rewrite memb_sadd, Hm. apply orb_true_r.
Qed.

Lemma Gone_put HL c i j u : i <> j -> Gone HL c i -> Gone HL (mc_put c j u) i.
Proof.
  intros Hne (Hl & Hno & Hm). unfold Gone, mc_put, slot in *. cbn.
  destruct (hist c) as [|h0 r] eqn:Hh.
  - cbn in *. repeat split; [exact Hl | intros j0 t' H; destruct j0; destruct H |].
    rewrite memb_sadd, Hm. destruct (Nat.eqb_spec i j); [congruence | reflexivity].
  - repeat split; [exact Hl | |].
    + intros j0 t' H. destruct j0; cbn in *.
      * apply in_app_or in H. destruct H as [H|[H|[]]]; [apply (Hno 0 t' H) | congruence].
      * apply (Hno (S j0) t' H).
    + rewrite memb_sadd, Hm. destruct (Nat.eqb_spec i j); [congruence | reflexivity].
Qed.

Lemma put_fresh HL c i t : 0 < HL -> Gone HL c i -> At HL (mc_put c i t) i t 0.
Proof.
  intros Hpos (Hl & Hno & Hm). unfold At, mc_put, slot in *. cbn.
  destruct (hist c) as [|h0 r] eqn:Hh; [cbn in Hl; lia|].
  repeat split.
  - exact Hl.
  - exact Hpos.
  - cbn. apply in_or_app. right. left. reflexivity.
  - destruct j; cbn in *; [reflexivity | exfalso; apply (Hno (S j) t' H)].
  - destruct j; cbn in *.
    + apply in_app_or in H. destruct H as [H|[H|[]]]; [exfalso; apply (Hno 0 t' H) | congruence].
    + exfalso. apply (Hno (S j) t' H).
  - rewrite memb_sadd, Nat.eqb_refl. reflexivity.
Qed.

Lemma get_hist c i p : hist (snd (mc_get_for_peer c i p)) = hist c /\ mmsgs (snd (mc_get_for_peer c i p)) = mmsgs c.
Proof. unfold mc_get_for_peer. destruct (memb i (mmsgs c)); split; reflexivity. Qed.

Lemma At_get HL c i t k j p : At HL c i t k -> At HL (snd (mc_get_for_peer c j p)) i t k.
Proof. unfold At, slot. destruct (get_hist c j p) as [-> ->]. auto. Qed.
Lemma Gone_get HL c i j p : Gone HL c i -> Gone HL (snd (mc_get_for_peer c j p)) i.
Proof. unfold Gone, slot. destruct (get_hist c j p) as [-> ->]. auto. Qed.

Lemma At_shift_young HL c i t k : S k < HL -> At HL c i t k -> At HL (mc_shift c) i t (S k).
Proof.
  intros Hsk (Hl & Hk & Hin & Huniq & Hm).
  destruct (hist_last c) as [h [last Hh]]; [intros E; rewrite E in Hl; cbn in Hl; lia|].
  destruct (shift_spec c h last Hh) as [Hh' Hm'].
  assert (Hlen : length h = HL - 1) by (rewrite Hh, app_length in Hl; cbn in Hl; lia).
  assert (Hsl : forall j, j < length h -> slot c j = nth j h []).
  { intros j Hj. unfold slot. rewrite Hh. apply app_nth1. exact Hj. }
  assert (Hlast : slot c (length h) = last).
  { unfold slot. rewrite Hh, app_nth2 by lia. rewrite Nat.sub_diag. reflexivity. }
  unfold At, slot. rewrite Hh', Hm'. cbn [length nth]. repeat split.
  - rewrite Hlen. lia.
  - exact Hsk.
  - rewrite <- Hsl by lia. exact Hin.
  - destruct j; cbn in H; [destruct H|].
    destruct (Nat.lt_ge_cases j (length h)) as [Hj|Hj].
    + rewrite <- Hsl in H by exact Hj. destruct (Huniq j t' H). lia.
    + rewrite nth_overflow in H by exact Hj. destruct H.
  - destruct j; cbn in H; [destruct H|].
    destruct (Nat.lt_ge_cases j (length h)) as [Hj|Hj].
    + rewrite <- Hsl in H by exact Hj. destruct (Huniq j t' H). assumption.
    + rewrite nth_overflow in H by exact Hj. destruct H.
  - rewrite memb_filter, Hm. cbn.
    destruct (memb i (map fst last)) eqn:Hd; [|reflexivity].
    apply memb_In, in_map_fst in Hd. destruct Hd as [t' Ht'].
    rewrite <- Hlast in Ht'. destruct (Huniq _ _ Ht'). lia.
Qed.

Lemma At_shift_old HL c i t k : S k = HL -> At HL c i t k -> Gone HL (mc_shift c) i.
Proof.
  intros Hsk (Hl & Hk & Hin & Huniq & Hm).
  destruct (hist_last c) as [h [last Hh]]; [intros E; rewrite E in Hl; cbn in Hl; lia|].
  destruct (shift_spec c h last Hh) as [Hh' Hm'].
  assert (Hlen : length h = k) by (rewrite Hh, app_length in Hl; cbn in Hl; lia).
  assert (Hsl : forall j, j < length h -> slot c j = nth j h []).
  { intros j Hj. unfold slot. rewrite Hh. apply app_nth1. exact Hj. }
  assert (Hlast : slot c k = last).
  { unfold slot. rewrite Hh, app_nth2 by lia. rewrite Hlen, Nat.sub_diag. reflexivity. }
  unfold Gone, slot. rewrite Hh', Hm'. cbn [length nth]. repeat split.
  - lia.
  - intros j t' H. destruct j; cbn in H; [destruct H|].
    destruct (Nat.lt_ge_cases j (length h)) as [Hj|Hj].
    + rewrite <- Hsl in H by exact Hj. destruct (Huniq j t' H). lia.
    + rewrite nth_overflow in H by exact Hj. destruct H.
  - rewrite memb_filter, Hm. cbn.
    assert (Hd : memb i (map fst last) = true).
    { apply memb_In, in_map_fst. exists t. rewrite <- Hlast. exact Hin. }
    rewrite Hd. reflexivity.
Qed.

Lemma Gone_shift HL c i : Gone HL c i -> Gone HL (mc_shift c) i.
Proof.
  intros (Hl & Hno & Hm).
  assert (Hx : hist c = [] \/ hist c <> []) by (destruct (hist c); [left; reflexivity | right; discriminate]).
  destruct Hx as [Hx|Hx].
  - rewrite shift_empty by exact Hx. unfold Gone, slot in *. auto.
  - destruct (hist_last c Hx) as [h [last Hh]].
    destruct (shift_spec c h last Hh) as [Hh' Hm'].
    assert (Hsl : forall j, j < length h -> slot c j = nth j h []).
    { intros j Hj. unfold slot. rewrite Hh. apply app_nth1. exact Hj. }
    unfold Gone, slot. rewrite Hh', Hm'. cbn [length nth]. repeat split.
    + rewrite <- Hl, Hh, app_length. cbn. lia.
    + intros j t' H. destruct j; cbn in H; [destruct H|].
      destruct (Nat.lt_ge_cases j (length h)) as [Hj|Hj].
      * rewrite <- Hsl in H by exact Hj. apply (Hno j t' H).
      * rewrite nth_overflow in H by exact Hj. destruct H.
    + rewrite memb_filter, Hm. reflexivity.
Qed.

(* ---- every sequence ---- *)
Lemma window_run HL l : forall c i t k,
  At HL c i t k -> forallb (fun o => negb (puts_id i o)) l = true ->
  (k + shifts l < HL -> At HL (mrun c l) i t (k + shifts l))
  /\ (HL <= k + shifts l -> Gone HL (mrun c l) i).
Proof.
  induction l as [|o l IH]; intros c i t k HA Hnp.
  - unfold shifts; cbn. rewrite Nat.add_0_r. split; [intros _; exact HA|].
    intros Hge. destruct HA as (_ & Hk & _). lia.
  - cbn in Hnp. apply andb_true_iff in Hnp. destruct Hnp as [Ho Hnp].
    unfold mrun. cbn [fold_left]. fold (mrun (mstep c o) l).
    destruct o as [j u | j p |].
    + cbn in Ho. apply negb_true_iff, Nat.eqb_neq in Ho.
      replace (shifts (MPut j u :: l)) with (shifts l) by reflexivity.
      apply IH; [apply At_put; assumption | exact Hnp].
    + replace (shifts (MGet j p :: l)) with (shifts l) by reflexivity.
      apply IH; [apply At_get; assumption | exact Hnp].
    + replace (shifts (MShift :: l)) with (S (shifts l)) by reflexivity.
      assert (HAl := HA). destruct HAl as (_ & Hk & _).
      destruct (Nat.eq_dec (S k) HL) as [He|Hn].
      * assert (HG : Gone HL (mstep c MShift) i) by (apply (At_shift_old HL c i t k He HA)).
        split; [intros; lia|]. intros _.
        clear IH HA. revert HG Hnp. generalize (mstep c MShift). induction l as [|o l IHl]; intros c' HG Hnp; [exact HG|].
        cbn in Hnp. apply andb_true_iff in Hnp. destruct Hnp as [Ho' Hnp].
        unfold mrun. cbn [fold_left]. apply IHl; [|exact Hnp].
        destruct o as [j u | j p |]; cbn.
        -- cbn in Ho'. apply negb_true_iff, Nat.eqb_neq in Ho'. apply Gone_put; assumption.
        -- apply Gone_get; assumption.
        -- apply Gone_shift; assumption.
      * assert (HA' : At HL (mstep c MShift) i t (S k)) by (apply At_shift_young; [lia | exact HA]).
        destruct (IH _ _ _ _ HA' Hnp) as [I1 I2].
        replace (k + S (shifts l)) with (S k + shifts l) by lia. split; assumption.
Qed.

Lemma nth_firstn {A} (j g : nat) (l : list A) (d : A) :
  nth j (firstn g l) d = if Nat.ltb j g then nth j l d else d.
Proof.
  revert j l. induction g as [|g IH]; intros j l.
  - cbn. destruct j; reflexivity.
  - destruct l as [|x l]; [cbn [firstn]; destruct j; cbn [nth]; match goal with |- _ = (if ?b then _ else _) => destruct b end; reflexivity|].
    destruct j; [reflexivity|]. cbn [firstn nth]. rewrite IH.
    replace (Nat.ltb (S j) (S g)) with (Nat.ltb j g) by reflexivity. reflexivity.
Qed.

Lemma At_gossip HL c i t k g : At HL c i t k -> (In i (mc_gossip_ids c g t) <-> k < g).
Proof.
  intros (Hl & Hk & Hin & Huniq & Hm). unfold mc_gossip_ids. split.
  - intros H. apply in_map_iff in H. destruct H as [[a b] [Ha Hf]]. cbn in Ha. subst a.
    apply filter_In in Hf. destruct Hf as [Hc Ht]. cbn in Ht. apply Nat.eqb_eq in Ht. subst b.
    apply in_concat in Hc. destruct Hc as [sl [Hsl Hisl]].
    apply In_nth with (d := []) in Hsl. destruct Hsl as [j [Hj Hnth]].
    rewrite firstn_length in Hj.
    rewrite nth_firstn in Hnth. destruct (Nat.ltb_spec j g) as [Hjg|Hjg].
    + subst sl. destruct (Huniq j t Hisl). lia.
    + subst sl. destruct Hisl.
  - intros Hkg. apply in_map_iff. exists (i, t). split; [reflexivity|].
    apply filter_In. split; [|cbn; apply Nat.eqb_refl].
    apply in_concat. exists (slot c k). split; [|exact Hin].
    unfold slot. replace (nth k (hist c) []) with (nth k (firstn g (hist c)) []).
    + apply nth_In. rewrite firstn_length. lia.
    + rewrite nth_firstn. destruct (Nat.ltb_spec k g); [reflexivity | lia].
Qed.

Lemma Gone_gossip HL c i t g : Gone HL c i -> ~ In i (mc_gossip_ids c g t).
Proof.
  intros (Hl & Hno & Hm) H. unfold mc_gossip_ids in H.
  apply in_map_iff in H. destruct H as [[a b] [Ha Hf]]. cbn in Ha. subst a.
  apply filter_In in Hf. destruct Hf as [Hc _].
  apply in_concat in Hc. destruct Hc as [sl [Hsl Hisl]].
  apply In_nth with (d := []) in Hsl. destruct Hsl as [j [Hj Hnth]].
  rewrite nth_firstn in Hnth. destruct (Nat.ltb_spec j g).
  - subst sl. apply (Hno j b Hisl).
  - subst sl. destruct Hisl.
Qed.

Definition retrievable (c : mcache) (i : mid) (p : peer) : bool :=
  match fst (mc_get_for_peer c i p) with Some _ => true | None => false end.
Lemma retrievable_memb c i p : retrievable c i p = memb i (mmsgs c).
Proof. unfold retrievable, mc_get_for_peer. destruct (memb i (mmsgs c)); reflexivity. Qed.

(* The window theorem: put a fresh id, then run ANY sequence of cache operations that does not put
   the same id again.  The id is retrievable iff fewer than HistoryLength shifts happened and is in
   the gossip window iff fewer than HistoryGossip shifts happened. *)
Theorem mcache_window HL HG c i t l p :
  0 < HL -> HG <= HL -> Gone HL c i ->
  forallb (fun o => negb (puts_id i o)) l = true ->
  let c' := mrun (mc_put c i t) l in
  (retrievable c' i p = true <-> shifts l < HL)
  /\ (In i (mc_gossip_ids c' HG t) <-> shifts l < HG)
  /\ (forall t', In i (mc_gossip_ids c' HG t') -> t' = t).
Proof.
  intros Hpos Hle HG0 Hnp c'.
  assert (HA : At HL (mc_put c i t) i t 0) by (apply put_fresh; assumption).
  destruct (window_run HL l _ _ _ _ HA Hnp) as [W1 W2]. cbn [Nat.add] in W1, W2.
  rewrite retrievable_memb.
  destruct (Nat.lt_ge_cases (shifts l) HL) as [Hlt|Hge].
  - specialize (W1 Hlt). fold c' in W1. split; [|split].
    + destruct W1 as (_ & _ & _ & _ & Hm). rewrite Hm. split; intros; [exact Hlt | reflexivity].
    + apply (At_gossip HL c' i t _ HG W1).
    + intros t' H. unfold mc_gossip_ids in H.
      apply in_map_iff in H. destruct H as [[a b] [Ha Hf]]. cbn in Ha. subst a.
      apply filter_In in Hf. destruct Hf as [Hc Ht]. cbn in Ht. apply Nat.eqb_eq in Ht. subst b.
      apply in_concat in Hc. destruct Hc as [sl [Hsl Hisl]].
      apply In_nth with (d := []) in Hsl. destruct Hsl as [j [Hj Hnth]].
      rewrite nth_firstn in Hnth. destruct (Nat.ltb_spec j HG).
      * subst sl. destruct W1 as (_ & _ & _ & Hu & _). destruct (Hu j t' Hisl). assumption.
      * subst sl. destruct Hisl.
  - specialize (W2 Hge). fold c' in W2. split; [|split].
    + destruct W2 as (_ & _ & Hm). rewrite Hm. split; intros; [discriminate | lia].
    + split; [intros H; exfalso; apply (Gone_gossip HL c' i t HG W2 H) | intros; lia].
    + intros t' H. exfalso. apply (Gone_gossip HL c' i t' HG W2 H).
Qed.

(* GetForPeer counts every request, served or not *)
Lemma tx_get_set_same i p n l : tx_get i p (tx_set i p n l) = n.
Proof. unfold tx_set. cbn. rewrite !Nat.eqb_refl. reflexivity. Qed.
Lemma tx_get_filter_other (f : (mid * peer) * nat -> bool) i p l :
  (forall n, f ((i, p), n) = true) -> tx_get i p (filter f l) = tx_get i p l.
Proof.
  intros Hf. induction l as [|[[j q] n] l IH]; cbn; [reflexivity|].
  destruct (Nat.eqb i j && Nat.eqb p q) eqn:He.
  - apply andb_true_iff in He. destruct He as [H1 H2]. apply Nat.eqb_eq in H1, H2. subst.
    rewrite Hf. cbn. rewrite !Nat.eqb_refl. reflexivity.
  - destruct (f (j, q, n)); cbn; [rewrite He|]; exact IH.
Qed.
Lemma tx_get_set_other i p j q n l : (i, p) <> (j, q) -> tx_get i p (tx_set j q n l) = tx_get i p l.
Proof.
  intros Hne. unfold tx_set. cbn.
  destruct (Nat.eqb i j && Nat.eqb p q) eqn:He.
  - apply andb_true_iff in He. destruct He as [H1 H2]. apply Nat.eqb_eq in H1, H2. subst. congruence.
  - apply tx_get_filter_other. intros m. cbn.
    destruct (Nat.eqb j i && Nat.eqb q p) eqn:He2; [|reflexivity].
    apply andb_true_iff in He2. destruct He2 as [H1 H2]. apply Nat.eqb_eq in H1, H2. subst. congruence.
Qed.
