(* C13: the dependency invariants between the per-peer presence bits and their preservation by every handler
   (a finite case analysis: 2^12 bit vectors x 23 events; kept in its own file because it takes two minutes). *)
From Coq Require Import List Bool Arith Lia.
Import ListNotations.
From PS Require Import Model.Lifecycle.

(* everything that has no timer of its own hangs off the outbound queue or the inbound stream *)
Definition depb (v : pv) : bool :=
  implb (v_out v) (v_queue v)
  && implb (v_mesh v) (v_out v) && implb (v_prot v) (v_mesh v)
  && implb (v_fanout v) (v_out v) && implb (v_bufs v) (v_out v)
  && implb (v_ext_sent v) (v_out v) && implb (v_gater v) (v_out v || v_in v)
  && implb (v_topics v) (v_in v) && implb (v_ext_peer v) (v_in v).

(* the one handler that breaks the discipline: a GRAFT accepted from a peer without an outbound stream
   (handleGraft does not look at gs.peers) - known finding, see DESIGN.md *)
Definition guarded (v : pv) (e : lev) : bool :=
  match e with LGraft true => v_out v | _ => true end.

Lemma dep_step v e : depb v = true -> guarded v e = true -> depb (lstep v e) = true.
Proof.
  destruct v as [q o i t m f b p ep es g sc bo c pr bl].
  destruct e as [| |r| | | | | |a| | | | | | | | | | |api]; try destruct r; try destruct a; try destruct api;
    destruct q, o, i, t, m, f, b, p, ep, es, g; vm_compute; intros; try discriminate; try reflexivity;
    destruct bl; vm_compute; try discriminate; reflexivity.
Qed.

