(* Shared result type of every cases-file runner. *)
From Coq Require Import List NArith.
Import ListNotations.

Inductive verdict :=
| VOk
| VMismatch (step : nat) (code : nat)   (* model and implementation disagree at this step of the case *)
| VMonFail (step : nat) (code : nat).   (* the property's monitor is false on the OBSERVED behaviour *)

Definition is_ok (v : verdict) : bool := match v with VOk => true | _ => false end.

Fixpoint bad_from {A} (chk : A -> verdict) (i : nat) (l : list A) : list (nat * verdict) :=
  match l with
  | [] => []
  | c :: l' => let v := chk c in
               if is_ok v then bad_from chk (S i) l' else (i, v) :: bad_from chk (S i) l'
  end.
Definition bad_cases {A} (chk : A -> verdict) (l : list A) : list (nat * verdict) := bad_from chk 0 l.
