(* Runner for C12: byte streams written to a real inbound pubsub stream vs the reader model. *)
From Coq Require Import List Bool Arith NArith.
Import ListNotations.
From PS Require Import Model.Frame Run.Verdict.
Local Open Scope N_scope.

Record fcase := {
  fc_max : N;
  fc_bytes : list byte;
  fc_decodable : list (nat * nat);   (* (start, length) of every substring of length <= max that unmarshals as an RPC (oracle: the real protobuf code) *)
  fc_delivered : nat;                (* RPCs the node handed to its event loop *)
  fc_reset : bool                    (* the node reset the stream (false: it closed it politely) *)
}.

Fixpoint list_eqb (a b : list byte) : bool :=
  match a, b with
  | [], [] => true
  | x :: a', y :: b' => (x =? y) && list_eqb a' b'
  | _, _ => false
  end.
Definition sub (st ln : nat) (l : list byte) : list byte := firstn ln (skipn st l).

Definition check_fcase (c : fcase) : verdict :=
  let dec := fun p => existsb (fun e => list_eqb p (sub (fst e) (snd e) (fc_bytes c))) (fc_decodable c) in
  let (fs, e) := read_stream (fc_max c) dec (fc_bytes c) in
  (* monitor on the observation alone: never more frames than could fit *)
  if Nat.ltb (length (fc_bytes c)) (2 * fc_delivered c) then VMonFail 0 123
  else if negb (Nat.eqb (length fs) (fc_delivered c)) then VMismatch 0 3
  else if negb (Bool.eqb (match e with EClean => false | EReset _ => true end) (fc_reset c)) then VMismatch 0 4
  else VOk.
