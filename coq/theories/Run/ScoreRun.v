(* Runner for C10 cases: the score model instantiated with binary64 floats (Coq's primitive floats,
   IEEE 754 round-to-nearest-even like Go's float64) replayed against the scores and counters the real
   peerScore computed, plus monitors evaluated on the observed numbers alone. *)
From Coq Require Import List Bool ZArith Arith Floats Uint63.
Import ListNotations.
From PS Require Import Model.Router Model.Score Run.Verdict.
Local Open Scope Z_scope.

Definition float_of_Z (z : Z) : float :=
  if z <? 0 then PrimFloat.opp (PrimFloat.of_uint63 (Uint63.of_Z (- z))) else PrimFloat.of_uint63 (Uint63.of_Z z).

Definition FA : arith :=
  {| F := float; f0 := PrimFloat.zero; f1 := PrimFloat.one;
     fadd := PrimFloat.add; fsub := PrimFloat.sub; fmul := PrimFloat.mul;
     fltb := PrimFloat.ltb; fofZ := float_of_Z |}.

(* bitwise-insensitive equality that identifies NaNs (and +0 with -0) *)
Definition feq (a b : float) : bool := PrimFloat.eqb a b || (PrimFloat.is_nan a && PrimFloat.is_nan b).

(* what the harness observed after each operation *)
Record tobs := { ob_fmd : float; ob_mmd : float; ob_imd : float; ob_mfp : float; ob_inmesh : bool; ob_meshtime : Z; ob_active : bool }.
Record pobs := { ob_score : float; ob_bp : float; ob_connected : bool; ob_topics : list (topic * tobs) }.
Record sobs := { so_peers : list (peer * pobs); so_nrecs : nat;
                 so_ipsets : list (nat * list peer) (* the node's IP colocation sets: address -> peers counted at it *) }.

Record sstepr := { ss_op : sop FA; ss_app : list (peer * float); ss_obs : sobs }.
Record scase := { sc_params : sparams FA; sc_steps : list sstepr }.

Definition tobs_ok (ts : tstats FA) (o : tobs) : bool :=
  feq (fmd FA ts) (ob_fmd o) && feq (mmd FA ts) (ob_mmd o) && feq (imd FA ts) (ob_imd o) && feq (mfp FA ts) (ob_mfp o)
  && Bool.eqb (inMesh FA ts) (ob_inmesh o) && Bool.eqb (mmdActive FA ts) (ob_active o)
  && (if inMesh FA ts then meshTime FA ts =? ob_meshtime o else true).

Definition obs_ok (s : sstate FA) (app : list (peer * float)) (o : sobs) : nat :=
  if negb (Nat.eqb (length (pst FA s)) (length (so_peers o))) then 11
  else if negb (Nat.eqb (length (recs FA s)) (so_nrecs o)) then 12
  else if negb (forallb (fun e =>
            match aget (fst e) (pst FA s) with
            | None => false
            | Some ps =>
                let po := snd e in
                Bool.eqb (connected FA ps) (ob_connected po) && feq (bp FA ps) (ob_bp po)
                && Nat.eqb (length (topics FA ps)) (length (ob_topics po))
                && forallb (fun te => match aget (fst te) (topics FA ps) with Some ts => tobs_ok ts (snd te) | None => false end) (ob_topics po)
            end) (so_peers o)) then 13
  else if negb (forallb (fun e => feq (score FA s app (fst e)) (ob_score (snd e))) (so_peers o)) then 14
  (* the colocation sets are exactly the addresses of the tracked peers *)
  else if negb (forallb (fun e => forallb (fun p => match aget p (pst FA s) with Some ps => memb (fst e) (ips FA ps) | None => false end) (snd e)) (so_ipsets o)
                && forallb (fun e => forallb (fun ip => memb (fst e) (aget_l ip (so_ipsets o))) (ips FA (snd e))) (pst FA s)) then 15
  else 0.

(* ---- monitors on the observed numbers only ---- *)
Definition fle (a b : float) : bool := PrimFloat.leb a b.
(* the sticky mesh-failure penalty at a disconnect, restated on observed numbers: a retained entry's penalty counter
   grows by the squared delivery deficit exactly when the peer was in the mesh with the delivery requirement active
   and unmet, and is untouched otherwise *)
Definition sticky_ok (P : sparams FA) (prev : option pobs) (now_ : pobs) : bool :=
  match prev with
  | None => true
  | Some pp =>
      forallb (fun te =>
        match aget (fst te) (ob_topics pp), aget (fst te) (spTopics FA P) with
        | Some tb, Some tp =>
            let due := ob_inmesh tb && ob_active tb && PrimFloat.ltb (ob_mmd tb) (tpMMDThreshold FA tp) in
            let d := PrimFloat.sub (tpMMDThreshold FA tp) (ob_mmd tb) in
            feq (ob_mfp (snd te)) (if due then PrimFloat.add (ob_mfp tb) (PrimFloat.mul d d) else ob_mfp tb)
        | _, _ => true
        end) (ob_topics now_)
  end.

(* what the monitor remembers of the operations themselves: the virtual clock, when each message was delivered, and which
   peers' copies of it have been seen (a peer's copy counts once) *)
Record smst := { sm_clock : Z; sm_deliv : list (nat * Z); sm_cnt : list (nat * peer); sm_old : list nat }.
Definition smst0 : smst := {| sm_clock := 0; sm_deliv := []; sm_cnt := []; sm_old := [] |}.
Definition smst_step (m : smst) (op : sop FA) : smst :=
  match op with
  | SAdvance _ d => {| sm_clock := sm_clock m + d; sm_deliv := sm_deliv m; sm_cnt := sm_cnt m; sm_old := sm_old m |}
  (* only the first delivery of an id counts (a later one finds the record decided and is ignored) *)
  | SDeliver _ i _ _ => match aget i (sm_deliv m) with
                        | Some _ => m
                        | None => {| sm_clock := sm_clock m; sm_deliv := (i, sm_clock m) :: sm_deliv m; sm_cnt := sm_cnt m; sm_old := sm_old m |}
                        end
  (* nothing is expected of an id that was ever rejected (its record is decided otherwise) *)
  | SReject _ i _ _ _ => {| sm_clock := sm_clock m; sm_deliv := sm_deliv m; sm_cnt := sm_cnt m; sm_old := i :: sm_old m |}
  | SDuplicate _ i from _ => {| sm_clock := sm_clock m; sm_deliv := sm_deliv m; sm_cnt := (i, from) :: sm_cnt m; sm_old := sm_old m |}
  (* records may be collected and re-created: nothing is expected any more of the ids known so far *)
  | SGc _ => {| sm_clock := sm_clock m; sm_deliv := sm_deliv m; sm_cnt := sm_cnt m; sm_old := map fst (sm_deliv m) ++ sm_old m |}
  | _ => m
  end.

Definition mon_obs_ign (ign : nat -> bool) (ms : smst) (P : sparams FA) (op : sop FA) (prev : sobs) (o : sobs) : nat :=
  let hit := fun (c : nat) (b : bool) => b && negb (ign c) in
  (* C13: an address set counts a peer the node holds no score record for (any more): state attributable to a peer that
     outlives everything else the node knows about it *)
  if hit 136%nat (existsb (fun e => existsb (fun p => match aget p (so_peers o) with Some _ => false | None => true end) (snd e)) (so_ipsets o)) then 136
  (* counters never negative, never above their caps; no NaN anywhere *)
  else if hit 102%nat (existsb (fun e => negb (fle PrimFloat.zero (ob_bp (snd e)))
                  || existsb (fun te =>
                        let t := snd te in
                        negb (fle PrimFloat.zero (ob_fmd t) && fle PrimFloat.zero (ob_mmd t) && fle PrimFloat.zero (ob_imd t) && fle PrimFloat.zero (ob_mfp t))
                        || match aget (fst te) (spTopics FA P) with
                           | Some tp => negb (fle (ob_fmd t) (tpFMDCap FA tp)) || negb (fle (ob_mmd t) (tpMMDCap FA tp))
                           | None => false end) (ob_topics (snd e))) (so_peers o)) then 102
  (* right after a disconnect the entry is either gone or retained with a non-positive score *)
  else if hit 103%nat (match op with
          | SRemovePeer _ p _ => match aget p (so_peers o) with
                                 | Some po => negb (ob_connected po) && PrimFloat.ltb PrimFloat.zero (ob_score po)
                                 | None => false end
          | _ => false end) then 103
  else if hit 106%nat (match op with
          | SRemovePeer _ p _ => match aget p (so_peers o) with
                                 | Some po => negb (ob_connected po) && negb (sticky_ok P (aget p (so_peers prev)) po)
                                 | None => false end
          | _ => false end) then 106
  (* capped first deliveries, on observed numbers: a DeliverMessage credits the forwarder's first-delivery counter of a scored
     topic by one, up to the cap, whatever the node has recorded about the message before *)
  else if hit 107%nat (match op with
          | SDeliver _ _ from t =>
              match aget t (spTopics FA P), aget from (so_peers prev), aget from (so_peers o) with
              | Some tp, Some pp, Some pn =>
                  let before := match aget t (ob_topics pp) with Some tb => ob_fmd tb | None => PrimFloat.zero end in
                  let want := let x := PrimFloat.add before PrimFloat.one in if PrimFloat.ltb (tpFMDCap FA tp) x then tpFMDCap FA tp else x in
                  match aget t (ob_topics pn) with
                  | Some tn => negb (feq (ob_fmd tn) want)
                  | None => true
                  end
              | _, _, _ => false
              end
          | _ => false end) then 107
  (* squared invalid deliveries, on observed numbers: a rejection for a bad / missing / unexpected signature (or self origin) counts
     one invalid delivery against the forwarder, every time, whatever the node has recorded about that message id *)
  else if hit 108%nat (match op with
          | SReject _ _ from t RSig =>
              match aget t (spTopics FA P), aget from (so_peers prev), aget from (so_peers o) with
              | Some _, Some pp, Some pn =>
                  let before := match aget t (ob_topics pp) with Some tb => ob_imd tb | None => PrimFloat.zero end in
                  match aget t (ob_topics pn) with
                  | Some tn => negb (feq (ob_imd tn) (PrimFloat.add before PrimFloat.one))
                  | None => true
                  end
              | _, _, _ => false
              end
          | _ => false end) then 108
  (* a peer whose stream has just come up has an entry that is marked connected (only such entries decay and accrue mesh time;
     an entry not marked connected is thrown away when its retention period ends), whatever was retained about it before *)
  else if hit 109%nat (match op with
          | SAddPeer _ p => match aget p (so_peers o) with Some po => negb (ob_connected po) | None => true end
          | _ => false end) then 109
  (* mesh deliveries inside the window: the first copy a mesh member sends of a message that was delivered no longer ago than
     the topic's delivery window counts one mesh delivery for it (up to the cap), however long the validation had taken *)
  else if hit 1001%nat (match op with
          | SDuplicate _ i from t =>
              match aget i (sm_deliv ms), aget t (spTopics FA P), aget from (so_peers prev), aget from (so_peers o) with
              | Some td, Some tp, Some pp, Some pn =>
                  match aget t (ob_topics pp), aget t (ob_topics pn) with
                  | Some tb, Some tn =>
                      ob_inmesh tb && negb (memb i (sm_old ms)) && negb (existsb (fun e => Nat.eqb (fst e) i && Nat.eqb (snd e) from) (sm_cnt ms))
                      && (sm_clock ms - td <=? tpMMDWindow FA tp)
                      && negb (feq (ob_mmd tn) (let x := PrimFloat.add (ob_mmd tb) PrimFloat.one in if PrimFloat.ltb (tpMMDCap FA tp) x then tpMMDCap FA tp else x))
                  | _, _ => false end
              | _, _, _, _ => false end
          | _ => false end) then 1001
  (* no NaN anywhere (the class of a recorded finding: last, so that it hides no other clause of the same step) *)
  else if hit 101%nat (existsb (fun e => PrimFloat.is_nan (ob_score (snd e))) (so_peers o)) then 101
  else 0.

Section ForProperty.
(* [which] = 0: every clause; otherwise only the clauses of that property (code / 10), the others switched off so that they
   cannot hide one of the property under check *)
Variable which : nat.
Definition mon_obs := mon_obs_ign (fun c => negb (Nat.eqb which 0 || Nat.eqb (c / 10) which || Nat.eqb (c / 100) which)).

(* after a model/implementation disagreement: keep looking for a concrete failing history with the monitor alone *)
(* the parameters the observation of a step is judged against are those in force AFTER it (a SetTopicScoreParams that
   lowers a cap must have re-capped the counters): [prm_after], a function of the operation alone
   (Proofs/ScoreParams.v [prm_after_step]) *)
Fixpoint smon_only (ms : smst) (P : sparams FA) (prev : sobs) (l : list sstepr) (idx : nat) : option (nat * nat) :=
  match l with
  | [] => None
  | st :: l' => let P' := prm_after FA P (ss_op st) in
                match mon_obs ms P' (ss_op st) prev (ss_obs st) with
                | O | 101%nat => smon_only (smst_step ms (ss_op st)) P' (ss_obs st) l' (S idx)
                | c => Some (idx, c) end
  end.

(* 101 (a NaN score) is the class of a recorded finding: it is remembered and the replay goes on *)
Fixpoint sexec (ms : smst) (s : sstate FA) (prev : sobs) (l : list sstepr) (idx : nat) (fnd : option nat) : verdict :=
  match l with
  | [] => match fnd with Some i => VMonFail i 101 | None => VOk end
  | st :: l' =>
      let P' := prm_after FA (prm FA s) (ss_op st) in
      let c0 := mon_obs ms P' (ss_op st) prev (ss_obs st) in
      let ms' := smst_step ms (ss_op st) in
      let fnd' := match fnd, c0 with Some i, _ => Some i | None, 101%nat => Some idx | None, _ => None end in
      match c0 with
      | O | 101%nat =>
          match sstep FA s (ss_op st) with
          | None => match smon_only ms' P' (ss_obs st) l' (S idx) with Some (i, c) => VMonFail i c | None => VMismatch idx 2 end
          | Some s' => match obs_ok s' (ss_app st) (ss_obs st) with
                       | O => sexec ms' s' (ss_obs st) l' (S idx) fnd'
                       (* every counter the node holds agrees with the model (11-13 passed) and only the SCORE differs: the observed score is
                          not the v1.1 function of the node's own counters, parameters, application score and addresses - the first clause
                          of the property, on observed data *)
                       | 14%nat => if Nat.eqb which 0 || Nat.eqb which 10 then VMonFail idx 105
                                   else match smon_only ms' P' (ss_obs st) l' (S idx) with Some (i, c') => VMonFail i c' | None => VMismatch idx 14 end
                       | c => match smon_only ms' P' (ss_obs st) l' (S idx) with Some (i, c') => VMonFail i c' | None => VMismatch idx c end
                       end
          end
      | c => VMonFail idx c
      end
  end.

Definition check_scase_for (c : scase) : verdict := sexec smst0 (sinit FA (sc_params c)) {| so_peers := []; so_nrecs := 0; so_ipsets := [] |} (sc_steps c) 0 None.
End ForProperty.
Definition check_scase := check_scase_for 0.

(* constructors specialised to the float instance, for the generated cases files *)
Definition mkTP (tw timw : float) (q : Z) (timc fw fd fc mw md mc mt : float) (win act : Z) (pw pd iw id : float) : tparams FA :=
  Build_tparams FA tw timw q timc fw fd fc mw md mc mt win act pw pd iw id.
Definition mkSP (tl : list (topic * tparams FA)) (cap aw ipw : float) (ipt : nat) (bw bt bd dz : float) (ret ttl : Z) : sparams FA :=
  Build_sparams FA tl cap aw ipw ipt bw bt bd dz ret ttl.
Definition fAddPeer : peer -> sop FA := SAddPeer FA.
Definition fRemovePeer : peer -> float -> sop FA := SRemovePeer FA.
Definition fGraft : peer -> topic -> sop FA := SGraft FA.
Definition fPrune : peer -> topic -> sop FA := SPrune FA.
Definition fValidate : nat -> sop FA := SValidate FA.
Definition fDeliver : nat -> peer -> topic -> sop FA := SDeliver FA.
Definition fReject : nat -> peer -> topic -> reason -> sop FA := SReject FA.
Definition fDuplicate : nat -> peer -> topic -> sop FA := SDuplicate FA.
Definition fPenalty : peer -> Z -> sop FA := SPenalty FA.
Definition fRefresh : sop FA := SRefresh FA.
Definition fGc : sop FA := SGc FA.
Definition fSetTopic : topic -> tparams FA -> sop FA := SSetTopic FA.
Definition fSetIPs : peer -> list nat -> sop FA := SSetIPs FA.
Definition fAdvance : Z -> sop FA := SAdvance FA.
