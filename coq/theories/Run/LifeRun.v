(* Runner for C13 / C16 lifecycle histories over real streams: the observed per-peer presence bits after
   every action are checked against the dependency invariants proved preserved by the handler model
   (Proofs/LifecycleDep.v), and the final observation (peer gone, retention periods over) must be empty. *)
From Coq Require Import List Bool Arith.
Import ListNotations.
From PS Require Import Model.Lifecycle Proofs.LifecycleDep Run.Verdict.

Record lobs := {
  lo_v : pv;
  lo_bl : bool;          (* the peer is in the blacklist (C16) *)
  lo_sent : nat;         (* RPCs the peer received from the node during this step *)
  lo_delivered : nat;    (* messages of the peer (as source or author) delivered to the node's subscribers during this step *)
  lo_api : bool;         (* BlacklistPeer has been called for the peer (now or earlier) *)
  lo_apinow : bool       (* this action was the BlacklistPeer call *)
}.
Record lcase := { lc_steps : list lobs; lc_final : pv }.

Definition mk (q o i t m f b p ep es g sc bo c pr : bool) : pv :=
  {| v_queue := q; v_out := o; v_in := i; v_topics := t; v_mesh := m; v_fanout := f; v_bufs := b; v_prot := p;
     v_ext_peer := ep; v_ext_sent := es; v_gater := g; v_score := if sc then Some 0 else None; v_backoff := if bo then Some 0 else None;
     v_counters := c; v_promises := if pr then Some 0 else None; v_blacklisted := false |}.

(* what the two recorded findings leave behind (a mesh entry with its connection-manager protection; gater statistics)
   is taken out before the final inventory is judged, so that any OTHER residue is reported as such *)
Definition strip_findings (v : pv) : pv :=
  {| v_queue := v_queue v; v_out := v_out v; v_in := v_in v; v_topics := v_topics v; v_mesh := false; v_fanout := v_fanout v;
     v_bufs := v_bufs v; v_prot := v_prot v && negb (v_mesh v); v_ext_peer := v_ext_peer v; v_ext_sent := v_ext_sent v;
     v_gater := false; v_score := v_score v; v_backoff := v_backoff v; v_counters := v_counters v; v_promises := v_promises v;
     v_blacklisted := v_blacklisted v |}.
(* codes 133 and 134 are the classes of two recorded findings; they are narrow on purpose:
   133 = the peer is in a mesh without an outbound stream BECAUSE it was admitted (or kept) while no outbound stream
         existed (a GRAFT on an inbound stream that outlives the outbound side);
   135 = the peer was in a mesh WITH an outbound stream, the stream went away and the mesh entry stayed: a different
         violation (the teardown of the outbound stream did not clean the mesh), never excused by the finding. *)
Definition mon_l (prev : pv) (o : lobs) : list nat :=
  let v := lo_v o in
  let prev_out := v_out prev in
  (if v_mesh v && negb (v_out v) then [if v_mesh prev && v_out prev then 135 else 133] else [])
  ++ (if v_gater v && negb (v_out v || v_in v) then [134] else [])   (* known finding class: gater statistics for a peer without any stream *)
  ++ (if negb (depb (if v_mesh v && negb (v_out v) || v_gater v && negb (v_out v || v_in v) then strip_findings v else v)) then [132] else [])
  ++ (if lo_bl o && negb (Nat.eqb (lo_delivered o) 0) then [161] else [])        (* C16: nothing from / authored by a blacklisted peer is delivered *)
  (* C16: at the moment of BlacklistPeer the peer is gone from queue, peer lists, mesh, fanout.  165 = the class of a recorded
     finding: the peer had NO outbound queue (so BlacklistPeer has nothing to tear down) and sits in a mesh only because its
     GRAFT on its own stream was admitted without one - the root cause recorded as 133 *)
  ++ (if lo_apinow o && (v_queue v || v_out v || v_mesh v || v_fanout v)
      then [if negb (v_queue prev) && negb (v_out prev) && v_mesh prev && negb (v_queue v || v_out v || v_fanout v) then 165 else 162] else [])
  ++ (if lo_bl o && lo_api o && negb (Nat.eqb (lo_sent o) 0) then [163] else [])  (* C16: nothing further is sent *)
  ++ (if lo_bl o && negb (lo_apinow o) && v_out v && negb prev_out then [164] else []).   (* C16: an outbound stream completing later is refused *)
Definition finding_class (c : nat) : bool := Nat.eqb c 133 || Nat.eqb c 134 || Nat.eqb c 165.

Section ForProperty.
Variable which : nat.
Definition lkeep (c : nat) : bool := Nat.eqb which 0 || Nat.eqb (c / 10) which.
(* the first failure that is NOT in a finding class wins; a finding-class failure is reported only when the history shows
   nothing else (so that a recorded finding never hides a different violation later in the same history) *)
Fixpoint lexec (prev : pv) (l : list lobs) (idx : nat) (fnd : option (nat * nat)) : option (nat * nat) :=
  match l with
  | [] => fnd
  | o :: l' =>
      let cs := filter lkeep (mon_l prev o) in
      match filter (fun c => negb (finding_class c)) cs with
      | c :: _ => Some (idx, c)
      | [] => lexec (lo_v o) l' (S idx)
                    (match fnd, cs with Some f, _ => Some f | None, c :: _ => Some (idx, c) | None, [] => None end)
      end
  end.
Definition pv0 : pv := mk false false false false false false false false false false false false false false false.
Definition check_lcase_for (c : lcase) : verdict :=
  let fin := lc_final c in
  let final_v :=
    if lkeep 131 && negb (reclaimed fin)
    then (if negb (reclaimed (strip_findings fin)) then Some 131
          else if v_mesh fin && negb (v_out fin) then Some 133
          else if v_gater fin && negb (v_out fin || v_in fin) then Some 134
          else Some 131)
    else None in
  match lexec pv0 (lc_steps c) 0 None with
  | Some (i, code) =>
      if finding_class code then match final_v with Some 131 => VMonFail (length (lc_steps c)) 131 | _ => VMonFail i code end
      else VMonFail i code
  | None => match final_v with Some code => VMonFail (length (lc_steps c)) code | None => VOk end
  end.
End ForProperty.
Definition check_lcase := check_lcase_for 0.
