(* Runner for C13 / C16 lifecycle histories over real streams: the observed per-peer presence bits after
   every action are checked against the dependency invariants proved preserved by the handler model
   (Proofs/LifecycleDep.v), and the final observation (peer gone, retention periods over) must be empty. *)
From Coq Require Import List Bool Arith.
Import ListNotations.
From PS Require Import Model.Lifecycle Proofs.LifecycleDep Run.Verdict.

Record lobs := {
  lo_v : pv;
  lo_bl : bool;          (* the peer is in the blacklist (C16) *)
  lo_sent : nat;         (* RPCs the peer received from the node during this step *)
  lo_delivered : nat;    (* messages of the peer (as source or author) delivered to the node's subscribers during this step *)
  lo_api : bool;         (* BlacklistPeer has been called for the peer (now or earlier) *)
  lo_apinow : bool       (* this action was the BlacklistPeer call *)
}.
Record lcase := { lc_steps : list lobs; lc_final : pv }.

Definition mk (q o i t m f b p ep es g sc bo c pr : bool) : pv :=
  {| v_queue := q; v_out := o; v_in := i; v_topics := t; v_mesh := m; v_fanout := f; v_bufs := b; v_prot := p;
     v_ext_peer := ep; v_ext_sent := es; v_gater := g; v_score := if sc then Some 0 else None; v_backoff := if bo then Some 0 else None;
     v_counters := c; v_promises := if pr then Some 0 else None; v_blacklisted := false |}.

Definition mon_l (prev_out : bool) (o : lobs) : nat :=
  let v := lo_v o in
  if v_mesh v && negb (v_out v) then 133      (* known finding class: in a mesh without an outbound stream *)
  else if v_gater v && negb (v_out v || v_in v) then 134   (* known finding class: gater statistics for a peer without any stream *)
  else if negb (depb v) then 132
  else if lo_bl o && negb (Nat.eqb (lo_delivered o) 0) then 161        (* C16: nothing from / authored by a blacklisted peer is delivered *)
  else if lo_apinow o && (v_queue v || v_out v || v_mesh v || v_fanout v) then 162   (* C16: at that moment gone from queue, peer lists, mesh, fanout *)
  else if lo_bl o && lo_api o && negb (Nat.eqb (lo_sent o) 0) then 163  (* C16: nothing further is sent *)
  else if lo_bl o && negb (lo_apinow o) && v_out v && negb prev_out then 164   (* C16: an outbound stream completing later is refused *)
  else 0.

Section ForProperty.
Variable which : nat.
Definition lkeep (c : nat) : bool := Nat.eqb which 0 || Nat.eqb (c / 10) which.
Fixpoint lexec (prev_out : bool) (l : list lobs) (idx : nat) : option (nat * nat) :=
  match l with
  | [] => None
  | o :: l' => let c := mon_l prev_out o in
               if negb (Nat.eqb c 0) && lkeep c then Some (idx, c) else lexec (v_out (lo_v o)) l' (S idx)
  end.
Definition check_lcase_for (c : lcase) : verdict :=
  match lexec false (lc_steps c) 0 with
  | Some (i, code) => VMonFail i code
  | None =>
      if lkeep 131 && negb (reclaimed (lc_final c))
      then (if v_mesh (lc_final c) && negb (v_out (lc_final c)) then VMonFail (length (lc_steps c)) 133
            else if v_gater (lc_final c) && negb (v_out (lc_final c) || v_in (lc_final c)) then VMonFail (length (lc_steps c)) 134
            else VMonFail (length (lc_steps c)) 131)
      else VOk
  end.
End ForProperty.
Definition check_lcase := check_lcase_for 0.
