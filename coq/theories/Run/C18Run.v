(* Runner for C18 cases: replays a harness history through Model.EventLog, validating the
   observations, and evaluates the property's monitor on the observed behaviour itself. *)
From Coq Require Import List Bool Arith PeanoNat.
Import ListNotations.
From PS Require Import Model.EventLog Run.Verdict.

(* One harness step: the external actions performed (in order, possibly inside one event-loop turn)
   followed by the observation taken when every goroutine is durably blocked. *)
Inductive hop :=
| HStep (acts : list action)
        (rets : list (tid * event)) (blocked : list tid) (log : list event) (token : bool) (mem : list peer).

Fixpoint take_ret (i : tid) (rets : list (tid * event)) : option (event * list (tid * event)) :=
  match rets with
  | [] => None
  | (j, e) :: r => if Nat.eqb i j then Some (e, r)
                   else match take_ret i r with
                        | Some (e', r') => Some (e', (j, e) :: r')
                        | None => None
                        end
  end.

Definition subset (a b : list nat) : bool := forallb (fun x => memb x b) a.
Definition seteq (a b : list nat) : bool := subset a b && subset b a.
Definition log_sub (a b : list event) : bool :=
  forallb (fun e => match lk (fst e) b with Some t => ety_eqb t (snd e) | None => false end) a.
Definition log_eq (a b : list event) : bool := log_sub a b && log_sub b a.

Definition alt_all (chron : list event) : bool :=
  forallb (fun e => altseq Join (types_of (fst e) chron)) chron.

(* monitor on observed data only: [obs_ret] newest first *)
Definition monitor (created active_h : bool) (obs_ret : list event)
           (blocked : list tid) (log : list event) (mem : list peer) : nat :=
  if negb (alt_all (rev obs_ret)) then 1
  else if created && active_h && (match log with [] => true | _ => false end)
          && negb (seteq (replay (rev obs_ret)) mem) then 2
  else if (match log with [] => false | _ => true end) && (match blocked with [] => false | _ => true end) then 3
  else 0.

(* Search for a fine-grained schedule (interleaving the external actions, in order, with the
   internal Wake/Pull steps of the NextPeerEvent calls) whose final state matches the observation.
   Every step goes through [step], so a match is a genuine [run] of the model.  [budget] bounds the
   number of explored nodes. *)
Section Search.
  Variable goal : st -> bool.

  Fixpoint first_some {A} (f : A -> nat -> option st * nat) (l : list A) (budget : nat) : option st * nat :=
    match l with
    | [] => (None, budget)
    | x :: l' => match f x budget with
                 | (Some s, b) => (Some s, b)
                 | (None, b) => first_some f l' b
                 end
    end.

  Fixpoint dfs (fuel : nat) (s : st) (pend : list action) (rets : list (tid * event)) (budget : nat)
    : option st * nat :=
    match fuel, budget with
    | O, _ => (None, budget)
    | _, O => (None, O)
    | S f, S bud =>
        let done := match pend, rets, pulling s with [], [], [] => goal s | _, _, _ => false end in
        if done then (Some s, bud) else
        (* 1. next external action *)
        let r1 := match pend with
                  | a :: pend' => match step s a with
                                  | Some s' => dfs f s' pend' rets bud
                                  | None => (None, bud)
                                  end
                  | [] => (None, bud)
                  end in
        match r1 with
        | (Some s', b) => (Some s', b)
        | (None, b1) =>
            (* 2. a call that is about to pull does so *)
            let r2 := first_some (fun i b =>
                          match take_ret i rets with
                          | Some (e, rets') =>
                              (* the call returns [e] in this step: either at this pull, or it first
                                 finds the log empty, parks, and is woken later *)
                              match (match step s (APull i (Some e)) with
                                     | Some s' => dfs f s' pend rets' b
                                     | None => (None, b) end) with
                              | (Some s', b') => (Some s', b')
                              | (None, b') => match step s (APull i None) with
                                              | Some s' => dfs f s' pend rets b'
                                              | None => (None, b') end
                              end
                          | None => match step s (APull i None) with
                                    | Some s' => dfs f s' pend rets b
                                    | None => (None, b) end
                          end) (pulling s) b1 in
            match r2 with
            | (Some s', b) => (Some s', b)
            | (None, b2) =>
                (* 3. a parked call takes the token *)
                if token_of s then
                  first_some (fun i b => match step s (AWake i) with
                                         | Some s' => dfs f s' pend rets b
                                         | None => (None, b) end) (waiting s) b2
                else (None, b2)
            end
        end
    end.
End Search.

Definition has_create (acts : list action) := existsb (fun a => match a with ACreate => true | _ => false end) acts.
Definition has_cancel (acts : list action) := existsb (fun a => match a with ACancelH => true | _ => false end) acts.

(* the monitor alone, on observed data only (used to look for a concrete failing history after the
   model and the implementation have stopped agreeing) *)
Fixpoint mon_only (created cancelled : bool) (obs_ret : list event) (l : list hop) (idx : nat) : option (nat * nat) :=
  match l with
  | [] => None
  | HStep acts rets blocked log token mem :: l' =>
      let obs_ret' := rev (map snd rets) ++ obs_ret in
      let created' := created || has_create acts in
      let cancelled' := cancelled || has_cancel acts in
      let m := monitor created' (negb cancelled') obs_ret' blocked log mem in
      if negb (Nat.eqb m 0) then Some (idx, m) else mon_only created' cancelled' obs_ret' l' (S idx)
  end.

Fixpoint exec (s : st) (created cancelled : bool) (obs_ret : list event) (l : list hop) (idx : nat) : verdict :=
  match l with
  | [] => VOk
  | HStep acts rets blocked log token mem :: l' =>
      let obs_ret' := rev (map snd rets) ++ obs_ret in
      let created' := created || has_create acts in
      let cancelled' := cancelled || has_cancel acts in
      let m := monitor created' (negb cancelled') obs_ret' blocked log mem in
      if negb (Nat.eqb m 0) then VMonFail idx m
      else
        let goal := fun s' => seteq (waiting s') blocked && log_eq (log_of s') log
                              && Bool.eqb (token_of s') token && seteq (members s') mem in
        let n := length acts + 2 * length rets + 2 * length (pulling s) + 2 * length (waiting s) + 4 in
        match dfs goal (2 * n) s acts rets 4000 with
        | (Some s', _) => exec s' created' cancelled' obs_ret' l' (S idx)
        | (None, _) =>
            match mon_only created' cancelled' obs_ret' l' (S idx) with
            | Some (i, m') => VMonFail i m'
            | None => VMismatch idx 20
            end
        end
  end.

Definition check_case (l : list hop) : verdict := exec init false false [] l 0.
