(* Runner for floodsub / randomsub histories (C06 for the two simple routers, C19 under them). *)
From Coq Require Import List Bool Arith.
Import ListNotations.
From PS Require Import Model.Router Model.Trace Model.SimpleRouters Run.Verdict.

Record srstepr := { sp_op : srop; sp_out : list peer (* one entry per message copy queued *);
                    sp_rpcs : list peer (* one entry per RPC queued *); sp_trace : list tev }.
Record srcase := { sr_rand : bool; sr_size : nat; sr_steps : list srstepr }.

Definition tev_eqb (a b : tev) : bool :=
  match a, b with
  | TAddPeer p, TAddPeer q | TRemovePeer p, TRemovePeer q | TSend p, TSend q | TDrop p, TDrop q => Nat.eqb p q
  | TJoin t, TJoin u | TLeave t, TLeave u | TDeliver t, TDeliver u | TPublish t, TPublish u => Nat.eqb t u
  | TGraft p t, TGraft q u | TPrune p t, TPrune q u => Nat.eqb p q && Nat.eqb t u
  | _, _ => false
  end.
Definition tevs_eqb (a b : list tev) : bool :=
  Nat.eqb (length a) (length b)
  && forallb (fun x => Nat.eqb (length (filter (tev_eqb x) a)) (length (filter (tev_eqb x) b))) a.

Record srmon := { sm_truth : srstate; sm_view : tview; sm_delivered : list nat }.

(* monitors on observed data: 6x -> C06, 19x -> C19 *)
Definition srmon_step (ign : nat -> bool) (rand : bool) (m : srmon) (st : srstepr) : option nat * srmon :=
  let hit := fun (c : nat) (b : bool) => b && negb (ign c) in
  let s := sm_truth m in
  let tr := sp_trace st in
  let view' := replay (sm_view m) tr in
  let delivered_now := concat (map (fun e => match e with TDeliver i => [i] | _ => [] end) tr) in
  let published_now := concat (map (fun e => match e with TPublish i => [i] | _ => [] end) tr) in
  (* structural truth: what the operations say *)
  let s' := match sp_op st with
            | RMsg msg _ =>
                let local := match sm_from msg with None => true | Some _ => false end in
                if memb (sm_id msg) (sr_seen s) || (negb local && negb (memb (sm_topic msg) (sr_joined s))) then s
                else {| sr_peers := sr_peers s; sr_tmap := sr_tmap s; sr_joined := sr_joined s; sr_seen := sadd (sm_id msg) (sr_seen s) |}
            | RLocalOnly msg =>
                if memb (sm_id msg) (sr_seen s) then s
                else {| sr_peers := sr_peers s; sr_tmap := sr_tmap s; sr_joined := sr_joined s; sr_seen := sadd (sm_id msg) (sr_seen s) |}
            | o => match srstep rand 0 s o with Some (x, _, _) => x | None => s end
            end in
  let v06 :=
    match sp_op st with
    | RMsg msg _ =>
        let tm := aget_l (sm_topic msg) (sr_tmap s) in
        let R := sp_out st in
        let accepted := negb (memb (sm_id msg) (sr_seen s))
                        && (match sm_from msg with None => true | Some _ => memb (sm_topic msg) (sr_joined s) end) in
        if hit 61 (existsb (sexcl msg) R) then Some 61
        else if hit 62 (existsb (fun p => negb (memb p tm)) R) then Some 62
        else if hit 62 (negb accepted && negb (match R with [] => true | _ => false end)) then Some 62
        else if hit 63 (accepted && negb rand && existsb (fun p => has_q s p && negb (sexcl msg p) && negb (memb p R)) tm) then Some 63
        else if hit 64 (accepted && rand && existsb (fun p => has_q s p && is_fs s p && negb (sexcl msg p) && negb (memb p R)) tm) then Some 64
        else None
    | RLocalOnly _ =>
        (* a local-only publication is sent to nobody, whatever the router *)
        if hit 65 (negb (match sp_out st with [] => true | _ => false end) || negb (match sp_rpcs st with [] => true | _ => false end)) then Some 65 else None
    | _ => None
    end in
  let v19 :=
    if hit 191 (negb (alt_ok (map fst (tv_mesh (sm_view m))) tr)) then Some 191
    else if hit 192 (negb (seteq (tv_peers view') (map fst (sr_peers s'))) || negb (seteq (map fst (tv_mesh view')) (sr_joined s'))) then Some 192
    else if hit 193 (negb (nodup_b delivered_now) || existsb (fun i => memb i (sm_delivered m)) delivered_now) then Some 193
    else if hit 196 (match sp_op st with
            | RMsg msg _ =>
                let local := match sm_from msg with None => true | Some _ => false end in
                let accepted := negb (memb (sm_id msg) (sr_seen s)) && (local || memb (sm_topic msg) (sr_joined s)) in
                negb (seteq delivered_now (if accepted then [sm_id msg] else []))
            | RLocalOnly msg => negb (seteq delivered_now (if memb (sm_id msg) (sr_seen s) then [] else [sm_id msg]))
            | _ => negb (match delivered_now with [] => true | _ => false end) end) then Some 196
    else if hit 194 (match sp_op st with
            | RMsg msg _ => match sm_from msg with
                            | None => negb (match published_now with [i] => Nat.eqb i (sm_id msg) | _ => false end)
                            | Some _ => negb (match published_now with [] => true | _ => false end) end
            | RLocalOnly msg => negb (match published_now with [i] => Nat.eqb i (sm_id msg) | _ => false end)
            | _ => negb (match published_now with [] => true | _ => false end) end) then Some 194
    else if hit 195 (negb (tevs_eqb (filter (fun x => match x with TSend _ | TDrop _ => true | _ => false end) tr) (map TSend (sp_rpcs st)))) then Some 195
    else None in
  (match v06 with Some c => Some c | None => v19 end,
   {| sm_truth := s'; sm_view := view'; sm_delivered := delivered_now ++ sm_delivered m |}).

Section ForProperty.
Variable which : nat.
Definition srkept (c : nat) : bool := Nat.eqb which 0 || Nat.eqb (c / 10) which.
(* clauses of the other property are switched off, so that they cannot hide a clause of the property under check *)
Definition srmon_pick (rand : bool) (m : srmon) (st : srstepr) : option nat * srmon := srmon_step (fun c => negb (srkept c)) rand m st.
Fixpoint srmon_only (rand : bool) (m : srmon) (l : list srstepr) (idx : nat) : option (nat * nat) :=
  match l with
  | [] => None
  | st :: l' => let (v, m') := srmon_pick rand m st in
                match v with Some c => Some (idx, c) | None => srmon_only rand m' l' (S idx) end
  end.
Fixpoint srexec (rand : bool) (size : nat) (s : srstate) (m : srmon) (l : list srstepr) (idx : nat) : verdict :=
  match l with
  | [] => VOk
  | st :: l' =>
      let (v, m') := srmon_pick rand m st in
      match v with
      | Some c => VMonFail idx c
      | None =>
          let fail := fun code => match srmon_only rand m' l' (S idx) with Some (i, c) => VMonFail i c | None => VMismatch idx code end in
          match srstep rand size s (sp_op st) with
          | None => fail 2
          | Some (s', rc, tr) =>
              if negb (seteq rc (sp_out st) && Nat.eqb (length rc) (length (sp_out st))) then fail 3
              else if negb (tevs_eqb tr (sp_trace st)) then fail 4
              else srexec rand size s' m' l' (S idx)
          end
      end
  end.
Definition check_srcase_for (c : srcase) : verdict :=
  srexec (sr_rand c) (sr_size c) srinit {| sm_truth := srinit; sm_view := tview0; sm_delivered := [] |} (sr_steps c) 0.
End ForProperty.
Definition check_srcase := check_srcase_for 0.
