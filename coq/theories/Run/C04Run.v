From Coq Require Import List Bool Arith.
Import ListNotations.
From PS Require Import Model.Verdict Run.Verdict.

Record case := {
  k_setup : setup; k_qfull : bool (* the validation queue was full when the copies of the message arrived *);
  k_from : peer; k_during : list peer; k_after : list peer;
  o_delivered : bool;
  o_reason : nat;                 (* RejectMessage reason traced for this message: 0 none, 1 validation failed, 2 ignored, 3 throttled, 4 queue full *)
  o_pub_err : bool;               (* local only: Publish returned an error *)
  o_invoked : list bool;          (* per validator of s_vals: it was called for this message *)
  o_penalties : list (peer * nat) (* invalid-message-delivery counters of the fake peers afterwards *)
}.

Fixpoint cnt (p : nat) (l : list nat) : nat :=
  match l with [] => 0 | x :: l' => (if Nat.eqb p x then 1 else 0) + cnt p l' end.
Fixpoint plook (p : nat) (l : list (nat * nat)) : nat :=
  match l with [] => 0 | (q, n) :: l' => if Nat.eqb p q then n else plook p l' end.

Definition all_acc (s : setup) : bool := forallb (fun v => match norm (v_res v) with Acc => true | _ => false end) (s_vals s).
Definition any_rej_invoked (c : case) : bool :=
  existsb (fun vi => snd vi && match norm (v_res (fst vi)) with Rej => true | _ => false end)
          (combine (s_vals (k_setup c)) (o_invoked c)).
Definition any_rej (s : setup) : bool := existsb (fun v => match norm (v_res v) with Rej => true | _ => false end) (s_vals s).

(* configuration-level facts (inputs of the case, not model output): no inline validator rejects; some
   asynchronous validator whose throttle is free rejects.  Only an earlier inline Reject or an exhausted
   throttle excuses a validator from being consulted - an Ignore does not. *)
Definition inline_rej_cfg (s : setup) : bool :=
  existsb (fun v => match norm v with Rej => true | _ => false end) (inl s).
Fixpoint async_rej_from (s : setup) (l : list vres) (j : nat) : bool :=
  match l with
  | [] => false
  | v :: r => (match norm v with Rej => negb (nth_thr s j) | _ => false end) || async_rej_from s r (S j)
  end.
Definition async_rej_unthrottled (s : setup) : bool := async_rej_from s (asy s) 0.

(* the property on observed data:
   1 delivered although some applicable validator does not accept;
   2 somebody penalised although no validator rejects;
   3 an invoked validator rejected but a forwarder (first sender or duplicate during validation) is not penalised;
   4 a local publication that fails validation did not return an error, or was delivered;
   5 an asynchronous validator that should have been consulted rejects, yet a forwarder is not penalised;
   6 delivered although an applicable validator was never consulted (so it cannot have returned Accept) *)
Definition monitor (c : case) : nat :=
  let s := k_setup c in
  if o_delivered c && negb (all_acc s) then 1
  else if o_delivered c && negb (forallb (fun b => b) (o_invoked c) && Nat.eqb (length (o_invoked c)) (length (s_vals s))) then 6
  else if negb (any_rej s) && existsb (fun pn => Nat.ltb 0 (snd pn)) (o_penalties c) then 2
  else if negb (s_local s) && any_rej_invoked c
          && negb (forallb (fun p => Nat.ltb 0 (plook p (o_penalties c))) (k_from c :: k_during c)) then 3
  else if s_local s && negb (all_acc s) && (negb (o_pub_err c) || o_delivered c) then 4
  else if negb (s_local s) && negb (k_qfull c) && negb (inline_rej_cfg s) && negb (s_global_thr s) && async_rej_unthrottled s 
          && negb (forallb (fun p => Nat.ltb 0 (plook p (o_penalties c))) (k_from c :: k_during c)) then 5
  else 0.

(* expected invocation pattern *)
Fixpoint expect_invoked (s : setup) (vals : list vcfg) (inl_left : nat) (async_ok : bool) (j : nat) : list bool :=
  match vals with
  | [] => []
  | v :: r =>
      if v_inline v || s_local s
      then (match inl_left with O => false | S _ => true end) :: expect_invoked s r (pred inl_left) async_ok j
      else (async_ok && negb (nth_thr s j)) :: expect_invoked s r inl_left async_ok (S j)
  end.

Definition bools_eqb (a b : list bool) : bool :=
  Nat.eqb (length a) (length b) && forallb (fun p => Bool.eqb (fst p) (snd p)) (combine a b).

Definition any_inline_rej_b (s : setup) : bool :=
  existsb (fun v => match of_v v with TRej => true | _ => false end) (inl s).

Definition check_case (c : case) : verdict :=
  let m := monitor c in
  if negb (Nat.eqb m 0) then VMonFail 0 m else
  let s := k_setup c in
  let f := fate_q s (k_qfull c) in
  let dropped := k_qfull c && queued s in
  let exp_del := match f with Deliver => true | _ => false end in
  let exp_reason := if dropped then 4 else match f with Deliver => 0 | RejectPenalise => 1 | IgnoreNoPenalty => 2 | ThrottledNoPenalty => 3 end in
  let async_ok := negb (any_inline_rej_b s) && negb (s_global_thr s) in
  let pens := snd (drun dinit (map SDup (k_during c) ++ [SFate (k_from c) f] ++ map SDup (k_after c))) in
  if negb (Bool.eqb (o_delivered c) exp_del) then VMismatch 0 1
  else if negb (s_local s) && negb (Nat.eqb (o_reason c) exp_reason) then VMismatch 0 2   (* raw tracers are not told about local rejections *)
  else if s_local s && negb (Bool.eqb (o_pub_err c) (negb exp_del)) then VMismatch 0 3
  else if negb (bools_eqb (o_invoked c) (if dropped then map (fun _ => false) (s_vals s) else expect_invoked s (s_vals s) (executed_inline s) async_ok 0)) then VMismatch 0 4
  else if negb (s_local s) && negb (forallb (fun pn => Nat.eqb (snd pn) (cnt (fst pn) pens)) (o_penalties c)) then VMismatch 0 5
  else VOk.
