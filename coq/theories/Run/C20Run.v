From Coq Require Import List Bool NArith Arith.
Import ListNotations.
From PS Require Import Model.SeqnoVal Run.Verdict.
Local Open Scope N_scope.

Record case := {
  c_ops : list action;
  c_results : list (tid * vres);        (* verdict each validation returned *)
  c_store : list (author * N);          (* final metadata store, decoded *)
  c_accepts : list (author * N);        (* (author, seqno) of accepted messages in acceptance order *)
  c_penalised : list tid                (* validations after which the score counters of a forwarder of that message had risen *)
}.

Definition vres_eqb (a b : vres) : bool :=
  match a, b with Accept, Accept | Ignore, Ignore => true | _, _ => false end.
Fixpoint rget (i : tid) (l : list (tid * vres)) : option vres :=
  match l with [] => None | (j, v) :: l' => if Nat.eqb i j then Some v else rget i l' end.

Definition results_agree (obs model : list (tid * vres)) : bool :=
  forallb (fun e => match rget (fst e) model with Some v => vres_eqb v (snd e) | None => false end) obs
  && forallb (fun e => match rget (fst e) obs with Some v => vres_eqb v (snd e) | None => false end) model.

(* monitor on observed data: strictly increasing per author in acceptance order; store = highest accepted *)
Definition monitor (c : case) : nat :=
  let authors := map fst (c_accepts c) ++ map fst (c_store c) in
  if negb (forallb (fun a => strictly_decreasing (acc_of a (rev (c_accepts c)))) authors) then 1%nat
  else if negb (forallb (fun a => nonce_of a (c_store c) =?
                                  match acc_of a (rev (c_accepts c)) with [] => 0 | n :: _ => n end) authors) then 2%nat
  (* neither an accepted nor an ignored message costs any of its forwarders anything (no validation here rejects) *)
  else if existsb (fun i => match rget i (c_results c) with Some _ => true | None => false end) (c_penalised c) then 3%nat
  (* an accepted number exceeds the stored one, which is at least 0: zero (an absent or undecodable field) is never accepted *)
  else if existsb (fun e => snd e =? 0) (c_accepts c) then 4%nat
  else 0%nat.

Definition check_case (c : case) : verdict :=
  let m := monitor c in
  if negb (Nat.eqb m 0) then VMonFail 0 m else
  match run init (c_ops c) with
  | None => VMismatch 0 1
  | Some s =>
      if negb (results_agree (c_results c) (results s)) then VMismatch 0 2
      else if negb (forallb (fun a => nonce_of a (c_store c) =? nonce_of a (store s))
                            (map fst (c_store c) ++ map fst (store s))) then VMismatch 0 3
      else if negb (match threads s with [] => true | _ => false end) then VMismatch 0 4
      else VOk
  end.
