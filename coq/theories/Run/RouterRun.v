(* Runner for router histories: every step's drained control messages, behaviour-penalty delta and the
   snapshot of mesh / fanout / backoff are compared with Model.Router; monitors for C07 and C08 are
   evaluated on the observed data. *)
From Coq Require Import List Bool ZArith Arith.
Import ListNotations.
From PS Require Import Model.Router Run.Verdict.
Local Open Scope Z_scope.

Record snapshot := { sn_mesh : list (topic * list peer); sn_fanout : list (topic * list peer);
                     sn_backoff : list (topic * list (peer * Z)) }.

(* harness operations: the router operations, with Join reporting the whole grafted set *)
Inductive hop :=
| OAddPeer (p : peer) (i : pinfo) | ODisconnect (p : peer)
| OSub (p : peer) (t : topic) | OUnsub (p : peer) (t : topic)
| OJoinObs (t : topic) (grafted : list peer) | OLeave (t : topic)
| ORecvGraft (p : peer) (ts : list topic)
| ORecvPrune (p : peer) (prs : list (topic * option Z))
| OHeartbeat (obs : list (topic * list hev)) (fobs : list (topic * list peer))
| OAdvance (d : Z)
| OFanoutPub (t : topic) (chosen : list peer)
| ODirect (p : peer) (on : bool).         (* the peer becomes / stops being a direct peer (the harness only marks peers that are in no mesh) *)

Record rstep := { st_scores : list (peer * Z); st_op : hop; st_ctl : list ctl (* GRAFT / PRUNE the step produced: queued for the wire, or dropped because the queue was full *);
                  st_retried : list ctl (* GRAFT / PRUNE that had been dropped earlier and went out (or were dropped again) in this step *);
                  st_snap : snapshot; st_pen : nat }.
Record rcase := { rc_params : params; rc_steps : list rstep }.

Definition to_rop (P : params) (sc : list (peer * Z)) (s : rstate) (h : hop) : option rop :=
  match h with
  | OAddPeer p i => Some (Router.OAddPeer p i)
  | ODisconnect p => Some (Router.ODisconnect p)
  | OSub p t => Some (Router.OSub p t)
  | OUnsub p t => Some (Router.OUnsub p t)
  | OJoinObs t g =>
      match aget t (mesh s), aget t (fanout s) with
      | Some _, _ => Some (OJoin t g)
      | None, Some fan =>
          let kept := filter (fun p => negb ((score_of sc p <? 0) || in_backoff s t p)) fan in
          if subset kept g then Some (OJoin t (filter (fun p => negb (memb p kept)) g)) else None
      | None, None => Some (OJoin t g)
      end
  | OLeave t => Some (Router.OLeave t)
  | ORecvGraft p ts => Some (Router.ORecvGraft p ts)
  | ORecvPrune p prs => Some (Router.ORecvPrune p prs)
  | OHeartbeat o f => Some (Router.OHeartbeat o f)
  | OAdvance d => Some (Router.OAdvance d)
  | OFanoutPub t ch => Some (Router.OFanoutPub t ch)
  | ODirect p true => Some (Router.OAddDirect p)
  | ODirect p false => Some (Router.ORemoveDirect p)
  end.

Definition oz_eqb (a b : option Z) : bool :=
  match a, b with Some x, Some y => x =? y | None, None => true | _, _ => false end.
Definition ctl_eqb (a b : ctl) : bool :=
  match a, b with
  | CGraft p t, CGraft q u => Nat.eqb p q && Nat.eqb t u
  | CPrune p t x, CPrune q u y => Nat.eqb p q && Nat.eqb t u && oz_eqb x y
  | _, _ => false
  end.
Definition ctls_eqb (a b : list ctl) : bool :=
  Nat.eqb (length a) (length b)
  && forallb (fun x => Nat.eqb (length (filter (ctl_eqb x) a)) (length (filter (ctl_eqb x) b))) a.

Definition setmap_eqb (a b : list (topic * list peer)) : bool :=
  Nat.eqb (length a) (length b)
  && forallb (fun e => match aget (fst e) b with Some l => seteq (snd e) l | None => false end) a.
Definition zmap_sub (a b : list (peer * Z)) : bool :=
  forallb (fun e => match aget (fst e) b with Some z => z =? snd e | None => false end) a.
Definition bomap_eqb (a b : list (topic * list (peer * Z))) : bool :=
  Nat.eqb (length a) (length b)
  && forallb (fun e => match aget (fst e) b with
                       | Some l => Nat.eqb (length l) (length (snd e)) && zmap_sub (snd e) l
                       | None => false end) a.

(* ---- monitors on observed data ---- *)
Record mst := {
  m_now : Z;
  m_deadline : list ((topic * peer) * Z);   (* latest deadline we know to be in force for (t,p): from PRUNEs we sent / received, Leave *)
  m_joined : list topic;
  m_conn : list peer;      (* peers with an outbound stream, from the operations themselves *)
  m_px : list peer;        (* connected peers that speak v1.1 or later *)
  m_direct : list peer     (* direct peers, from the operations themselves *)
}.

(* C08: a GRAFT for (t,p) must not leave before every deadline established for (t,p).  Deadlines
   visible on the wire: PRUNE we sent (its backoff field, or the configured one for v1.0 peers),
   PRUNE we received (its backoff or the configured one), Leave (unsubscribe backoff, = the field of
   the PRUNE we send). *)
Fixpoint dl_get (t : topic) (p : peer) (l : list ((topic * peer) * Z)) : option Z :=
  match l with
  | [] => None
  | ((t', p'), z) :: l' => if Nat.eqb t t' && Nat.eqb p p' then Some z else dl_get t p l'
  end.
Definition dl_set (t : topic) (p : peer) (z : Z) (l : list ((topic * peer) * Z)) : list ((topic * peer) * Z) :=
  ((t, p), match dl_get t p l with Some old => Z.max old z | None => z end) :: l.

Definition mon_step (P : params) (m : mst) (st : rstep) : option nat * mst :=
  let now' := match st_op st with OAdvance d => m_now m + d | _ => m_now m end in
  (* GRAFTs sent in this step *)
  let early := existsb (fun c => match c with
                                 | CGraft p t => match dl_get t p (m_deadline m) with Some d => now' <? d | None => false end
                                 | _ => false end) (st_ctl st ++ st_retried st) in
  (* deadlines established in this step *)
  let dl1 := fold_left (fun acc c => match c with
                                     | CPrune p t bo =>
                                         (* the PRUNE that answers a direct peer's GRAFT starts no backoff *)
                                         if memb p (m_direct m) then acc else
                                         let iv := match bo with
                                                   | Some secs => secs * 1000000000
                                                   | None => match st_op st with OLeave _ => pUnsubBackoff P | _ => pPruneBackoff P end
                                                   end in
                                         dl_set t p (now' + iv) acc
                                     | _ => acc end) (st_ctl st) (m_deadline m) in
  let dl2 := match st_op st with
             | ORecvPrune p prs =>
                 fold_left (fun acc e =>
                              if memb (fst e) (m_joined m)
                              then dl_set (fst e) p (now' + match snd e with Some secs => secs * 1000000000 | None => pPruneBackoff P end) acc
                              else acc) prs dl1
             | _ => dl1
             end in
  let joined' := match st_op st with
                 | OJoinObs t _ => sadd t (m_joined m)
                 | OLeave t => srem t (m_joined m)
                 | _ => m_joined m
                 end in
  let conn' := match st_op st with
               | OAddPeer p _ => sadd p (m_conn m)
               | ODisconnect p => srem p (m_conn m)
               | _ => m_conn m
               end in
  let px' := match st_op st with
             | OAddPeer p i => if pi_px i then sadd p (m_px m) else srem p (m_px m)
             | ODisconnect p => srem p (m_px m)
             | _ => m_px m
             end in
  (* every PRUNE sent to a peer speaking v1.1 or later states the backoff period the node itself applies (the unsubscribe
     backoff when it leaves the topic, the prune backoff otherwise); a PRUNE to a v1.0 peer states none.  A PRUNE that is
     a retry of a dropped one may state either period *)
  let secs := fun z => z / 1000000000 in
  let states_ok := fun (retry : bool) c =>
        match c with
        | CPrune p _ bo =>
            if memb p (m_px m) then
              match bo with
              | Some b => if retry then (b =? secs (pPruneBackoff P)) || (b =? secs (pUnsubBackoff P))
                          else b =? secs (match st_op st with OLeave _ => pUnsubBackoff P | _ => pPruneBackoff P end)
              | None => false
              end
            else match bo with None => true | Some _ => false end
        | _ => true
        end in
  let bad_prune := negb (forallb (states_ok false) (st_ctl st)) || negb (forallb (states_ok true) (st_retried st)) in
  let direct' := match st_op st with
                 | ODirect p true => sadd p (m_direct m)
                 | ODirect p false => srem p (m_direct m)
                 | _ => m_direct m
                 end in
  (* a GRAFT and a PRUNE for the same peer and topic produced by one operation: whichever came first, the GRAFT is inside the
     backoff the PRUNE starts, or the PRUNE throws out a peer grafted in the same breath *)
  let both := existsb (fun c => match c with
                                | CGraft p t => existsb (fun d => match d with CPrune q u _ => Nat.eqb p q && Nat.eqb t u | _ => false end) (st_ctl st)
                                | _ => false end) (st_ctl st) in
  (* every GRAFT received inside a backoff the node knows to be in force for that peer and topic costs the peer at least one
     behaviour penalty (two within the graft-flood threshold of the PRUNE), also when several of them come in one RPC *)
  let unpaid := match st_op st with
                | ORecvGraft p ts =>
                    Nat.ltb (st_pen st)
                            (fold_left (fun acc t =>
                               if memb t (m_joined m) && negb (memb p (m_direct m))
                               then match dl_get t p (m_deadline m) with
                                    | Some d => if (now' <? d)%Z
                                                then (acc + (if (now' <? d + pGraftFlood P - pPruneBackoff P)%Z then 2 else 1))%nat   (* twice inside the graft-flood window *)
                                                else acc
                                    | None => acc end
                               else acc) ts 0%nat)
                | _ => false end in
  (if early then Some 81%nat else if both then Some 84%nat else if bad_prune then Some 83%nat else if unpaid then Some 85%nat else None,
   {| m_now := now'; m_deadline := dl2; m_joined := joined'; m_conn := conn'; m_px := px'; m_direct := direct' |}).

(* C07 on the snapshot: a mesh exists exactly for joined topics, fanout only for topics not joined;
   after a heartbeat no mesh member has a negative score *)
Definition mon_c07 (m' : mst) (st : rstep) : option nat :=
  let sn := st_snap st in
  if negb (seteq (map fst (sn_mesh sn)) (m_joined m')) then Some 71%nat
  else if existsb (fun e => memb (fst e) (m_joined m')) (sn_fanout sn) then Some 72%nat
  (* mesh members are currently connected peers *)
  else if existsb (fun e => existsb (fun p => negb (memb p (m_conn m'))) (snd e)) (sn_mesh sn) then Some 78%nat
  (* no direct peer is a mesh member, and none is sent a GRAFT *)
  else if existsb (fun e => existsb (fun p => memb p (m_direct m')) (snd e)) (sn_mesh sn)
          || existsb (fun c => match c with CGraft p _ => memb p (m_direct m') | _ => false end) (st_ctl st ++ st_retried st) then Some 70%nat
  else match st_op st with
       | OHeartbeat obs _ =>
           if existsb (fun e => existsb (fun p => score_of (st_scores st) p <? 0) (snd e)) (sn_mesh sn) then Some 73%nat
           else if existsb (fun e =>   (* a peer added by this heartbeat although it is under backoff *)
                     existsb (fun h => match h with
                                       | HGraft p =>
                                           memb p (aget_l (fst e) (sn_mesh sn))
                                           && match aget (fst e) (sn_backoff sn) with
                                              | Some m => match aget p m with Some ex => m_now m' <? ex | None => false end
                                              | None => false
                                              end
                                       | _ => false end) (snd e)) obs then Some 74%nat
           (* every peer the heartbeat adds on its own initiative is sent GRAFT, every still-connected peer it removes is sent PRUNE
              (sent = queued for the wire, or kept for a retry because the queue was full) *)
           else if existsb (fun e =>
                     existsb (fun h => match h with
                                       | HGraft p => negb (existsb (fun c => match c with CGraft q t => Nat.eqb q p && Nat.eqb t (fst e) | _ => false end) (st_ctl st))
                                       | HPrune p => memb p (m_conn m')
                                                     && negb (existsb (fun c => match c with CPrune q t _ => Nat.eqb q p && Nat.eqb t (fst e) | _ => false end) (st_ctl st))
                                       end) (snd e)) obs then Some 79%nat
           else None
       | _ => None
       end.

(* When the model refuses a heartbeat, the observation is looked at again WITHOUT relying on the order of the trace
   events, against the clauses of C07 themselves (the model state before the heartbeat has been validated against the
   implementation's snapshot at every earlier step).  Per joined topic, with M = the mesh minus its negative-score
   members, Pr / G = the peers the heartbeat pruned / grafted:
   75  M had reached Dhi but what was kept is not an admissible cut (not D members, fewer outbound members than
       min(Dout, available), or a top-Dscore member dropped for no reason);
   76  M was below Dlo but fewer peers were added than min(D - |M|, eligible candidates);
   77  a peer was added that is not an eligible candidate (in the mesh already, under backoff, direct, negative score,
       not in the topic or not speaking the mesh protocol). *)
Definition hb_diag (P : params) (sc : list (peer * Z)) (s : rstate) (obs : list (topic * list hev)) : option nat :=
  let s0 := clear_backoff P (set_time s (S (ticks s)) (now s)) in
  fold_left (fun acc e =>
    match acc with
    | Some c => Some c
    | None =>
        let t := fst e in
        let evs := match aget t obs with Some l => l | None => [] end in
        let Pr := concat (map (fun h => match h with HPrune p => [p] | _ => [] end) evs) in
        let G := concat (map (fun h => match h with HGraft p => [p] | _ => [] end) evs) in
        let neg := filter (fun p => score_of sc p <? 0) (snd e) in
        let M := filter (fun p => negb (memb p neg)) (snd e) in
        let s1 := do_prunes P s0 t neg in
        let cands := gs_peers s1 t (fun p => elig s1 t p && (0 <=? score_of sc p)) in
        if Nat.leb (pDhi P) (length M) && negb (cut_ok P sc s1 M (filter (fun p => negb (memb p Pr)) M)) then Some 75%nat
        else if Nat.ltb (length M) (pDlo P) && Nat.ltb (length G) (take_count (pD P - length M) cands) then Some 76%nat
        else if existsb (fun g => negb (memb g cands)) G then Some 77%nat
        else None
    end) (mesh s0) None.

Section ForProperty.
Variable which : nat.   (* 7: C07 monitor only, 8: C08 monitor only, 0: both *)
Definition keep (v : option nat) : option nat :=
  match v with Some c => if Nat.eqb which 0 || Nat.eqb (c / 10) which then Some c else None | None => None end.

Fixpoint mon_only (P : params) (m : mst) (l : list rstep) (idx : nat) : option (nat * nat) :=
  match l with
  | [] => None
  | st :: l' =>
      let (v, m') := mon_step P m st in
      match keep v with
      | Some c => Some (idx, c)
      | None => match keep (mon_c07 m' st) with
                | Some c => Some (idx, c)
                | None => mon_only P m' l' (S idx)
                end
      end
  end.

Fixpoint exec (P : params) (s : rstate) (m : mst) (l : list rstep) (idx : nat) : verdict :=
  match l with
  | [] => VOk
  | st :: l' =>
      let (v, m') := mon_step P m st in
      match keep v with
      | Some c => VMonFail idx c
      | None =>
        match keep (mon_c07 m' st) with
        | Some c => VMonFail idx c
        | None =>
          let fail := fun code => match mon_only P m' l' (S idx) with Some (i, c) => VMonFail i c | None => VMismatch idx code end in
          match to_rop P (st_scores st) s (st_op st) with
          | None => fail 1%nat
          | Some o =>
              match step P (st_scores st) s o with
              | None =>
                  match st_op st with
                  | OHeartbeat obs _ => match keep (hb_diag P (st_scores st) s obs) with Some c => VMonFail idx c | None => fail 2%nat end
                  | _ => fail 2%nat
                  end
              | Some (s', c, pen) =>
                  if negb (ctls_eqb c (st_ctl st)) then fail 3%nat
                  else if negb (Nat.eqb pen (st_pen st)) then fail 4%nat
                  else if negb (setmap_eqb (mesh s') (sn_mesh (st_snap st))) then fail 5%nat
                  else if negb (setmap_eqb (filter (fun e => match snd e with [] => false | _ => true end) (fanout s'))
                                           (filter (fun e => match snd e with [] => false | _ => true end) (sn_fanout (st_snap st)))) then fail 6%nat
                  else if negb (bomap_eqb (backoff s') (sn_backoff (st_snap st))) then fail 7%nat
                  else exec P s' m' l' (S idx)
              end
          end
        end
      end
  end.

Definition check_rcase_for (c : rcase) : verdict :=
  if negb (valid_params (rc_params c)) then VMismatch 0 99
  else exec (rc_params c) init {| m_now := 0; m_deadline := []; m_joined := []; m_conn := []; m_px := []; m_direct := [] |} (rc_steps c) 0.
End ForProperty.
Definition check_rcase := check_rcase_for 0.
