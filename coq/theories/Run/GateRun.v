(* Runner for the gater / dispatch / peer-exchange part of C09. *)
From Coq Require Import List Bool ZArith QArith.
Import ListNotations.
From PS Require Import Model.Router Model.Gate Run.Verdict.

Inductive gcase9 :=
| GGate (P : gateparams) (g : gater) (st : gstats) (is_direct : bool) (score graylist : Z)
        (observed : accept)                      (* what GossipSubRouter.AcceptFrom returned *)
        (control_done payload_done : bool)       (* an RPC with a GRAFT and a message was then handed to handleIncomingRPC: was the GRAFT
                                                    handled, was the message delivered (only recorded when the verdict is deterministic) *)
        (deterministic : bool)
| GPx (score acceptPX : Z) (connected : bool) (r : pxrec) (followed : bool)
(* one GRAFT RPC: per GRAFTed topic what the node did (PRUNE sent back, number of peer-exchange records in it, sender admitted) *)
| GGraftPx (doPX speaks_px is_direct : bool) (score : Z) (outbound : bool) (gs : list graft_in)
           (pruned : list bool) (npx : list nat) (admitted : list bool)
(* one PRUNE sent by a heartbeat to a mesh member *)
| GHbPx (doPX speaks_px : bool) (score : Z) (npx : nat).

Definition accept_eqb (a b : accept) : bool :=
  match a, b with AcceptNone, AcceptNone | AcceptControl, AcceptControl | AcceptAll, AcceptAll => true | _, _ => false end.

Definition bools_eq (a b : list bool) : bool :=
  Nat.eqb (length a) (length b) && forallb (fun p => Bool.eqb (fst p) (snd p)) (combine a b).

Definition check_gcase9 (c : gcase9) : verdict :=
  match c with
  | GGate P g st d sc gl obs cdone pdone det =>
      let lo := router_accept d sc gl (Some (gater_accept P g st 0)) in
      let hi := router_accept d sc gl (Some (gater_accept P g st (999999999 # 1000000000))) in
      (* monitors on the observation: the gater alone never yields AcceptNone; control is processed unless graylisted *)
      (* RPCs of direct peers are always accepted in full, whatever the gater and the score say *)
      if d && negb (accept_eqb obs AcceptAll) then VMonFail 0 97
      else if negb d && negb (sc <? gl)%Z && accept_eqb obs AcceptNone then VMonFail 0 98
      else if det && negb (accept_eqb obs AcceptNone) && negb cdone then VMonFail 0 98
      else if det && accept_eqb obs AcceptControl && pdone then VMonFail 0 99
      else if det && accept_eqb obs AcceptNone && (cdone || pdone) then VMonFail 0 91
      else if negb (accept_eqb obs lo || accept_eqb obs hi) then VMismatch 0 3
      else if det && negb (Bool.eqb (p_control (dispatch obs)) cdone && Bool.eqb (p_payload (dispatch obs)) pdone) then VMismatch 0 5
      else VOk
  | GPx sc thr conn r f =>
      if f && ((sc <? thr)%Z || match r with PxInvalid => true | _ => false end) then VMonFail 0 90
      else if negb (Bool.eqb (px_followed sc thr conn r) f) then VMismatch 0 6
      else VOk
  | GGraftPx doPX spx d sc ob gs pruned npx adm =>
      let '(mpr, madm, mpx) := graft_reply doPX spx true d (sc <? 0)%Z ob gs in
      if (sc <? 0)%Z && existsb (fun n => Nat.ltb 0 n) npx then VMonFail 0 92      (* peer exchange offered to a negative-score peer *)
      else if (sc <? 0)%Z && existsb (fun b => b) adm then VMonFail 0 96             (* negative-score peer admitted to a mesh *)
      else if negb (bools_eq pruned mpr) then VMismatch 0 7
      else if negb (bools_eq adm madm) then VMismatch 0 8
      else if negb (forallb (fun pn => Bool.eqb (Nat.ltb 0 (snd pn)) (fst pn && mpx)) (combine pruned npx)) then VMismatch 0 9
      else VOk
  | GHbPx doPX spx sc npx =>
      if (sc <? 0)%Z && Nat.ltb 0 npx then VMonFail 0 93                             (* heartbeat PRUNE of a negative-score peer carries peer exchange *)
      else if negb (Bool.eqb (Nat.ltb 0 npx) (hb_prune_px doPX spx true (sc <? 0)%Z)) then VMismatch 0 10
      else VOk
  end.
