(* Runner for C01: deliveries observed in settled real networks. *)
From Coq Require Import List Bool Arith.
Import ListNotations.
From PS Require Import Model.Router Model.Flood Run.Verdict.

Record fpub := { fp_src : nat; fp_counts : list (nat * list nat) }.   (* node -> copies received by each of its subscriptions *)
Record ncase := {
  nc_edges : graph;                 (* live connections between overlay members (and from the publisher into the overlay) *)
  nc_subscribers : list nat;
  nc_pubs : list fpub
}.

Definition check_ncase (c : ncase) : verdict :=
  let fix go (l : list fpub) (idx : nat) : verdict :=
    match l with
    | [] => VOk
    | p :: l' =>
        let d := delivered (nc_edges c) (fp_src p) in
        (* the harness claims the overlay is connected from the publisher: the model must reach every subscriber *)
        if negb (forallb (fun v => memb v d) (nc_subscribers c)) then VMismatch idx 2
        (* monitor on the observation: every subscription of every subscriber got the message ... *)
        else if negb (forallb (fun v => match aget v (fp_counts p) with
                                        | Some cs => negb (match cs with [] => true | _ => false end) && forallb (fun k => negb (Nat.eqb k 0)) cs
                                        | None => false end) (nc_subscribers c)) then VMonFail idx 11
        (* ... exactly once, and nobody else got anything twice *)
        else if existsb (fun e => existsb (fun k => Nat.ltb 1 k) (snd e)) (fp_counts p) then VMonFail idx 12
        else go l' (S idx)
    end in
  go (nc_pubs c) 0.
