(* Runner for gossip-level router histories (C06, C09, C17): step-by-step comparison of the wire
   output and of a state snapshot with Model.Gossip, plus monitors evaluated on observed data. *)
From Coq Require Import List Bool ZArith Arith.
Import ListNotations.
From PS Require Import Model.Router Model.Gossip Model.Trace Run.Verdict.
Local Open Scope Z_scope.

Record gsnap := { gn_mesh : list (topic * list peer); gn_fanout : list (topic * list peer);
                  gn_backoff : list (topic * list (peer * Z));
                  gn_unwanted : list (peer * list mid); gn_cache : list mid }.

Record gstepr := { gs_scores : list (peer * Z); gs_op : gop; gs_out : list gout; gs_snap : gsnap;
                   gs_trace : list tev;                (* the events an attached EventTracer received during the step *)
                   gs_nrpc : list (peer * nat) }.       (* RPCs found in each peer's queue after the step *)
Record gcase := { gc_params : gparams; gc_steps : list gstepr }.

(* ---- comparing outputs (id lists as sets) ---- *)
Definition oz_eqb (a b : option Z) : bool := match a, b with Some x, Some y => x =? y | None, None => true | _, _ => false end.
Definition ctl_eqb (a b : ctl) : bool :=
  match a, b with
  | CGraft p t, CGraft q u => Nat.eqb p q && Nat.eqb t u
  | CPrune p t x, CPrune q u y => Nat.eqb p q && Nat.eqb t u && oz_eqb x y
  | _, _ => false
  end.
Definition gout_eqb (a b : gout) : bool :=
  match a, b with
  | OMsg p i, OMsg q j => Nat.eqb p q && Nat.eqb i j
  | OIDontWant p _ l, OIDontWant q _ m => Nat.eqb p q && seteq l m
  | OIWant p l, OIWant q m => Nat.eqb p q && seteq l m
  | OIHave p t l, OIHave q u m => Nat.eqb p q && Nat.eqb t u && seteq l m
  | OCtl x, OCtl y => ctl_eqb x y
  | OPenalty p n, OPenalty q m => Nat.eqb p q && Nat.eqb n m
  | _, _ => false
  end.
Definition gouts_eqb (a b : list gout) : bool :=
  Nat.eqb (length a) (length b)
  && forallb (fun x => Nat.eqb (length (filter (gout_eqb x) a)) (length (filter (gout_eqb x) b))) a.

Definition setmap_eqb (a b : list (nat * list nat)) : bool :=
  Nat.eqb (length a) (length b)
  && forallb (fun e => match aget (fst e) b with Some l => seteq (snd e) l | None => false end) a.
Definition nonempty_entries (l : list (nat * list nat)) := filter (fun e => match snd e with [] => false | _ => true end) l.
Definition zmap_sub (a b : list (peer * Z)) : bool :=
  forallb (fun e => match aget (fst e) b with Some z => z =? snd e | None => false end) a.
Definition bomap_eqb (a b : list (topic * list (peer * Z))) : bool :=
  Nat.eqb (length a) (length b)
  && forallb (fun e => match aget (fst e) b with
                       | Some l => Nat.eqb (length l) (length (snd e)) && zmap_sub (snd e) l
                       | None => false end) a.

Definition snap_ok (g : gstate) (sn : gsnap) : nat :=
  if negb (setmap_eqb (mesh (core g)) (gn_mesh sn)) then 5
  else if negb (setmap_eqb (nonempty_entries (fanout (core g))) (nonempty_entries (gn_fanout sn))) then 6
  else if negb (bomap_eqb (backoff (core g)) (gn_backoff sn)) then 7
  else if negb (setmap_eqb (map (fun e => (fst e, map fst (snd e))) (unwanted g)) (gn_unwanted sn)) then 8
  else if negb (seteq (mmsgs (mc g)) (gn_cache sn)) then 9
  else 0%nat.

(* ---- observed ground truth: structure from the operations, dynamic sets from the snapshots ---- *)
Definition truth_step (P : gparams) (sc : list (peer * Z)) (g : gstate) (st : gstepr) : gstate :=
  let g1 := match gs_op st with
            | GAddPeer p i idw => match gstep P sc g (GAddPeer p i idw) with Some (g', _) => g' | None => g end
            | GCore (OSub p t) => set_core g (sub_peer (core g) p t)
            | GCore (OUnsub p t) => set_core g (unsub_peer (core g) p t)
            | GCore (ODisconnect p) => match gstep P sc g (GCore (ODisconnect p)) with Some (g', _) => g' | None => g end
            | GCore (OAddDirect p) => set_core g (set_direct (core g) (sadd p (direct (core g))))
            | GCore (ORemoveDirect p) => set_core g (set_direct (core g) (srem p (direct (core g))))
            | GCore (OAdvance d) => set_core g (set_time (core g) (ticks (core g)) (now (core g) + d))
            | _ => g
            end in
  let sn := gs_snap st in
  let c := core g1 in
  let c' := {| peers := peers c; tmap := tmap c; direct := direct c; mesh := gn_mesh sn; fanout := gn_fanout sn; lastpub := lastpub c;
               backoff := gn_backoff sn; ticks := ticks c; now := now c; glog := [] |} in
  {| core := c'; mc := mc g1; peerhave := peerhave g1; iasked := iasked g1; peerdontwant := peerdontwant g1;
     unwanted := map (fun e => (fst e, map (fun i => (i, 1%nat)) (snd e))) (gn_unwanted sn);
     promises := []; seen := seen g1; idw_peers := idw_peers g1 |}.

(* per-heartbeat and cumulative counters kept by the monitor *)
Record mon := {
  mo_truth : gstate;                       (* ground truth BEFORE the step *)
  mo_asked : list (peer * nat);            (* ids requested per peer since the last heartbeat *)
  mo_served : list ((mid * peer) * nat);   (* copies served through IWANT per (id, peer) *)
  mo_lastpub : list (topic * Z);           (* observed time of the last publication per topic *)
  mo_view : tview;                         (* C19: the view rebuilt from the trace so far *)
  mo_delivered : list mid;                 (* C19: ids that had a DELIVER_MESSAGE event *)
  mo_hb : nat;                             (* heartbeats seen so far *)
  mo_born : list (mid * nat)               (* per id: the number of heartbeats seen when it first showed up in the message cache *)
}.

Definition msg_outs (o : list gout) : list (peer * mid) :=
  concat (map (fun x => match x with OMsg p i => [(p, i)] | _ => [] end) o).

Definition below (sc : list (peer * Z)) (thr : Z) (p : peer) : bool := score_of sc p <? thr.

(* which property family a code belongs to: 6x -> C06, 9x -> C09, 17x -> C17 *)
Definition mon_step (ign : nat -> bool) (P : gparams) (m : mon) (st : gstepr) : option nat * mon :=
  let hit := fun (c : nat) (b : bool) => b && negb (ign c) in
  let g := mo_truth m in
  let s := core g in
  let sc := gs_scores st in
  let out := gs_out st in
  let recips := fun i => map fst (filter (fun pi => Nat.eqb i (snd pi)) (msg_outs out)) in
  let v :=
    match gs_op st with
    | GPublish msg _ | GRecvMsgs _ [msg] _ =>
        let t := m_topic msg in
        let R := recips (m_id msg) in
        let tm := aget_l t (tmap s) in
        let excl := fun p => (match m_from msg with Some q => Nat.eqb p q | None => false end)
                             || (match m_author msg with Some q => Nat.eqb p q | None => false end) in
        let accepted := match gs_op st with GRecvMsgs p _ _ => accept_from P sc g p | _ => true end in
        (* IDONTWANT goes only to members of the message's topic mesh that speak v1.2 or later, never to the sender, and only
           for a message at or above the size threshold *)
        if hit 170%nat (existsb (fun x => match x with
                                          | OIDontWant p _ _ =>
                                              negb (memb p (aget_l t (mesh s))) || negb (memb p (idw_peers g))
                                              || (match m_from msg with Some q => Nat.eqb p q | None => false end)
                                              || Nat.ltb (m_size msg) (gIDWThr P)
                                          | _ => false end) out) then Some 170%nat
        else if negb accepted then (if hit 91%nat (negb (match out with [] => true | _ => false end)) then Some 91%nat else None)
        else if hit 61%nat (existsb excl R) then Some 61%nat
        else if hit 62%nat (existsb (fun p => negb (memb p tm) && negb (memb p (aget_l t (mesh s))) && negb (memb p (aget_l t (fanout s)))) R) then Some 62%nat
        else if hit 68%nat (existsb (fun p => negb (memb p tm) && negb (memb p (aget_l t (mesh s)))) R) then Some 68%nat   (* fanout member that unsubscribed: known finding class *)
        else if hit 67%nat (existsb (fun p => negb (memb p tm)) R) then Some 67%nat     (* mesh member that is not (or no longer) subscribed: known finding class *)
        else if negb (match gs_op st, aget t (mesh s) with GRecvMsgs _ _ _, None => false | _, _ => true end) then
          (* a message in a topic the node is not subscribed to is dropped before the router sees it *)
          (if hit 62%nat (negb (match R with [] => true | _ => false end)) then Some 62%nat else None)
        else if negb (memb (m_id msg) (seen g)) && negb (gFlood P && match m_from msg with None => true | _ => false end) then
          if hit 63%nat (existsb (fun p => memb p tm && has_queue g p && negb (excl p) && negb (memb p R)) (direct s)) then Some 63%nat
          else if hit 64%nat (existsb (fun p => negb (speaks_mesh s p) && has_queue g p && negb (excl p)
                                    && negb (below sc (pPublishThr (gCore P)) p) && negb (memb p R)) tm) then Some 64%nat
          else if hit 65%nat (existsb (fun p => has_queue g p && negb (excl p) && negb (is_unwanted g p (m_id msg)) && negb (memb p R))
                          (aget_l t (mesh s))) then Some 65%nat
          else if hit 95%nat (existsb (fun p => speaks_mesh s p && negb (memb p (direct s)) && negb (memb p (aget_l t (mesh s)))
                                    && negb (memb p (aget_l t (fanout s)))   (* an existing fanout member is only dropped at the next heartbeat *)
                                    && below sc (pPublishThr (gCore P)) p) R) then Some 95%nat
          else None
        (* flood publishing: the node's own message goes to EVERY topic peer that is direct or at / above the publish threshold *)
        else if hit 69%nat (gFlood P && (match m_from msg with None => true | _ => false end) && negb (memb (m_id msg) (seen g))
                && existsb (fun p => has_queue g p && negb (excl p) && (memb p (direct s) || negb (below sc (pPublishThr (gCore P)) p))
                                     && negb (memb p R)) tm) then Some 69%nat
        else if hit 95%nat (gFlood P && (match m_from msg with None => true | _ => false end)
                && existsb (fun p => negb (memb p (direct s)) && below sc (pPublishThr (gCore P)) p) R) then Some 95%nat
        else None
    | GPublishLocal msg =>
        (* a local-only publication reaches nobody *)
        (if hit 66%nat (negb (match msg_outs out with [] => true | _ => false end)) then Some 66%nat else None)
    | GRecvIHave p _ _ pr =>
        if negb (accept_from P sc g p) || below sc (gGossipThr P) p
        then (if hit 94%nat (existsb (fun x => match x with OIWant _ _ => true | _ => false end) out) then Some 94%nat else None)
        else
          let n := fold_left (fun acc x => match x with OIWant _ l => (acc + length l)%nat | _ => acc end) out 0%nat in
          if hit 173%nat (Nat.ltb (gMaxIHaveLen P) (cget p (mo_asked m) + n)) then Some 173%nat
          (* the promise the tracer recorded (observed in its table) must be for an id that was really requested on the wire *)
          else if hit 176%nat (match pr with
                  | Some i => negb (existsb (fun x => match x with OIWant _ l => memb i l | _ => false end) out)
                  | None => false end) then Some 176%nat
          else if hit 178%nat (existsb (fun x => match x with OIWant _ l => existsb (fun i => memb i (seen g)) l | _ => false end) out) then Some 178%nat
          else None
    | GRecvIWant p _ =>
        if hit 93%nat ((negb (accept_from P sc g p) || below sc (gGossipThr P) p) && negb (match msg_outs out with [] => true | _ => false end)) then Some 93%nat
        else if hit 175%nat (existsb (fun pi => is_unwanted g (fst pi) (snd pi)) (msg_outs out)) then Some 175%nat
        else if hit 174%nat (existsb (fun pi => Nat.leb (gRetrans P) (tx_get (snd pi) (fst pi) (mo_served m))) (msg_outs out)) then Some 174%nat
        else None
    | GHeartbeat _ _ _ =>
        if hit 171%nat (existsb (fun x => match x with
                             | OIHave p t ids =>
                                 Nat.ltb (gMaxIHaveLen P) (length ids)
                             | _ => false end) out) then Some 171%nat
        (* an id is advertised only during the first HistoryGossip heartbeats after it entered the cache - heartbeats during which
           the node had nobody to talk to count as well *)
        else if hit 179%nat (existsb (fun x => match x with
                                  | OIHave _ _ ids =>
                                      existsb (fun i => match aget i (mo_born m) with
                                                        | Some b => Nat.leb (gHistGossip P) (mo_hb m - b)
                                                        | None => false end) ids
                                  | _ => false end) out) then Some 179%nat
        else if hit 172%nat (existsb (fun x => match x with
                                  | OIHave p t ids =>
                                      negb (memb p (aget_l t (tmap s))) || memb p (direct s) || negb (speaks_mesh s p)
                                      || memb p (aget_l t (gn_mesh (gs_snap st)))
                                  | _ => false end) out) then Some 172%nat
        else if hit 92%nat (existsb (fun x => match x with OIHave p _ _ => below sc (gGossipThr P) p | _ => false end) out) then Some 92%nat
        else if hit 97%nat (existsb (fun e => existsb (fun p => below sc (pPublishThr (gCore P)) p) (snd e)) (gn_fanout (gs_snap st))) then Some 97%nat
        (* a fanout whose topic was published to within FanoutTTL keeps every member that is still subscribed and at / above the publish threshold *)
        else if hit 60%nat (existsb (fun e =>
                   match aget (fst e) (mo_lastpub m), aget (fst e) (mesh s) with
                   | Some lp, None =>
                       negb (lp + pFanoutTTL (gCore P) <? now s)
                       && existsb (fun p => memb p (aget_l (fst e) (tmap s)) && negb (below sc (pPublishThr (gCore P)) p)
                                            && negb (memb p (aget_l (fst e) (gn_fanout (gs_snap st))))) (snd e)
                   | _, _ => false
                   end) (fanout s)) then Some 60%nat
        else None
    | GRecvIDontWant p _ =>
        (* one RPC makes the node remember at most MaxIDontWantLength new ids for the peer, however they are spread over its entries *)
        let before := map fst (match aget p (unwanted g) with Some l => l | None => [] end) in
        let fresh := filter (fun i => negb (memb i before)) (aget_l p (gn_unwanted (gs_snap st))) in
        if hit 91%nat (negb (accept_from P sc g p) && negb (match out with [] => true | _ => false end)) then Some 91%nat
        else if hit 177%nat (Nat.ltb (gMaxIDWLen P) (length fresh)) then Some 177%nat
        else None
    | GCore (ORecvGraft p _) | GCore (ORecvPrune p _) =>
        if hit 91%nat (negb (accept_from P sc g p) && negb (match out with [] => true | _ => false end)) then Some 91%nat else None
    | _ => None
    end in
  (* somebody with a negative score was added to a mesh in this step; a fanout set never holds more than D peers *)
  let v2 := match v with
            | Some c => Some c
            | None =>
                if hit 601%nat (existsb (fun e => Nat.ltb (pD (gCore P)) (length (snd e))) (gn_fanout (gs_snap st))) then Some 601%nat else
                if hit 96%nat (existsb (fun e => existsb (fun p => negb (memb p (aget_l (fst e) (mesh s))) && (score_of sc p <? 0)) (snd e))
                           (gn_mesh (gs_snap st))) then Some 96%nat else None
            end in
  let asked' := match gs_op st with
                | GHeartbeat _ _ _ => []
                | GRecvIHave p _ _ _ =>
                    aset p (cget p (mo_asked m) + fold_left (fun acc x => match x with OIWant _ l => (acc + length l)%nat | _ => acc end) out 0)%nat (mo_asked m)
                | _ => mo_asked m end in
  let served' := match gs_op st with
                 | GRecvIWant p _ => fold_left (fun acc pi => tx_set (snd pi) (fst pi) (S (tx_get (snd pi) (fst pi) acc)) acc) (msg_outs out) (mo_served m)
                 | _ => mo_served m end in
  let g' := truth_step P sc g st in
  let g'' := match gs_op st with
             | GPublish msg _ => {| core := core g'; mc := mc g'; peerhave := peerhave g'; iasked := iasked g'; peerdontwant := peerdontwant g';
                                    unwanted := unwanted g'; promises := promises g'; seen := sadd (m_id msg) (seen g'); idw_peers := idw_peers g' |}
             | GPublishLocal msg => {| core := core g'; mc := mc g'; peerhave := peerhave g'; iasked := iasked g'; peerdontwant := peerdontwant g';
                                    unwanted := unwanted g'; promises := promises g'; seen := sadd (m_id msg) (seen g'); idw_peers := idw_peers g' |}
             | GRecvMsgs p ms _ => if accept_from P sc g p then
                                     {| core := core g'; mc := mc g'; peerhave := peerhave g'; iasked := iasked g'; peerdontwant := peerdontwant g';
                                        unwanted := unwanted g'; promises := promises g'; seen := fold_left (fun a x => match aget (m_topic x) (mesh (core g)) with Some _ => sadd (m_id x) a | None => a end) ms (seen g'); idw_peers := idw_peers g' |}
                                   else g'
             | _ => g' end in
  (* ---- C19: the trace ---- *)
  let tr := gs_trace st in
  let view' := replay (mo_view m) tr in
  let delivered_now := concat (map (fun e => match e with TDeliver i => [i] | _ => [] end) tr) in
  let published_now := concat (map (fun e => match e with TPublish i => [i] | _ => [] end) tr) in
  let count_id := fun (i : nat) (l : list nat) => length (filter (Nat.eqb i) l) in
  let accepted_ids :=
    match gs_op st with
    | GPublish msg _ | GPublishLocal msg => if memb (m_id msg) (seen g) then [] else [m_id msg]
    | GRecvMsgs p ms _ =>
        if accept_from P sc g p
        then fold_left (fun a x => match aget (m_topic x) (mesh s) with
                                   | Some _ => if memb (m_id x) (seen g) || memb (m_id x) a then a else a ++ [m_id x]
                                   | None => a end) ms []
        else []
    | _ => [] end in
  let v19 :=
    if hit 191%nat (negb (alt_ok (map fst (tv_mesh (mo_view m))) tr)) then Some 191%nat
    else if hit 192%nat (negb (tview_eqb view' {| tv_peers := map fst (peers (core (truth_step P sc g st))); tv_mesh := gn_mesh (gs_snap st) |})) then Some 192%nat
    else if hit 193%nat (negb (nodup_b delivered_now) || existsb (fun i => memb i (mo_delivered m)) delivered_now) then Some 193%nat
    else if hit 196%nat (negb (seteq delivered_now accepted_ids)) then Some 196%nat
    else if hit 194%nat (match gs_op st with
            | GPublish msg _ | GPublishLocal msg => negb (Nat.eqb (count_id (m_id msg) published_now) 1) || negb (Nat.eqb (length published_now) 1)
            | _ => negb (match published_now with [] => true | _ => false end) end) then Some 194%nat
    else if hit 195%nat (negb (forallb (fun e => Nat.eqb (length (filter (fun x => match x with TSend q => Nat.eqb q (fst e) | _ => false end) tr)) (snd e)) (gs_nrpc st))
            || existsb (fun x => match x with TSend q => negb (match aget q (gs_nrpc st) with Some _ => true | None => false end) | TDrop _ => true | _ => false end) tr) then Some 195%nat
    else None in
  let v3 := match v2 with Some c => Some c | None => v19 end in
  let lastpub' := match gs_op st with
                  | GPublish msg _ => aset (m_topic msg) (now s) (mo_lastpub m)
                  | _ => mo_lastpub m end in
  (v3, {| mo_truth := g''; mo_asked := asked'; mo_served := served'; mo_lastpub := lastpub';
          mo_view := view'; mo_delivered := delivered_now ++ mo_delivered m;
          mo_hb := match gs_op st with GHeartbeat _ _ _ => S (mo_hb m) | _ => mo_hb m end;
          mo_born := fold_left (fun acc i => match aget i acc with Some _ => acc | None => aset i (mo_hb m) acc end) (gn_cache (gs_snap st)) (mo_born m) |}).

Section ForProperty.
Variable which : nat.   (* 6 -> C06, 9 -> C09, 17 -> C17, 0 -> all *)
(* a clause belongs to the property whose number is its code without the last digit (two- and three-digit codes) or without
   the last two digits (601 ..: more clauses than ten for one property) *)
Definition kept (c : nat) : bool := Nat.eqb which 0 || Nat.eqb (c / 10)%nat which || Nat.eqb (c / 100)%nat which.
(* 67 / 68 are the classes of two recorded findings (C06).  A clause of another property, or a finding class, never hides
   a clause of the property under check: the monitor is evaluated with the clauses that are not wanted switched off -
   first without the finding classes, then with them *)
Definition finding_class (c : nat) : bool := Nat.eqb c 67 || Nat.eqb c 68.
Definition mon_pick (P : gparams) (m : mon) (st : gstepr) : option nat * mon :=
  match mon_step (fun c => negb (kept c) || finding_class c) P m st with
  | (Some c, m') => (Some c, m')
  | (None, _) => mon_step (fun c => negb (kept c)) P m st
  end.

(* a finding-class failure is remembered and the scan goes on: it is reported only if the history shows nothing else *)
Fixpoint mon_only (P : gparams) (m : mon) (l : list gstepr) (idx : nat) (fnd : option (nat * nat)) : option (nat * nat) :=
  match l with
  | [] => fnd
  | st :: l' => let (v, m') := mon_pick P m st in
                match v with
                | Some c => if finding_class c then mon_only P m' l' (S idx) (match fnd with Some f => Some f | None => Some (idx, c) end)
                            else Some (idx, c)
                | None => mon_only P m' l' (S idx) fnd
                end
  end.

Fixpoint exec (P : gparams) (g : gstate) (m : mon) (l : list gstepr) (idx : nat) (fnd : option (nat * nat)) : verdict :=
  match l with
  | [] => match fnd with Some (i, c) => VMonFail i c | None => VOk end
  | st :: l' =>
      let (v, m') := mon_pick P m st in
      match (match v with Some c => if finding_class c then None else Some c | None => None end) with
      | Some c => VMonFail idx c
      | None =>
          let fnd' := match fnd, v with Some f, _ => Some f | None, Some c => Some (idx, c) | None, None => None end in
          (* after a disagreement with the model: a concrete failing history if the monitor finds one; a finding class never hides the disagreement *)
          let fail := fun code => match mon_only P m' l' (S idx) None with
                                  | Some (i, c) => if finding_class c then VMismatch idx code else VMonFail i c
                                  | None => VMismatch idx code end in
          match gstep P (gs_scores st) g (gs_op st) with
          | None => fail 2%nat
          | Some (g', out) =>
              if negb (gouts_eqb out (gs_out st)) then fail 3%nat
              else match snap_ok g' (gs_snap st) with
                   | O => exec P g' m' l' (S idx) fnd'
                   | c => fail c
                   end
          end
      end
  end.

Definition check_gcase_for (c : gcase) : verdict :=
  if negb (valid_params (gCore (gc_params c))) then VMismatch 0 99
  else exec (gc_params c) (ginit (gc_params c)) {| mo_truth := ginit (gc_params c); mo_asked := []; mo_served := []; mo_lastpub := []; mo_view := tview0; mo_delivered := []; mo_hb := 0; mo_born := [] |} (gc_steps c) 0 None.
End ForProperty.
Definition check_gcase := check_gcase_for 0.
