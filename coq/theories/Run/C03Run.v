From Coq Require Import List Bool Arith.
Import ListNotations.
From PS Require Import Model.SignPolicy Run.Verdict.

(* the crypto oracle's answers for one message, computed by the harness independently *)
Record oracle := { o_pid_parses : bool; o_extractable : bool; o_key_unmarshals : bool; o_key_matches : bool; o_verifies : bool }.

Record case := {
  k_policy : policy; k_anon : bool;
  k_msg : msg nat;                 (* fields as tags; m_from = Some 1 means "the receiver's own peer ID" *)
  k_oracle : oracle;
  k_own : bool;                    (* produced by a correct node's own Publish (must be accepted) *)
  k_local : bool;                  (* judged on the publishing node itself (Topic.Publish -> ValidateLocal), not received from a peer *)
  o_delivered : bool;              (* observed: delivered to the subscription (and hence forwarded) *)
  o_reason : nat                   (* observed RejectMessage reason: 0 none, 1 missing signature, 2 unexpected signature,
                                      3 unexpected auth info, 4 self origin, 5 invalid signature, 9 other *)
}.

Definition model_accept (c : case) : outcome :=
  let o := k_oracle c in
  accept nat nat nat Nat.eqb
         (fun _ => if o_pid_parses o then Some 0 else None)
         (fun _ => if o_extractable o then Some 0 else None)
         (fun _ => if o_key_unmarshals o then Some 1 else None)
         (fun _ _ => o_key_matches o)
         (fun _ _ _ => o_verifies o)
         (fun _ => 0)
         (k_policy c) (k_anon c) 1 (k_local c) (k_msg c).

Definition reason_code (r : reason) : nat :=
  match r with RMissingSignature => 1 | RUnexpectedSignature => 2 | RUnexpectedAuthInfo => 3 | RSelfOrigin => 4 | RInvalidSignature => 5 end.

(* the independent re-statement of the signature rule on the oracle's answers *)
Definition authentic (c : case) : bool :=
  let o := k_oracle c in let m := k_msg c in
  present (m_sig m) && present (m_from m) && o_pid_parses o
  && (match m_key m with None => o_extractable o | Some _ => o_key_unmarshals o && o_key_matches o end)
  && o_verifies o.

(* 1 delivered under StrictSign without an authentic signature, or under any policy with a signature
   that is not authentic; 2 StrictNoSign delivered a message carrying a signature; 3 anonymous mode
   delivered author / seqno / key; 4 a message naming the local node as author was delivered;
   5 a correct node's own publication was not accepted *)
Definition monitor (c : case) : nat :=
  let m := k_msg c in
  if o_delivered c && (match k_policy c with StrictSign => true | _ => present (m_sig m) end) && negb (authentic c) then 1
  else if o_delivered c && (match k_policy c with StrictNoSign => true | _ => false end) && present (m_sig m) then 2
  else if o_delivered c && (match k_policy c with StrictNoSign => true | _ => false end) && k_anon c
          && (present (m_seqno m) || present (m_from m) || present (m_key m)) then 3
  else if o_delivered c && negb (k_local c) && (match m_from m with Some 1 => true | _ => false end) then 4
  else if k_own c && negb (o_delivered c) then 5
  else 0.

Definition check_case (c : case) : verdict :=
  let mm := monitor c in
  if negb (Nat.eqb mm 0) then VMonFail 0 mm else
  match model_accept c with
  | Accepted => if o_delivered c && Nat.eqb (o_reason c) 0 then VOk else VMismatch 0 1
  | Rejected r => if negb (o_delivered c) && Nat.eqb (o_reason c) (reason_code r) then VOk else VMismatch 0 2
  end.
