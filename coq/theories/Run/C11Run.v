From Coq Require Import List Bool NArith Arith.
Import ListNotations.
From PS Require Import Model.Wire Model.Split Model.SplitContent Run.Verdict.
Local Open Scope N_scope.

Record case := {
  k_rpc : rpc; k_limit : N; k_size : N;      (* the RPC, the limit, Go's Size() of the RPC *)
  k_frags : list rpc; k_sizes : list N        (* fragments yielded by RPC.split and Go's Size() of each *)
}.

Definition atom_eq_dec : forall a b : atom, {a = b} + {a <> b}.
Proof. repeat decide equality. Defined.
Definition rpc_eq_dec : forall a b : rpc, {a = b} + {a <> b}.
Proof. repeat decide equality. Defined.

Definition atoms_eqb (a b : list atom) : bool := if list_eq_dec atom_eq_dec a b then true else false.
Definition rpcs_eqb (a b : list rpc) : bool := if list_eq_dec rpc_eq_dec a b then true else false.
Definition Ns_eqb (a b : list N) : bool := if list_eq_dec N.eq_dec a b then true else false.

(* the property on observed data: 1 contents differ, 2 an empty fragment, 3 a fragment over the limit
   that is not a single element *)
Definition monitor (c : case) : nat :=
  if negb (forallb (fun k => atoms_eqb (flat (k_frags c) k) (content (k_rpc c) k)) kinds) then 1
  else if existsb is_empty (k_frags c) then 2
  else if existsb (fun fs => (k_limit c <? snd fs) && Nat.ltb 1 (atoms (fst fs))) (combine (k_frags c) (k_sizes c)) then 3
  else 0%nat.

Definition check_case (c : case) : verdict :=
  let m := monitor c in
  if negb (Nat.eqb m 0) then VMonFail 0 m
  else if negb (size (k_rpc c) =? k_size c) then VMismatch 0 10
  else if negb (Ns_eqb (map size (k_frags c)) (k_sizes c)) then VMismatch 0 11
  else if negb (rpcs_eqb (split (k_limit c) (k_rpc c)) (k_frags c)) then VMismatch 0 12
  else VOk.

(* ---- sendRPC ---- *)
Record scase := { s_rpc : rpc; s_max : N; s_queued : list rpc; s_dropped : list rpc }.

(* on observed data: 1 something queued exceeds the limit; 2 an empty RPC queued; 3 what is
   reported dropped is not a single oversize element; 4 contents of queued+dropped differ from the
   original (per kind, as multisets of atoms: counted) *)
Definition count_atom (a : atom) (l : list atom) : nat := count_occ atom_eq_dec l a.
Definition same_atoms (a b : list atom) : bool :=
  Nat.eqb (length a) (length b) && forallb (fun x => Nat.eqb (count_atom x a) (count_atom x b)) a.
Definition smonitor (c : scase) : nat :=
  if existsb (fun f => s_max c <? size f) (s_queued c) then 1
  else if existsb is_empty (s_queued c) then 2
  else if existsb (fun f => (size f <=? s_max c) || Nat.ltb 1 (atoms f) || is_empty f) (s_dropped c) then 3
  else if negb (forallb (fun k => same_atoms (flat (s_queued c ++ s_dropped c) k) (content (s_rpc c) k)) kinds) then 4
  else 0%nat.

Definition check_send (c : scase) : verdict :=
  let m := smonitor c in
  if negb (Nat.eqb m 0) then VMonFail 0 m
  else
    let (qd, dr) := send_rpc (s_max c) (s_rpc c) in
    if negb (rpcs_eqb qd (s_queued c)) then VMismatch 0 20
    else if negb (rpcs_eqb dr (s_dropped c)) then VMismatch 0 21
    else VOk.
