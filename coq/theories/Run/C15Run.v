(* Runner for C15: replays a harness history through Model.RpcQueue, searching for a fine-grained
   schedule (every step through [step]) that explains each quiescent observation, and evaluates
   the property's monitor on the observed data. *)
From Coq Require Import List Bool Arith PeanoNat.
Import ListNotations.
From PS Require Import Model.RpcQueue Run.Verdict.

Inductive xop :=
| XPop (i : tid) | XPush (i : tid) (x : item) (urgent block : bool)
| XPopH (i : tid)                                    (* a pop the harness waits for until it parks at the schedule point or returns *)
| XCancel (i : tid) | XClose | XRelease (i : tid).   (* XRelease: the hooked popper proceeds to Cond.Wait *)

(* XPop / XPush are started as goroutines: their critical section may run any time after they were
   issued, also after later operations of the same group; the other operations are performed
   inline by the harness and keep their order. *)
Definition is_async (x : xop) : bool := match x with XPop _ | XPush _ _ _ _ => true | _ => false end.
Fixpoint candidates (pre ext : list xop) : list (xop * list xop) :=
  match ext with
  | [] => []
  | x :: r => (x, rev pre ++ r) :: (if is_async x then candidates (x :: pre) r else [])
  end.

Record hop := {
  h_ext : list xop;                 (* external operations issued, in order, before the observation *)
  h_hooked : list tid;              (* poppers parked at the schedule point at observation time *)
  h_res : list (tid * res);         (* results that became available *)
  h_bpop : list tid;                (* poppers still blocked (excluding hooked) *)
  h_bpush : list tid;               (* pushers still blocked *)
  h_len : nat;                      (* q.queue.Len() *)
  h_prio : list item; h_norm : list item   (* queue contents, oldest first *)
}.
Definition list_eqb (a b : list nat) : bool := Nat.eqb (length a) (length b) && forallb (fun p => Nat.eqb (fst p) (snd p)) (combine a b).

Definition res_eqb (a b : res) : bool :=
  match a, b with
  | RItem x, RItem y => Nat.eqb x y
  | RCancelled, RCancelled | RClosed, RClosed | ROk, ROk | RFull, RFull | RPanic, RPanic | RBlocked, RBlocked => true
  | _, _ => false
  end.
Fixpoint rget (i : tid) (l : list (tid * res)) : option res :=
  match l with [] => None | (j, r) :: l' => if Nat.eqb i j then Some r else rget i l' end.
Definition res_sub (a b : list (tid * res)) : bool :=
  forallb (fun e => match rget (fst e) b with Some r => res_eqb r (snd e) | None => false end) a.
Definition subset (a b : list nat) : bool := forallb (fun x => memb x b) a.
Definition seteq (a b : list nat) : bool := subset a b && subset b a.

Definition pending_af (afl : bool) (s : st) : list tid :=
  filter (fun i => match aget i (af s) with Some AFPending => negb afl || free s | _ => false end)
         (cancelled s).

Definition quiescent (afl : bool) (hooked : list tid) (s : st) : bool :=
  match p_woken s, u_woken s with [], [] => true | _, _ => false end
  && match holder s with None => true | Some i => memb i hooked end
  && match pending_af afl s with [] => true | _ => false end.

Section Search.
  Variable afl : bool.
  Variable hooked : list tid.
  Variable goal : st -> bool.
  Variable ok_so_far : st -> bool.      (* prune: results already produced must agree with the observation *)
  Variable gets_item : tid -> bool.     (* observed: this popper returned an item / this pusher returned Ok *)

  (* woken goroutines re-locking on an empty (resp. full) or closed queue all just go back to wait or
     return the same error: those steps commute, so only one canonical candidate is explored; when
     there is something to take, the candidates are the ones observed to have taken something *)
  Definition relock_cands {A} (ident : A -> tid) (contended : bool) (l : list A) : list A :=
    if contended then
      match filter (fun a => gets_item (ident a)) l with [] => firstn 1 l | l' => l' end
    else firstn 1 l.

  Fixpoint first_some {A} (f : A -> nat -> option st * nat) (l : list A) (budget : nat) : option st * nat :=
    match l with
    | [] => (None, budget)
    | x :: l' => match f x budget with
                 | (Some s, b) => (Some s, b)
                 | (None, b) => first_some f l' b
                 end
    end.

  Definition try (s : st) (a : action) (k : st -> nat -> option st * nat) (b : nat) : option st * nat :=
    match step afl s a with Some s' => k s' b | None => (None, b) end.

  Fixpoint dfs (fuel : nat) (s : st) (ext : list xop) (budget : nat) : option st * nat :=
    match fuel, budget with
    | O, _ => (None, budget)
    | _, O => (None, O)
    | S f, S bud =>
        let wsU := None :: map (fun u => Some (u_id u)) (space_wait s) in
        let wsP := None :: map Some (data_wait s) in
        if negb (ok_so_far s) then (None, bud) else
        if (match ext with [] => goal s | _ => false end) then (Some s, bud) else
        (* internal steps first: things settle unless the observation says otherwise *)
        let r1 := match holder s with
                  | Some i => if memb i hooked then (None, bud) else try s (PopWait i) (fun s' b => dfs f s' ext b) bud
                  | None => (None, bud)
                  end in
        match r1 with (Some s', b) => (Some s', b) | (None, b1) =>
        let r2 := first_some (fun i b => try s (AFRun i) (fun s' b' => dfs f s' ext b') b) (pending_af afl s) b1 in
        match r2 with (Some s', b) => (Some s', b) | (None, b2) =>
        let r3 := first_some (fun i b => first_some (fun w b' => try s (PopRelock i w) (fun s' b'' => dfs f s' ext b'') b') wsU b)
                             (relock_cands (fun i => i) (negb (s_closed (q s)) && Nat.ltb 0 (len s)) (p_woken s)) b2 in
        match r3 with (Some s', b) => (Some s', b) | (None, b3) =>
        let r4 := first_some (fun u b => first_some (fun w b' => try s (PushRelock (u_id u) w) (fun s' b'' => dfs f s' ext b'') b') wsP b)
                             (relock_cands u_id (negb (s_closed (q s)) && Nat.ltb (len s) (s_cap (q s))) (u_woken s)) b3 in
        match r4 with (Some s', b) => (Some s', b) | (None, b4) =>
        first_some (fun (c : xop * list xop) b =>
          let ext' := snd c in
          match fst c with
          | XPop i | XPopH i => first_some (fun w b0 => try s (PopBegin i w) (fun s' b' => dfs f s' ext' b') b0) wsU b
          | XPush i x u bl => first_some (fun w b0 => try s (PushBegin i x u bl w) (fun s' b' => dfs f s' ext' b') b0) wsP b
          | XCancel i => try s (Cancel i) (fun s' b' => dfs f s' ext' b') b
          | XClose => try s Close (fun s' b' => dfs f s' ext' b') b
          | XRelease i => try s (PopWait i) (fun s' b' => dfs f s' ext' b') b
          end) (candidates [] ext) b4
        end end end end
    end.
End Search.

(* ---- the monitor, on observed data only ---- *)
Record mstate := {
  m_cancelled : list tid; m_closed : bool; m_cap : nat;
  m_pushedU : list item; m_pushedN : list item;   (* accepted pushes in the order their results appeared *)
  m_popped : list item; m_items : list (tid * (item * bool))   (* pusher tid -> (item, urgent) *)
}.

Definition apply_ext (m : mstate) (x : xop) : mstate :=
  match x with
  | XCancel i => {| m_cancelled := i :: m_cancelled m; m_closed := m_closed m; m_cap := m_cap m;
                    m_pushedU := m_pushedU m; m_pushedN := m_pushedN m; m_popped := m_popped m; m_items := m_items m |}
  | XClose => {| m_cancelled := m_cancelled m; m_closed := true; m_cap := m_cap m;
                 m_pushedU := m_pushedU m; m_pushedN := m_pushedN m; m_popped := m_popped m; m_items := m_items m |}
  | XPush i x u _ => {| m_cancelled := m_cancelled m; m_closed := m_closed m; m_cap := m_cap m;
                        m_pushedU := m_pushedU m; m_pushedN := m_pushedN m; m_popped := m_popped m;
                        m_items := (i, (x, u)) :: m_items m |}
  | _ => m
  end.

Fixpoint iget (i : tid) (l : list (tid * (item * bool))) : option (item * bool) :=
  match l with [] => None | (j, v) :: l' => if Nat.eqb i j then Some v else iget i l' end.

Definition apply_res (m : mstate) (e : tid * res) : mstate :=
  match snd e with
  | ROk => match iget (fst e) (m_items m) with
           | Some (x, true) => {| m_cancelled := m_cancelled m; m_closed := m_closed m; m_cap := m_cap m;
                                  m_pushedU := m_pushedU m ++ [x]; m_pushedN := m_pushedN m; m_popped := m_popped m; m_items := m_items m |}
           | Some (x, false) => {| m_cancelled := m_cancelled m; m_closed := m_closed m; m_cap := m_cap m;
                                   m_pushedU := m_pushedU m; m_pushedN := m_pushedN m ++ [x]; m_popped := m_popped m; m_items := m_items m |}
           | None => m
           end
  | RItem x => {| m_cancelled := m_cancelled m; m_closed := m_closed m; m_cap := m_cap m;
                  m_pushedU := m_pushedU m; m_pushedN := m_pushedN m; m_popped := m_popped m ++ [x]; m_items := m_items m |}
  | _ => m
  end.

(* 1: cancelled pop still blocked at quiescence; 2: somebody parked after Close; 4: blocked pusher
   while there is room; 5: blocked (non-cancelled) popper while there is data; 6: over capacity;
   7: an item popped twice or never pushed; 8: pushed-ok count <> popped + queued (loss/duplication) *)
Definition monitor (m : mstate) (h : hop) : nat :=
  if existsb (fun i => memb i (m_cancelled m)) (h_bpop h) then 1
  else if m_closed m && negb (match h_bpop h, h_bpush h with [], [] => true | _, _ => false end) then 2
  else if negb (m_closed m) && negb (match h_bpush h with [] => true | _ => false end) && Nat.ltb (h_len h) (m_cap m) then 4
  else if negb (m_closed m) && negb (match h_bpop h with [] => true | _ => false end) && Nat.ltb 0 (h_len h) then 5
  else if Nat.ltb (m_cap m) (h_len h) then 6
  else if negb (forallb (fun x => (memb x (m_pushedU m) || memb x (m_pushedN m))
                                  && Nat.eqb (count_occ Nat.eq_dec (m_popped m) x) 1) (m_popped m)) then 7
  else if negb (Nat.eqb (length (m_pushedU m) + length (m_pushedN m)) (length (m_popped m) + h_len h))
          && match h_hooked h with [] => true | _ => false end then 8
  else 0.

(* 9: an operation issued after Close had returned (the close was in an EARLIER group of operations) came back with an
   item / was accepted: once the queue is closed every pop and push reports so, whatever is still queued *)
Definition after_close (m : mstate) (h : hop) : bool :=
  m_closed m
  && existsb (fun e => existsb (fun x => match x with
                                         | XPop i | XPopH i | XPush i _ _ _ => Nat.eqb i (fst e)
                                         | _ => false end) (h_ext h)
                       && match snd e with RItem _ | ROk => true | _ => false end) (h_res h).

Fixpoint mon_only (m : mstate) (l : list hop) (idx : nat) : option (nat * nat) :=
  match l with
  | [] => None
  | h :: l' =>
      let m1 := fold_left apply_ext (h_ext h) m in
      let m2 := fold_left apply_res (h_res h) m1 in
      let c := if after_close m h then 9 else monitor m2 h in
      if negb (Nat.eqb c 0) then Some (idx, c) else mon_only m2 l' (S idx)
  end.

Fixpoint exec (afl : bool) (s : st) (m : mstate) (acc : list (tid * res)) (l : list hop) (idx : nat) : verdict :=
  match l with
  | [] => VOk
  | h :: l' =>
      let m1 := fold_left apply_ext (h_ext h) m in
      let m2 := fold_left apply_res (h_res h) m1 in
      let c := if after_close m h then 9 else monitor m2 h in
      if negb (Nat.eqb c 0) then VMonFail idx c else
      let acc' := h_res h ++ acc in
      let goal := fun s' => quiescent afl (h_hooked h) s'
                            && res_sub acc' (results s') && res_sub (results s') acc'
                            && seteq (data_wait s') (h_bpop h)
                            && seteq (map u_id (space_wait s')) (h_bpush h)
                            && Nat.eqb (len s') (h_len h)
                            && list_eqb (s_prio (q s')) (h_prio h) && list_eqb (s_norm (q s')) (h_norm h)
                            && match h_hooked h, holder s' with
                               | [], None => true | [i], Some j => Nat.eqb i j | _, _ => false end in
      match dfs afl (h_hooked h) goal (fun s' => res_sub (results s') acc')
                (fun i => match rget i acc' with Some (RItem _) | Some ROk => true | _ => false end) 80 s (h_ext h) 4000 with
      | (Some s', _) => exec afl s' m2 acc' l' (S idx)
      | (None, _) => match mon_only m2 l' (S idx) with
                     | Some (i, c') => VMonFail i c'
                     | None => VMismatch idx 20
                     end
      end
  end.

Record case := { c_cap : nat; c_hops : list hop }.

Definition check_case (afl : bool) (c : case) : verdict :=
  exec afl (init (c_cap c))
       {| m_cancelled := []; m_closed := false; m_cap := c_cap c; m_pushedU := []; m_pushedN := [];
          m_popped := []; m_items := [] |} [] (c_hops c) 0.
