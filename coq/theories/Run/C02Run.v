From Coq Require Import List Bool ZArith Arith.
Import ListNotations.
From PS Require Import Model.TimeCache Model.Dedup Run.Verdict.
Local Open Scope Z_scope.

(* ---- (a) the time cache alone ---- *)
Inductive tcop := TAdd (i : id) (r : bool) | THas (i : id) (r : bool) | TSleep (d : Z)
| TAddC (i : id) (rs : list bool).   (* several Add calls of one id made at the same instant from different goroutines *)
Definition ntrue (l : list bool) : nat := length (filter (fun b => b) l).
Record tcase := { t_strat : strategy; t_ttl : Z; t_interval : Z; t_ops : list tcop }.

Fixpoint tc_advance (fuel : nat) (c : tc) (clock ns interval target : Z) : tc * Z * Z :=
  match fuel with
  | O => (c, clock, ns)
  | S f => if ns <=? target then tc_advance f (tc_sweep c ns) ns (ns + interval) interval target
           else (c, target, ns)
  end.

(* monitor on observed results only: an id added at time a must be reported present by every Has /
   refused by every Add up to a+ttl (first-seen: from the first sighting; last-seen: from the latest),
   and must be absent once ttl + interval have passed without activity *)
Fixpoint tmon (sg : strategy) (ttl interval : Z) (ops : list tcop) (clock : Z) (last : list (id * Z)) (idx : nat) : option (nat * nat) :=
  match ops with
  | [] => None
  | TSleep d :: r => tmon sg ttl interval r (clock + d) last (S idx)
  | TAdd i res :: r =>
      match lookup i last with
      | Some a =>
          if (clock <=? a + ttl) && res then Some (idx, 1%nat)                       (* forgotten too early *)
          else if (a + ttl + interval <? clock) && negb res then Some (idx, 2%nat)   (* remembered too long *)
          else tmon sg ttl interval r clock (match sg, res with FirstSeen, false => last | _, _ => setk i clock last end) (S idx)
      | None => if res then tmon sg ttl interval r clock (setk i clock last) (S idx) else Some (idx, 3%nat)
      end
  | TAddC i rs :: r =>
      (* however the calls interleave, at most one of them adds the id; if it was there (inside its window) none does *)
      let any := Nat.ltb 0 (ntrue rs) in
      if Nat.ltb 1 (ntrue rs) then Some (idx, 4%nat)
      else match lookup i last with
           | Some a =>
               if (clock <=? a + ttl) && any then Some (idx, 1%nat)
               else tmon sg ttl interval r clock (match sg, any with FirstSeen, false => last | _, _ => setk i clock last end) (S idx)
           | None => if any then tmon sg ttl interval r clock (setk i clock last) (S idx) else Some (idx, 3%nat)
           end
  | THas i res :: r =>
      match lookup i last with
      | Some a =>
          if (clock <=? a + ttl) && negb res then Some (idx, 1%nat)
          else if (a + ttl + interval <? clock) && res then Some (idx, 2%nat)
          else tmon sg ttl interval r clock (match sg, res with LastSeen, true => setk i clock last | _, _ => last end) (S idx)
      | None => if res then Some (idx, 3%nat) else tmon sg ttl interval r clock last (S idx)
      end
  end.

Fixpoint texec (c : tc) (clock ns interval : Z) (ops : list tcop) (idx : nat) : verdict :=
  match ops with
  | [] => VOk
  | TAdd i r :: l => let (b, c') := tc_add c i clock in
                     if Bool.eqb b r then texec c' clock ns interval l (S idx) else VMismatch idx 1
  | THas i r :: l => let (b, c') := tc_has c i clock in
                     if Bool.eqb b r then texec c' clock ns interval l (S idx) else VMismatch idx 2
  | TAddC i rs :: l => let (b, c') := tc_add c i clock in
                       if Nat.eqb (ntrue rs) (if b then 1 else 0)%nat then texec c' clock ns interval l (S idx) else VMismatch idx 3
  | TSleep d :: l => let '(c', clock', ns') := tc_advance (S (S (Z.to_nat (d / interval)))) c clock ns interval (clock + d) in
                     texec c' clock' ns' interval l (S idx)
  end.

Definition check_tcase (k : tcase) : verdict :=
  match tmon (t_strat k) (t_ttl k) (t_interval k) (t_ops k) 0 [] 0 with
  | Some (i, c) => VMonFail i c
  | None => texec {| strat := t_strat k; ttl := t_ttl k; entries := [] |} 0 (t_interval k) (t_interval k) (t_ops k) 0
  end.

(* ---- (b) the node ---- *)
Record ncase := {
  n_strat : strategy; n_ttl : Z; n_cfg : cfg;
  n_steps : list (op * list ev)       (* each operation with the events observed at the node *)
}.

Definition ev_eqb (a b : ev) : bool :=
  match a, b with
  | EInvoke i, EInvoke j | EDeliver i, EDeliver j | EDup i, EDup j | EQFull i, EQFull j => Nat.eqb i j
  | ELocal x, ELocal y => Bool.eqb x y
  | _, _ => false
  end.
(* events of one operation are compared as multisets: the order in which the validation worker,
   the event loop and the subscriber goroutine log is not observable reliably *)
Definition evs_eqb (a b : list ev) : bool :=
  Nat.eqb (length a) (length b)
  && forallb (fun x => Nat.eqb (length (filter (ev_eqb x) a)) (length (filter (ev_eqb x) b))) a.

(* monitor on observed events only.  Validator invocations of one id must be more than ttl apart
   (1).  Deliveries: with a validator, never more deliveries of an id than validator invocations of
   it (a delivery may be late when the application's validator is slow, but it is never repeated);
   without one, deliveries of an id must themselves be more than ttl apart (2). *)
Fixpoint nmon (hasval : bool) (ttl : Z) (steps : list (op * list ev)) (clock : Z) (inv del : list (id * Z))
         (ninv ndel : list (id * Z)) (idx : nat) : option (nat * nat) :=
  match steps with
  | [] => None
  | (o, evs) :: r =>
      let clock' := match o with OSleep d => clock + d | _ => clock end in
      let bad_inv := existsb (fun e => match e with
                                       | EInvoke i => match lookup i inv with Some a => clock' <=? a + ttl | None => false end
                                       | _ => false end) evs in
      let dup_inv := existsb (fun e => match e with EInvoke i => Nat.ltb 1 (count_ev (is_invoke i) evs) | _ => false end) evs in
      let bad_del := existsb (fun e => match e with
                                       | EDeliver i => match lookup i del with Some a => clock' <=? a + ttl | None => false end
                                       | _ => false end) evs in
      let dup_del := existsb (fun e => match e with EDeliver i => Nat.ltb 1 (count_ev (is_deliver i) evs) | _ => false end) evs in
      let bump := fun (acc : list (id * Z)) (i : id) => setk i (1 + match lookup i acc with Some n => n | None => 0 end) acc in
      let ninv' := fold_left (fun acc e => match e with EInvoke i => bump acc i | _ => acc end) evs ninv in
      let ndel' := fold_left (fun acc e => match e with EDeliver i => bump acc i | _ => acc end) evs ndel in
      let over := existsb (fun p => match lookup (fst p) ninv' with Some n => n <? snd p | None => true end) ndel' in
      if bad_inv || dup_inv then Some (idx, 1%nat)
      else if (if hasval then over else dup_del || bad_del) then Some (idx, 2%nat)
      else
        let inv' := fold_left (fun acc e => match e with EInvoke i => setk i clock' acc | _ => acc end) evs inv in
        let del' := fold_left (fun acc e => match e with EDeliver i => setk i clock' acc | _ => acc end) evs del in
        nmon hasval ttl r clock' inv' del' ninv' ndel' (S idx)
  end.

(* deliveries: at most one per invocation-epoch is implied by the model agreement; the monitor flags
   the directly observable violation: more deliveries of an id than successful first sightings *)
Fixpoint nexec (c : cfg) (s : st) (steps : list (op * list ev)) (idx : nat) : verdict :=
  match steps with
  | [] => VOk
  | (o, evs) :: r =>
      match step c s o with
      | None => VMismatch idx 1
      | Some (s', evs') => if evs_eqb evs evs' then nexec c s' r (S idx) else VMismatch idx 2
      end
  end.

Definition check_ncase (k : ncase) : verdict :=
  match nmon (has_val (n_cfg k)) (n_ttl k) (n_steps k) 0 [] [] [] [] 0 with
  | Some (i, c) => VMonFail i c
  | None => nexec (n_cfg k) (init (n_strat k) (n_ttl k) (n_cfg k)) (n_steps k) 0
  end.
