(* Runner for C05: quiescent observations of a small real network. *)
From Coq Require Import List Bool Arith.
Import ListNotations.
From PS Require Import Model.Router Run.Verdict.

Record aobs := {
  ao_interest : list (nat * list topic);           (* node -> topics it holds a subscription or relay for (harness bookkeeping of its own API calls) *)
  ao_links : list (nat * nat * nat);              (* connected pairs, both orientations (a, b) and (b, a); the number: 0, or 1 = a's OUTBOUND pubsub stream to b was reset while the connection stayed up, or 2 = reset so often that a has stopped re-opening it *)
  ao_views : list (nat * list (topic * list nat))  (* node -> topic -> Topic/PubSub.ListPeers *)
}.
Definition ntopics : list topic := [0; 1; 2].
Definition sees (o : aobs) (a : nat) (t : topic) (b : nat) : bool :=
  memb b (aget_l t (match aget a (ao_views o) with Some m => m | None => [] end)).
Definition wants (o : aobs) (b : nat) (t : topic) : bool := memb t (aget_l b (ao_interest o)).

(* 51: a's peer list for a topic differs from the connected, interested peers in what it says about b;
   53: same, where a's own outbound stream to b had been reset (known finding: a forgets what b announced);
   56: same, where b's outbound stream to a was reset more often than the respawn backoff allows (known finding: b is mute towards a). *)
Definition mon_a (o : aobs) : nat :=
  let bad := fun (a b : nat) => existsb (fun t => negb (Bool.eqb (sees o a t b) (wants o b t))) ntopics in
  let lvl := fun (x y : nat) => match filter (fun l => let '(a, b, _) := l in Nat.eqb a x && Nat.eqb b y) (ao_links o) with
                                | (_, _, k) :: _ => k | [] => 0 end in
  (* what a lists for b: 53 where a's own outbound stream to b had been reset; 56 where b has given up re-opening ITS stream to a
     (a cannot hear from b any more); 51 otherwise *)
  if existsb (fun l => let '(a, b, _) := l in bad a b && Nat.eqb (lvl a b) 0 && Nat.ltb (lvl b a) 2) (ao_links o) then 51
  else if existsb (fun l => let '(a, b, _) := l in bad a b && Nat.eqb (lvl a b) 0 && Nat.leb 2 (lvl b a)) (ao_links o) then 56   (* the rarer class first *)
  else if existsb (fun l => let '(a, b, _) := l in bad a b && Nat.ltb 0 (lvl a b)) (ao_links o) then 53
  (* nobody is listed who is not connected *)
  else if existsb (fun e => existsb (fun te => existsb (fun b =>
              negb (existsb (fun l => let '(x, y, _) := l in (Nat.eqb x (fst e) && Nat.eqb y b) || (Nat.eqb y (fst e) && Nat.eqb x b)) (ao_links o))) (snd te)) (snd e)) (ao_views o) then 54
  else 0.

(* 53 and 56 are the classes of two recorded findings: the first such failure is remembered and the scan goes on, so that it
   never hides a different violation later in the same history *)
Fixpoint aexec (l : list aobs) (idx : nat) (fnd : option (nat * nat)) : verdict :=
  match l with
  | [] => match fnd with Some (i, c) => VMonFail i c | None => VOk end
  | o :: l' => match mon_a o with
               | O => aexec l' (S idx) fnd
               | 53 => aexec l' (S idx) (match fnd with Some x => Some x | None => Some (idx, 53) end)
               | 56 => aexec l' (S idx) (match fnd with Some (i, 56) => Some (i, 56) | _ => Some (idx, 56) end)   (* the rarer class is the one reported *)
               | c => VMonFail idx c
               end
  end.
Definition check_acase (l : list aobs) : verdict := aexec l 0 None.
