"""T-gen: regenerate model pieces / obligations from /repo's current source."""
import os, subprocess

VERIF = os.path.dirname(os.path.dirname(os.path.abspath(__file__)))
GOENV = dict(os.environ, GOFLAGS='-mod=mod', GOPROXY='off')
GOENV.pop('GOTOOLCHAIN', None)
GOENV.pop('GOSUMDB', None)


def _coqc(path, coq):
    p = subprocess.run(['timeout', '300', 'coqc', '-Q', os.path.join(coq, 'theories'), 'PS', '-Q', os.path.dirname(path), 'VG', path],
                       cwd=os.path.dirname(path), stdout=subprocess.PIPE, stderr=subprocess.STDOUT, text=True)
    return p.returncode, p.stdout


def tr_rpcqueue(repo, work, coq):
    """rpc_queue.go -> RpcQueueGen.v (gen_prog) + obligation gen_prog = pinned_prog"""
    info = {'obligations': 1, 'discharged': 0, 'source': os.path.join(repo, 'rpc_queue.go')}
    p = subprocess.run(['go', 'run', './rpcqueue2ir', os.path.join(repo, 'rpc_queue.go')], cwd=os.path.join(VERIF, 'tools'),
                       env=GOENV, stdout=subprocess.PIPE, stderr=subprocess.PIPE, text=True)
    gen = os.path.join(work, 'RpcQueueGen.v')
    if p.returncode != 0:
        # still provide a gen file so that the cases can be evaluated (with an unrecognisable program)
        open(gen, 'w').write('From Coq Require Import List String. Import ListNotations.\nFrom PS Require Import Model.RpcQueueIR.\n'
                             'Definition gen_prog : prog := {| p_push := [SOther "untranslatable"]; p_pop := []; p_close := [] |}.\n')
        _coqc(gen, coq)
        info['error'] = 'translator failed: ' + p.stderr[-1500:]
        return False, info
    open(gen, 'w').write(p.stdout)
    info['generated'] = p.stdout
    rc, out = _coqc(gen, coq)
    if rc != 0:
        info['error'] = 'generated file does not compile: ' + out[-1500:]
        return False, info
    obl = os.path.join(work, 'RpcQueueGenObl.v')
    open(obl, 'w').write('From PS Require Import Model.RpcQueueIR.\nFrom VG Require Import RpcQueueGen.\n'
                         'Lemma gen_is_pinned : gen_prog = pinned_prog.\nProof. reflexivity. Qed.\n'
                         'Lemma gen_af_locked : af_locked_of gen_prog = true.\nProof. reflexivity. Qed.\n')
    rc, out = _coqc(obl, coq)
    if rc != 0:
        info['error'] = 'obligation gen_prog = pinned_prog (rpc_queue.go skeleton) no longer checks: ' + out[-1200:]
        return False, info
    info['discharged'] = 1
    return True, info


def _ensure(coq, rel):
    v = os.path.join(coq, 'theories', rel + '.v')
    vo = os.path.join(coq, 'theories', rel + '.vo')
    if not os.path.exists(vo) or os.path.getmtime(vo) < os.path.getmtime(v):
        subprocess.run(['timeout', '600', 'coqc', '-Q', 'theories', 'PS', 'theories/' + rel + '.v'], cwd=coq,
                       stdout=subprocess.PIPE, stderr=subprocess.STDOUT)


def tr_sendsites(repo, work, coq):
    """every channel send to a PubSub rendezvous channel in the non-test source -> ShutdownGen.v (gen_sites)
    + obligation: every site is guarded by ctx.Done() / default (all_guarded gen_sites = true) and the inventory is not empty"""
    info = {'obligations': 1, 'discharged': 0, 'source': repo + '/*.go (non-test)'}
    _ensure(coq, 'Model/Shutdown')
    p = subprocess.run(['go', 'run', './sendsites', repo], cwd=os.path.join(VERIF, 'tools'),
                       env=GOENV, stdout=subprocess.PIPE, stderr=subprocess.PIPE, text=True)
    gen = os.path.join(work, 'ShutdownGen.v')
    if p.returncode != 0:
        info['error'] = 'translator failed: ' + p.stderr[-1500:]
        return False, info
    open(gen, 'w').write(p.stdout)
    info['generated_sites'] = p.stdout.count('s_fn :=')
    info['unguarded'] = [l.strip() for l in p.stdout.splitlines() if 's_guarded := false' in l]
    info['generated_replies'] = p.stdout.count('r_fn :=')
    info['unsafe_replies'] = [l.strip() for l in p.stdout.splitlines() if 'r_buffered := false' in l and 'r_plain_recv := false' in l]
    rc, out = _coqc(gen, coq)
    if rc != 0:
        info['error'] = 'generated file does not compile: ' + out[-1500:]
        return False, info
    obl = os.path.join(work, 'ShutdownGenObl.v')
    open(obl, 'w').write('From Coq Require Import List Bool Arith.\nFrom PS Require Import Model.Shutdown.\nFrom VG Require Import ShutdownGen.\n'
                         'Lemma gen_all_guarded : all_guarded gen_sites = true.\nProof. reflexivity. Qed.\n'
                         'Lemma gen_nonempty : Nat.leb 25 (length gen_sites) = true.\nProof. reflexivity. Qed.\n'
                         'Lemma gen_replies_safe : all_replies_safe gen_replies = true.\nProof. reflexivity. Qed.\n'
                         'Lemma gen_replies_nonempty : Nat.leb 8 (length gen_replies) = true.\nProof. reflexivity. Qed.\n')
    rc, out = _coqc(obl, coq)
    if rc != 0:
        info['error'] = ('obligation all_guarded gen_sites = true / all_replies_safe gen_replies = true no longer checks: sends to the event loop without a ctx.Done() / default arm: '
                         + '; '.join(info['unguarded']) + ' ; answers of the event loop on an unbuffered channel whose maker may have left: ' + '; '.join(info['unsafe_replies']) + ' || ' + out[-600:])
        return False, info
    info['discharged'] = 1
    return True, info
