#!/usr/bin/env python3
"""Regenerates /verif/MANIFEST.json from lib/vfprops.py + lib/vfmeta.py (so it is always valid)."""
import json, os, sys
here = os.path.dirname(os.path.abspath(__file__))
sys.path.insert(0, here)
import vfmeta
props = [json.loads(l) for l in open(os.path.join(here, '..', 'properties.jsonl'))]
checks = []
na = []
for p in props:
    pid = p['id']
    m = vfmeta.META.get(pid)
    if not m or m.get('not_applicable'):
        na.append({'property_id': pid, 'reason': (m or {}).get('not_applicable', 'not yet covered by the Coq development (work in progress); no check is claimed')})
        continue
    checks.append({
        'property_id': pid,
        'quick_cmd': 'bin/check %s --tier quick' % pid,
        'thorough_cmd': 'bin/check %s --tier thorough' % pid,
        'evidence_file': '/verif/evidence/%s.json' % pid,
        'replay_cmd_template': 'bin/check %s --replay {path}' % pid,
        'engine': 'coq-proof+correspondence',
        'level_claimed': {'category': 'proof', 'text': m['text'], 'design_ref': m.get('design_ref', 'DESIGN.md section 5, ' + pid)},
        'level_note': m['note'],
        'technique': m['technique'],
    })
man = {
    'version': 1,
    'setup_cmd': 'bin/setup',
    'hooks': {
        'guard': 'verif',
        'enable': 'go test -tags verif -overlay <generated overlay.json> (harness files are injected from /verif/harness; /repo carries only the guarded hook files)',
        'baseline_off_cmd': 'cd /repo && GOFLAGS=-mod=mod GOPROXY=off go test -vet=off -count=1 -timeout 25m ./...',
        'source_commits': vfmeta.HOOK_COMMITS,
        'add_only': True,
    },
    'engines': [{'name': 'coq-proof+correspondence', 'path': '/verif/coq + /verif/harness + /verif/bin/check',
                 'serves_properties': [c['property_id'] for c in checks],
                 'kind_free_text': 'Coq 8.16.1 theorems about hand-written executable Gallina models (plus models/obligations regenerated from the Go source by go/ast translators), tied to /repo on every run by a differential harness whose recorded histories are evaluated by the model and the property monitor inside Coq (vm_compute)'}],
    'checks': checks,
    'not_applicable': na,
    'notes': 'See DESIGN.md. Every check rebuilds the harness against /repo\'s working tree; known findings are in known_findings.json.',
}
json.dump(man, open(os.path.join(here, '..', 'MANIFEST.json'), 'w'), indent=1)
print('checks:', len(checks), 'not_applicable:', len(na))
