"""Manifest texts per property."""
HOOK_COMMITS = []

META = {
 'C18': dict(
  text='Machine-checked proof (Coq): for every history of membership changes, handler creation/cancellation and any number of concurrent or cancelled NextPeerEvent calls under every fine-grained schedule, the replay of returned events equals the topic membership once drained, per-peer events alternate starting with Join, and no wake-up token is lost (a parked call can always progress when events are pending). The model is tied to the code by running the real Topic/TopicEventHandler under synctest on exhaustive short and random long histories and validating every observation (returns, blocked calls, log, token, membership) against the model inside Coq, together with the property monitor on the observed data.',
  note='Trusted: Coq kernel+vm_compute; hand-written model Model/EventLog.v; the Go harness and schedule reconstruction (a search over model schedules, every step through the proven step function); Go mutex/channel semantics as modelled. One handler per model instance.',
  technique='Coq invariant proof over all schedules + differential correspondence (vm_compute) with real code under synctest'),
}
