"""Manifest texts per property."""
HOOK_COMMITS = []

META = {
 'C18': dict(
  text='Machine-checked proof (Coq): for every history of membership changes, handler creation/cancellation and any number of concurrent or cancelled NextPeerEvent calls under every fine-grained schedule, the replay of returned events equals the topic membership once drained, per-peer events alternate starting with Join, and no wake-up token is lost (a parked call can always progress when events are pending). The model is tied to the code by running the real Topic/TopicEventHandler under synctest on exhaustive short and random long histories and validating every observation (returns, blocked calls, log, token, membership) against the model inside Coq, together with the property monitor on the observed data.',
  note='Trusted: Coq kernel+vm_compute; hand-written model Model/EventLog.v; the Go harness and schedule reconstruction (a search over model schedules, every step through the proven step function); Go mutex/channel semantics as modelled. One handler per model instance.',
  technique='Coq invariant proof over all schedules + differential correspondence (vm_compute) with real code under synctest'),
 'C20': dict(
  text='Machine-checked proof (Coq): for every multiset of validations per author, every arrival order and every interleaving of the validator\'s two phases (shared-lock read+compare, exclusive re-read+compare+store), the accepted sequence numbers of an author are strictly increasing in acceptance order, the stored nonce equals the highest accepted value and never decreases, a message is accepted only strictly above the nonce at its commit point, replays and wrong-length encodings are ignored and change nothing; 2^64-1 is handled (unbounded N, decode < 2^64). Tied to the code by driving the real BasicSeqnoValidator with a metadata store that parks inside Get/Put so the harness chooses the phase interleaving (all interleavings for small thread counts, random ones for more), and evaluating model + monitor on every recorded schedule in Coq.',
  note='Trusted: Coq kernel+vm_compute; hand-written model Model/SeqnoVal.v; the Go harness (parking store; real goroutines with short real-time settling because sync.RWMutex waits are not durable blocks under synctest); RWMutex semantics (exclusive section atomic). The "ignored => neither delivered, forwarded nor penalised" part is C04\'s.',
  technique='Coq invariant proof over all phase interleavings + differential correspondence with forced schedules'),
}
