"""Per-property configuration of /verif/bin/check."""

import vftranslators

COMMON_TB = [
    'Coq 8.16.1 kernel + vm_compute (no native_compute); no axioms declared in the development',
    'Go correspondence harness (/verif/harness, go test -overlay, testing/synctest virtual time) and its Gallina literal printer',
    '/verif/bin/check (result parsing, classification)',
]

PROPS = {
    'C18': dict(
        coq=['Props/C18', 'Run/C18Run'],
        go=[dict(run='^TestVF_C18$')],
        trusted_base=['hand-written model Model/EventLog.v of topic.go TopicEventHandler + pubsub.go membership bookkeeping'],
        assumptions=['one handler per model instance (handlers are independent in the code)',
                     'Go mutex/channel semantics as modelled: critical sections atomic, 1-slot channel'],
    ),
    'C20': dict(
        coq=['Props/C20', 'Run/C20Run'],
        go=[dict(run='^TestVF_C20$')],
        trusted_base=['hand-written model Model/SeqnoVal.v of validation_builtin.go BasicSeqnoValidator'],
        assumptions=['sync.RWMutex semantics: the exclusive section is atomic; shared-lock reads see a stable value',
                     'PeerMetadataStore.Get/Put behave as a map (the harness store does)'],
    ),
    'C15': dict(
        coq=['Props/C15', 'Run/C15Run', 'Model/RpcQueueIR'],
        translators=[vftranslators.tr_rpcqueue],
        go=[dict(run='^TestVF_C15$')],
        trusted_base=['hand-written transition system Model/RpcQueue.v; translator /verif/tools/rpcqueue2ir (go/ast) and the pinned skeleton Model/RpcQueueIR.v from which the transition system was derived by hand'],
        assumptions=['sync.Mutex / sync.Cond / context.AfterFunc semantics as modelled (critical sections without Wait are atomic; Signal wakes one waiter, Broadcast all; AfterFunc runs in its own goroutine after cancellation)',
                     'AfterFunc un-registration on return is not modelled (superset of behaviours)'],
    ),
    'C11': dict(
        coq=['Props/C11', 'Run/C11Run'],
        go=[dict(run='^TestVF_C11$'), dict(run='^TestVF_C11Send$')],
        trusted_base=['hand-written models Model/Wire.v (protobuf sizes) and Model/Split.v (RPC.split, sendRPC filter); harness printer of pb structs as Gallina terms (identity by pointer / unique id strings)'],
        assumptions=['identity of IHAVE topics is the *string pointer, as in the code', 'XXX_unrecognized bytes only modelled inside published messages'],
    ),
    'C02': dict(
        coq=['Props/C02', 'Run/C02Run'],
        go=[dict(run='^TestVF_C02Node$'), dict(run='^TestVF_C02TimeCache$', pkg='./timecache')],
        trusted_base=['hand-written models Model/TimeCache.v and Model/Dedup.v (seen check, validation queue, markSeen gate, direct path, local publication, sweep under virtual time; ONE validation worker)'],
        assumptions=['the message-ID function is deterministic (content-based in the harness)', 'signature verification, which precedes markSeen, is not part of this model (C03)',
                     'with several validation workers the gate is still the atomic markSeen; the model (and the harness) fix one worker so that the interleaving is determined by the operations'],
    ),
    'C04': dict(
        coq=['Props/C04', 'Run/C04Run'],
        go=[dict(run='^TestVF_C04$')],
        trusted_base=['hand-written model Model/Verdict.v (inline stage, asynchronous stage with global / per-validator throttles and completion order, delivery-record automaton of score.go)'],
        assumptions=['validators are deterministic per message', 'validator timeouts are user-code behaviour (the validator decides what to return when its context ends) and are not modelled',
                     'throttled results of the asynchronous stage reach the result channel before the parked validators complete (true whenever a validator takes any time at all; forced in the harness)'],
    ),
    'C03': dict(
        coq=['Props/C03', 'Run/C03Run'],
        go=[dict(run='^TestVF_C03$')],
        trusted_base=['hand-written model Model/SignPolicy.v; the crypto oracle (libp2p crypto: IDFromBytes, ExtractPublicKey, UnmarshalPublicKey, MatchesPublicKey, Verify; gogo-protobuf Marshal) whose answers are inputs of the model'],
        assumptions=['unforgeability of the signature schemes is NOT proved: theorems state that an accepted signed message verifies under the key bound to its author',
                     'own_messages_verify assumes correctness of the signature scheme and the (un)marshalling round trips (hypotheses of the theorem)'],
    ),
    'C07': dict(
        coq=['Props/C07', 'Run/RouterRun'],
        go=[dict(run='^TestVF_Router$')],
        rewrite_check=[('check_rcase', '(check_rcase_for 7)')],
        trusted_base=['hand-written model Model/Router.v (mesh / fanout / backoff bookkeeping of gossipsub.go); random peer selection and scores enter as validated observations'],
        assumptions=['scores are read from gs.score.Score right before each operation (application-specific integer scores; other score components switched off)',
                     'valid parameters: GossipSubParams.validate plus 1 <= OpportunisticGraftTicks (validate does not check the latter; see DESIGN.md)'],
    ),
    'C08': dict(
        coq=['Props/C08', 'Run/RouterRun'],
        go=[dict(run='^TestVF_Router$')],
        rewrite_check=[('check_rcase', '(check_rcase_for 8)')],
        trusted_base=['hand-written model Model/Router.v (backoff map, graft sites, handleGraft / handlePrune, clearBackoff)'],
        assumptions=['PRUNE backoff periods below 2^63 / 10^9 seconds (no int64 overflow of time.Duration)'],
    ),
    'C17': dict(
        coq=['Props/C17', 'Run/GossipRun'],
        go=[dict(run='^TestVF_Gossip$')],
        rewrite_check=[('check_gcase', '(check_gcase_for 17)')],
        trusted_base=['hand-written models Model/Gossip.v (mcache, handleIHave / handleIWant / handleIDontWant, emitGossip, promises, Preprocess) on top of Model/Router.v',
                      'the seen-cache never expires in Model/Gossip.v (its expiry is modelled and proved separately for C02); histories of the correspondence stay well inside the 120 s TTL'],
        assumptions=['0 < HistoryLength and HistoryGossip <= HistoryLength (NewMessageCache panics otherwise)',
                     'message IDs are unique per message (the default and every sane MsgIdFunction)'],
    ),
    'C06': dict(
        coq=['Props/C06', 'Run/GossipRun', 'Run/SimpleRun'],
        go=[dict(run='^TestVF_Gossip$'), dict(run='^TestVF_Simple$')],
        rewrite_check=[('check_gcase', '(check_gcase_for 6)'), ('check_srcase', '(check_srcase_for 6)')],
        trusted_base=['hand-written model Model/Gossip.v (rpcs recipient computation, fanout creation) and Model/Router.v (fanout maintenance)',
                      'FloodSubRouter.Publish and RandomSubRouter.Publish: Model/SimpleRouters.v',
                      'field-for-field equality of forwarded copies is checked by the harness on the real wire messages, not proved'],
        assumptions=['partial-message extension off (iSupportSendingPartial false)'],
    ),
    'C09': dict(
        coq=['Props/C09', 'Run/GossipRun'],
        go=[dict(run='^TestVF_Gossip$')],
        rewrite_check=[('check_gcase', '(check_gcase_for 9)')],
        trusted_base=['hand-written models Model/Gossip.v (AcceptFrom graylist gate, gossip / publish thresholds) and Model/Router.v (negative-score rules)',
                      'peer-exchange record validation (accept-PX threshold, signed records) and the validation-overload gater are NOT modelled'],
        assumptions=['scores are integers in the correspondence (application-specific score with weight 1, all other score components off)'],
    ),
    'C10': dict(
        coq=['Props/C10', 'Run/ScoreRun'],
        go=[dict(run='^TestVF_Score$')],
        trusted_base=['hand-written model Model/Score.v, polymorphic in the arithmetic; the correspondence runs its binary64 instance (Coq primitive floats: the kernel\'s float operations, i.e. the host\'s IEEE 754 hardware, are trusted to agree with Go\'s float64)',
                      'the theorems are proved for the exact-rational instance of the same definitions (no rounding); rounding is covered only by the bit-for-bit correspondence'],
        assumptions=['at most two scored topics per parameter set in the correspondence (score() sums topics in map order and float addition is not associative)',
                     'IP addresses are assigned by the harness through setIPs (no real connections)'],
    ),
    'C19': dict(
        coq=['Props/C19', 'Run/GossipRun', 'Run/SimpleRun'],
        go=[dict(run='^TestVF_Gossip$'), dict(run='^TestVF_Simple$')],
        rewrite_check=[('check_gcase', '(check_gcase_for 19)'), ('check_srcase', '(check_srcase_for 19)')],
        trusted_base=['Model/Trace.v (the meaning of replaying ADD_PEER / REMOVE_PEER / JOIN / LEAVE / GRAFT / PRUNE as set operations); the ground truth is the snapshot the harness takes inside the event loop',
                      'the property itself (real trace vs real state, exactly-once clauses) is decided by monitors on observed events, not by a theorem about the code'],
        assumptions=[],
    ),
}
