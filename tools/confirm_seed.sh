#!/bin/bash
# confirm_seed.sh <seed-dir-name> <property> : confirms a seeded change produced by a sub-agent in /tmp/wt-<name>
# (suite passes with it, demo fails with it and passes without), stores it under /verif/seeded/<name>/,
# runs the property's quick check against /repo with the patch applied, and removes the worktree.
name=$1; prop=$2; wt=/tmp/wt-$name; sd=/tmp/seed-$name
export GOFLAGS=-mod=mod GOPROXY=off
out=/verif/seeded/$name; mkdir -p $out
cp $sd/patch.diff $out/patch.diff; cp $sd/zz_seed_demo_test.go $out/ 2>/dev/null; cp $sd/notes.md $out/agent_notes.md 2>/dev/null
demo_pkg=.
cd $wt || exit 1
git checkout -q -- . ; rm -f zz_seed_demo_test.go */zz_seed_demo_test.go
if ! git apply $sd/patch.diff; then echo "patch does not apply"; exit 1; fi
echo "== suite with patch"; go test -vet=off -count=1 -timeout 25m ./... 2>&1 | grep -E '^(ok|FAIL|--- FAIL|panic)' > $out/suite_with_patch.txt; cat $out/suite_with_patch.txt
suite_ok=$(grep -c '^FAIL' $out/suite_with_patch.txt)
pkgline=$(head -5 $sd/zz_seed_demo_test.go | grep '^package' | awk '{print $2}')
dst=.; [ "$pkgline" = "timecache" ] && dst=timecache; [ "$pkgline" = "partialmessages" ] && dst=partialmessages
cp $sd/zz_seed_demo_test.go $dst/
echo "== demo with patch"; go test -vet=off -count=1 -run 'Seed' ./$dst 2>&1 | tail -3 > $out/demo_with_patch.txt; cat $out/demo_with_patch.txt
git apply -R $sd/patch.diff
echo "== demo without patch"; go test -vet=off -count=1 -run 'Seed' ./$dst 2>&1 | tail -3 > $out/demo_without_patch.txt; cat $out/demo_without_patch.txt
cd /repo && git -C /repo worktree remove --force $wt
# now our check
cd /repo && git status --short | grep -v '^??' && { echo "/repo not clean"; exit 1; }
if ! git -C /repo apply $out/patch.diff; then echo "patch does not apply to /repo HEAD"; echo "no-apply" > $out/check_result.txt; exit 1; fi
cd /verif && bin/check $prop > $out/check_result.txt 2>&1; echo "check rc=$?" >> $out/check_result.txt
cp /verif/replays/$prop-*.json $out/ 2>/dev/null
git -C /repo checkout -- .
cat $out/check_result.txt
