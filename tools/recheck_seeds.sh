#!/bin/bash
# recheck_seeds.sh [dir...] : applies every seeded change (default: all of /verif/seeded/*) to /repo in turn, runs the
# property's quick check, stores the output as seeded/<dir>/check_result_final.txt, and reverts /repo.
cd /verif
dirs="$@"; [ -z "$dirs" ] && dirs=$(ls -d seeded/*/ | xargs -n1 basename)
git -C /repo status --short | grep -v '^??' && { echo "/repo not clean"; exit 1; }
for d in $dirs; do
  prop=$(echo $d | grep -o 'C[0-9][0-9]' | head -1)
  [ -f seeded/$d/patch.diff ] || continue
  if ! git -C /repo apply /verif/seeded/$d/patch.diff; then echo "$d: patch does not apply"; continue; fi
  bin/check $prop > seeded/$d/check_result_final.txt 2>&1; echo "check rc=$?" >> seeded/$d/check_result_final.txt
  git -C /repo checkout -- .
  rm -f seeded/$d/C??-*.json; cp $(grep -o 'replay=[^ ]*' seeded/$d/check_result_final.txt | head -1 | cut -d= -f2) seeded/$d/ 2>/dev/null
  echo "$d: $(grep -E 'VIOLATION|-> ' seeded/$d/check_result_final.txt | tr '\n' ' ' | cut -c1-220)"
done
