// sendsites lists every channel send in the library's non-test source whose channel is a field of the
// PubSub struct (the rendezvous channels served by processLoop / the validation workers), with the enclosing
// function and whether the send sits in a select that also has a ctx.Done() (or default) arm.  Output: a
// Gallina list of Model.Shutdown.site records.
package main

import (
	"bytes"
	"fmt"
	"go/ast"
	"go/parser"
	"go/printer"
	"go/token"
	"os"
	"path/filepath"
	"sort"
	"strings"
)

var fset = token.NewFileSet()

func src(n ast.Node) string {
	var b bytes.Buffer
	printer.Fprint(&b, fset, n)
	return strings.Join(strings.Fields(b.String()), " ")
}

type site struct {
	file, fn, ch string
	line        int
	guarded     bool
	buffered    bool
}

func main() {
	dir := os.Args[1]
	files, _ := filepath.Glob(filepath.Join(dir, "*.go"))
	sort.Strings(files)
	var parsed []*ast.File
	var names []string
	for _, f := range files {
		if strings.HasSuffix(f, "_test.go") || strings.Contains(filepath.Base(f), "verif_hook") {
			continue
		}
		af, err := parser.ParseFile(fset, f, nil, 0)
		if err != nil {
			fmt.Fprintln(os.Stderr, err)
			os.Exit(1)
		}
		parsed = append(parsed, af)
		names = append(names, filepath.Base(f))
	}
	// channel-typed fields of struct PubSub, and which of them are created buffered in NewPubSub
	loopChans := map[string]bool{}
	for _, af := range parsed {
		ast.Inspect(af, func(n ast.Node) bool {
			ts, ok := n.(*ast.TypeSpec)
			if !ok || ts.Name.Name != "PubSub" {
				return true
			}
			st, ok := ts.Type.(*ast.StructType)
			if !ok {
				return true
			}
			for _, f := range st.Fields.List {
				if _, ok := f.Type.(*ast.ChanType); ok {
					for _, nm := range f.Names {
						loopChans[nm.Name] = true
					}
				}
			}
			return false
		})
	}
	buffered := map[string]bool{}
	for _, af := range parsed {
		ast.Inspect(af, func(n ast.Node) bool {
			kv, ok := n.(*ast.KeyValueExpr)
			if !ok {
				return true
			}
			k, ok := kv.Key.(*ast.Ident)
			if !ok || !loopChans[k.Name] {
				return true
			}
			if c, ok := kv.Value.(*ast.CallExpr); ok && src(c.Fun) == "make" && len(c.Args) == 2 {
				buffered[k.Name] = true
			}
			return true
		})
	}
	var sites []site
	for i, af := range parsed {
		for _, d := range af.Decls {
			fd, ok := d.(*ast.FuncDecl)
			if !ok || fd.Body == nil {
				continue
			}
			fn := fd.Name.Name
			if fd.Recv != nil && len(fd.Recv.List) > 0 {
				fn = strings.TrimPrefix(src(fd.Recv.List[0].Type), "*") + "." + fn
			}
			var walk func(n ast.Node, guarded bool)
			walk = func(n ast.Node, guarded bool) {
				ast.Inspect(n, func(m ast.Node) bool {
					switch x := m.(type) {
					case *ast.SelectStmt:
						g := false
						for _, c := range x.Body.List {
							cc := c.(*ast.CommClause)
							if cc.Comm == nil {
								g = true // default arm
								continue
							}
							t := src(cc.Comm)
							if strings.Contains(t, ".Done()") {
								g = true
							}
						}
						for _, c := range x.Body.List {
							cc := c.(*ast.CommClause)
							if s, ok := cc.Comm.(*ast.SendStmt); ok {
								record(&sites, names[i], fn, s, g, loopChans, buffered)
							}
							for _, b := range cc.Body {
								walk(b, false)
							}
						}
						return false
					case *ast.SendStmt:
						record(&sites, names[i], fn, x, guarded, loopChans, buffered)
						return false
					case *ast.FuncLit:
						walk(x.Body, false)
						return false
					}
					return true
				})
			}
			walk(fd.Body, false)
		}
	}
	sort.Slice(sites, func(a, b int) bool {
		if sites[a].file != sites[b].file {
			return sites[a].file < sites[b].file
		}
		return sites[a].line < sites[b].line
	})
	fmt.Println("From Coq Require Import List String Bool. Import ListNotations. Open Scope string_scope.")
	fmt.Println("From PS Require Import Model.Shutdown.")
	fmt.Println("Definition gen_sites : list site := [")
	var ls []string
	for _, s := range sites {
		ls = append(ls, fmt.Sprintf("  {| s_fn := \"%s\"; s_chan := \"%s\"; s_guarded := %v; s_buffered := %v |}", s.fn, s.ch, s.guarded, s.buffered))
	}
	fmt.Println(strings.Join(ls, ";\n"))
	fmt.Println("].")
	replies(parsed)
}

// replies lists every request the API hands to the event loop together with a reply channel (a struct with a channel
// field named resp): where the reply channel is made, whether it is buffered, and whether the function that made it
// receives from it unconditionally (a plain receive, not an arm of a select).  The loop answers with a bare send.
func replies(parsed []*ast.File) {
	reqTypes := map[string]int{} // struct name -> index of the resp field
	for _, af := range parsed {
		ast.Inspect(af, func(n ast.Node) bool {
			ts, ok := n.(*ast.TypeSpec)
			if !ok {
				return true
			}
			st, ok := ts.Type.(*ast.StructType)
			if !ok {
				return true
			}
			idx := 0
			for _, f := range st.Fields.List {
				for _, nm := range f.Names {
					if _, isCh := f.Type.(*ast.ChanType); isCh && nm.Name == "resp" {
						reqTypes[ts.Name.Name] = idx
					}
					idx++
				}
			}
			return false
		})
	}
	var ls []string
	for _, af := range parsed {
		for _, d := range af.Decls {
			fd, ok := d.(*ast.FuncDecl)
			if !ok || fd.Body == nil {
				continue
			}
			fn := fd.Name.Name
			if fd.Recv != nil && len(fd.Recv.List) > 0 {
				fn = strings.TrimPrefix(src(fd.Recv.List[0].Type), "*") + "." + fn
			}
			// channels made in this function
			made := map[string]bool{} // name -> buffered
			ast.Inspect(fd.Body, func(n ast.Node) bool {
				as, ok := n.(*ast.AssignStmt)
				if !ok || len(as.Lhs) != 1 || len(as.Rhs) != 1 {
					return true
				}
				id, ok := as.Lhs[0].(*ast.Ident)
				c, ok2 := as.Rhs[0].(*ast.CallExpr)
				if ok && ok2 && src(c.Fun) == "make" && len(c.Args) >= 1 {
					if _, isCh := c.Args[0].(*ast.ChanType); isCh {
						made[id.Name] = len(c.Args) == 2
					}
				}
				return true
			})
			// receives: plain or as an arm of a select
			plain := map[string]bool{}
			inSelect := map[string]bool{}
			var walk func(n ast.Node)
			walk = func(n ast.Node) {
				ast.Inspect(n, func(m ast.Node) bool {
					switch x := m.(type) {
					case *ast.SelectStmt:
						for _, c := range x.Body.List {
							cc := c.(*ast.CommClause)
							if cc.Comm != nil {
								ast.Inspect(cc.Comm, func(k ast.Node) bool {
									if u, ok := k.(*ast.UnaryExpr); ok && u.Op == token.ARROW {
										inSelect[src(u.X)] = true
									}
									return true
								})
							}
							for _, b := range cc.Body {
								walk(b)
							}
						}
						return false
					case *ast.UnaryExpr:
						if x.Op == token.ARROW {
							plain[src(x.X)] = true
						}
					}
					return true
				})
			}
			walk(fd.Body)
			ast.Inspect(fd.Body, func(n ast.Node) bool {
				cl, ok := n.(*ast.CompositeLit)
				if !ok {
					return true
				}
				tn := src(cl.Type)
				idx, isReq := reqTypes[tn]
				if !isReq {
					return true
				}
				var e ast.Expr
				for i, el := range cl.Elts {
					if kv, ok := el.(*ast.KeyValueExpr); ok {
						if src(kv.Key) == "resp" {
							e = kv.Value
						}
					} else if i == idx {
						e = el
					}
				}
				if e == nil {
					return true // no reply channel in this request (a nil resp is never answered)
				}
				buffered, recvPlain, name := false, false, src(e)
				if c, ok := e.(*ast.CallExpr); ok && src(c.Fun) == "make" {
					buffered = len(c.Args) == 2
					name = ""
				} else if b, ok := made[name]; ok {
					buffered = b
				} else {
					fmt.Fprintf(os.Stderr, "sendsites: cannot find where %s makes the reply channel %s of its %s\n", fn, name, tn)
					os.Exit(1)
				}
				if name != "" {
					recvPlain = plain[name] && !inSelect[name]
				} else {
					// made inline: received through the request value (req.resp); look for any plain receive of a .resp
					for k := range plain {
						if strings.HasSuffix(k, ".resp") {
							recvPlain = true
						}
					}
					for k := range inSelect {
						if strings.HasSuffix(k, ".resp") {
							recvPlain = false
						}
					}
				}
				ls = append(ls, fmt.Sprintf("  {| r_fn := \"%s\"; r_req := \"%s\"; r_buffered := %v; r_plain_recv := %v |}", fn, tn, buffered, recvPlain))
				return true
			})
		}
	}
	fmt.Println("Definition gen_replies : list reply := [")
	fmt.Println(strings.Join(ls, ";\n"))
	fmt.Println("].")
}

func record(sites *[]site, file, fn string, s *ast.SendStmt, guarded bool, loopChans, buffered map[string]bool) {
	ch := src(s.Chan)
	parts := strings.Split(ch, ".")
	last := parts[len(parts)-1]
	if !loopChans[last] || len(parts) < 2 {
		return
	}
	*sites = append(*sites, site{file: file, fn: fn, ch: last, line: fset.Position(s.Pos()).Line, guarded: guarded, buffered: buffered[last]})
}
