#!/bin/bash
# confirm_round.sh <round> Cxx[suffix]... : confirms the seeds r<round>-Cxx produced in /tmp/seed-r<round>-Cxx / /tmp/wt-r<round>-Cxx
r=$1; shift
for p in "$@"; do
  prop=$(echo $p | grep -o 'C[0-9][0-9]')
  echo "######## r$r-$p"; /verif/tools/confirm_seed.sh r$r-$p $prop 2>&1 | tail -25
done
