module veriftools

go 1.23
