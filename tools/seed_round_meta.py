#!/usr/bin/env python3
"""seed_round_meta.py <round>: writes meta.json for seeded/r<round>-Cxx from the confirmation files, the one-line change
descriptions (seeded/r<round>_changes.json) and the first answers of the checks (seeded/r<round>_first_results.json);
appends the round's table to seeded/README.md."""
import sys, json, os, glob
rnd = sys.argv[1]
chg = json.load(open('/verif/seeded/r%s_changes.json' % rnd))
first = json.load(open('/verif/seeded/r%s_first_results.json' % rnd))
rows = []
for d in sorted(glob.glob('/verif/seeded/r%s-C*' % rnd)):
    name = os.path.basename(d)
    prop = name.split('-')[1][:3]
    def rd(f):
        p = os.path.join(d, f)
        return open(p).read() if os.path.exists(p) else ''
    res = rd('check_result_final.txt') or rd('check_result.txt')
    meta = {
        'property': prop, 'change': chg.get(prop, '') if name.endswith(prop) else 'second variant by the same agent, see agent_notes.md',
        'suite_with_patch': rd('suite_with_patch.txt').strip().splitlines(),
        'demo_with_patch': rd('demo_with_patch.txt').strip().splitlines()[-1:],
        'demo_without_patch': rd('demo_without_patch.txt').strip().splitlines()[-1:],
        'first_answer_of_the_checks_before_strengthening': first.get(prop, '') if name.endswith(prop) else 'concrete',
        'check_output_now': [l for l in res.strip().splitlines() if 'VIOLATION' in l or 'tier=' in l or 'check rc' in l],
        'detected': 'VIOLATION' in res,
        'concrete_replay': 'VIOLATION' in res and 'no-failing-input-found' not in res,
        'ran': ['go test -vet=off -count=1 -timeout 25m ./... (patch applied, demo absent)', 'go test -run Seed (patch applied) -> FAIL',
                'go test -run Seed (patch reverted) -> ok', 'git -C /repo apply patch.diff; bin/check %s; git -C /repo checkout -- .' % prop],
    }
    json.dump(meta, open(os.path.join(d, 'meta.json'), 'w'), indent=1)
    fin = 'caught, concrete' if meta['concrete_replay'] else ('caught, no-failing-input-found' if meta['detected'] else 'MISSED')
    fa = {'concrete': 'caught, concrete', 'no-failing-input-found': 'caught, no-failing-input-found', 'missed': 'MISSED'}.get(meta['first_answer_of_the_checks_before_strengthening'], '?')
    rows.append('| %s | %s | %s | %s |' % (name, meta['change'], fa, fin))
s = open('/verif/seeded/README.md').read()
hdr = '## Round %s' % rnd
if hdr in s:
    s = s[:s.index(hdr)].rstrip() + '\n'
s = s.rstrip() + '\n\n' + hdr + ' (`seeded/r%s-Cxx/`)\n\nFirst answer = the checks as they stood before this round; final = after the strengthening described in DESIGN.md 9.6.\n\n| seed | change (one line) | first answer | final result |\n|---|---|---|---|\n' % rnd + '\n'.join(rows) + '\n'
open('/verif/seeded/README.md', 'w').write(s)
print('\n'.join(rows))
