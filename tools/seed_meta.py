#!/usr/bin/env python3
import sys, json, os
name, prop, needs = sys.argv[1], sys.argv[2], sys.argv[3]
d = '/verif/seeded/' + name
res = open(d + '/check_result.txt').read()
meta = {
 'property': prop, 'needs_to_manifest': needs,
 'suite_with_patch': open(d + '/suite_with_patch.txt').read().strip().splitlines(),
 'demo_with_patch': open(d + '/demo_with_patch.txt').read().strip().splitlines()[-1:],
 'demo_without_patch': open(d + '/demo_without_patch.txt').read().strip().splitlines()[-1:],
 'ran': ['go test -vet=off -count=1 -timeout 25m ./... (patch applied, demo absent)', 'go test -run Seed (patch applied) -> FAIL', 'go test -run Seed (patch reverted) -> ok',
         'git -C /repo apply patch.diff; bin/check %s; git -C /repo checkout -- .' % prop],
 'check_output': res.strip().splitlines(),
 'detected': 'VIOLATION' in res,
 'concrete_replay': 'VIOLATION' in res and 'no-failing-input-found' not in res,
}
fin = d + '/check_result_final.txt'
if os.path.exists(fin):
    r2 = open(fin).read()
    meta['check_output_after_strengthening'] = [l for l in r2.strip().splitlines() if 'VIOLATION' in l or 'tier=' in l or 'check rc' in l]
    meta['detected_after_strengthening'] = 'VIOLATION' in r2
    meta['concrete_replay_after_strengthening'] = 'VIOLATION' in r2 and 'no-failing-input-found' not in r2
json.dump(meta, open(d + '/meta.json', 'w'), indent=1)
print(name, 'detected=', meta['detected'], 'concrete=', meta['concrete_replay'])
