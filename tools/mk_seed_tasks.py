#!/usr/bin/env python3
"""mk_seed_tasks.py <round> : writes /tmp/seed-r<round>-Cxx/TASK.md for the next round of seeded changes from the previous
round's TASK.md (which lists the earlier changes for the property) plus the previous round's one-liner, and creates the
scratch worktrees /tmp/wt-r<round>-Cxx. The agents get nothing but this file and their worktree.
If the previous round's TASK.md files are gone, rebuild them from tools/seed_task_template.md, properties.jsonl and
seeded/r*_changes.json."""
import sys, os, re, json, subprocess
rnd = int(sys.argv[1]); prev = rnd - 1
chg = json.load(open('/verif/seeded/r%d_changes.json' % prev))
words = {1: 'One', 2: 'Two', 3: 'Three', 4: 'Four', 5: 'Five', 6: 'Six', 7: 'Seven'}
for i in range(1, 21):
    p = 'C%02d' % i
    src = open('/tmp/seed-r%d-%s/TASK.md' % (prev, p)).read()
    s = src.replace('r%d-%s' % (prev, p), 'r%d-%s' % (rnd, p))
    # extend the numbered list of previous changes
    m = re.search(r'((?:  \d+\. ".*"\n)+)', s)
    items = m.group(1)
    n = len(items.strip().splitlines())
    new_items = items + '  %d. "%s"\n' % (n + 1, chg[p].replace('"', "'"))
    s = s.replace(items, new_items)
    s = s.replace('%s previous seeded changes' % words[n], '%s previous seeded changes' % words[n + 1])
    s = s.replace('from all %s.' % words[n].lower(), 'from all %s.' % words[n + 1].lower())
    d = '/tmp/seed-r%d-%s' % (rnd, p)
    os.makedirs(d, exist_ok=True)
    open(d + '/TASK.md', 'w').write(s)
    wt = '/tmp/wt-r%d-%s' % (rnd, p)
    if not os.path.exists(wt):
        subprocess.run(['git', '-C', '/repo', 'worktree', 'add', '--detach', wt, 'HEAD'], check=True, capture_output=True)
print('ok')
