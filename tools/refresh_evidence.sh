#!/bin/bash
# re-runs every claimed check (quick tier, seed 1) on the current /repo tree so that the committed evidence files
# describe a clean-tree run; prints one line per property
cd /verif
git -C /repo status --short | grep -v '^??' && { echo "/repo not clean"; exit 1; }
for p in $(python3 -c "import json; print(' '.join(c['property_id'] for c in json.load(open('/verif/MANIFEST.json'))['checks']))"); do
  VERIF_SEED=1 VERIF_TIER=quick bin/check $p --tier quick 2>&1 | tail -1 | cut -c1-160
done
