//go:build verif

package timecache

// C02 (a): the two time caches alone, under synctest virtual time, against Model/TimeCache.v.

import (
	"encoding/json"
	"fmt"
	"hash/fnv"
	"math/rand"
	"os"
	"path/filepath"
	"strconv"
	"strings"
	"sync"
	"testing"
	"testing/synctest"
	"time"
)

func vfSeedTC() int64 {
	if s := os.Getenv("VERIF_SEED"); s != "" {
		if v, err := strconv.ParseInt(s, 10, 64); err == nil {
			return v
		}
	}
	return 1
}

type vfTCOp struct {
	Op   string `json:"op"`
	ID   int    `json:"id,omitempty"`
	D    int64  `json:"d_ms,omitempty"`
	Res  bool   `json:"res"`
	ResL []bool `json:"results,omitempty"` // "addc": the results of the concurrent Add calls
}

// vfRunTCConc: rounds of G Add calls of one fresh (or, every fourth round, already present) id released together from G
// goroutines; whatever the interleaving inside Add, exactly one call adds a fresh id and none a present one.
func vfRunTCConc(t *testing.T, lastSeen bool, rounds, G int) []vfTCOp {
	var out []vfTCOp
	synctest.Test(t, func(t *testing.T) {
		var c TimeCache
		if lastSeen {
			c = newLastSeenCacheWithSweepInterval(time.Hour, time.Hour)
		} else {
			c = newFirstSeenCacheWithSweepInterval(time.Hour, time.Hour)
		}
		defer c.Done()
		for r := 0; r < rounds; r++ {
			id := r
			if r%4 == 3 {
				id = r - 1 // added in the round before
			}
			res := make([]bool, G)
			start := make(chan struct{})
			var wg sync.WaitGroup
			for g := 0; g < G; g++ {
				wg.Add(1)
				go func(g int) {
					defer wg.Done()
					<-start
					res[g] = c.Add(fmt.Sprint(id))
				}(g)
			}
			synctest.Wait()
			close(start)
			wg.Wait()
			out = append(out, vfTCOp{Op: "addc", ID: id, ResL: res})
		}
	})
	return out
}

func vfRunTC(t *testing.T, lastSeen bool, ttl, interval time.Duration, script []vfTCOp) []vfTCOp {
	out := make([]vfTCOp, len(script))
	synctest.Test(t, func(t *testing.T) {
		var c TimeCache
		if lastSeen {
			c = newLastSeenCacheWithSweepInterval(ttl, interval)
		} else {
			c = newFirstSeenCacheWithSweepInterval(ttl, interval)
		}
		defer c.Done()
		for i, o := range script {
			out[i] = o
			switch o.Op {
			case "add":
				out[i].Res = c.Add(fmt.Sprint(o.ID))
			case "has":
				out[i].Res = c.Has(fmt.Sprint(o.ID))
			case "sleep":
				time.Sleep(time.Duration(o.D) * time.Millisecond)
				synctest.Wait()
			}
		}
	})
	return out
}

func TestVF_C02TimeCache(t *testing.T) {
	dir := os.Getenv("VERIF_OUT")
	if dir == "" {
		t.Skip("VERIF_OUT not set")
	}
	thorough := os.Getenv("VERIF_TIER") == "thorough"
	rng := rand.New(rand.NewSource(vfSeedTC()*7919 + 2))
	var lits []string
	var recs []any
	hashes := map[uint64]bool{}
	nontriv := 0
	kinds := map[string]int{}
	emit := func(lastSeen bool, ttl, interval time.Duration, obs []vfTCOp) {
		var ops []string
		expired := false
		seenBefore := map[int]bool{}
		for _, o := range obs {
			switch o.Op {
			case "add":
				ops = append(ops, fmt.Sprintf("TAdd %d %v", o.ID, o.Res))
				if o.Res && seenBefore[o.ID] {
					expired = true
				}
				seenBefore[o.ID] = true
			case "addc":
				var bl []string
				for _, b := range o.ResL {
					bl = append(bl, fmt.Sprint(b))
				}
				ops = append(ops, fmt.Sprintf("TAddC %d [%s]", o.ID, strings.Join(bl, "; ")))
			case "has":
				ops = append(ops, fmt.Sprintf("THas %d %v", o.ID, o.Res))
			case "sleep":
				ops = append(ops, fmt.Sprintf("TSleep (%d)%%Z", o.D*1000000))
			}
			kinds[o.Op]++
		}
		sg := "FirstSeen"
		if lastSeen {
			sg = "LastSeen"
		}
		lit := fmt.Sprintf("{| t_strat := %s; t_ttl := (%d)%%Z; t_interval := (%d)%%Z; t_ops := [%s] |}", sg, ttl.Nanoseconds(), interval.Nanoseconds(), strings.Join(ops, "; "))
		lits = append(lits, lit)
		recs = append(recs, map[string]any{"strategy": sg, "ttl_ms": ttl.Milliseconds(), "interval_ms": interval.Milliseconds(), "ops": obs})
		h := fnv.New64a()
		h.Write([]byte(lit))
		if !hashes[h.Sum64()] {
			hashes[h.Sum64()] = true
			if expired {
				nontriv++
			}
		}
	}
	// exhaustive: every sequence of length <= L over {add0, add1, has0, has1, sleep to just before/at/after
	// expiry and expiry+interval}; ttl 10 s, interval 4 s; ops at x.5 s offsets so that no operation coincides with a sweep
	L := 4
	if thorough {
		L = 6
	}
	alpha := []vfTCOp{{Op: "add", ID: 0}, {Op: "add", ID: 1}, {Op: "has", ID: 0}, {Op: "has", ID: 1}, {Op: "sleep", D: 3000}, {Op: "sleep", D: 10000}, {Op: "sleep", D: 14000}}
	nexh := 0
	var gen func(prefix []vfTCOp, depth int)
	gen = func(prefix []vfTCOp, depth int) {
		if depth == 0 {
			for _, ls := range []bool{false, true} {
				script := append([]vfTCOp{{Op: "sleep", D: 500}}, prefix...)
				emit(ls, 10*time.Second, 4*time.Second, vfRunTC(t, ls, 10*time.Second, 4*time.Second, script))
				nexh++
			}
			return
		}
		for _, a := range alpha {
			gen(append(append([]vfTCOp{}, prefix...), a), depth-1)
		}
	}
	gen(nil, L)
	// random: instants exactly at expiry and at expiry+interval are reached through sleeps of whole seconds
	// from a 0.5 s offset against ttl/interval that are multiples of 0.5 s
	nrand := 150
	if thorough {
		nrand = 3000
	}
	for c := 0; c < nrand; c++ {
		ttl := time.Duration(2+rng.Intn(20)) * 500 * time.Millisecond
		interval := time.Duration(1+rng.Intn(12)) * time.Second
		n := 5 + rng.Intn(40)
		script := []vfTCOp{{Op: "sleep", D: 500}}
		for i := 0; i < n; i++ {
			switch r := rng.Intn(10); {
			case r < 4:
				script = append(script, vfTCOp{Op: "add", ID: rng.Intn(3)})
			case r < 7:
				script = append(script, vfTCOp{Op: "has", ID: rng.Intn(3)})
			default:
				script = append(script, vfTCOp{Op: "sleep", D: int64(1+rng.Intn(15)) * 1000})
			}
		}
		ls := rng.Intn(2) == 0
		emit(ls, ttl, interval, vfRunTC(t, ls, ttl, interval, script))
	}
	// concurrent Add calls of one id (real goroutines released together)
	nconc := 8000
	if thorough {
		nconc = 20000
	}
	for _, ls := range []bool{false, true} {
		for k := 0; k < nconc; k += 100 {
			emit(ls, time.Hour, time.Hour, vfRunTCConc(t, ls, 100, 16))
		}
	}
	shard := 400
	nsh := 0
	for i := 0; i < len(lits); i += shard {
		j := i + shard
		if j > len(lits) {
			j = len(lits)
		}
		var b strings.Builder
		b.WriteString("From PS Require Import Model.TimeCache Run.C02Run Run.Verdict.\nFrom Coq Require Import List ZArith. Import ListNotations.\n")
		b.WriteString("Definition cases : list tcase := [\n" + strings.Join(lits[i:j], ";\n") + "\n].\n")
		b.WriteString("Definition R := Eval vm_compute in bad_cases check_tcase cases.\nPrint R.\n")
		stem := fmt.Sprintf("cases_c02tc_%d", nsh)
		os.WriteFile(filepath.Join(dir, stem+".v"), []byte(b.String()), 0o644)
		js, _ := json.Marshal(recs[i:j])
		os.WriteFile(filepath.Join(dir, stem+".json"), js, 0o644)
		nsh++
	}
	st := map[string]any{"name": "c02tc", "cases": len(lits), "distinct": len(hashes), "distinct_nontrivial": nontriv,
		"rule": "both cache implementations under synctest: every op sequence up to the stated length over {Add, Has} x 2 ids and sleeps that land before / at / after expiry and expiry+sweep interval, plus random sequences with random ttl and interval, plus rounds of sixteen Add calls of one id released together from sixteen goroutines (exactly one adds a fresh id, none a present one); non-trivial = an id was re-added after having been forgotten; distinct = hash of parameters+ops+results",
		"kinds": kinds, "samples": recs[len(recs)-2:], "shards": nsh, "seed": vfSeedTC(), "extra": map[string]any{"exhaustive_sequences": nexh, "exhaustive_len": L}}
	js, _ := json.MarshalIndent(st, "", " ")
	os.WriteFile(filepath.Join(dir, "stats_c02tc.json"), js, 0o644)
}
