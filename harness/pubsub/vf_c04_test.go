//go:build verif

package pubsub

import (
	"context"
	"encoding/json"
	"fmt"
	"os"
	"path/filepath"
	"strings"
	"sync"
	"testing"
	"testing/synctest"
	"time"

	pb "github.com/libp2p/go-libp2p-pubsub/pb"
	"github.com/libp2p/go-libp2p/core/peer"
)

// C04: one message through the real validation pipeline of a gossipsub node with peer scoring.
// Validators: default ones (construction options) followed by the topic validator, each inline or
// asynchronous with a fixed verdict; asynchronous ones park until the harness releases them (in a
// chosen completion order).  An optional earlier "blocker" message stays parked inside chosen
// asynchronous validators (concurrency 1) and in the global throttle, so that the message under test
// finds those throttles exhausted.

var vfDebug bool

type vfC04Val struct {
	Inline  bool   `json:"inline"`
	Res     string `json:"res"` // Acc | Rej | Ign | Other
	Topic   bool   `json:"topic_validator"`
	Blocked bool   `json:"throttle_exhausted"` // the blocker is parked in this (async) validator
	Raw     int    `json:"raw_value"`          // for Other: the out-of-range value returned (0 = 99)
}

type vfC04Case struct {
	Vals      []vfC04Val `json:"validators"`
	Local     bool       `json:"local"`
	GlobalCap int        `json:"global_throttle"`
	Blocker   bool       `json:"blocker"`
	Order     []int      `json:"completion_order"` // indices into the async list
	During    []int      `json:"dups_during"`
	After     []int      `json:"dups_after"`
	QWait     bool       `json:"queued_behind_busy_worker"` // the message waits in the validation queue (worker parked in validator 0) while a message of ANOTHER topic is pushed
	QFull     int        `json:"validation_queue_full"` // > 0: queue of that size, its worker parked (in validator 0, inline) and the queue filled before the message arrives
}

type vfC04Obs struct {
	During    []int // duplicates that really arrived while the message was parked in validation
	After     []int
	Delivered bool
	Reason    int
	PubErr    bool
	Invoked   []bool
	Pens      map[int]int
}

type vfC04Tracer struct {
	vfNopTracer
	onReject func(data string, reason string)
}

func (tr *vfC04Tracer) RejectMessage(m *Message, reason string) { tr.onReject(string(m.Data), reason) }

// out-of-range verdicts: above and below the defined ones, small and extreme
var vfC04Raw = []int{99, 3, 1 << 30, -1, -2, -2147483648}

func vfC04Verdict(s string) ValidationResult {
	switch s {
	case "Acc":
		return ValidationAccept
	case "Rej":
		return ValidationReject
	case "Ign":
		return ValidationIgnore
	}
	return ValidationResult(99)
}

func vfC04Run(t *testing.T, c vfC04Case) (obs vfC04Obs) {
	synctest.Test(t, func(t *testing.T) {
		ctx, cancel := context.WithCancel(context.Background())
		defer cancel()
		h := vfHosts(t, 1)[0]
		var mu sync.Mutex
		obs.Invoked = make([]bool, len(c.Vals))
		obs.Pens = map[int]int{}
		reason := 0
		tr := &vfC04Tracer{onReject: func(data, r string) {
			if vfDebug {
				fmt.Println("REJECT", data, r)
			}
			if data != "M" {
				return
			}
			mu.Lock()
			switch r {
			case RejectValidationFailed:
				reason = 1
			case RejectValidationIgnored:
				reason = 2
			case RejectValidationThrottled:
				reason = 3
			case RejectValidationQueueFull:
				reason = 4
			default:
				reason = 9
			}
			mu.Unlock()
		}}
		releases := make([]chan struct{}, len(c.Vals))
		blockerRelease := make(chan struct{})
		qRelease := make(chan struct{})
		mk := func(i int) ValidatorEx {
			releases[i] = make(chan struct{})
			return func(vctx context.Context, _ peer.ID, m *Message) ValidationResult {
				if d := string(m.Data); d == "Q" || d == "U" || strings.HasPrefix(d, "F") {
					// the message that keeps the only worker busy, the fillers of the validation queue, the message of the other topic
					if d == "Q" && i == 0 && (c.QFull > 0 || c.QWait) {
						select {
						case <-qRelease:
						case <-ctx.Done():
						}
					}
					if i == 0 && (d == "Q" || d == "U") {
						return ValidationReject // rejected inline: these never reach the asynchronous stage, so they take no throttle
					}
					return ValidationAccept
				}
				if string(m.Data) == "B" {
					if c.Vals[i].Blocked && !c.Vals[i].Inline {
						select {
						case <-blockerRelease:
						case <-ctx.Done():
						}
					}
					return ValidationAccept
				}
				mu.Lock()
				obs.Invoked[i] = true
				mu.Unlock()
				if !c.Vals[i].Inline && m.ReceivedFrom != h.ID() {
					select {
					case <-releases[i]:
					case <-ctx.Done():
					}
				}
				if c.Vals[i].Res == "Other" && c.Vals[i].Raw != 0 {
					return ValidationResult(c.Vals[i].Raw)
				}
				return vfC04Verdict(c.Vals[i].Res)
			}
		}
		tw := 1.0
		sp := &PeerScoreParams{
			AppSpecificScore: func(peer.ID) float64 { return 0 }, DecayInterval: time.Second, DecayToZero: 0.01, RetainScore: time.Minute,
			Topics: map[string]*TopicScoreParams{"t": {TopicWeight: tw, TimeInMeshQuantum: time.Second, InvalidMessageDeliveriesWeight: -1, InvalidMessageDeliveriesDecay: 0.99}},
		}
		th := &PeerScoreThresholds{GossipThreshold: -1e9, PublishThreshold: -1e9 - 1, GraylistThreshold: -1e9 - 2}
		opts := []Option{WithMessageSignaturePolicy(StrictNoSign), WithMessageIdFn(func(m *pb.Message) string { return string(m.Data) }),
			WithValidateWorkers(1), WithValidateThrottle(c.GlobalCap), WithRawTracer(tr), WithPeerScore(sp, th)}
		if c.QFull > 0 {
			opts = append(opts, WithValidateQueueSize(c.QFull))
		}
		for i, v := range c.Vals {
			if v.Topic {
				continue
			}
			vo := []ValidatorOpt{WithValidatorInline(v.Inline), WithValidatorConcurrency(1)}
			opts = append(opts, WithDefaultValidator(mk(i), vo...))
		}
		ps, err := NewGossipSub(ctx, h, opts...)
		if err != nil {
			t.Fatal(err)
		}
		for i, v := range c.Vals {
			if v.Topic {
				if err := ps.RegisterTopicValidator("t", mk(i), WithValidatorInline(v.Inline), WithValidatorConcurrency(1)); err != nil {
					t.Fatal(err)
				}
			}
		}
		topic, err := ps.Join("t")
		if err != nil {
			t.Fatal(err)
		}
		// a second topic with a validator of its own that accepts everything
		if err := ps.RegisterTopicValidator("u", func(context.Context, peer.ID, *Message) ValidationResult { return ValidationAccept }, WithValidatorInline(true)); err != nil {
			t.Fatal(err)
		}
		if tu, err := ps.Join("u"); err == nil {
			if su, err := tu.Subscribe(); err == nil {
				defer su.Cancel()
			}
		}
		sub, err := topic.Subscribe()
		if err != nil {
			t.Fatal(err)
		}
		go func() {
			for {
				m, err := sub.Next(ctx)
				if err != nil {
					return
				}
				if string(m.Data) == "M" {
					mu.Lock()
					obs.Delivered = true
					mu.Unlock()
				}
			}
		}()
		gs := ps.rt.(*GossipSubRouter)
		fake := vfPeerIDs(10)
		vfEval(ps, func() {
			for _, p := range fake {
				gs.score.OnNewOutboundStream(p, GossipSubID_v12)
			}
		})
		tt := "t"
		recvT := func(data string, tn string, from int) {
			vfEval(ps, func() {
				ps.handleIncomingRPC(&RPC{RPC: pb.RPC{Publish: []*pb.Message{{Data: []byte(data), Topic: &tn}}}, from: fake[from]})
			})
			synctest.Wait()
		}
		recv := func(data string, from int) { recvT(data, tt, from) }
		if c.Blocker {
			recv("B", 9)
		}
		if c.QFull > 0 {
			// the worker parks inside the first (inline) validator, the queue fills up
			recv("Q", 9)
			for k := 0; k < c.QFull; k++ {
				recv(fmt.Sprintf("F%d", k), 9)
			}
			recv("M", 0)
			for _, p := range c.After {
				recv("M", p)
				obs.After = append(obs.After, p)
			}
			close(qRelease)
			synctest.Wait()
		} else if c.Local {
			err := topic.Publish(ctx, []byte("M"))
			obs.PubErr = err != nil
			synctest.Wait()
		} else {
			if c.QWait {
				recv("Q", 9) // the worker parks in validator 0
			}
			recv("M", 0)
			duringDone := false
			if c.QWait {
				// M waits in the queue with the validators that apply to IT; copies from other peers queue up behind it (they are
				// duplicates by the time the worker gets to them) and a message of the other topic is pushed meanwhile
				for _, p := range c.During {
					recv("M", p)
				}
				duringDone = true
				recvT("U", "u", 9)
				close(qRelease)
				synctest.Wait()
				// the queued copies are handled right after M's synchronous stage: while M is parked in its asynchronous stage they
				// are duplicates of a message under validation, otherwise duplicates of a decided one
				mu.Lock()
				stillParked := reason == 0 && !obs.Delivered
				mu.Unlock()
				for _, p := range c.During {
					if stillParked {
						obs.During = append(obs.During, p)
					} else {
						obs.After = append(obs.After, p)
					}
				}
			}
			mu.Lock()
			parked := reason == 0 && !obs.Delivered
			mu.Unlock()
			for _, p := range c.During {
				if duringDone {
					break
				}
				recv("M", p)
				if parked {
					obs.During = append(obs.During, p)
				} else {
					obs.After = append(obs.After, p)
				}
			}
			// release the asynchronous validators in the chosen order
			ai := []int{}
			for i, v := range c.Vals {
				if !v.Inline {
					ai = append(ai, i)
				}
			}
			for _, j := range c.Order {
				select {
				case releases[ai[j]] <- struct{}{}:
				default: // not invoked (throttled or never reached)
				}
				synctest.Wait()
			}
			for _, p := range c.After {
				recv("M", p)
				obs.After = append(obs.After, p)
			}
		}
		if c.Blocker {
			close(blockerRelease)
			synctest.Wait()
		}
		vfEval(ps, func() {
			for i, p := range fake[:9] {
				if st, ok := gs.score.peerStats[p]; ok {
					if ts, ok := st.topics["t"]; ok {
						obs.Pens[i] = int(ts.invalidMessageDeliveries + 0.5)
					}
				}
			}
		})
		mu.Lock()
		obs.Reason = reason
		mu.Unlock()
		cancel()
		synctest.Wait()
	})
	return
}

func vfC04Lit(c vfC04Case, o vfC04Obs) string {
	var vals []string
	var thr []string
	nasync := 0
	anyBlocked := false
	for _, v := range c.Vals {
		if !v.Inline && v.Blocked {
			anyBlocked = true
		}
	}
	for _, v := range c.Vals {
		vals = append(vals, fmt.Sprintf("{| v_inline := %v; v_res := %s |}", v.Inline, v.Res))
		if !v.Inline && !c.Local {
			thr = append(thr, vfBool(c.Blocker && v.Blocked))
			nasync++
		}
	}
	var pens []string
	for p := 0; p < 9; p++ {
		pens = append(pens, fmt.Sprintf("(%d, %d)", p, o.Pens[p]))
	}
	inv := vfList(o.Invoked, vfBool)
	return fmt.Sprintf("{| k_setup := {| s_vals := [%s]; s_local := %v; s_global_thr := %v; s_thr := [%s]; s_order := %s |}; k_qfull := "+vfBool(c.QFull > 0)+";\n   k_from := 0; k_during := %s; k_after := %s;\n   o_delivered := %v; o_reason := %d; o_pub_err := %v; o_invoked := %s; o_penalties := [%s] |}",
		strings.Join(vals, "; "), c.Local, c.Blocker && c.GlobalCap == 1 && nasync > 0 && anyBlocked, strings.Join(thr, "; "), vfNats(c.Order),
		vfNats(o.During), vfNats(o.After), o.Delivered, o.Reason, o.PubErr, inv, strings.Join(pens, "; "))
}

func TestVF_C04(t *testing.T) {
	cs := vfNewCases(t, "c04", "From PS Require Import Model.Verdict Run.C04Run.", "case", "check_case")
	cs.shard = 300
	rng := vfRng(4)
	resv := []string{"Acc", "Rej", "Ign", "Other"}
	emit := func(c vfC04Case) {
		// the case about to run is kept on disk, so that a crash of the process can be attributed to it
		if js, err := json.Marshal(c); err == nil {
			os.WriteFile(filepath.Join(vfOutDir(t), "c04_last_input.json"), js, 0o644)
		}
		o := vfC04Run(t, c)
		nonAcc := false
		for _, v := range c.Vals {
			if v.Res != "Acc" {
				nonAcc = true
			}
		}
		cs.add(vfC04Lit(c, o), map[string]any{"case": c, "observed": map[string]any{"delivered": o.Delivered, "reason": o.Reason, "publish_error": o.PubErr, "invoked": o.Invoked, "penalties": o.Pens}}, nonAcc)
	}
	// exhaustive: every verdict vector over up to N validators x every inline/async placement (the last one
	// being the topic validator), remote origin, natural completion order, one duplicate during and one after
	nmax := vfN(2, 3)
	nexh := 0
	for n := 0; n <= nmax; n++ {
		total := 1
		for i := 0; i < n; i++ {
			total *= 8
		}
		for code := 0; code < total; code++ {
			c := vfC04Case{GlobalCap: 8}
			x := code
			nas := 0
			for i := 0; i < n; i++ {
				v := vfC04Val{Res: resv[x%4], Inline: (x/4)%2 == 0, Topic: i == n-1, Raw: vfC04Raw[(code+i)%len(vfC04Raw)]}
				x /= 8
				if !v.Inline {
					nas++
				}
				c.Vals = append(c.Vals, v)
			}
			for j := 0; j < nas; j++ {
				c.Order = append(c.Order, j)
			}
			if nas > 0 {
				c.During = []int{1}
			}
			c.After = []int{2}
			emit(c)
			nexh++
			if n > 0 {
				lc := c
				lc.Local, lc.During, lc.After, lc.Order = true, nil, nil, nil
				emit(lc)
				nexh++
			}
		}
	}
	// a message that waits in the validation queue while a message of another topic is pushed: one to three accepting default
	// validators followed by a topic validator that does not accept, inline or asynchronous
	for ndef := 1; ndef <= 3; ndef++ {
		for _, res := range []string{"Rej", "Ign", "Other"} {
			for _, inl := range []bool{true, false} {
				c := vfC04Case{GlobalCap: 8, QWait: true, During: []int{1}, After: []int{2}}
				for k := 0; k < ndef; k++ {
					c.Vals = append(c.Vals, vfC04Val{Res: "Acc", Inline: true})
				}
				c.Vals = append(c.Vals, vfC04Val{Res: res, Inline: inl, Topic: true, Raw: -1})
				if !inl {
					c.Order = []int{0}
				}
				emit(c)
				nexh++
			}
		}
	}
	cs.extra["exhaustive_cases"] = nexh
	cs.extra["exhaustive_max_validators"] = nmax
	// random: up to 4 validators, completion orders, throttles, duplicates
	nrand := vfN(150, 3000)
	for k := 0; k < nrand; k++ {
		n := 1 + rng.Intn(4)
		c := vfC04Case{GlobalCap: 1 + rng.Intn(2), Blocker: rng.Intn(3) == 0, Local: rng.Intn(6) == 0}
		nas := 0
		for i := 0; i < n; i++ {
			r := resv[rng.Intn(4)]
			if rng.Intn(2) == 0 {
				r = "Acc"
			}
			v := vfC04Val{Res: r, Inline: rng.Intn(2) == 0, Topic: i == n-1 && rng.Intn(3) != 0, Blocked: rng.Intn(2) == 0, Raw: vfC04Raw[rng.Intn(len(vfC04Raw))]}
			if !v.Inline {
				nas++
			}
			c.Vals = append(c.Vals, v)
			cs.kind(r)
		}
		if !c.Local && !c.Blocker && rng.Intn(5) == 0 {
			c.QWait = true
			c.Vals[0].Inline, c.Vals[0].Res, c.Vals[0].Topic = true, "Acc", n == 1 && c.Vals[0].Topic
			nas = 0
			for _, v := range c.Vals {
				if !v.Inline {
					nas++
				}
			}
			for j := rng.Intn(3); j > 0; j-- {
				c.During = append(c.During, 1+rng.Intn(4))
			}
			cs.kind("queued-behind-busy-worker")
		}
		if !c.Local && !c.QWait && rng.Intn(8) == 0 {
			// a full validation queue: the first validator is inline and accepts (the worker parks in it for another message)
			c.QFull = 1 + rng.Intn(2)
			c.Blocker = false
			c.Vals[0].Inline, c.Vals[0].Res, c.Vals[0].Topic = true, "Acc", n == 1 && c.Vals[0].Topic
			for j := rng.Intn(3); j > 0; j-- {
				c.After = append(c.After, 1+rng.Intn(6))
			}
			cs.kind("queue-full")
		} else if c.Local {
			c.Blocker = false
		} else {
			c.Order = rng.Perm(nas)
			// with an exhausted throttle, the throttled validators never complete: keep only the others in the order
			var ord []int
			ai := 0
			thr := map[int]bool{}
			for _, v := range c.Vals {
				if !v.Inline {
					thr[ai] = c.Blocker && v.Blocked
					ai++
				}
			}
			for _, j := range c.Order {
				if !thr[j] {
					ord = append(ord, j)
				}
			}
			c.Order = ord
			if nas > 0 {
				for j := rng.Intn(3); j > 0; j-- {
					c.During = append(c.During, 1+rng.Intn(4))
				}
			}
			for j := rng.Intn(3); j > 0; j-- {
				c.After = append(c.After, 1+rng.Intn(6))
			}
		}
		emit(c)
	}
	os.Remove(filepath.Join(vfOutDir(t), "c04_last_input.json"))
	cs.flush("every verdict vector (Accept/Reject/Ignore/out-of-range: 3, 99, 2^30, -1, -2, -2^31) over up to N validators x inline/async placement (last = topic validator), remote and local origin; " +
		"plus random configurations with up to 4 validators, random completion orders of the asynchronous ones, exhausted global / per-validator throttles (a parked blocker message), a full validation queue (the only worker parked, the queue filled), a message waiting in the queue while a message of another topic (with its own validator) is pushed, duplicate copies from other peers during and after validation. " +
		"non-trivial = some validator does not accept; distinct = hash of configuration+observations")
}
