//go:build verif

package pubsub

import (
	"context"
	"fmt"
	"math/rand"
	"strings"
	"testing"
	"testing/synctest"
	"time"

	"github.com/libp2p/go-libp2p/core/network"
	"github.com/libp2p/go-libp2p/core/peer"
)

// C01: small REAL networks (2..6 nodes, every router, mixed), random connected overlay topologies with
// subscriber / relay / bystander roles, churn (subscribe, cancel, relay, relay-cancel, connect, disconnect) that is
// repaired to a connected overlay, a settling period longer than the prune backoff, then publications from random
// nodes adjacent to the overlay: every subscription of every subscriber must get every message exactly once.

type vfNNode struct {
	ps     *PubSub
	kind   string
	topic  *Topic
	subs   []*Subscription
	relays []RelayCancelFunc
}

func (n *vfNNode) member() bool { return len(n.subs) > 0 || len(n.relays) > 0 }

func vfNetHistory(t *testing.T, rng *rand.Rand, mode int, forceBig bool) (lit string, rec map[string]any, nontrivial bool) {
	synctest.Test(t, func(t *testing.T) {
		ctx, cancel := context.WithCancel(context.Background())
		defer cancel()
		// mode 4: a gossipsub node that neither subscribes nor relays publishes into an overlay of floodsub / randomsub nodes only
		edge := mode == 4
		if edge {
			mode = 3
		}
		// mode 5: a gossipsub star with small degree parameters in which one or two leaves lose their only link and dial it again
		reconn := mode == 5
		if reconn {
			mode, forceBig = 2, true
		}
		// mode 6: a gossipsub star whose hub has seven subscribing neighbours with D=2 / Dhi=3 / Dlazy=5 (degree = D+Dlazy): at
		// least four leaves are outside the hub's mesh and depend on IHAVE / IWANT, all asking the hub for the same message
		wide := mode == 6
		if wide {
			mode, forceBig = 2, true
		}
		nn := 2 + rng.Intn(5)
		if edge {
			nn = 3 + rng.Intn(3)
		}
		if rng.Intn(3) == 0 {
			nn = 6 // the larger degrees need the larger networks
		}
		// gossipsub with small degree parameters (D=2, Dlo=1, Dhi=3, Dlazy=2): meshes are cut back and some subscribers are
		// served by IHAVE / IWANT only; the property's degree bound D+Dlazy = 4 then limits the network to five nodes
		smallD := (mode >= 2 && rng.Intn(3) != 0) || forceBig
		if smallD && nn > 5 {
			nn = 5
		}
		// the boundary of the degree bound: a hub with D+Dlazy subscribing neighbours, all of which depend on it alone
		bigStar := (smallD && mode == 2 && rng.Intn(3) != 0) || forceBig
		if bigStar {
			nn = 5
		}
		if wide {
			nn = 8
		}
		hosts := vfHosts(t, nn)
		nodes := make([]*vfNNode, nn)
		for i := range nodes {
			opts := []Option{WithMessageSignaturePolicy(StrictNoSign), WithMessageIdFn(vfMsgID)}
			k := mode
			if mode == 3 {
				k = rng.Intn(3)
			}
			if edge {
				k = rng.Intn(2)
				if i == 0 {
					k = 2
				}
			}
			var ps *PubSub
			var err error
			var kind string
			switch k {
			case 0:
				ps, err = NewFloodSub(ctx, hosts[i], opts...)
				kind = "floodsub"
			case 1:
				ps, err = NewRandomSub(ctx, hosts[i], nn, opts...)
				kind = "randomsub"
			default:
				if smallD {
					gp := DefaultGossipSubParams()
					gp.D, gp.Dlo, gp.Dhi, gp.Dscore, gp.Dout, gp.Dlazy = 2, 1, 3, 1, 0, 2
					if wide {
						gp.Dlazy = 5
					}
					opts = append(opts, WithGossipSubParams(gp))
				}
				ps, err = NewGossipSub(ctx, hosts[i], opts...)
				kind = "gossipsub"
			}
			if err != nil {
				t.Fatal(err)
			}
			tp, err := ps.Join("t0")
			if err != nil {
				t.Fatal(err)
			}
			nodes[i] = &vfNNode{ps: ps, kind: kind, topic: tp}
		}
		conn := func(a, b int) bool { return hosts[a].Network().Connectedness(hosts[b].ID()) == network.Connected }
		connect := func(a, b int) {
			if a != b && !conn(a, b) {
				hosts[a].Connect(ctx, peer.AddrInfo{ID: hosts[b].ID(), Addrs: hosts[b].Addrs()})
			}
		}
		subscribe := func(i int) {
			if s, err := nodes[i].topic.Subscribe(); err == nil {
				nodes[i].subs = append(nodes[i].subs, s)
			}
		}
		relay := func(i int) {
			if rc, err := nodes[i].topic.Relay(); err == nil {
				nodes[i].relays = append(nodes[i].relays, rc)
			}
		}
		// initial roles and a random connected topology
		for i := range nodes {
			role := rng.Intn(5)
			if bigStar {
				role = 3
			}
			if edge {
				role = 1 + rng.Intn(3)
				if i == 0 {
					role = 0
				}
			}
			switch role {
			case 0:
			case 1:
				relay(i)
			case 2:
				subscribe(i)
				subscribe(i)
			default:
				subscribe(i)
			}
		}
		starHub := -1
		// topology: star (one hub of degree nn-1) / chain / complete graph / random tree plus a few extra links
		shape := rng.Intn(5)
		if bigStar || edge {
			shape = 0
		}
		switch shape {
		case 0, 1:
			hub := rng.Intn(nn)
			if edge {
				hub = 0
			}
			starHub = hub
			for i := 0; i < nn; i++ {
				connect(i, hub)
			}
		case 2:
			for i := 1; i < nn; i++ {
				connect(i, i-1)
			}
		case 3:
			for i := 0; i < nn; i++ {
				for j := 0; j < i; j++ {
					connect(i, j)
				}
			}
		default:
			for i := 1; i < nn; i++ {
				connect(i, rng.Intn(i))
			}
			for k := rng.Intn(nn); k > 0; k-- {
				connect(rng.Intn(nn), rng.Intn(nn))
			}
		}
		time.Sleep(3 * time.Second)
		// churn
		var churn []string
		nchurn := rng.Intn(12)
		if bigStar || edge {
			nchurn = 0 // keep the boundary structure
		}
		if reconn && starHub >= 0 {
			time.Sleep(5 * time.Second) // meshes have formed
			for k := 1 + rng.Intn(2); k > 0; k-- {
				x := rng.Intn(nn)
				if x == starHub {
					continue
				}
				hosts[x].Network().ClosePeer(hosts[starHub].ID())
				churn = append(churn, fmt.Sprintf("disconnect %d %d", x, starHub))
				time.Sleep(time.Duration(500+rng.Intn(3000)) * time.Millisecond)
				connect(x, starHub)
				churn = append(churn, fmt.Sprintf("connect %d %d", x, starHub))
				time.Sleep(time.Duration(rng.Intn(2000)) * time.Millisecond)
			}
		}
		for k := nchurn; k > 0; k-- {
			i := rng.Intn(nn)
			switch rng.Intn(7) {
			case 0:
				subscribe(i)
				churn = append(churn, fmt.Sprintf("subscribe %d", i))
			case 1:
				if len(nodes[i].subs) > 0 {
					nodes[i].subs[0].Cancel()
					nodes[i].subs = nodes[i].subs[1:]
					churn = append(churn, fmt.Sprintf("cancel %d", i))
				}
			case 2:
				relay(i)
				churn = append(churn, fmt.Sprintf("relay %d", i))
			case 3:
				if len(nodes[i].relays) > 0 {
					nodes[i].relays[0]()
					nodes[i].relays = nodes[i].relays[1:]
					churn = append(churn, fmt.Sprintf("relay-cancel %d", i))
				}
			case 4:
				j := rng.Intn(nn)
				connect(i, j)
				churn = append(churn, fmt.Sprintf("connect %d %d", i, j))
			default:
				j := rng.Intn(nn)
				if i != j && conn(i, j) {
					hosts[i].Network().ClosePeer(hosts[j].ID())
					churn = append(churn, fmt.Sprintf("disconnect %d %d", i, j))
				}
			}
			time.Sleep(time.Duration(rng.Intn(2000)) * time.Millisecond)
		}
		// at least one subscriber; then repair: connect the overlay members into one component
		nsub := 0
		for _, n := range nodes {
			if len(n.subs) > 0 {
				nsub++
			}
		}
		if nsub == 0 {
			subscribe(rng.Intn(nn))
		}
		var members []int
		for i, n := range nodes {
			if n.member() {
				members = append(members, i)
			}
		}
		comp := func() map[int]int {
			c := map[int]int{}
			for _, m := range members {
				c[m] = m
			}
			changed := true
			for changed {
				changed = false
				for _, a := range members {
					for _, b := range members {
						if a < b && conn(a, b) && c[a] != c[b] {
							x := c[a]
							if c[b] < x {
								x = c[b]
							}
							c[a], c[b] = x, x
							changed = true
						}
					}
				}
			}
			return c
		}
		for {
			c := comp()
			fixed := false
			for _, m := range members[1:] {
				if c[m] != c[members[0]] {
					connect(m, members[0])
					churn = append(churn, fmt.Sprintf("repair-connect %d %d", m, members[0]))
					fixed = true
					break
				}
			}
			if !fixed {
				break
			}
			time.Sleep(100 * time.Millisecond)
		}
		// settle: longer than the prune backoff (60 s) plus the sweep, with heartbeats running
		time.Sleep(100 * time.Second)
		synctest.Wait()
		var el []string
		for _, a := range members {
			for _, b := range members {
				if a < b && conn(a, b) {
					el = append(el, fmt.Sprintf("(%d, %d)", a, b))
				}
			}
		}
		var subl []string
		for i, n := range nodes {
			if len(n.subs) > 0 {
				subl = append(subl, fmt.Sprint(i))
			}
		}
		// publications
		var pubs []string
		var recPubs []map[string]any
		for k := 0; k < 3; k++ {
			// a publisher that is a member, or adjacent to one
			var cands []int
			for i := range nodes {
				ok := nodes[i].member()
				for _, m := range members {
					if conn(i, m) {
						ok = true
					}
				}
				if ok {
					cands = append(cands, i)
				}
			}
			src := cands[rng.Intn(len(cands))]
			if edge {
				src = 0
			}
			extra := ""
			if !nodes[src].member() {
				for _, m := range members {
					if conn(src, m) {
						extra += fmt.Sprintf("; (%d, %d)", src, m)
					}
				}
			}
			data := fmt.Sprintf("%d:m", 500+k)
			if err := nodes[src].topic.Publish(ctx, []byte(data)); err != nil {
				t.Fatal(err)
			}
			time.Sleep(6 * time.Second)
			synctest.Wait()
			var cl []string
			rc := map[string]any{}
			for i, n := range nodes {
				var per []string
				for _, s := range n.subs {
					c := 0
					for {
						select {
						case m, ok := <-s.ch:
							if ok && string(m.Data) == data {
								c++
							}
							if ok {
								continue
							}
						default:
						}
						break
					}
					per = append(per, fmt.Sprint(c))
				}
				if len(n.subs) > 0 {
					cl = append(cl, fmt.Sprintf("(%d, [%s])", i, strings.Join(per, "; ")))
					rc[fmt.Sprint(i)] = per
				}
			}
			// the publisher's edges into the overlay are part of the graph the model floods over
			pubs = append(pubs, fmt.Sprintf("{| fp_src := %d; fp_counts := [%s] |}", src, strings.Join(cl, "; ")))
			if extra != "" {
				el = append(el, strings.TrimPrefix(extra, "; "))
			}
			recPubs = append(recPubs, map[string]any{"publisher": src, "publisher_is_member": nodes[src].member(), "copies_per_subscription": rc})
		}
		var kinds []string
		for _, n := range nodes {
			kinds = append(kinds, n.kind)
		}
		lit = fmt.Sprintf("{| nc_edges := [%s]; nc_subscribers := [%s]; nc_pubs := [%s] |}", strings.Join(el, "; "), strings.Join(subl, "; "), strings.Join(pubs, "; "))
		rec = map[string]any{"small_degree_parameters": smallD, "routers": kinds, "overlay_edges": el, "subscribers": subl, "churn": churn, "publications": recPubs}
		nontrivial = len(members) > 2 && len(churn) > 0
		for _, n := range nodes {
			for _, s := range n.subs {
				s.Cancel()
			}
		}
		cancel()
		time.Sleep(3 * time.Second)
		synctest.Wait()
	})
	return
}

func TestVF_Net(t *testing.T) {
	cs := vfNewCases(t, "net", "From PS Require Import Model.Router Model.Flood Run.FloodRun.", "ncase", "check_ncase")
	cs.shard = 40
	rng := vfRng(1)
	ncases := vfN(48, 600)
	for c := 0; c < ncases; c++ {
		mode := c % 4
		lit, rec, nt := vfNetHistory(t, rng, mode, false)
		cs.add(lit, rec, nt)
		cs.kind([]string{"floodsub", "randomsub", "gossipsub", "mixed"}[mode])
	}
	// several lazy peers of one node ask it for the same message
	for c := vfN(6, 60); c > 0; c-- {
		lit, rec, _ := vfNetHistory(t, rng, 6, false)
		cs.add(lit, rec, true)
		cs.kind("gossipsub-wide-star-four-lazy-leaves")
	}
	// churn at the degree bound: leaves of a small-parameter gossipsub star reconnect
	for c := vfN(12, 100); c > 0; c-- {
		lit, rec, _ := vfNetHistory(t, rng, 5, false)
		cs.add(lit, rec, true)
		cs.kind("gossipsub-star-leaf-reconnects")
	}
	// mixed-protocol edge: a gossipsub publisher outside the overlay whose topic neighbours all speak floodsub to it
	for c := vfN(12, 100); c > 0; c-- {
		lit, rec, _ := vfNetHistory(t, rng, 4, false)
		cs.add(lit, rec, true)
		cs.kind("mixed-nonmember-gossipsub-publisher")
	}
	// the boundary of the gossipsub degree bound: stars whose hub has exactly D+Dlazy subscribing neighbours (small parameters)
	for c := vfN(24, 300); c > 0; c-- {
		lit, rec, _ := vfNetHistory(t, rng, 2, true)
		cs.add(lit, rec, true)
		cs.kind("gossipsub-boundary-star")
	}
	cs.flush("random REAL networks of 2..6 nodes (all floodsub, all randomsub, all gossipsub, mixed; gossipsub with default parameters or with D=2 / Dhi=3 / Dlazy=2 on at most five nodes, where part of the subscribers is reached by gossip only), random connected topologies (random trees with extra links, stars, chains, complete graphs), roles subscriber (one or two subscriptions) / relay / bystander, up to 12 churn operations (subscribe, cancel, relay, relay-cancel, connect, disconnect) repaired to a connected overlay, 100 virtual seconds of settling (prune backoff expired and swept, heartbeats running), then three publications from random nodes that are members of or adjacent to the overlay; the copies received by every subscription are counted; " +
		"non-trivial = more than two overlay members and at least one churn operation; distinct = hash of the observations")
}
