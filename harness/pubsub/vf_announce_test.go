//go:build verif

package pubsub

import (
	"context"
	"encoding/json"
	"os"
	"path/filepath"
	"fmt"
	"math/rand"
	"sort"
	"strings"
	"testing"
	"sync"
	"testing/synctest"
	"time"

	"github.com/libp2p/go-libp2p/core/network"
	"github.com/libp2p/go-libp2p/core/peer"
)

// C05: a small network of REAL nodes (mixed routers, tiny outbound queues so that announcements hit full
// queues and are retried): Subscribe / Cancel / Relay / relay-cancel / Topic.Close on every node, connects
// and whole-peer disconnects, single-direction pubsub stream resets that leave the connection up.  After
// every operation the network is left alone until quiet and ListPeers of every node for every topic is recorded.

type vfANode struct {
	ps     *PubSub
	topics map[int]*Topic
	subs   map[int][]*Subscription
	relays map[int][]RelayCancelFunc
	fo     bool // this node joins topic 2 in fanout-only mode: its subscriptions there are never announced
}

const vfATopics = 3

func (n *vfANode) interest(tp int) bool {
	if tp == 2 && n.fo {
		return false
	}
	return len(n.subs[tp]) > 0 || len(n.relays[tp]) > 0
}

func vfAnnounceHistory(t *testing.T, rng *rand.Rand, nops int) (lit string, rec map[string]any, nontrivial bool, cancelViol string) {
	synctest.Test(t, func(t *testing.T) {
		ctx, cancel := context.WithCancel(context.Background())
		defer cancel()
		nn := 3
		hosts := vfHosts(t, nn)
		nodes := make([]*vfANode, nn)
		// application scores the harness moves below the graylist threshold and back: a graylisted peer's messages and
		// control traffic are ignored, its subscription announcements are not
		var scoreMu sync.Mutex
		appScore := make([]map[peer.ID]float64, nn)
		for i := range nodes {
			i := i
			appScore[i] = map[peer.ID]float64{}
			opts := []Option{WithPeerOutboundQueueSize(1 + rng.Intn(2)), WithMessageSignaturePolicy(StrictNoSign), WithMessageIdFn(vfMsgID)}
			var ps *PubSub
			var err error
			switch rng.Intn(3) {
			case 0:
				ps, err = NewFloodSub(ctx, hosts[i], opts...)
			default:
				sp := &PeerScoreParams{AppSpecificScore: func(p peer.ID) float64 {
					scoreMu.Lock()
					defer scoreMu.Unlock()
					return appScore[i][p]
				}, AppSpecificWeight: 1, DecayInterval: time.Second, DecayToZero: 0.01, Topics: map[string]*TopicScoreParams{}}
				th := &PeerScoreThresholds{GossipThreshold: -10, PublishThreshold: -20, GraylistThreshold: -30, AcceptPXThreshold: 10, OpportunisticGraftThreshold: 1}
				opts = append(opts, WithPeerScore(sp, th))
				ps, err = NewGossipSub(ctx, hosts[i], opts...)
			}
			if err != nil {
				t.Fatal(err)
			}
			nodes[i] = &vfANode{ps: ps, topics: map[int]*Topic{}, subs: map[int][]*Subscription{}, relays: map[int][]RelayCancelFunc{}, fo: rng.Intn(2) == 0}
		}
		// tainted[{a, b}]: a's OUTBOUND pubsub stream to b was reset while the connection stayed up (a then forgets b's
		// subscriptions: the recorded finding); what b believes about a is not excused
		// level 2: it was reset for at least the fifth time (the respawn backoff of pubsub.go allows MaxBackoffAttempts = 4 per peer
		// and ten minutes; after that a does not open a stream to b again, so b hears nothing from a any more: a second recorded
		// finding, about what b believes about a)
		tainted := map[[2]int]int{}
		nresets := map[[2]int]int{}
		untaint := func(a, b int) { delete(tainted, [2]int{a, b}); delete(tainted, [2]int{b, a}) }
		taint := func(a, b int) {
			nresets[[2]int{a, b}]++
			tainted[[2]int{a, b}] = 1
			if nresets[[2]int{a, b}] > MaxBackoffAttempts {
				tainted[[2]int{a, b}] = 2
			}
		}
		connected := func(a, b int) bool { return hosts[a].Network().Connectedness(hosts[b].ID()) == network.Connected }
		topicOf := func(n *vfANode, tp int) *Topic {
			if x, ok := n.topics[tp]; ok {
				return x
			}
			var topts []TopicOpt
			if tp == 2 && n.fo {
				topts = append(topts, FanoutOnly())
			}
			x, err := n.ps.Join(vfTopic(tp), topts...)
			if err != nil {
				t.Fatal(err)
			}
			n.topics[tp] = x
			return x
		}
		var lits []string
		var recSteps []map[string]any
		nFlip, nReset := 0, 0
		burst := 0
		var burstOps []string
		var observeNow func(op string)
		observe := func(op string) {
			// bursts: several operations back to back (tiny queues then refuse pushes), observed once at the end
			if burst > 0 {
				burst--
				burstOps = append(burstOps, op)
				if burst > 0 {
					return
				}
				op = strings.Join(burstOps, " ; ")
				burstOps = nil
			}
			observeNow(op)
		}
		observeNow = func(op string) {
			// quiet: retries sleep up to a second; a few rounds
			for k := 0; k < 4; k++ {
				time.Sleep(1500 * time.Millisecond)
				synctest.Wait()
			}
			var il, ll, vl []string
			rv := map[string]any{}
			for i, n := range nodes {
				var ts []string
				for tp := 0; tp < vfATopics; tp++ {
					if n.interest(tp) {
						ts = append(ts, fmt.Sprint(tp))
					}
				}
				il = append(il, fmt.Sprintf("(%d, [%s])", i, strings.Join(ts, "; ")))
				var tv []string
				for tp := 0; tp < vfATopics; tp++ {
					var ps []int
					for _, p := range n.ps.ListPeers(vfTopic(tp)) {
						for j, h := range hosts {
							if h.ID() == p {
								ps = append(ps, j)
							}
						}
					}
					sort.Ints(ps)
					tv = append(tv, fmt.Sprintf("(%d, %s)", tp, vfNats(ps)))
					rv[fmt.Sprintf("%d/t%d", i, tp)] = ps
				}
				vl = append(vl, fmt.Sprintf("(%d, [%s])", i, strings.Join(tv, "; ")))
			}
			for a := 0; a < nn; a++ {
				for b := a + 1; b < nn; b++ {
					if connected(a, b) {
						ll = append(ll, fmt.Sprintf("(%d, %d, %d)", a, b, tainted[[2]int{a, b}]), fmt.Sprintf("(%d, %d, %d)", b, a, tainted[[2]int{b, a}]))
					}
				}
			}
			lits = append(lits, fmt.Sprintf("{| ao_interest := [%s]; ao_links := [%s]; ao_views := [%s] |}", strings.Join(il, "; "), strings.Join(ll, "; "), strings.Join(vl, "; ")))
			recSteps = append(recSteps, map[string]any{"op": op, "interest": il, "links": ll, "views": rv})
		}
		for i := 0; i < nops; i++ {
			a := rng.Intn(nn)
			n := nodes[a]
			tp := rng.Intn(vfATopics)
			if burst == 0 && rng.Intn(3) == 0 {
				burst = 2 + rng.Intn(4)
			}
			if burst == 0 && rng.Intn(12) == 0 {
				// a volley of announcements and withdrawals back to back (relay references taken and given back on every topic the
				// node has no other interest in): the tiny queues refuse some of them, withdrawals included, and they are retried
				var ops []string
				var rcs []RelayCancelFunc
				for tq := 0; tq < vfATopics; tq++ {
					if n.interest(tq) {
						continue
					}
					if rc, err := topicOf(n, tq).Relay(); err == nil {
						rcs = append(rcs, rc)
						ops = append(ops, fmt.Sprintf("relay %d t%d", a, tq))
					}
				}
				for _, rc := range rcs {
					rc()
				}
				if len(ops) > 0 {
					observe(strings.Join(ops, " ; ") + " ; all given back at once")
				}
				continue
			}
			if burst == 0 && rng.Intn(12) == 0 {
				// announcements queued while a peer's queue has no writer: a's outbound stream to b is reset twice (the second
				// respawn waits 100 ms), and inside that window a subscribes to a topic and cancels again
				b := rng.Intn(nn)
				if a == b || !connected(a, b) || n.interest(tp) {
					continue
				}
				resetOut := func() bool {
					for _, c := range hosts[a].Network().ConnsToPeer(hosts[b].ID()) {
						for _, s := range c.GetStreams() {
							if s.Stat().Direction == network.DirOutbound && (strings.Contains(string(s.Protocol()), "meshsub") || strings.Contains(string(s.Protocol()), "floodsub")) {
								s.Reset()
								return true
							}
						}
					}
					return false
				}
				queueOf := func() (q *rpcQueue) {
					vfEval(n.ps, func() { q = n.ps.peers[hosts[b].ID()] })
					return
				}
				q0 := queueOf()
				if q0 == nil || !resetOut() {
					continue
				}
				taint(a, b)
				nReset++
				time.Sleep(200 * time.Millisecond)
				q1 := queueOf()
				if q1 != nil && q1 != q0 {
					nresets[[2]int{a, b}]++ // the second reset, below
					if nresets[[2]int{a, b}] > MaxBackoffAttempts {
						tainted[[2]int{a, b}] = 2
					}
				}
				if q1 == nil || q1 == q0 || !resetOut() {
					observe(fmt.Sprintf("reset-outbound-pubsub-stream %d->%d", a, b))
					continue
				}
				for k := 0; k < 50 && queueOf() == q1; k++ {
					time.Sleep(time.Millisecond)
				}
				if s, err := topicOf(n, tp).Subscribe(); err == nil {
					s.Cancel()
					vfEval(n.ps, func() {})
				}
				observe(fmt.Sprintf("reset-outbound-pubsub-stream-twice %d->%d ; subscribe %d t%d ; cancel %d t%d (inside the respawn backoff)", a, b, a, tp, a, tp))
				continue
			}
			switch r := rng.Intn(100); {
			case r < 5:
				// node a's opinion of node b drops below the graylist threshold, or recovers
				b := rng.Intn(nn)
				if a == b {
					continue
				}
				v := []float64{-100, -100, 0}[rng.Intn(3)]
				scoreMu.Lock()
				appScore[a][hosts[b].ID()] = v
				scoreMu.Unlock()
				observe(fmt.Sprintf("app-score %d of %d := %v", a, b, v))
			case r < 22:
				b := rng.Intn(nn)
				if a == b || connected(a, b) {
					continue
				}
				if err := hosts[a].Connect(ctx, peer.AddrInfo{ID: hosts[b].ID(), Addrs: hosts[b].Addrs()}); err != nil {
					continue
				}
				untaint(a, b)
				observe(fmt.Sprintf("connect %d %d", a, b))
			case r < 30:
				b := rng.Intn(nn)
				if a == b || !connected(a, b) {
					continue
				}
				hosts[a].Network().ClosePeer(hosts[b].ID())
				untaint(a, b)
				observe(fmt.Sprintf("disconnect %d %d", a, b))
			case r < 50:
				if n.topics[tp] == nil && rng.Intn(2) == 0 {
					topicOf(n, tp)
				}
				was := n.interest(tp)
				s, err := topicOf(n, tp).Subscribe()
				if err != nil {
					continue
				}
				n.subs[tp] = append(n.subs[tp], s)
				if !was {
					nFlip++
				}
				observe(fmt.Sprintf("subscribe %d t%d", a, tp))
			case r < 66:
				if len(n.subs[tp]) == 0 {
					continue
				}
				k := rng.Intn(len(n.subs[tp]))
				s := n.subs[tp][k]
				n.subs[tp] = append(n.subs[tp][:k], n.subs[tp][k+1:]...)
				s.Cancel()
				synctest.Wait()
				// a cancelled subscription reports cancellation once its buffered messages are drained
				c, cc := context.WithTimeout(ctx, 5*time.Second)
				var err error
				for k := 0; k < 64; k++ {
					if _, err = s.Next(c); err != nil {
						break
					}
				}
				cc()
				if err != ErrSubscriptionCancelled && cancelViol == "" {
					cancelViol = fmt.Sprintf("Subscription.Next after Cancel returned %v", err)
				}
				if !n.interest(tp) {
					nFlip++
				}
				observe(fmt.Sprintf("cancel %d t%d", a, tp))
			case r < 76:
				was := n.interest(tp)
				rc, err := topicOf(n, tp).Relay()
				if err != nil {
					continue
				}
				n.relays[tp] = append(n.relays[tp], rc)
				if !was {
					nFlip++
				}
				observe(fmt.Sprintf("relay %d t%d", a, tp))
			case r < 84:
				if len(n.relays[tp]) == 0 {
					continue
				}
				rc := n.relays[tp][0]
				n.relays[tp] = n.relays[tp][1:]
				rc()
				if rng.Intn(3) == 0 {
					rc() // calling it twice is harmless
				}
				if !n.interest(tp) {
					nFlip++
				}
				observe(fmt.Sprintf("relay-cancel %d t%d", a, tp))
			case r < 88:
				// Topic.Close only succeeds without subscriptions / relays; then the handle is gone
				if tpc := n.topics[tp]; tpc != nil {
					if err := tpc.Close(); err == nil {
						delete(n.topics, tp)
					}
					observe(fmt.Sprintf("topic-close %d t%d", a, tp))
				}
			default:
				// reset ONE direction of the pubsub stream pair between a and b; the connection survives
				b := rng.Intn(nn)
				if a == b || !connected(a, b) {
					continue
				}
				done := false
				for _, c := range hosts[a].Network().ConnsToPeer(hosts[b].ID()) {
					for _, s := range c.GetStreams() {
						if s.Stat().Direction == network.DirOutbound && (strings.Contains(string(s.Protocol()), "meshsub") || strings.Contains(string(s.Protocol()), "floodsub")) && !done {
							s.Reset()
							done = true
						}
					}
				}
				if !done {
					continue
				}
				taint(a, b)
				nReset++
				observe(fmt.Sprintf("reset-outbound-pubsub-stream %d->%d", a, b))
			}
		}
		if len(burstOps) > 0 {
			burst = 0
			observeNow(strings.Join(burstOps, " ; "))
		}
		lit = "[" + strings.Join(lits, ";\n    ") + "]"
		rec = map[string]any{"steps": recSteps}
		nontrivial = nFlip > 2 && len(lits) > 8
		_ = nReset
		for _, n := range nodes {
			for _, ss := range n.subs {
				for _, s := range ss {
					s.Cancel()
				}
			}
		}
		cancel()
		time.Sleep(3 * time.Second) // announceRetry goroutines sleep up to a second before they notice the context
		synctest.Wait()
	})
	return
}

func TestVF_Announce(t *testing.T) {
	cs := vfNewCases(t, "announce", "From PS Require Import Model.Router Run.AnnounceRun.", "list aobs", "check_acase")
	cs.shard = 40
	rng := vfRng(5)
	ncases := vfN(80, 800)
	wroteCV := false
	for c := 0; c < ncases; c++ {
		lit, rec, nt, cv := vfAnnounceHistory(t, rng, 25+rng.Intn(30))
		if cv != "" {
			rec["cancel_violation"] = cv
			cs.extra["cancel_violation"] = cv
			if !wroteCV {
				// a cancelled subscription must report cancellation from Next once its buffer is drained
				wroteCV = true
				js, _ := json.MarshalIndent(map[string]any{"property": "C05", "code": 55, "key": "cancelled-subscription-next", "what": cv, "case": rec}, "", " ")
				os.WriteFile(filepath.Join(vfOutDir(t), "violation_announce_cancel.json"), js, 0o644)
			}
		}
		cs.add(lit, rec, nt)
	}
	cs.flush("random histories on three REAL nodes (floodsub / gossipsub mixed, outbound queues of 1-2 slots so that announcements are refused and retried): connect, whole-peer disconnect, Subscribe, Subscription.Cancel (checking that Next reports cancellation after draining), Relay, relay-cancel (also twice), Topic.Close, application scores that push a peer below the graylist threshold of a gossipsub node and back, a third topic that some nodes join in fanout-only mode (their subscriptions to it must never be announced), and resets of ONE outbound pubsub stream while the connection stays up; after every operation the network is left alone for six virtual seconds and every node's ListPeers for every topic is compared with the connected peers that hold a subscription or relay reference; " +
		"non-trivial = more than two interest flips and more than 8 observed operations; distinct = hash of the observations")
}
