//go:build verif

package pubsub

import (
	"context"
	"encoding/json"
	"fmt"
	"math/rand"
	"os"
	"path/filepath"
	"runtime"
	"strings"
	"sync"
	"testing"
	"testing/synctest"
	"time"

	pb "github.com/libp2p/go-libp2p-pubsub/pb"
	"github.com/libp2p/go-libp2p/core/host"
	"github.com/libp2p/go-libp2p/core/network"
	"github.com/libp2p/go-libp2p/core/peer"
	"github.com/libp2p/go-libp2p/core/protocol"
)

// a host on which streams to one particular peer never get established (until the caller's context ends)
type vfStallHost struct {
	host.Host
	stall peer.ID
}

func (h *vfStallHost) NewStream(ctx context.Context, p peer.ID, pids ...protocol.ID) (network.Stream, error) {
	if p == h.stall {
		<-ctx.Done()
		return nil, ctx.Err()
	}
	return h.Host.NewStream(ctx, p, pids...)
}

// C14: random concurrent API workloads on a small real network; the PubSub context of one node is cancelled
// at a random point (in the middle of calls, validations and deliveries); afterwards every call in progress
// or issued later must return within a virtual-time bound, nothing may panic, and when the hosts are closed
// every goroutine of the bubble must exit (synctest reports leftovers as a deadlock).

type vfCall struct {
	name  string
	after bool // issued after the cancellation
	done  bool
	err   string
}

// vfParkTracer parks the event loop inside the application's tracer at a delivery (the loop is busy delivering a message
// while the node is shut down and the application goes on calling the API).
type vfParkTracer struct {
	mu   sync.Mutex
	gate chan struct{}
}

func (tr *vfParkTracer) Trace(evt *pb.TraceEvent) {
	if evt.GetType() != pb.TraceEvent_DELIVER_MESSAGE {
		return
	}
	tr.mu.Lock()
	g := tr.gate
	tr.mu.Unlock()
	if g != nil {
		<-g
	}
}

var vfShutdownParked bool

func vfShutdownHistory(t *testing.T, rng *rand.Rand, router int, hammer bool, congested bool, heldVal bool) (rec map[string]any, stuck []string, leaked string, panicked string) {
	var calls []*vfCall
	var mu sync.Mutex
	finished := make(chan struct{})
	go func() {
		defer close(finished)
		defer func() {
			if r := recover(); r != nil {
				s := fmt.Sprint(r)
				if strings.Contains(s, "deadlock") {
					leaked = s
				} else {
					panicked = s
				}
			}
		}()
		synctest.Test(t, func(t *testing.T) {
			ctxA, cancelA := context.WithCancel(context.Background())
			ctxB, cancelB := context.WithCancel(context.Background())
			defer cancelB()
			hosts := vfHosts(t, 3)
			park := &vfParkTracer{}
			mk := func(ctx context.Context, i int) *PubSub {
				var ps *PubSub
				var err error
				opts := []Option{WithMessageSignaturePolicy(StrictNoSign), WithMessageIdFn(vfMsgID)}
				if vfShutdownParked && i == 0 {
					opts = append(opts, WithEventTracer(park))
				}
				var hst host.Host = hosts[i]
				if congested && i == 0 {
					// a third peer to which no stream can be opened (the network stalls): its one-slot outbound queue stays
					// full, so announcements to it are refused and retried
					hst = &vfStallHost{Host: hosts[0], stall: hosts[2].ID()}
					opts = append(opts, WithPeerOutboundQueueSize(1))
				}
				switch router {
				case 0:
					ps, err = NewFloodSub(ctx, hst, opts...)
				case 1:
					ps, err = NewRandomSub(ctx, hst, 10, opts...)
				default:
					ps, err = NewGossipSub(ctx, hst, opts...)
				}
				if err != nil {
					t.Fatal(err)
				}
				return ps
			}
			psA, psB := mk(ctxA, 0), mk(ctxB, 1)
			if err := hosts[0].Connect(ctxB, peer.AddrInfo{ID: hosts[1].ID(), Addrs: hosts[1].Addrs()}); err != nil {
				t.Fatal(err)
			}
			tB, _ := psB.Join("t0")
			subB, _ := tB.Subscribe()
			go func() {
				for {
					if _, err := subB.Next(ctxB); err != nil {
						return
					}
				}
			}()
			time.Sleep(100 * time.Millisecond)

			if congested {
				// the third peer speaks pubsub as far as identify can tell
				(&vfMock{t: t, h: hosts[2], a: hosts[0], proto: FloodSubID}).install()
				if err := hosts[2].Connect(ctxB, peer.AddrInfo{ID: hosts[0].ID(), Addrs: hosts[0].Addrs()}); err != nil {
					t.Fatal(err)
				}
				time.Sleep(100 * time.Millisecond)
				for _, tn := range []string{"t0", "t1"} {
					if tp, err := psA.Join(tn); err == nil {
						tp.Subscribe()
					}
				}
				time.Sleep(2500 * time.Millisecond) // the refused announcements are retried in the meantime
			}
			cancelled := false
			var topics []*Topic
			var subsA []*Subscription
			var relays []RelayCancelFunc
			var handlers []*TopicEventHandler
			start := func(name string, f func() error) {
				c := &vfCall{name: name, after: cancelled}
				mu.Lock()
				calls = append(calls, c)
				mu.Unlock()
				go func() {
					defer func() {
						if r := recover(); r != nil {
							mu.Lock()
							c.err = "PANIC: " + fmt.Sprint(r)
							c.done = true
							mu.Unlock()
						}
					}()
					err := f()
					mu.Lock()
					c.done = true
					if err != nil {
						c.err = err.Error()
					}
					mu.Unlock()
				}()
			}
			callCtx := func() (context.Context, context.CancelFunc) {
				return context.WithTimeout(context.Background(), time.Hour)
			}
			nops := 25 + rng.Intn(40)
			cancelAt := rng.Intn(nops)
			if heldVal {
				// publications (with the caller's own long-lived context) sit inside a validator that waits for ITS context to end
				// when the node's context is cancelled: the validator must be released and the calls must return
				tv, err := psA.Join("tv")
				if err == nil {
					psA.RegisterTopicValidator("tv", func(vctx context.Context, _ peer.ID, m *Message) ValidationResult {
						if strings.HasPrefix(string(m.Data), "hold") {
							<-vctx.Done()
						}
						return ValidationAccept
					}, WithValidatorInline(rng.Intn(2) == 0))
					start("Publish (inside a validator that waits for its context)", func() error {
						c, cc := callCtx()
						defer cc()
						tv.Publish(c, []byte("hold:1"))
						return nil
					})
					if router == 2 {
						start("AddToBatch (inside a validator that waits for its context)", func() error {
							var b MessageBatch
							c, cc := callCtx()
							defer cc()
							tv.AddToBatch(c, &b, []byte("hold:2"))
							return nil
						})
					}
					synctest.Wait()
					cancelA()
					cancelled = true
					cancelAt = -1
				}
			}
			if vfShutdownParked {
				// the event loop is inside a delivery (parked in the application's tracer) when the context is cancelled; the
				// application cancels its subscriptions and calls the API; then the delivery goes on
				tp, err := psA.Join("tp")
				if err == nil {
					var ss []*Subscription
					for k := 0; k < 1+rng.Intn(2); k++ {
						if s, err := tp.Subscribe(); err == nil {
							ss = append(ss, s)
						}
					}
					synctest.Wait()
					g := make(chan struct{})
					park.mu.Lock()
					park.gate = g
					park.mu.Unlock()
					start("Publish (its delivery is parked in the tracer)", func() error {
						c, cc := callCtx()
						defer cc()
						tp.Publish(c, []byte("9000:parked"))
						return nil
					})
					synctest.Wait()
					cancelA()
					cancelled = true
					cancelAt = -1
					if rng.Intn(2) == 0 {
						synctest.Wait()
					}
					for _, s := range ss {
						s := s
						start("Subscription.Cancel (delivery in progress)", func() error { s.Cancel(); return nil })
					}
					start("Topic.Close (delivery in progress)", func() error { tp.Close(); return nil })
					synctest.Wait()
					park.mu.Lock()
					park.gate = nil
					park.mu.Unlock()
					close(g)
					synctest.Wait()
				}
			}
			if hammer {
				// many callers hammering a request / reply API while the context is cancelled at an arbitrary instant
				var wg sync.WaitGroup
				for w := 0; w < 8; w++ {
					c := &vfCall{name: "ListPeers+GetTopics x200 (hammer)"}
					mu.Lock()
					calls = append(calls, c)
					mu.Unlock()
					wg.Add(1)
					go func() {
						defer wg.Done()
						for k := 0; k < 200; k++ {
							psA.ListPeers("t0")
							psA.GetTopics()
						}
						mu.Lock()
						c.done = true
						mu.Unlock()
					}()
				}
				for k := rng.Intn(4000); k > 0; k-- {
					runtime.Gosched()
				}
				cancelA()
				cancelled = true
				cancelAt = -1
				wg.Wait()
			}
			for i := 0; i < nops; i++ {
				if i == cancelAt {
					cancelA()
					cancelled = true
					if rng.Intn(2) == 0 {
						synctest.Wait()
					}
				}
				switch r := rng.Intn(17); r {
				case 0, 1:
					tn := fmt.Sprintf("t%d", rng.Intn(2))
					start("Join "+tn, func() error {
						tp, err := psA.Join(tn)
						if err == nil {
							mu.Lock()
							topics = append(topics, tp)
							mu.Unlock()
						}
						return nil
					})
				case 2, 3:
					mu.Lock()
					var tp *Topic
					if len(topics) > 0 {
						tp = topics[rng.Intn(len(topics))]
					}
					mu.Unlock()
					if tp == nil {
						continue
					}
					start("Subscribe", func() error {
						s, err := tp.Subscribe()
						if err == nil {
							mu.Lock()
							subsA = append(subsA, s)
							mu.Unlock()
						}
						return nil
					})
				case 4, 5, 6:
					mu.Lock()
					var tp *Topic
					if len(topics) > 0 {
						tp = topics[rng.Intn(len(topics))]
					}
					mu.Unlock()
					if tp == nil {
						continue
					}
					data := []byte(fmt.Sprintf("%d:z", 1000+i))
					start("Publish", func() error {
						c, cc := callCtx()
						defer cc()
						tp.Publish(c, data)
						return nil
					})
				case 7:
					mu.Lock()
					var tp *Topic
					if len(topics) > 0 {
						tp = topics[rng.Intn(len(topics))]
					}
					mu.Unlock()
					if tp == nil || router != 2 {
						continue
					}
					data := []byte(fmt.Sprintf("%d:b", 2000+i))
					start("AddToBatch+PublishBatch", func() error {
						var b MessageBatch
						c, cc := callCtx()
						defer cc()
						if err := tp.AddToBatch(c, &b, data); err != nil {
							return nil
						}
						psA.PublishBatch(&b)
						return nil
					})
				case 8:
					mu.Lock()
					var tp *Topic
					if len(topics) > 0 {
						tp = topics[rng.Intn(len(topics))]
					}
					mu.Unlock()
					if tp == nil {
						continue
					}
					start("Relay", func() error {
						rc, err := tp.Relay()
						if err == nil {
							mu.Lock()
							relays = append(relays, rc)
							mu.Unlock()
						}
						return nil
					})
				case 9:
					mu.Lock()
					var rc RelayCancelFunc
					if len(relays) > 0 {
						rc = relays[rng.Intn(len(relays))]
					}
					mu.Unlock()
					if rc == nil {
						continue
					}
					start("relay-cancel", func() error { rc(); return nil })
				case 10:
					tn := fmt.Sprintf("t%d", rng.Intn(2))
					start("RegisterTopicValidator", func() error {
						// (no waiting on virtual time in here: Topic.Publish holds the topic's RWMutex across validation and a
						// goroutine blocked on a mutex is not durably blocked for synctest, so time would stop)
						psA.RegisterTopicValidator(tn, func(ctx context.Context, _ peer.ID, _ *Message) ValidationResult {
							return ValidationAccept
						})
						return nil
					})
				case 11:
					mu.Lock()
					var tp *Topic
					if len(topics) > 0 {
						tp = topics[rng.Intn(len(topics))]
					}
					mu.Unlock()
					if tp == nil {
						continue
					}
					start("EventHandler+NextPeerEvent", func() error {
						h, err := tp.EventHandler()
						if err != nil {
							return nil
						}
						mu.Lock()
						handlers = append(handlers, h)
						mu.Unlock()
						c, cc := context.WithTimeout(context.Background(), time.Second)
						defer cc()
						h.NextPeerEvent(c)
						return nil
					})
				case 12:
					start("ListPeers/GetTopics", func() error { psA.ListPeers("t0"); psA.GetTopics(); return nil })
				case 13:
					start("BlacklistPeer", func() error { psA.BlacklistPeer(hosts[1].ID()); return nil })
				case 14:
					mu.Lock()
					var s *Subscription
					if len(subsA) > 0 {
						s = subsA[rng.Intn(len(subsA))]
					}
					mu.Unlock()
					if s == nil {
						continue
					}
					if rng.Intn(2) == 0 {
						start("Subscription.Cancel", func() error { s.Cancel(); return nil })
					} else {
						start("Subscription.Next", func() error {
							c, cc := context.WithTimeout(context.Background(), 2*time.Second)
							defer cc()
							s.Next(c)
							return nil
						})
					}
				case 15:
					mu.Lock()
					var tp *Topic
					if len(topics) > 0 {
						tp = topics[rng.Intn(len(topics))]
					}
					mu.Unlock()
					if tp == nil {
						continue
					}
					start("Topic.Close", func() error { tp.Close(); return nil })
				case 16:
					// traffic from the other node, so that validations and deliveries are in flight
					data := []byte(fmt.Sprintf("%d:r", 3000+i))
					go func() {
						c, cc := callCtx()
						defer cc()
						tB.Publish(c, data)
					}()
				}
				if rng.Intn(3) == 0 {
					time.Sleep(time.Duration(rng.Intn(30)) * time.Millisecond)
				}
			}
			if !cancelled {
				cancelA()
			}
			// every kind of call once more after the cancellation, batch publishing twice (its channel has one buffer slot)
			if router == 2 {
				for k := 0; k < 2; k++ {
					start("PublishBatch(empty)", func() error { psA.PublishBatch(&MessageBatch{}); return nil })
				}
			}
			start("ListPeers/GetTopics", func() error { psA.ListPeers("t0"); psA.GetTopics(); return nil })
			start("Join", func() error { psA.Join("t9"); return nil })
			start("RegisterTopicValidator", func() error {
				psA.RegisterTopicValidator("t9", func(context.Context, peer.ID, *Message) ValidationResult { return ValidationAccept })
				return nil
			})
			start("BlacklistPeer", func() error { psA.BlacklistPeer(hosts[1].ID()); return nil })
			// the bound: one virtual minute
			time.Sleep(time.Minute)
			synctest.Wait()
			mu.Lock()
			for _, c := range calls {
				if !c.done {
					stuck = append(stuck, c.name)
				}
				if strings.HasPrefix(c.err, "PANIC") {
					panicked = c.err
				}
			}
			mu.Unlock()
			// let the rest of the world go away: node B, the hosts
			for _, h := range handlers {
				h.Cancel()
			}
			subB.Cancel()
			cancelB()
			for _, h := range hosts {
				h.Close()
			}
			time.Sleep(time.Minute)
			synctest.Wait()
			if len(stuck) > 0 {
				// stuck callers would be reported by synctest as leaked goroutines too; keep the two findings apart
				leaked = ""
			}
		})
	}()
	// a real-time watchdog: callers blocked on a mutex (e.g. inside sync.Once) are not durably blocked, so the
	// bubble's virtual clock stops and the history would never end
	select {
	case <-finished:
	case <-time.After(20 * time.Second):
		mu.Lock()
		for _, c := range calls {
			if !c.done {
				stuck = append(stuck, c.name)
			}
		}
		mu.Unlock()
		if len(stuck) == 0 {
			stuck = []string{"(history did not finish within 20 s of real time)"}
		}
	}
	if len(stuck) > 0 {
		leaked = ""
	}
	var cl []string
	mu.Lock()
	for _, c := range calls {
		cl = append(cl, fmt.Sprintf("%s after=%v done=%v %s", c.name, c.after, c.done, c.err))
	}
	mu.Unlock()
	rec = map[string]any{"router": router, "calls": cl}
	return
}

func TestVF_Shutdown(t *testing.T) {
	cs := vfNewCases(t, "shutdown", "From PS Require Import Model.Shutdown.", "nat", "(fun _ => VOk)")
	rng := vfRng(14)
	ncases := vfN(90, 900)
	var viol map[string]any
	ncalls, nafter := 0, 0
	for c := 0; c < ncases; c++ {
		router := c % 3
		// the history about to run is kept on disk, so that a crash of the process can be attributed to it
		if js, err := json.Marshal(map[string]any{"history": c, "router": router, "hammer": c%2 == 1, "congested_peer": c%5 == 4, "delivery_parked_in_tracer_at_cancellation": c%10 == 8, "seed": os.Getenv("VERIF_SEED")}); err == nil {
			os.WriteFile(filepath.Join(vfOutDir(t), "c14_last_input.json"), js, 0o644)
		}
		vfShutdownParked = c%10 == 8
		rec, stuck, leaked, pan := vfShutdownHistory(t, rng, router, c%2 == 1 && c%6 != 3, c%5 == 4 && c%6 != 3, c%6 == 3)
		for _, s := range rec["calls"].([]string) {
			ncalls++
			if strings.Contains(s, "after=true") {
				nafter++
			}
		}
		cs.add(fmt.Sprintf("%d", c), rec, len(rec["calls"].([]string)) > 5)
		cs.kind([]string{"floodsub", "randomsub", "gossipsub"}[router])
		if viol == nil {
			switch {
			case pan != "":
				viol = map[string]any{"property": "C14", "code": 143, "key": "shutdown-panic", "what": "panic during / after shutdown: " + pan, "case": rec}
			case len(stuck) > 0:
				viol = map[string]any{"property": "C14", "code": 141, "key": "call-blocked:" + stuck[0], "what": fmt.Sprintf("API calls still blocked one virtual minute after the context was cancelled: %v", stuck), "case": rec}
			case leaked != "":
				viol = map[string]any{"property": "C14", "code": 142, "key": "goroutine-leak", "what": "library goroutines still blocked after shutdown and host close: " + leaked, "case": rec}
			}
		}
	}
	if viol != nil {
		js, _ := json.MarshalIndent(viol, "", " ")
		os.WriteFile(filepath.Join(vfOutDir(t), "violation_shutdown.json"), js, 0o644)
	}
	os.Remove(filepath.Join(vfOutDir(t), "c14_last_input.json"))
	cs.extra["api_calls_started"] = ncalls
	cs.extra["api_calls_started_after_cancellation"] = nafter
	cs.flush("random concurrent API workloads (Join, Subscribe, Publish, AddToBatch + PublishBatch, Relay and relay-cancel, RegisterTopicValidator with a slow validator, EventHandler + NextPeerEvent, ListPeers / GetTopics, BlacklistPeer, Subscription.Cancel / Next, Topic.Close) on a node of a two-node network with traffic from the other node (every second history with eight callers hammering ListPeers / GetTopics across the cancellation, every sixth with publications held inside a validator that waits for its context, every tenth with the event loop parked inside a delivery (in the application's tracer) when the context is cancelled and the subscriptions are cancelled before the delivery goes on, every fifth with a third peer to which no stream can be opened and a one-slot outbound queue, so that announcements are refused and retried), on floodsub / randomsub / gossipsub; the node's context is cancelled at a random position (sometimes without letting the bubble settle first); every call started before or after it must have returned one virtual minute later, nothing may panic, and after the other node and the hosts are closed no goroutine of the bubble may remain; " +
		"non-trivial = more than 5 API calls in the history; distinct = index")
}
