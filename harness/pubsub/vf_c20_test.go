//go:build verif

package pubsub

import (
	"context"
	"encoding/binary"
	"encoding/json"
	"fmt"
	"log/slog"
	"os"
	"path/filepath"
	"sort"
	"strings"
	"sync"
	"testing"
	"time"

	pb "github.com/libp2p/go-libp2p-pubsub/pb"
	"github.com/libp2p/go-libp2p/core/peer"
)

type vfTidKeyT struct{}

// vfStore is a PeerMetadataStore whose operations park until the harness releases them, so the
// harness chooses the interleaving of the validator's two phases.
type vfStore struct {
	mu      sync.Mutex
	data    map[peer.ID][]byte
	pending map[int]chan struct{} // tid -> release channel of the op it is parked in
	kind    map[int]string        // "get" | "put"
	gets    map[int]int           // number of Get calls entered per tid
	started int
	done    int
	evt     chan struct{} // signalled on every park / finish
}

func (s *vfStore) signal() {
	select {
	case s.evt <- struct{}{}:
	default:
	}
}

// settle waits until every started validation is finished, parked in the store, or (presumably)
// blocked on the validator's RWMutex behind a parked one. sync.Mutex waits are not durable blocks
// for testing/synctest, so this harness runs on real goroutines and real (short) waits; a
// validation misjudged as "blocked" simply shows up as releasable a little later.
func (s *vfStore) settle(t *testing.T) {
	deadline := time.Now().Add(10 * time.Second)
	for {
		s.mu.Lock()
		running := s.started - s.done - len(s.pending)
		np := len(s.pending)
		s.mu.Unlock()
		if running == 0 {
			return
		}
		wait := 5 * time.Second
		if np > 0 {
			wait = 400 * time.Microsecond
		}
		select {
		case <-s.evt:
		case <-time.After(wait):
			if np > 0 {
				return
			}
			if time.Now().After(deadline) {
				t.Fatalf("validator deadlock: %d validations neither finished nor inside the store", running)
			}
		}
	}
}

func (s *vfStore) park(ctx context.Context, kind string) int {
	tid := ctx.Value(vfTidKeyT{}).(int)
	ch := make(chan struct{})
	s.mu.Lock()
	s.pending[tid] = ch
	s.kind[tid] = kind
	if kind == "get" {
		s.gets[tid]++
	}
	s.mu.Unlock()
	s.signal()
	<-ch
	return tid
}

func (s *vfStore) Get(ctx context.Context, p peer.ID) ([]byte, error) {
	s.park(ctx, "get")
	s.mu.Lock()
	defer s.mu.Unlock()
	return s.data[p], nil
}

func (s *vfStore) Put(ctx context.Context, p peer.ID, v []byte) error {
	s.park(ctx, "put")
	s.mu.Lock()
	defer s.mu.Unlock()
	s.data[p] = v
	return nil
}

func (s *vfStore) release(tid int) {
	s.mu.Lock()
	ch := s.pending[tid]
	delete(s.pending, tid)
	delete(s.kind, tid)
	s.mu.Unlock()
	close(ch)
}

func (s *vfStore) parked() []int {
	s.mu.Lock()
	defer s.mu.Unlock()
	var r []int
	for t := range s.pending {
		r = append(r, t)
	}
	sort.Ints(r)
	return r
}

type vfC20Msg struct {
	Author int    `json:"author"`
	Seq    []byte `json:"seq"`
}

func vfBytesLit(b []byte) string {
	ss := make([]string, len(b))
	for i, x := range b {
		ss[i] = fmt.Sprintf("%d", x)
	}
	return "[" + strings.Join(ss, "; ") + "]%N"
}

// vfC20Run validates msgs concurrently under a schedule chosen by choose(n) (returns 0..n-1).
// Choices: start the next message, or release one parked validation.
func vfC20Run(t *testing.T, msgs []vfC20Msg, choose func(n int) int) (lit string, rec map[string]any, panicked string) {
	func() {
		st := &vfStore{data: map[peer.ID][]byte{}, pending: map[int]chan struct{}{}, kind: map[int]string{}, gets: map[int]int{}, evt: make(chan struct{}, 1)}
		val := NewBasicSeqnoValidator(st, slog.New(slog.NewTextHandler(os.Stderr, &slog.HandlerOptions{Level: slog.LevelError})))
		authors := vfPeerIDs(4)
		var mu sync.Mutex
		results := map[int]ValidationResult{}
		var acts []string
		var sched []string
		var accepts []string
		noted := map[int]bool{}
		next := 0
		for {
			st.settle(t)
			parked := st.parked()
			nopt := len(parked)
			if next < len(msgs) {
				nopt++
			}
			if nopt == 0 {
				break
			}
			c := choose(nopt)
			if c == len(parked) {
				i := next
				next++
				m := msgs[i]
				acts = append(acts, fmt.Sprintf("AStart %d %d %s", i, m.Author, vfBytesLit(m.Seq)))
				sched = append(sched, fmt.Sprintf("start %d", i))
				st.mu.Lock()
				st.started++
				st.mu.Unlock()
				go func() {
					defer func() {
						if r := recover(); r != nil {
							mu.Lock()
							panicked = fmt.Sprintf("validation %d (seqno %v) panicked: %v", i, m.Seq, r)
							results[i] = ValidationResult(-1)
							mu.Unlock()
						}
						st.mu.Lock()
						st.done++
						st.mu.Unlock()
						st.signal()
					}()
					ctx := context.WithValue(context.Background(), vfTidKeyT{}, i)
					msg := &Message{Message: &pb.Message{From: []byte(authors[m.Author]), Seqno: m.Seq}}
					r := val(ctx, authors[m.Author], msg)
					mu.Lock()
					results[i] = r
					mu.Unlock()
				}()
				continue
			}
			tid := parked[c]
			st.mu.Lock()
			ph := st.gets[tid]
			kd := st.kind[tid]
			st.mu.Unlock()
			st.release(tid)
			// wait until the validation is parked again or has returned
			waitNext := func() (inPut bool) {
				for k := 0; k < 20000; k++ {
					st.mu.Lock()
					_, inPut = st.pending[tid]
					st.mu.Unlock()
					mu.Lock()
					_, fin := results[tid]
					mu.Unlock()
					if inPut || fin {
						return
					}
					time.Sleep(50 * time.Microsecond)
				}
				return
			}
			noteAccept := func() {
				mu.Lock()
				if r, ok := results[tid]; ok && r == ValidationAccept {
					// an accepted message counts with the number its bytes stand for: an absent field is 0, and so is an encoding too
					// short to decode (neither can exceed any stored value, so neither is ever acceptable)
					var v uint64
					if len(msgs[tid].Seq) >= 8 {
						v = binary.BigEndian.Uint64(msgs[tid].Seq)
					}
					accepts = append(accepts, fmt.Sprintf("(%d, %d%%N)", msgs[tid].Author, v))
					noted[tid] = true
				}
				mu.Unlock()
			}
			switch {
			case kd == "get" && ph == 1:
				acts = append(acts, fmt.Sprintf("AP1 %d", tid))
				sched = append(sched, fmt.Sprintf("p1 %d", tid))
			case kd == "get":
				// the re-check under the exclusive lock: the validation either returns Ignore or goes on to write the nonce.
				// The write is a scheduling point of its own: if the implementation still holds the lock nothing can overtake
				// it, if it does not, another validation can
				sched = append(sched, fmt.Sprintf("p2-read %d", tid))
				if !waitNext() {
					acts = append(acts, fmt.Sprintf("AP2 %d", tid))
					sched = append(sched, fmt.Sprintf("p2 %d", tid))
					noteAccept()
				}
			default: // parked in Put
				waitNext()
				acts = append(acts, fmt.Sprintf("AP2 %d", tid))
				sched = append(sched, fmt.Sprintf("p2 %d", tid))
				noteAccept()
			}
			mu.Lock()
			p := panicked
			mu.Unlock()
			if p != "" {
				break
			}
		}
		// release anything still parked so the bubble can end
		for k := 0; k < 100; k++ {
			for _, tid := range st.parked() {
				st.release(tid)
			}
			st.mu.Lock()
			fin := st.started == st.done
			st.mu.Unlock()
			if fin {
				break
			}
			time.Sleep(200 * time.Microsecond)
		}
		var resl []string
		resj := map[string]string{}
		tids := []int{}
		for i := range results {
			tids = append(tids, i)
		}
		sort.Ints(tids)
		for _, i := range tids {
			v := "Ignore"
			if results[i] == ValidationAccept {
				v = "Accept"
				if !noted[i] {
					// accepted without ever going through the store (no scheduling point was seen): counted all the same
					var x uint64
					if len(msgs[i].Seq) >= 8 {
						x = binary.BigEndian.Uint64(msgs[i].Seq)
					}
					accepts = append(accepts, fmt.Sprintf("(%d, %d%%N)", msgs[i].Author, x))
				}
			}
			resl = append(resl, fmt.Sprintf("(%d, %s)", i, v))
			resj[fmt.Sprint(i)] = v
		}
		var storel []string
		storej := map[string]uint64{}
		for a, p := range authors {
			if b, ok := st.data[p]; ok && len(b) >= 8 {
				storel = append(storel, fmt.Sprintf("(%d, %d%%N)", a, binary.BigEndian.Uint64(b)))
				storej[fmt.Sprint(a)] = binary.BigEndian.Uint64(b)
			}
		}
		lit = fmt.Sprintf("{| c_ops := [%s]; c_results := [%s]; c_store := [%s]; c_accepts := [%s]; c_penalised := [] |}",
			strings.Join(acts, "; "), strings.Join(resl, "; "), strings.Join(storel, "; "), strings.Join(accepts, "; "))
		rec = map[string]any{"msgs": msgs, "schedule": sched, "results": resj, "store": storej, "accepts": accepts}
	}()
	return
}

// vfExplore enumerates every choice sequence of run (stateless DFS over the choice tree).
func vfExplore(limit int, run func(choose func(n int) int)) int {
	var script []int // choice taken at each depth
	var width []int  // number of options at each depth
	n := 0
	for {
		depth := 0
		choose := func(k int) int {
			if depth < len(script) {
				c := script[depth]
				if c >= k { // the tree is not the same on every run when validations are not serialised by the lock
					c = k - 1
					script[depth] = c
				}
				width[depth] = k
				depth++
				return c
			}
			script = append(script, 0)
			width = append(width, k)
			depth++
			return 0
		}
		run(choose)
		n++
		script = script[:depth]
		width = width[:depth]
		// backtrack
		for len(script) > 0 && script[len(script)-1]+1 >= width[len(script)-1] {
			script = script[:len(script)-1]
			width = width[:len(width)-1]
		}
		if len(script) == 0 || (limit > 0 && n >= limit) {
			return n
		}
		script[len(script)-1]++
	}
}

func vfSeqBytes(v uint64) []byte {
	b := make([]byte, 8)
	binary.BigEndian.PutUint64(b, v)
	return b
}

func TestVF_C20(t *testing.T) {
	cs := vfNewCases(t, "c20", "From PS Require Import Model.SeqnoVal Run.C20Run.", "case", "check_case")
	rng := vfRng(20)
	violation := ""
	var violRec any
	record := func(msgs []vfC20Msg, choose func(int) int) {
		lit, rec, p := vfC20Run(t, msgs, choose)
		if p != "" {
			if violation == "" {
				violation = p
				violRec = rec
			}
			return
		}
		conc := false
		if sc, ok := rec["schedule"].([]string); ok {
			// non-trivial: two validations of one author overlap (second starts phase 1 before the first finished)
			open := map[int]bool{}
			for _, s := range sc {
				var k string
				var i int
				fmt.Sscanf(s, "%s %d", &k, &i)
				if k == "p1" {
					for j := range open {
						if msgs[j].Author == msgs[i].Author {
							conc = true
						}
					}
					open[i] = true
				}
				if k == "p2" {
					delete(open, i)
				}
			}
		}
		cs.add(lit, rec, conc)
	}
	// exhaustive: every schedule of 2 and (thorough) 3 concurrent validations of one author, seqnos from a small set
	vals := [][]byte{vfSeqBytes(1), vfSeqBytes(2), {}, vfSeqBytes(^uint64(0))}
	nthr := vfN(2, 3)
	total := 0
	var assign func(k int, cur []vfC20Msg)
	assign = func(k int, cur []vfC20Msg) {
		if k == 0 {
			msgs := append([]vfC20Msg{}, cur...)
			total += vfExplore(0, func(choose func(int) int) { record(msgs, choose) })
			return
		}
		for _, v := range vals {
			assign(k-1, append(cur, vfC20Msg{Author: 0, Seq: v}))
		}
	}
	for n := 1; n <= nthr; n++ {
		assign(n, nil)
	}
	cs.extra["exhaustive_schedules"] = total
	cs.extra["exhaustive_threads"] = nthr
	// random: up to 6 validations, 2 authors, duplicates, decreasing runs, 0, max, wrong lengths
	pool := []func() []byte{
		func() []byte { return vfSeqBytes(uint64(rng.Intn(6))) },
		func() []byte { return vfSeqBytes(uint64(rng.Intn(6))) },
		func() []byte { return vfSeqBytes(^uint64(0) - uint64(rng.Intn(2))) },
		func() []byte { return vfSeqBytes(uint64(rng.Int63())) },
		func() []byte { return vfSeqBytes(uint64(1)<<63 - 2 + uint64(rng.Intn(5))) }, // around 2^63
		func() []byte { return vfSeqBytes(uint64(rng.Intn(4)) << 62) },
		func() []byte { return nil },
		func() []byte { b := make([]byte, 1+rng.Intn(7)); rng.Read(b); return b },       // 1..7 bytes
		func() []byte { b := make([]byte, 9+rng.Intn(4)); rng.Read(b); b[0] = 0; return b }, // > 8 bytes
	}
	nrand := vfN(300, 4000)
	for c := 0; c < nrand; c++ {
		n := 1 + rng.Intn(6)
		msgs := make([]vfC20Msg, n)
		for i := range msgs {
			msgs[i] = vfC20Msg{Author: rng.Intn(2), Seq: pool[rng.Intn(len(pool))]()}
			cs.kind(fmt.Sprintf("len%d", len(msgs[i].Seq)))
		}
		record(msgs, func(k int) int { return rng.Intn(k) })
	}
	// ladders: one author, validations one after the other (the i-th finishes before the next starts), climbing through the
	// top half of the range in steps below 2^63 and then dropping to small values, zero and the maximum
	nlad := vfN(30, 300)
	for c := 0; c < nlad; c++ {
		var msgs []vfC20Msg
		v := uint64(rng.Intn(3))
		for len(msgs) < 2+rng.Intn(3) {
			v += uint64(1)<<62 + uint64(rng.Int63n(1<<62))
			if v < uint64(1)<<62 { // wrapped
				break
			}
			msgs = append(msgs, vfC20Msg{Author: 0, Seq: vfSeqBytes(v)})
		}
		for k := 1 + rng.Intn(3); k > 0; k-- {
			msgs = append(msgs, vfC20Msg{Author: 0, Seq: [][]byte{vfSeqBytes(0), vfSeqBytes(uint64(rng.Intn(5))), vfSeqBytes(^uint64(0)), vfSeqBytes(uint64(1) << 63)}[rng.Intn(4)]})
		}
		cs.kind("ladder")
		record(msgs, func(k int) int { return 0 })
	}
	if violation != "" {
		js, _ := json.MarshalIndent(map[string]any{"key": "seqno-validator-panic", "code": 90, "what": violation, "case": violRec}, "", " ")
		os.WriteFile(filepath.Join(vfOutDir(t), "violation_c20_panic.json"), js, 0o644)
	}
	cs.flush("every release order of the two validator phases for 1..N concurrent validations over seqnos {1,2,empty,2^64-1} " +
		"(exhaustive, stateless DFS) plus random multisets over 2 authors incl. wrong-length encodings and values around 2^62, 2^63 and 2^64, plus sequential ladders that climb through the upper half of the range and then drop to small values; non-trivial = two validations of one author overlap in time; distinct = hash of messages+schedule+observations")
}
