//go:build verif

package pubsub

import (
	"context"
	"crypto/rand"
	"fmt"
	mrand "math/rand"
	"strconv"
	"strings"
	"testing"
	"testing/synctest"
	"time"

	pb "github.com/libp2p/go-libp2p-pubsub/pb"
	"github.com/libp2p/go-libp2p/core/crypto"
	"github.com/libp2p/go-libp2p/core/peer"
	"github.com/libp2p/go-libp2p/core/protocol"
	"github.com/libp2p/go-libp2p/core/record"
)

// C09, the parts outside the gossip model: the validation-overload gater, the dispatch of an RPC under each
// AcceptFrom verdict, and which peer-exchange records of a PRUNE are followed.

func vfQ(x float64) string {
	// the harness only uses values that are exact small dyadic / integer numbers
	n := int64(x * 1024)
	return fmt.Sprintf("(%d # 1024)", n)
}

func TestVF_Gate(t *testing.T) {
	cs := vfNewCases(t, "gate", "From Coq Require Import ZArith QArith.\nFrom PS Require Import Model.Gate Run.GateRun.", "gcase9", "check_gcase9")
	cs.shard = 200
	rng := vfRng(9)
	ngate := vfN(300, 4000)
	npx := vfN(200, 3000)
	synctest.Test(t, func(t *testing.T) {
		ctx, cancel := context.WithCancel(context.Background())
		defer cancel()
		P := vfRandParams(rng)
		for P.D == 0 {
			P = vfRandParams(rng)
		}
		np := 6
		gt := NewPeerGaterParams(0.33, 0.9, 0.9)
		n := vfNewRouterNode(t, ctx, P, np, WithPeerGater(gt))
		pg := n.gs.gate
		tp, err := n.ps.Join(vfTopic(0))
		if err != nil {
			t.Fatal(err)
		}
		sub, err := tp.Subscribe()
		if err != nil {
			t.Fatal(err)
		}
		synctest.Wait()
		for p := 0; p < np; p++ {
			n.addPeer(p, GossipSubID_v12, false)
			s := true
			ts := vfTopic(0)
			n.recv(p, &pb.RPC{Subscriptions: []*pb.RPC_SubOpts{{Subscribe: &s, Topicid: &ts}}})
		}
		nextMid := 100
		// ---- the gater and the dispatch ----
		for c := 0; c < ngate; c++ {
			p := rng.Intn(np)
			pid := n.pids[p]
			thr := []float64{0.125, 0.25, 0.5}[rng.Intn(3)]
			dupW, ignW, rejW := []float64{0.125, 1}[rng.Intn(2)], []float64{1, 2}[rng.Intn(2)], []float64{1, 16}[rng.Intn(2)]
			quiet := rng.Intn(4) == 0
			throttle := []float64{0, 0, 1, 5}[rng.Intn(4)]
			validate := []float64{0, 1, 10, 100}[rng.Intn(4)]
			deliver := []float64{0, 0, 1, 10}[rng.Intn(4)]
			dup := []float64{0, 3}[rng.Intn(2)]
			ign := []float64{0, 2}[rng.Intn(2)]
			rej := []float64{0, 0, 1, 1 << 40}[rng.Intn(4)]
			direct := rng.Intn(8) == 0
			score := []int{-7, -6, -5, -4, 0, 1}[rng.Intn(6)]
			n.scores[p] = score
			vfEval(n.ps, func() {
				pg.Lock()
				pg.params.Threshold, pg.params.DuplicateWeight, pg.params.IgnoreWeight, pg.params.RejectWeight = thr, dupW, ignW, rejW
				pg.params.Quiet = time.Minute
				if quiet {
					pg.lastThrottle = time.Now().Add(-2 * time.Minute)
				} else {
					pg.lastThrottle = time.Now()
				}
				pg.throttle, pg.validate = throttle, validate
				st := pg.getPeerStats(pid)
				st.deliver, st.duplicate, st.ignore, st.reject = deliver, dup, ign, rej
				pg.Unlock()
				if n.gs.direct == nil {
					n.gs.direct = map[peer.ID]struct{}{}
				}
				if direct {
					n.gs.direct[pid] = struct{}{}
				} else {
					delete(n.gs.direct, pid)
				}
			})
			var obs AcceptStatus
			vfEval(n.ps, func() { obs = n.gs.AcceptFrom(pid) })
			// is the verdict (practically) certain?  early exits, or a per-source acceptance probability of 1 or below 2^-39
			total := deliver + dupW*dup + ignW*ign + rejW*rej
			certain := direct || score < vfGraylistThr || quiet || throttle == 0 || (validate != 0 && throttle/validate < thr) || total == 0 ||
				(1+deliver)/(1+total) >= 1 || rej >= 1<<40
			cdone, pdone := false, false
			if certain {
				var before int
				vfEval(n.ps, func() { before = n.gs.peerdontwant[pid] })
				id := nextMid
				nextMid++
				ts := vfTopic(0)
				data := []byte(strconv.Itoa(id) + ":gate")
				n.recv(p, &pb.RPC{Publish: []*pb.Message{{Data: data, Topic: &ts}},
					Control: &pb.ControlMessage{Idontwant: []*pb.ControlIDontWant{{MessageIDs: []string{"zz" + strconv.Itoa(id)}}}}})
				synctest.Wait()
				vfEval(n.ps, func() {
					cdone = n.gs.peerdontwant[pid] > before
					n.gs.clearIDontWantCounters()
				})
				for {
					select {
					case m := <-sub.ch:
						if string(m.Data) == string(data) {
							pdone = true
						}
						continue
					default:
					}
					break
				}
				n.drain()
			}
			acc := map[AcceptStatus]string{AcceptNone: "AcceptNone", AcceptControl: "AcceptControl", AcceptAll: "AcceptAll"}[obs]
			lit := fmt.Sprintf("GGate {| gpThreshold := %s; gpDupW := %s; gpIgnW := %s; gpRejW := %s |} {| gValidate := %s; gThrottle := %s; gQuiet := %v |} {| gd := %s; gdup := %s; gign := %s; grej := %s |} %v (%d)%%Z (%d)%%Z %s %v %v %v",
				vfQ(thr), vfQ(dupW), vfQ(ignW), vfQ(rejW), vfQ(validate), vfQ(throttle), quiet, vfQ(deliver), vfQ(dup), vfQ(ign), vfQ(rej), direct, score, vfGraylistThr, acc, cdone, pdone, certain)
			cs.add(lit, map[string]any{"kind": "gate", "verdict": acc, "certain": certain, "control_done": cdone, "payload_done": pdone, "direct": direct, "score": score, "quiet": quiet,
				"throttle": throttle, "validate": validate, "stats": []float64{deliver, dup, ign, rej}}, certain && obs == AcceptControl)
			cs.kind(acc)
		}
		// ---- peer exchange ----
		connCh := make(chan connectInfo, 64)
		vfEval(n.ps, func() { n.gs.connect = connCh })
		mkRecord := func(forID peer.ID, priv crypto.PrivKey) []byte {
			env, err := record.Seal(&peer.PeerRecord{PeerID: forID, Seq: 1}, priv)
			if err != nil {
				t.Fatal(err)
			}
			b, _ := env.Marshal()
			return b
		}
		for c := 0; c < npx; c++ {
			p := rng.Intn(np)
			score := []int{0, 1, 2, 3}[rng.Intn(4)]
			n.scores[p] = score
			vfEval(n.ps, func() { delete(n.gs.direct, n.pids[p]) })
			priv, _, _ := crypto.GenerateEd25519Key(rand.Reader)
			id, _ := peer.IDFromPrivateKey(priv)
			connected := rng.Intn(5) == 0
			if connected {
				id = n.pids[(p+1)%np]
			}
			pi := &pb.PeerInfo{PeerID: []byte(id)}
			kind := "PxNone"
			switch rng.Intn(5) {
			case 0:
			case 1, 2:
				if !connected {
					pi.SignedPeerRecord = mkRecord(id, priv)
					kind = "PxValid"
				}
			case 3:
				// a well-formed record, but for somebody else
				priv2, _, _ := crypto.GenerateEd25519Key(rand.Reader)
				id2, _ := peer.IDFromPrivateKey(priv2)
				pi.SignedPeerRecord = mkRecord(id2, priv2)
				kind = "PxInvalid"
			default:
				pi.SignedPeerRecord = []byte{1, 2, 3, 4, 5}
				kind = "PxInvalid"
			}
			ts := vfTopic(0)
			n.recv(p, &pb.RPC{Control: &pb.ControlMessage{Prune: []*pb.ControlPrune{{TopicID: &ts, Peers: []*pb.PeerInfo{pi}}}}})
			synctest.Wait()
			followed := false
			for {
				select {
				case ci := <-connCh:
					if ci.p == id {
						followed = true
					}
					continue
				default:
				}
				break
			}
			n.drain()
			lit := fmt.Sprintf("GPx (%d)%%Z (%d)%%Z %v %s %v", score, vfAcceptPX, connected, kind, followed)
			cs.add(lit, map[string]any{"kind": "px", "score": score, "record": kind, "already_connected": connected, "followed": followed}, followed || kind == "PxInvalid")
			cs.kind(kind)
		}
		sub.Cancel()
		cancel()
		synctest.Wait()
	})
	// ---- (c) which PRUNEs carry peer-exchange records ----
	ngraft := vfN(300, 3000)
	nhb := vfN(40, 400)
	for _, doPX := range []bool{true, false} {
		synctest.Test(t, func(t *testing.T) {
			ctx, cancel := context.WithCancel(context.Background())
			defer cancel()
			P := vfRParams{D: 3, Dlo: 2, Dhi: 4, Dscore: 1, Dout: 0, OGTicks: 100, OGPeers: 1,
				PruneBackoff: 20 * time.Second, UnsubBackoff: 5 * time.Second, GraftFlood: 3 * time.Second, FanoutTTL: 30 * time.Second}
			np := 10
			n := vfNewRouterNode(t, ctx, P, np, WithPeerExchange(doPX))
			var subs []*Subscription
			for tp := 0; tp < 2; tp++ {
				topic, err := n.ps.Join(vfTopic(tp))
				if err != nil {
					t.Fatal(err)
				}
				sb, err := topic.Subscribe()
				if err != nil {
					t.Fatal(err)
				}
				subs = append(subs, sb)
			}
			synctest.Wait()
			protos := make([]protocol.ID, np)
			for p := 0; p < np; p++ {
				protos[p] = []protocol.ID{GossipSubID_v10, GossipSubID_v11, GossipSubID_v12}[rng.Intn(3)]
				if p >= 8 {
					protos[p] = GossipSubID_v12 // two peers that are always good peer-exchange candidates
				}
				n.addPeer(p, protos[p], false)
				for tp := 0; tp < 3; tp++ {
					sv := true
					ts := vfTopic(tp)
					n.recv(p, &pb.RPC{Subscriptions: []*pb.RPC_SubOpts{{Subscribe: &sv, Topicid: &ts}}})
				}
			}
			n.scores[8], n.scores[9] = 1, 1
			n.drain()
			speaksPX := func(p int) bool { return protos[p] != GossipSubID_v10 }
			setMesh := func(tp int, members []int) {
				m := map[peer.ID]struct{}{}
				for _, q := range members {
					m[n.pids[q]] = struct{}{}
				}
				n.gs.mesh[vfTopic(tp)] = m
			}
			for c := 0; c < ngraft; c++ {
				g := rng.Intn(8)
				score := []int{-1, -1, 0, 1}[rng.Intn(4)]
				direct := rng.Intn(8) == 0
				outb := rng.Intn(3) == 0
				n.scores[g] = score
				type tin struct {
					tp                        int
					joined, inMesh, bo, full bool
				}
				var tins []tin
				for _, tp := range rng.Perm(3)[:1+rng.Intn(3)] {
					tins = append(tins, tin{tp: tp, joined: tp < 2})
				}
				vfEval(n.ps, func() {
					n.gs.outbound[n.pids[g]] = outb
					if n.gs.direct == nil {
						n.gs.direct = map[peer.ID]struct{}{}
					}
					if direct {
						n.gs.direct[n.pids[g]] = struct{}{}
					} else {
						delete(n.gs.direct, n.pids[g])
					}
					for i := range tins {
						ti := &tins[i]
						if !ti.joined {
							continue
						}
						k := rng.Intn(P.Dhi + 2)
						var mem []int
						for _, q := range rng.Perm(8) {
							if q != g && len(mem) < k {
								mem = append(mem, q)
							}
						}
						ti.inMesh = rng.Intn(8) == 0
						if ti.inMesh {
							mem = append(mem, g)
						}
						ti.full = len(mem) >= P.Dhi
						setMesh(ti.tp, mem)
						ti.bo = rng.Intn(4) == 0
						bm := map[peer.ID]time.Time{}
						if ti.bo {
							bm[n.pids[g]] = time.Now().Add(10 * time.Second)
						} else if rng.Intn(4) == 0 {
							bm[n.pids[g]] = time.Now().Add(-time.Second) // an expired entry does not count
						}
						n.gs.backoff[vfTopic(ti.tp)] = bm
					}
				})
				var grafts []*pb.ControlGraft
				for _, ti := range tins {
					ts := vfTopic(ti.tp)
					grafts = append(grafts, &pb.ControlGraft{TopicID: &ts})
				}
				n.recv(g, &pb.RPC{Control: &pb.ControlMessage{Graft: grafts}})
				synctest.Wait()
				_, rpcs := n.drain()
				npx := map[string]int{}
				pruned := map[string]bool{}
				for _, r := range rpcs[g] {
					if r.Control != nil {
						for _, pr := range r.Control.Prune {
							pruned[pr.GetTopicID()] = true
							npx[pr.GetTopicID()] += len(pr.Peers)
						}
					}
				}
				var gl, pl, nl, al []string
				anyPX := false
				vfEval(n.ps, func() {
					for _, ti := range tins {
						ts := vfTopic(ti.tp)
						gl = append(gl, fmt.Sprintf("{| gi_joined := %v; gi_in_mesh := %v; gi_backoff := %v; gi_full := %v |}", ti.joined, ti.inMesh, ti.bo, ti.full))
						pl = append(pl, vfBool(pruned[ts]))
						nl = append(nl, strconv.Itoa(npx[ts])+"%nat")
						_, in := n.gs.mesh[ts][n.pids[g]]
						al = append(al, vfBool(in && !ti.inMesh))
						anyPX = anyPX || npx[ts] > 0
						if m, ok := n.gs.mesh[ts]; ok {
							delete(m, n.pids[g])
						}
					}
				})
				lit := fmt.Sprintf("GGraftPx %v %v %v (%d)%%Z %v [%s] [%s] [%s] [%s]", doPX, speaksPX(g), direct, score, outb,
					strings.Join(gl, "; "), strings.Join(pl, "; "), strings.Join(nl, "; "), strings.Join(al, "; "))
				cs.add(lit, map[string]any{"kind": "graft-px", "peer_exchange_enabled": doPX, "speaks_px": speaksPX(g), "direct": direct, "score": score, "outbound": outb,
					"topics": gl, "pruned": pl, "px_records": nl, "admitted": al}, anyPX || score < 0)
				cs.kind("graft-px")
			}
			// heartbeat PRUNEs: negative-score members and the over-subscription cut
			for c := 0; c < nhb; c++ {
				var mem []int
				vfEval(n.ps, func() {
					k := 1 + rng.Intn(P.Dhi+2)
					for _, q := range rng.Perm(8)[:k] {
						mem = append(mem, q)
						n.scores[q] = []int{-1, 0, 0, 1}[rng.Intn(4)]
					}
					setMesh(0, mem)
					setMesh(1, nil)
					n.gs.backoff = map[string]map[peer.ID]time.Time{}
					n.gs.heartbeat()
				})
				synctest.Wait()
				_, rpcs := n.drain()
				for _, q := range mem {
					for _, r := range rpcs[q] {
						if r.Control == nil {
							continue
						}
						for _, pr := range r.Control.Prune {
							lit := fmt.Sprintf("GHbPx %v %v (%d)%%Z %d%%nat", doPX, speaksPX(q), n.scores[q], len(pr.Peers))
							cs.add(lit, map[string]any{"kind": "heartbeat-px", "peer_exchange_enabled": doPX, "speaks_px": speaksPX(q), "score": n.scores[q], "px_records": len(pr.Peers)}, len(pr.Peers) > 0 || n.scores[q] < 0)
							cs.kind("heartbeat-px")
						}
					}
				}
			}
			for _, sb := range subs {
				sb.Cancel()
			}
			cancel()
			synctest.Wait()
		})
	}
	cs.flush("(a) gater states set directly on a real node (quiet / throttling, throttle-to-validate ratios around the threshold, per-source statistics incl. a practically certain throttle, direct peers, scores around the graylist threshold): the verdict of GossipSubRouter.AcceptFrom is compared with the model (the random draw is an observation); when the verdict is certain an RPC carrying an IDONTWANT and a message is handed to handleIncomingRPC and what was processed is compared with the dispatch model; (b) PRUNEs with one peer-exchange entry (no record, a valid signed record, a record for another id, garbage; an already connected id) from peers with scores around the accept-PX threshold: whether the router queues a connection attempt; (c) GRAFT RPCs for one to three topics (joined or not, sender already in the mesh, unexpired / expired backoff, mesh below / at / over Dhi) from v1.0 / v1.1 / v1.2 peers with negative, zero and positive scores, direct or not, outbound or not, to nodes with and without the peer-exchange option: per topic whether a PRUNE goes back, how many peer-exchange records it carries and whether the sender was admitted; heartbeats over meshes with negative-score members and over-subscription: the peer-exchange records of every PRUNE sent; " +
		"non-trivial = a certain AcceptControl verdict, a followed record or an invalid one; distinct = literal")
}

var _ = mrand.Intn
