//go:build verif

package pubsub

import (
	"bufio"
	"context"
	"encoding/json"
	"io"
	"fmt"
	"math/rand"
	"os"
	"path/filepath"
	"sort"
	"strconv"
	"strings"
	"sync"
	"testing"
	"testing/synctest"
	"time"

	pb "github.com/libp2p/go-libp2p-pubsub/pb"
	"github.com/libp2p/go-msgio/protoio"
	"github.com/libp2p/go-libp2p/core/peer"
	"github.com/libp2p/go-libp2p/core/protocol"
)

// Gossip-level router histories (C06, C09, C17): the router harness extended with publishing /
// forwarding, IHAVE / IWANT / IDONTWANT and the gossip side of the heartbeat.  Message data is
// "<id>:<padding>", the message ID function returns "<id>".

type vfGParams struct {
	R                                                               vfRParams
	HistLen, HistGossip, Dlazy, FactorDen, MaxIHaveLen, MaxIHaveMsgs int
	Retrans, MaxIDWMsgs, MaxIDWLen, IDWTTL, IDWThr                   int
	Flood                                                            bool
}

func vfMsgID(m *pb.Message) string {
	s := string(m.Data)
	if i := strings.IndexByte(s, ':'); i >= 0 {
		return s[:i]
	}
	return s
}

func vfGParamsLit(G vfGParams) string {
	return fmt.Sprintf("{| gCore := %s; gHistLen := %d; gHistGossip := %d; gDlazy := %d; gFactorNum := 1; gFactorDen := %d; gMaxIHaveLen := %d; gMaxIHaveMsgs := %d; gRetrans := %d; gMaxIDWMsgs := %d; gMaxIDWLen := %d; gIDWTTL := %d; gIDWThr := %d; gGossipThr := (%d)%%Z; gGraylistThr := (%d)%%Z; gFollowup := 3000000000%%Z; gFlood := %v |}",
		vfRParamsLit(G.R), G.HistLen, G.HistGossip, G.Dlazy, G.FactorDen, G.MaxIHaveLen, G.MaxIHaveMsgs, G.Retrans, G.MaxIDWMsgs, G.MaxIDWLen, G.IDWTTL, G.IDWThr, vfGossipThr, vfGraylistThr, G.Flood)
}

type vfGNode struct {
	*vfRNode
	G       vfGParams
	topics  map[int]*Topic
	subs    map[int]*Subscription
	csum    map[checksum]int
	nextMid int
	// C06 "field-for-field": the wire encoding of every message as it was accepted (injected from a peer)
	// or as its first copy left the node (local publication); every copy sent must be byte-identical
	orig map[string][]string
	viol map[string]any
	ev   *vfEvTracer
	// maximum RPC size when the history runs with a small one (0 otherwise): consecutive RPCs to one peer that could not have
	// travelled together are the fragments of one oversized RPC and are read as one (what the fragments carry and how big
	// they are is C11's business; the number of RPCs stays the real one)
	maxRPC int
}

// vfUnsplit joins the fragments of split RPCs again: a greedy split leaves fragments of which no two neighbours fit one RPC.
func (n *vfGNode) vfUnsplit(rs []*RPC) []*RPC {
	if n.maxRPC == 0 {
		return rs
	}
	var out []*RPC
	last := 0
	for _, r := range rs {
		if len(out) == 0 || last+r.Size() <= n.maxRPC {
			cp := &RPC{}
			cp.Publish = append(cp.Publish, r.Publish...)
			if r.Control != nil {
				c := *r.Control
				cp.Control = &c
			}
			out = append(out, cp)
			last = r.Size()
			continue
		}
		last = r.Size()
		g := out[len(out)-1]
		g.Publish = append(g.Publish, r.Publish...)
		if r.Control == nil {
			continue
		}
		if g.Control == nil {
			g.Control = &pb.ControlMessage{}
		}
		c := g.Control
		for _, h := range r.Control.Ihave {
			merged := false
			for k, x := range c.Ihave {
				if x.GetTopicID() == h.GetTopicID() {
					tid := x.GetTopicID()
					c.Ihave = append(append([]*pb.ControlIHave{}, c.Ihave[:k]...), append([]*pb.ControlIHave{{TopicID: &tid, MessageIDs: append(append([]string{}, x.MessageIDs...), h.MessageIDs...)}}, c.Ihave[k+1:]...)...)
					merged = true
					break
				}
			}
			if !merged {
				c.Ihave = append(append([]*pb.ControlIHave{}, c.Ihave...), h)
			}
		}
		c.Iwant = append(append([]*pb.ControlIWant{}, c.Iwant...), r.Control.Iwant...)
		if len(r.Control.Idontwant) > 0 {
			var ids []string
			for _, w := range c.Idontwant {
				ids = append(ids, w.MessageIDs...)
			}
			for _, w := range r.Control.Idontwant {
				ids = append(ids, w.MessageIDs...)
			}
			c.Idontwant = []*pb.ControlIDontWant{{MessageIDs: ids}}
		}
		c.Graft = append(append([]*pb.ControlGraft{}, c.Graft...), r.Control.Graft...)
		c.Prune = append(append([]*pb.ControlPrune{}, c.Prune...), r.Control.Prune...)
	}
	return out
}

// message ids on the wire: decimal, optionally zero-padded to 40 digits (ids that are long and share a long prefix);
// Coq and strconv read both forms as the same number
var vfIDWidth = 0

func vfWireID(id int) string { return fmt.Sprintf("%0*d", vfIDWidth, id) }

func (n *vfGNode) mkData(id, size int) []byte {
	s := vfWireID(id) + ":"
	for len(s) < size {
		s += "x"
	}
	n.csum[computeChecksum(vfWireID(id))] = id
	return []byte(s)
}

// vfEvTracer is the in-memory EventTracer of C19; it optionally tees every event into a JSON and a
// protobuf file tracer so that their buffering / writer loops can be checked against it.
type vfEvTracer struct {
	mx   sync.Mutex
	evs  []*pb.TraceEvent
	all  []*pb.TraceEvent
	tees []EventTracer
}

func (t *vfEvTracer) Trace(evt *pb.TraceEvent) {
	t.mx.Lock()
	t.evs = append(t.evs, evt)
	t.all = append(t.all, evt)
	t.mx.Unlock()
	for _, x := range t.tees {
		x.Trace(evt)
	}
}
func (t *vfEvTracer) take() []*pb.TraceEvent {
	t.mx.Lock()
	defer t.mx.Unlock()
	r := t.evs
	t.evs = nil
	return r
}

// trace events of one step as Gallina tev terms (only the kinds C19 talks about)
func (n *vfGNode) traceLits(evs []*pb.TraceEvent) []string {
	var out []string
	pi := func(b []byte) int {
		for i, p := range n.pids {
			if string(p) == string(b) {
				return i
			}
		}
		return 999
	}
	for _, e := range evs {
		switch e.GetType() {
		case pb.TraceEvent_ON_NEW_OUTBOUND_STREAM:
			out = append(out, fmt.Sprintf("TAddPeer %d", pi(e.OnNewOutboundStream.PeerID)))
		case pb.TraceEvent_ON_CLOSED_OUTBOUND_STREAM:
			out = append(out, fmt.Sprintf("TRemovePeer %d", pi(e.OnClosedOutboundStream.PeerID)))
		case pb.TraceEvent_JOIN:
			out = append(out, fmt.Sprintf("TJoin %s", e.Join.GetTopic()[1:]))
		case pb.TraceEvent_LEAVE:
			out = append(out, fmt.Sprintf("TLeave %s", e.Leave.GetTopic()[1:]))
		case pb.TraceEvent_GRAFT:
			out = append(out, fmt.Sprintf("TGraft %d %s", pi(e.Graft.PeerID), e.Graft.GetTopic()[1:]))
		case pb.TraceEvent_PRUNE:
			out = append(out, fmt.Sprintf("TPrune %d %s", pi(e.Prune.PeerID), e.Prune.GetTopic()[1:]))
		case pb.TraceEvent_DELIVER_MESSAGE:
			out = append(out, fmt.Sprintf("TDeliver %s", string(e.DeliverMessage.MessageID)))
		case pb.TraceEvent_PUBLISH_MESSAGE:
			out = append(out, fmt.Sprintf("TPublish %s", string(e.PublishMessage.MessageID)))
		case pb.TraceEvent_SEND_RPC:
			out = append(out, fmt.Sprintf("TSend %d", pi(e.SendRPC.SendTo)))
		case pb.TraceEvent_DROP_RPC:
			out = append(out, fmt.Sprintf("TDrop %d", pi(e.DropRPC.SendTo)))
		}
	}
	return out
}

// decode drained RPCs into Gallina gout terms
func (n *vfGNode) outputs(rpcs map[int][]*RPC) []string {
	var out []string
	for i, rs := range rpcs {
		for _, r := range n.vfUnsplit(rs) {
			for _, m := range r.Publish {
				out = append(out, fmt.Sprintf("OMsg %d %s", i, vfMsgID(m)))
				b, _ := m.Marshal()
				if o, ok := n.orig[vfMsgID(m)]; !ok {
					n.orig[vfMsgID(m)] = []string{string(b)}
				} else if !vfHasStr(o, string(b)) && n.viol == nil {
					n.viol = map[string]any{"property": "C06", "code": 69, "key": "copy-differs",
						"what": "a forwarded / published copy is not field-for-field the accepted message",
						"message_id": vfMsgID(m), "to_peer": i, "accepted_hex": fmt.Sprintf("%x", o), "sent_hex": fmt.Sprintf("%x", b)}
				}
			}
			c := r.Control
			if c == nil {
				continue
			}
			for _, h := range c.Ihave {
				out = append(out, fmt.Sprintf("OIHave %d %s %s", i, h.GetTopicID()[1:], vfIDs(h.MessageIDs)))
			}
			var iw []string
			for _, w := range c.Iwant {
				iw = append(iw, w.MessageIDs...)
			}
			if len(iw) > 0 {
				out = append(out, fmt.Sprintf("OIWant %d %s", i, vfIDs(iw)))
			}
			for _, w := range c.Idontwant {
				out = append(out, fmt.Sprintf("OIDontWant %d 0 %s", i, vfIDs(w.MessageIDs)))
			}
			for _, g := range c.Graft {
				out = append(out, fmt.Sprintf("OCtl (CGraft %d %s)", i, g.GetTopicID()[1:]))
			}
			for _, pr := range c.Prune {
				bo := "None"
				if pr.Backoff != nil {
					bo = fmt.Sprintf("(Some (%d)%%Z)", *pr.Backoff)
				}
				out = append(out, fmt.Sprintf("OCtl (CPrune %d %s %s)", i, pr.GetTopicID()[1:], bo))
			}
		}
	}
	sort.Strings(out)
	return out
}

func vfHasStr(l []string, x string) bool {
	for _, y := range l {
		if y == x {
			return true
		}
	}
	return false
}

func vfIDs(ids []string) string {
	l := append([]string{}, ids...)
	sort.Strings(l)
	return "[" + strings.Join(l, "; ") + "]"
}

func (n *vfGNode) gsnapshot() string {
	core := n.snapshot() // {| sn_mesh := ..; sn_fanout := ..; sn_backoff := .. |}
	core = strings.NewReplacer("sn_mesh", "gn_mesh", "sn_fanout", "gn_fanout", "sn_backoff", "gn_backoff", " |}", "").Replace(core)
	var unw []string
	var cache []int
	vfEval(n.ps, func() {
		for p, m := range n.gs.unwanted {
			var ids []int
			for c := range m {
				ids = append(ids, n.csum[c])
			}
			sort.Ints(ids)
			unw = append(unw, fmt.Sprintf("(%d, %s)", n.tr.idx(p), vfNats(ids)))
		}
		for k := range n.gs.mcache.msgs {
			v, _ := strconv.Atoi(k)
			cache = append(cache, v)
		}
	})
	sort.Strings(unw)
	sort.Ints(cache)
	return fmt.Sprintf("%s; gn_unwanted := [%s]; gn_cache := %s |}", core, strings.Join(unw, "; "), vfNats(cache))
}

func (n *vfGNode) penalties() map[int]int {
	r := map[int]int{}
	vfEval(n.ps, func() {
		for i, p := range n.pids {
			if st, ok := n.gs.score.peerStats[p]; ok {
				r[i] = int(st.behaviourPenalty + 0.5)
			}
		}
	})
	return r
}

// vfDrainSub empties a subscription's buffer without letting virtual time pass
func vfDrainSub(sub *Subscription) {
	for {
		select {
		case <-sub.ch:
		default:
			return
		}
	}
}

func vfGossipHistory(t *testing.T, rng *rand.Rand, nops int, style int) (lit string, rec map[string]any, nontrivial bool) {
	vfIDWidth = []int{0, 40}[rng.Intn(2)]
	defer func() { vfIDWidth = 0 }()
	if rng.Intn(2) == 0 {
		defer vfSetThresholds(rng)() // gossip / publish / graylist thresholds other than -2 / -3 / -5, equal ones included
	}
	synctest.Test(t, func(t *testing.T) {
		ctx, cancel := context.WithCancel(context.Background())
		defer cancel()
		P := vfRandParams(rng)
		for P.D == 0 {
			P = vfRandParams(rng)
		}
		G := vfGParams{R: P, HistLen: 3 + rng.Intn(3), Dlazy: 1 + rng.Intn(3), FactorDen: []int{2, 4}[rng.Intn(2)], MaxIHaveLen: 3 + rng.Intn(6),
			MaxIHaveMsgs: 2 + rng.Intn(3), Retrans: 1 + rng.Intn(3), MaxIDWMsgs: 2 + rng.Intn(2), MaxIDWLen: 3 + rng.Intn(4), IDWTTL: 2 + rng.Intn(2), IDWThr: 20, Flood: rng.Intn(3) == 0}
		G.HistGossip = 1 + rng.Intn(G.HistLen)
		np := 7 + rng.Intn(7)
		smallMax := vfIDWidth == 40 && rng.Intn(2) == 0
		gp := func(ps *PubSub) error {
			gs := ps.rt.(*GossipSubRouter)
			gs.params.HistoryLength, gs.params.HistoryGossip, gs.params.Dlazy = G.HistLen, G.HistGossip, G.Dlazy
			gs.params.GossipFactor = 1 / float64(G.FactorDen)
			gs.params.MaxIHaveLength, gs.params.MaxIHaveMessages, gs.params.GossipRetransmission = G.MaxIHaveLen, G.MaxIHaveMsgs, G.Retrans
			gs.params.MaxIDontWantMessages, gs.params.MaxIDontWantLength, gs.params.IDontWantMessageTTL, gs.params.IDontWantMessageThreshold = G.MaxIDWMsgs, G.MaxIDWLen, G.IDWTTL, G.IDWThr
			gs.params.IWantFollowupTime = 3 * time.Second
			gs.mcache = NewMessageCache(G.HistGossip, G.HistLen)
			gs.floodPublish = G.Flood
			if smallMax {
				// every single element still fits, but three messages or five long ids in one RPC do not: sendRPC has to split
				ps.maxMessageSize = 200
			}
			return nil
		}
		ev := &vfEvTracer{}
		teeFiles := style == 9
		var jsonFile, pbFile string
		if teeFiles {
			jsonFile = filepath.Join(t.TempDir(), "trace.json")
			pbFile = filepath.Join(t.TempDir(), "trace.pb")
			jt, err := NewJSONTracer(jsonFile)
			if err != nil {
				t.Fatal(err)
			}
			pt, err := NewPBTracer(pbFile)
			if err != nil {
				t.Fatal(err)
			}
			ev.tees = []EventTracer{jt, pt}
		}
		gopts := []Option{gp, WithSeenMessagesTTL(1000000 * time.Hour), WithMessageIdFn(vfMsgID), WithEventTracer(ev)}
		noAuthor := rng.Intn(3) == 0
		if noAuthor {
			gopts = append(gopts, WithNoAuthor()) // the node's own publications carry no author: they are still its own (flood publishing)
		}
		rn := vfNewRouterNode(t, ctx, P, np, gopts...)
		rn.gs.mcache.SetMsgIdFn(func(m *Message) string { return vfMsgID(m.Message) })
		n := &vfGNode{vfRNode: rn, G: G, topics: map[int]*Topic{}, subs: map[int]*Subscription{}, csum: map[checksum]int{}, nextMid: 100, orig: map[string][]string{}, ev: ev}
		if smallMax {
			n.maxRPC = 200
		}
		ntopics := 2
		if style == 3 {
			ntopics = 1
		}
		connected := map[int]protocol.ID{}
		joined := map[int]bool{}
		cached := []int{}         // ids we have published / forwarded
		advertised := map[int][]int{} // ids peers told us about
		var steps []string
		var recSteps []map[string]any
		nGossip, nFwd := 0, 0
		penBefore := n.penalties()
		emit := func(op string, sc string) {
			_, rpcs := n.drain()
			outs := n.outputs(rpcs)
			penAfter := n.penalties()
			for i := range n.pids {
				if _, ok := connected[i]; !ok {
					continue // penalties of departed peers land on retained statistics (or nowhere): C10's business
				}
				if d := penAfter[i] - penBefore[i]; d > 0 {
					outs = append(outs, fmt.Sprintf("OPenalty %d %d", i, d))
				}
			}
			penBefore = penAfter
			var nrpc []string
			for i := range n.pids {
				if len(rpcs[i]) > 0 {
					nrpc = append(nrpc, fmt.Sprintf("(%d, %d)", i, len(rpcs[i])))
				}
			}
			tl := n.traceLits(n.ev.take())
			steps = append(steps, fmt.Sprintf("{| gs_scores := %s; gs_op := %s;\n       gs_out := [%s];\n       gs_snap := %s;\n       gs_trace := [%s]; gs_nrpc := [%s] |}",
				sc, op, strings.Join(outs, "; "), n.gsnapshot(), strings.Join(tl, "; "), strings.Join(nrpc, "; ")))
			recSteps = append(recSteps, map[string]any{"op": op, "scores": sc, "out": outs, "trace": tl})
			for _, o := range outs {
				if strings.HasPrefix(o, "OIHave") {
					nGossip++
				}
				if strings.HasPrefix(o, "OMsg") {
					nFwd++
				}
			}
		}
		topicOf := func(tp int) *Topic {
			if tpc, ok := n.topics[tp]; ok {
				return tpc
			}
			tpc, err := n.ps.Join(vfTopic(tp))
			if err != nil {
				t.Fatal(err)
			}
			n.topics[tp] = tpc
			return tpc
		}
		fanoutOf := func(tp int) []int {
			var l []int
			vfEval(n.ps, func() {
				for p := range n.gs.fanout[vfTopic(tp)] {
					l = append(l, n.tr.idx(p))
				}
			})
			sort.Ints(l)
			return l
		}
		msgLit := func(id, tp, size int, from string, author string) string {
			if m := len(vfWireID(id)) + 1; size < m {
				size = m // mkData never produces less than the id and its separator
			}
			return fmt.Sprintf("{| m_id := %d; m_topic := %d; m_size := %d; m_from := %s; m_author := %s |}", id, tp, size, from, author)
		}
		var forcedOps []int
		scripted := false
		forcedTp, forcedAdv := -1, time.Duration(0)
		forcedPeer := -1 // the peer every scripted operation is about (-1: random)
		pickP := func() int {
			if forcedPeer >= 0 && scripted {
				return forcedPeer
			}
			return rng.Intn(np)
		}
		for i := 0; i < nops; i++ {
			if rng.Intn(4) == 0 && len(forcedOps) == 0 {
				for k := 0; k < 1+rng.Intn(3); k++ {
					n.scores[rng.Intn(np)] = []int{vfGraylistThr - 1, vfGraylistThr, vfPublishThr - 1, vfPublishThr, vfGossipThr - 1, vfGossipThr, -1, 0, 0, 0, 1, 2, 3}[rng.Intn(13)]
				}
			}
			sc := n.scoreLit()
			if style == 2 && i%15 == 9 {
				// a burst of GRAFTs from every connected peer for a joined topic: fills the mesh up to Dhi, the rest is refused
				for tp := 0; tp < ntopics; tp++ {
					if !joined[tp] {
						continue
					}
					s := vfTopic(tp)
					for p := 0; p < np; p++ {
						if _, ok := connected[p]; !ok {
							continue
						}
						n.recv(p, &pb.RPC{Control: &pb.ControlMessage{Graft: []*pb.ControlGraft{{TopicID: &s}}}})
						n.tr.take()
						emit(fmt.Sprintf("GCore (ORecvGraft %d [%d])", p, tp), sc)
					}
					break
				}
			}
			r := rng.Intn(100)
			// style 3: half way through, a message is published, every peer leaves, more quiet heartbeats than the gossip window
			// pass, D+2 peers arrive and a heartbeat follows: nothing that old may be advertised any more
			if style == 3 && i == nops/2 {
				if !joined[0] {
					forcedOps = append(forcedOps, 22)
				}
				forcedOps = append(forcedOps, 40, 1000)
				for k := 0; k < G.HistGossip+1; k++ {
					forcedOps = append(forcedOps, 90)
				}
				for k := 0; k < P.D+2; k++ {
					forcedOps = append(forcedOps, 0)
				}
				forcedOps = append(forcedOps, 90)
			}
			// style 5: right at the start (nothing is joined yet), the node publishes to a topic it has not joined again and again,
			// more than half a fanout TTL apart, with heartbeats in between: the fanout lives on as long as it is published to
			if style == 5 && i == 0 {
				forcedTp, forcedAdv = 0, P.FanoutTTL*6/10
				forcedOps = append(forcedOps, 0, 0, 0, 0, 40, 95, 90, 40, 95, 90, 40, 95, 90, 40)
			}
			// style 4: half way through, one peer spends its IHAVE and IDONTWANT allowances of this heartbeat, leaves, comes back
			// and goes on advertising before any heartbeat has passed: the allowances belong to the heartbeat, not to the stream
			if style == 4 && i == nops/2 {
				forcedPeer = rng.Intn(np)
				if _, ok := connected[forcedPeer]; !ok {
					forcedOps = append(forcedOps, 0)
				}
				for k := 0; k < G.MaxIHaveMsgs+1; k++ {
					forcedOps = append(forcedOps, 60)
				}
				for k := 0; k < G.MaxIDWMsgs+1; k++ {
					forcedOps = append(forcedOps, 80)
				}
				forcedOps = append(forcedOps, 15, 0, 60, 60, 80, 80)
			}
			isForced := len(forcedOps) > 0
			scripted = isForced
			if isForced {
				r = forcedOps[0]
				forcedOps = forcedOps[1:]
				nops++ // the scripted operations come on top
			}
			if r == 1000 {
				var ps []int
				for p := range connected {
					ps = append(ps, p)
				}
				sort.Ints(ps)
				for _, p := range ps {
					n.removePeer(p)
					delete(connected, p)
					emit(fmt.Sprintf("GCore (ODisconnect %d)", p), sc)
				}
				continue
			}
			switch {
			case r < 14 || (!isForced && len(connected) < 4):
				p := pickP()
				if _, ok := connected[p]; ok {
					continue
				}
				proto := vfProtos[[]int{0, 1, 2, 3, 3, 3}[rng.Intn(6)]]
				outb := rng.Intn(3) == 0
				n.addPeer(p, proto, outb)
				connected[p] = proto
				emit(fmt.Sprintf("GAddPeer %d {| pi_mesh := %v; pi_px := %v; pi_out := %v |} %v", p, proto != FloodSubID, proto == GossipSubID_v11 || proto == GossipSubID_v12, outb, proto == GossipSubID_v12), sc)
				for tp := 0; tp < ntopics; tp++ {
					if rng.Intn(4) != 0 {
						s := true
						ts := vfTopic(tp)
						n.recv(p, &pb.RPC{Subscriptions: []*pb.RPC_SubOpts{{Subscribe: &s, Topicid: &ts}}})
						emit(fmt.Sprintf("GCore (OSub %d %d)", p, tp), sc)
					}
				}
			case r < 17:
				p := pickP()
				if _, ok := connected[p]; !ok {
					continue
				}
				n.removePeer(p)
				delete(connected, p)
				emit(fmt.Sprintf("GCore (ODisconnect %d)", p), sc)
			case r < 21:
				p, tp := rng.Intn(np), rng.Intn(ntopics)
				if _, ok := connected[p]; !ok {
					continue
				}
				s := rng.Intn(2) == 0
				ts := vfTopic(tp)
				n.recv(p, &pb.RPC{Subscriptions: []*pb.RPC_SubOpts{{Subscribe: &s, Topicid: &ts}}})
				if s {
					emit(fmt.Sprintf("GCore (OSub %d %d)", p, tp), sc)
				} else {
					emit(fmt.Sprintf("GCore (OUnsub %d %d)", p, tp), sc)
				}
			case r < 27: // subscribe (Join) / cancel (Leave) through the API
				tp := rng.Intn(ntopics)
				if !joined[tp] {
					fanBefore := map[int]bool{}
					for _, p := range fanoutOf(tp) {
						fanBefore[p] = true
					}
					sub, err := topicOf(tp).Subscribe()
					if err != nil {
						t.Fatal(err)
					}
					synctest.Wait()
					vfEval(n.ps, func() {})
					n.subs[tp] = sub
					joined[tp] = true
					var chosen []string
					for _, e := range n.tr.take() {
						var p int
						var tt string
						if k, _ := fmt.Sscanf(e, "G %d %s", &p, &tt); k == 2 && !fanBefore[p] {
							chosen = append(chosen, fmt.Sprint(p))
						}
					}
					emit(fmt.Sprintf("GCore (OJoin %d [%s])", tp, strings.Join(chosen, "; ")), sc)
				} else if rng.Intn(2) == 0 {
					n.subs[tp].Cancel()
					synctest.Wait()
					vfEval(n.ps, func() {})
					delete(n.subs, tp)
					joined[tp] = false
					n.tr.take()
					emit(fmt.Sprintf("GCore (OLeave %d)", tp), sc)
				}
			case r < 31: // direct peers
				p := rng.Intn(np)
				add := rng.Intn(2) == 0
				vfEval(n.ps, func() {
					if add {
						if n.gs.direct == nil {
							n.gs.direct = make(map[peer.ID]struct{})
						}
						n.gs.direct[n.pids[p]] = struct{}{}
					} else {
						delete(n.gs.direct, n.pids[p])
					}
				})
				if add {
					emit(fmt.Sprintf("GCore (OAddDirect %d)", p), sc)
				} else {
					emit(fmt.Sprintf("GCore (ORemoveDirect %d)", p), sc)
				}
			case r < 37: // remote GRAFT / PRUNE
				p := rng.Intn(np)
				if _, ok := connected[p]; !ok {
					continue
				}
				tp := rng.Intn(ntopics)
				s := vfTopic(tp)
				if rng.Intn(3) != 0 {
					n.recv(p, &pb.RPC{Control: &pb.ControlMessage{Graft: []*pb.ControlGraft{{TopicID: &s}}}})
					n.tr.take()
					emit(fmt.Sprintf("GCore (ORecvGraft %d [%d])", p, tp), sc)
				} else {
					n.recv(p, &pb.RPC{Control: &pb.ControlMessage{Prune: []*pb.ControlPrune{{TopicID: &s}}}})
					n.tr.take()
					emit(fmt.Sprintf("GCore (ORecvPrune %d [(%d, None)])", p, tp), sc)
				}
			case r < 47: // local publish
				tp := rng.Intn(ntopics)
				if scripted && forcedTp >= 0 {
					tp = forcedTp
				}
				id := n.nextMid
				n.nextMid++
				size := 5 + rng.Intn(50)
				before := fanoutOf(tp)
				local := rng.Intn(8) == 0
				if local {
					if err := topicOf(tp).Publish(ctx, n.mkData(id, size), WithLocalPublication(true)); err != nil {
						t.Fatal(err)
					}
					synctest.Wait()
					vfEval(n.ps, func() {})
					if sub, ok := n.subs[tp]; ok {
						vfDrainSub(sub)
					}
					emit(fmt.Sprintf("GPublishLocal %s", msgLit(id, tp, size, "None", "None")), sc)
					continue
				}
				if err := topicOf(tp).Publish(ctx, n.mkData(id, size)); err != nil {
					t.Fatal(err)
				}
				synctest.Wait()
				vfEval(n.ps, func() {
					// the message as the node accepted it (what it keeps for IWANT) is the reference for its copies
					if m, ok := n.gs.mcache.msgs[vfWireID(id)]; ok {
						b, _ := m.Message.Marshal()
						n.orig[vfWireID(id)] = append(n.orig[vfWireID(id)], string(b))
					}
				})
				chosen := []int{}
				if !joined[tp] && len(before) == 0 {
					chosen = fanoutOf(tp)
				}
				cached = append(cached, id)
				// drain our own subscription
				if sub, ok := n.subs[tp]; ok {
					vfDrainSub(sub)
				}
				emit(fmt.Sprintf("GPublish %s %s", msgLit(id, tp, size, "None", "None"), vfNats(chosen)), sc)
			case r < 60: // messages from a peer
				p := rng.Intn(np)
				if _, ok := connected[p]; !ok {
					continue
				}
				k := 1
				if rng.Intn(4) == 0 {
					k = 2
				}
				var msgs []*pb.Message
				var lits []string
				for j := 0; j < k; j++ {
					tp := rng.Intn(ntopics)
					id := n.nextMid
					n.nextMid++
					if rng.Intn(8) == 0 && len(cached) > 0 {
						id = cached[rng.Intn(len(cached))] // a duplicate
					}
					size := 5 + rng.Intn(50)
					ts := vfTopic(tp)
					m := &pb.Message{Data: n.mkData(id, size), Topic: &ts}
					author := "None"
					if rng.Intn(3) == 0 && !noAuthor { // (an anonymous node rejects messages that name an author)
						a := rng.Intn(np)
						m.From = []byte(n.pids[a])
						author = fmt.Sprintf("(Some %d)", a)
					}
					msgs = append(msgs, m)
					lits = append(lits, msgLit(id, tp, size, fmt.Sprintf("(Some %d)", p), author))
					cached = append(cached, id)
				}
				for _, m := range msgs {
					// (the generator may reuse an id for a different body: any body injected under this id is admissible)
					b, _ := m.Marshal()
					n.orig[vfMsgID(m)] = append(n.orig[vfMsgID(m)], string(b))
				}
				n.recv(p, &pb.RPC{Publish: msgs})
				synctest.Wait()
				vfEval(n.ps, func() {})
				for _, sub := range n.subs {
					vfDrainSub(sub)
				}
				emit(fmt.Sprintf("GRecvMsgs %d [%s] []", p, strings.Join(lits, "; ")), sc)
			case r < 68: // IHAVE
				p := pickP()
				if _, ok := connected[p]; !ok {
					continue
				}
				var ihs []*pb.ControlIHave
				var lits []string
				for j := 0; j < 1+rng.Intn(2); j++ {
					tp := rng.Intn(ntopics)
					ts := vfTopic(tp)
					var ids []string
					var idl []string
					for q := 0; q < 1+rng.Intn(G.MaxIHaveLen+2); q++ {
						id := n.nextMid
						n.nextMid++
						if rng.Intn(4) == 0 && len(cached) > 0 {
							id = cached[rng.Intn(len(cached))] // something we have already seen
						}
						n.csum[computeChecksum(vfWireID(id))] = id
						ids = append(ids, vfWireID(id))
						idl = append(idl, vfWireID(id))
						advertised[p] = append(advertised[p], id)
					}
					ihs = append(ihs, &pb.ControlIHave{TopicID: &ts, MessageIDs: ids})
					lits = append(lits, fmt.Sprintf("(%d, [%s])", tp, strings.Join(idl, "; ")))
				}
				var promBefore map[string]bool
				vfEval(n.ps, func() {
					promBefore = map[string]bool{}
					for mid, m := range n.gs.gossipTracer.promises {
						if _, ok := m[n.pids[p]]; ok {
							promBefore[mid] = true
						}
					}
				})
				n.recv(p, &pb.RPC{Control: &pb.ControlMessage{Ihave: ihs}})
				_, rpcs := n.drain()
				var asked []string
				for _, rr := range rpcs[p] {
					if rr.Control != nil {
						for _, w := range rr.Control.Iwant {
							asked = append(asked, w.MessageIDs...)
						}
					}
				}
				promised := "None"
				vfEval(n.ps, func() {
					for mid, m := range n.gs.gossipTracer.promises {
						if _, ok := m[n.pids[p]]; ok && !promBefore[mid] {
							promised = "(Some " + mid + ")"
						}
					}
					// if the sampled id was already promised by this peer nothing new appears: any asked id is admissible
					if promised == "None" && len(asked) > 0 {
						for _, a := range asked {
							if promBefore[a] {
								promised = "(Some " + a + ")"
							}
						}
					}
				})
				// put the drained RPCs back for emit: re-queue
				vfEval(n.ps, func() {
					for i, rs := range rpcs {
						for _, rr := range rs {
							n.ps.peers[n.pids[i]].Push(rr, false)
						}
					}
				})
				emit(fmt.Sprintf("GRecvIHave %d [%s] %s %s", p, strings.Join(lits, "; "), vfIDs(asked), promised), sc)
			case r < 76: // IWANT
				p := rng.Intn(np)
				if _, ok := connected[p]; !ok || len(cached) == 0 {
					continue
				}
				var ids []string
				for q := 0; q < 1+rng.Intn(3); q++ {
					id := cached[rng.Intn(len(cached))]
					if rng.Intn(6) == 0 {
						id = 4000 + rng.Intn(5) // unknown
					}
					ids = append(ids, vfWireID(id))
				}
				n.recv(p, &pb.RPC{Control: &pb.ControlMessage{Iwant: []*pb.ControlIWant{{MessageIDs: ids}}}})
				emit(fmt.Sprintf("GRecvIWant %d [%s]", p, strings.Join(ids, "; ")), sc)
			case r < 82: // IDONTWANT
				p := pickP()
				if _, ok := connected[p]; !ok {
					continue
				}
				var idws []*pb.ControlIDontWant
				var lits []string
				for j := 0; j < 1+rng.Intn(2); j++ {
					var ids []string
					for q := 0; q < 1+rng.Intn(G.MaxIDWLen); q++ {
						id := n.nextMid + rng.Intn(3) // often an id that will be published next
						if rng.Intn(2) == 0 && len(cached) > 0 {
							id = cached[rng.Intn(len(cached))]
						}
						n.csum[computeChecksum(vfWireID(id))] = id
						ids = append(ids, vfWireID(id))
					}
					idws = append(idws, &pb.ControlIDontWant{MessageIDs: ids})
					lits = append(lits, "["+strings.Join(ids, "; ")+"]")
				}
				n.recv(p, &pb.RPC{Control: &pb.ControlMessage{Idontwant: idws}})
				emit(fmt.Sprintf("GRecvIDontWant %d [%s]", p, strings.Join(lits, "; ")), sc)
			case r < 94: // heartbeat
				var fanBefore map[string]map[peer.ID]struct{}
				vfEval(n.ps, func() {
					fanBefore = map[string]map[peer.ID]struct{}{}
					for tpc, m := range n.gs.fanout {
						c := map[peer.ID]struct{}{}
						for p := range m {
							c[p] = struct{}{}
						}
						fanBefore[tpc] = c
					}
					n.gs.heartbeat()
				})
				byTopic := map[string][]string{}
				var order []string
				for _, e := range n.tr.take() {
					var k string
					var p int
					var tt string
					if c, _ := fmt.Sscanf(e, "%s %d %s", &k, &p, &tt); c == 3 {
						if _, ok := byTopic[tt]; !ok {
							order = append(order, tt)
						}
						if k == "G" {
							byTopic[tt] = append(byTopic[tt], fmt.Sprintf("HGraft %d", p))
						} else {
							byTopic[tt] = append(byTopic[tt], fmt.Sprintf("HPrune %d", p))
						}
					}
				}
				var obs []string
				for _, tt := range order {
					obs = append(obs, fmt.Sprintf("(%s, [%s])", tt[1:], strings.Join(byTopic[tt], "; ")))
				}
				var fobs []string
				vfEval(n.ps, func() {
					for tpc, m := range n.gs.fanout {
						var added []int
						for p := range m {
							if _, ok := fanBefore[tpc][p]; !ok {
								added = append(added, n.tr.idx(p))
							}
						}
						sort.Ints(added)
						if len(added) > 0 {
							fobs = append(fobs, fmt.Sprintf("(%s, %s)", tpc[1:], vfNats(added)))
						}
					}
				})
				sort.Strings(fobs)
				// gossip observation from the drained RPCs
				_, rpcs := n.drain()
				gob := map[string][]string{}
				for i, rs := range rpcs {
					for _, rr := range n.vfUnsplit(rs) {
						if rr.Control == nil {
							continue
						}
						for _, h := range rr.Control.Ihave {
							tt := h.GetTopicID()[1:]
							gob[tt] = append(gob[tt], fmt.Sprintf("(%d, %s)", i, vfIDs(h.MessageIDs)))
						}
					}
				}
				var gobs []string
				for tt, l := range gob {
					sort.Strings(l)
					gobs = append(gobs, fmt.Sprintf("(%s, [%s])", tt, strings.Join(l, "; ")))
				}
				sort.Strings(gobs)
				vfEval(n.ps, func() {
					for i, rs := range rpcs {
						for _, rr := range rs {
							n.ps.peers[n.pids[i]].Push(rr, false)
						}
					}
				})
				emit(fmt.Sprintf("GHeartbeat [%s] [%s] [%s]", strings.Join(obs, "; "), strings.Join(fobs, "; "), strings.Join(gobs, "; ")), sc)
			default:
				d := time.Duration(1+rng.Intn(4)) * time.Second
				if scripted && forcedAdv > 0 {
					d = forcedAdv
				}
				time.Sleep(d)
				emit(fmt.Sprintf("GCore (OAdvance (%d)%%Z)", d.Nanoseconds()), sc)
			}
		}
		lit = fmt.Sprintf("{| gc_params := %s;\n   gc_steps := [\n    %s] |}", vfGParamsLit(G), strings.Join(steps, ";\n    "))
		rec = map[string]any{"params": fmt.Sprintf("%+v", G), "peers": np, "steps": recSteps}
		if n.viol != nil {
			rec["copy_violation"] = n.viol
		}
		nontrivial = nGossip > 0 && nFwd > 0
		for _, s := range n.subs {
			s.Cancel()
		}
		cancel()
		synctest.Wait()
		if teeFiles {
			// the file tracers must have written exactly the events the in-memory tracer saw, in order
			for _, x := range ev.tees {
				switch tr := x.(type) {
				case *JSONTracer:
					tr.Close()
				case *PBTracer:
					tr.Close()
				}
			}
			synctest.Wait()
			ev.mx.Lock()
			want := ev.all
			ev.mx.Unlock()
			var gotJ, gotP []*pb.TraceEvent
			if f, err := os.Open(jsonFile); err == nil {
				dec := json.NewDecoder(bufio.NewReader(f))
				for {
					var e pb.TraceEvent
					if err := dec.Decode(&e); err != nil {
						break
					}
					gotJ = append(gotJ, &e)
				}
				f.Close()
			}
			if f, err := os.Open(pbFile); err == nil {
				r := protoio.NewDelimitedReader(f, 1<<20)
				for {
					var e pb.TraceEvent
					if err := r.ReadMsg(&e); err != nil {
						if err != io.EOF {
							gotP = append(gotP, nil)
						}
						break
					}
					gotP = append(gotP, &e)
				}
				f.Close()
			}
			same := func(got []*pb.TraceEvent) string {
				if len(got) != len(want) {
					return fmt.Sprintf("%d events in the file, %d traced", len(got), len(want))
				}
				for i := range want {
					a, _ := want[i].Marshal()
					var b []byte
					if got[i] != nil {
						b, _ = got[i].Marshal()
					}
					if string(a) != string(b) {
						return fmt.Sprintf("event %d differs (%v)", i, want[i].GetType())
					}
				}
				return ""
			}
			if d := same(gotJ); d != "" && n.viol == nil {
				rec["trace_file_violation"] = map[string]any{"property": "C19", "code": 199, "key": "json-trace-differs", "what": "JSON trace file differs from the events traced: " + d}
			}
			if d := same(gotP); d != "" && rec["trace_file_violation"] == nil {
				rec["trace_file_violation"] = map[string]any{"property": "C19", "code": 199, "key": "pb-trace-differs", "what": "protobuf trace file differs from the events traced: " + d}
			}
			rec["trace_files_compared"] = len(want)
		}
	})
	return
}

func TestVF_Gossip(t *testing.T) {
	cs := vfNewCases(t, "gossip", "From PS Require Import Model.Router Model.Gossip Model.Trace Run.GossipRun.", "gcase", "check_gcase")
	cs.shard = 25
	rng := vfRng(17)
	ncases := vfN(150, 2000)
	wroteViol := false
	wroteTraceViol := false
	nFiles, nFileEvents := 0, 0
	for c := 0; c < ncases; c++ {
		style := 0
		if c%10 == 4 {
			style = 9 // tee the trace into a JSON and a protobuf file tracer and compare at the end
		}
		if c%5 == 1 {
			style = 2 // GRAFT bursts (mesh filled up to Dhi, further GRAFTs refused)
		}
		if c%10 == 7 {
			style = 3 // every peer leaves, quiet heartbeats, new peers
		}
		if c%10 == 5 {
			style = 5 // repeated publications to a topic that is not joined, across more than the fanout TTL
		}
		if c%10 == 3 {
			style = 4 // a peer spends its per-heartbeat allowances, reconnects and goes on inside the same heartbeat
		}
		lit, rec, nt := vfGossipHistory(t, rng, 40+rng.Intn(60), style)
		cs.add(lit, rec, nt)
		if n, ok := rec["trace_files_compared"]; ok {
			nFiles++
			nFileEvents += n.(int)
		}
		if v, ok := rec["trace_file_violation"]; ok && !wroteTraceViol {
			wroteTraceViol = true
			js, _ := json.MarshalIndent(v, "", " ")
			os.WriteFile(filepath.Join(vfOutDir(t), "violation_gossip_tracefile.json"), js, 0o644)
		}
		if v, ok := rec["copy_violation"]; ok && !wroteViol {
			wroteViol = true
			vm := map[string]any{}
			for k, x := range v.(map[string]any) {
				vm[k] = x
			}
			delete(rec, "copy_violation")
			vm["case"] = rec
			js, _ := json.MarshalIndent(vm, "", " ")
			os.WriteFile(filepath.Join(vfOutDir(t), "violation_gossip_copy.json"), js, 0o644)
		}
	}
	// the only-if direction of the promise penalty under slow validation (the gossip histories have no validators)
	if v := vfSlowValidationPromise(t); v != nil {
		js, _ := json.MarshalIndent(v, "", " ")
		os.WriteFile(filepath.Join(vfOutDir(t), "violation_gossip_promise.json"), js, 0o644)
	}
	cs.extra["slow_validation_promise_scenarios"] = 2
	cs.extra["copies_compared_bytewise"] = true
	cs.extra["histories_with_json_and_pb_trace_files_compared"] = nFiles
	cs.extra["trace_file_events_compared"] = nFileEvents
	cs.flush("random gossip-level router histories on a real gossipsub node with a parked heartbeat: the router alphabet (peers of every protocol version, subscriptions, Subscribe/Cancel through the API, direct peers, remote GRAFT/PRUNE, virtual time) plus local publishes to joined and non-joined topics (fanout), messages from peers with and without an author, duplicates, IHAVE (seen and unseen ids, over-long lists), IWANT (repeated, unknown ids), IDONTWANT, heartbeats (also while the node has no peer at all); integer scores crossing the graylist / publish / gossip thresholds and zero; with and without flood publishing; after EVERY operation every RPC queued for every fake peer, the penalty deltas and a snapshot of mesh / fanout / backoff / unwanted / message-cache contents are compared with the model. " +
		"non-trivial = at least one IHAVE emitted and one message copy sent; distinct = hash of the history")
}

// vfSlowValidationPromise: a peer advertises an id, the node asks for it, the peer sends the message at once, and an asynchronous
// validator holds it for twice the follow-up time while heartbeats run: the message DID arrive within the follow-up time, so no
// broken-promise penalty may be charged (once with the holding validator, once without as a control that the request was made).
func vfSlowValidationPromise(t *testing.T) (viol map[string]any) {
	for _, hold := range []bool{true, false} {
		synctest.Test(t, func(t *testing.T) {
			ctx, cancel := context.WithCancel(context.Background())
			defer cancel()
			P := vfRParams{D: 3, Dlo: 2, Dhi: 4, Dscore: 1, Dout: 0, OGTicks: 60, OGPeers: 1, PruneBackoff: 30 * time.Second, UnsubBackoff: 10 * time.Second, GraftFlood: 5 * time.Second, FanoutTTL: 30 * time.Second}
			rn := vfNewRouterNode(t, ctx, P, 2, WithMessageIdFn(vfMsgID), func(ps *PubSub) error {
				ps.rt.(*GossipSubRouter).params.IWantFollowupTime = 3 * time.Second
				return nil
			})
			gate := make(chan struct{})
			if err := rn.ps.RegisterTopicValidator(vfTopic(0), func(ctx context.Context, _ peer.ID, _ *Message) ValidationResult {
				if hold {
					select {
					case <-gate:
					case <-ctx.Done():
					}
				}
				return ValidationAccept
			}, WithValidatorTimeout(time.Hour)); err != nil {
				t.Fatal(err)
			}
			tp, err := rn.ps.Join(vfTopic(0))
			if err != nil {
				t.Fatal(err)
			}
			sub, err := tp.Subscribe()
			if err != nil {
				t.Fatal(err)
			}
			rn.addPeer(0, GossipSubID_v11, false)
			ts := vfTopic(0)
			sv := true
			rn.recv(0, &pb.RPC{Subscriptions: []*pb.RPC_SubOpts{{Subscribe: &sv, Topicid: &ts}}})
			id := "7001"
			rn.recv(0, &pb.RPC{Control: &pb.ControlMessage{Ihave: []*pb.ControlIHave{{TopicID: &ts, MessageIDs: []string{id}}}}})
			_, rpcs := rn.drain()
			asked := false
			for _, r := range rpcs[0] {
				if r.Control != nil {
					for _, w := range r.Control.Iwant {
						for _, x := range w.MessageIDs {
							if x == id {
								asked = true
							}
						}
					}
				}
			}
			// the message arrives 30 ms after the request
			time.Sleep(30 * time.Millisecond)
			rn.recv(0, &pb.RPC{Publish: []*pb.Message{{Data: []byte(id + ":late-validation"), Topic: &ts}}})
			synctest.Wait()
			for k := 0; k < 6; k++ {
				time.Sleep(time.Second)
				vfEval(rn.ps, func() { rn.gs.heartbeat() })
			}
			close(gate)
			synctest.Wait()
			vfEval(rn.ps, func() { rn.gs.heartbeat() })
			pen := 0.0
			vfEval(rn.ps, func() {
				if st, ok := rn.gs.score.peerStats[rn.pids[0]]; ok {
					pen = st.behaviourPenalty
				}
			})
			if viol == nil && asked && pen > 0 {
				viol = map[string]any{"property": "C17", "code": 1701, "key": "promise-penalty-although-message-arrived",
					"what": fmt.Sprintf("the peer answered the IWANT 30 ms after it was sent (follow-up time 3 s); the message was %s; after 6 heartbeats the peer carries a behaviour penalty of %v for a broken promise", map[bool]string{true: "held by an asynchronous validator for 6 s", false: "validated at once"}[hold], pen)}
			}
			if viol == nil && !asked {
				t.Log("the node did not request the advertised id (scenario is vacuous)")
			}
			sub.Cancel()
			cancel()
			synctest.Wait()
		})
	}
	return
}
